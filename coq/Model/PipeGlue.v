(* Pipeline-level exchange glue: decoding of the traces produced by harness/pipedrv, replay of the
   stream labels through Model/Stream.v and of the batcher labels through Model/Batcher.v, and the
   raw-trace monitors of the pipeline-level properties (C01, C02, C04, C05, C10, C13, C15).
   A trace entry is (objkind objidx kind a b c d): objkind 1 batcher (idx 0 main, 1 dead queue),
   2 stream, 3 processor, 4 pipeline; stream addresses inside a..d are already stream indices. *)
From Verif Require Import Base.Sx Model.Batcher Model.BatcherGlue Model.Stream Model.Proc Model.StreamFlow Model.Charged Model.Pipe Model.StreamOffsets.

Record pentry := { pok : Z; poi : Z; pk : Z; pa : Z; pb : Z; pc : Z; pd : Z }.

Definition pentry_of_sx (s : sx) : option pentry :=
  match s with
  | SL [SZ ok; SZ oi; SZ k; SZ a; SZ b; SZ c; SZ d] =>
      Some {| pok := ok; poi := oi; pk := k; pa := a; pb := b; pc := c; pd := d |}
  | _ => None
  end.

(* ---- configuration: (procs pool capacity eventTimeoutMs nActions outKind workers batchCount flushMs retry deadq spread) *)
(* options of the case's 4th element (harness/pipedrv xopts): early = Pipeline.Stop is called with events in flight (no
   quiescence awaited: labels 116 / 120 instead of 115 / 110); filec = InputPlugin.Commit goes to the real file-input
   jobProvider.commit (labels 118 / 119); bbytes = BatchSizeBytes of the batchers *)
Record pcfg := { p_procs : Z; p_capacity : Z; p_actions : Z; p_outkind : Z; p_workers : Z; p_count : Z;
                 p_retry : Z; p_deadq : bool; p_spread : bool; p_early : bool; p_filec : bool; p_bbytes : Z;
                 p_real : Z }.      (* option 12: one action is a REAL plugin: 1 join | 2 join_template | 3 k8s multiline action *)
Definition pcfg_of_sx (s : sx) : option pcfg :=
  match s with
  | SL [SZ procs; SZ _; SZ cap; SZ _; SZ na; SZ ok; SZ w; SZ cnt; SZ _; SZ retry; SZ dq; SZ spread] =>
      Some {| p_procs := procs; p_capacity := cap; p_actions := na; p_outkind := ok; p_workers := w; p_count := cnt;
              p_retry := retry; p_deadq := negb (dq =? 0); p_spread := negb (spread =? 0);
              p_early := false; p_filec := false; p_bbytes := 0; p_real := 0 |}
  | SL [SZ procs; SZ _; SZ cap; SZ _; SZ na; SZ ok; SZ w; SZ cnt; SZ _; SZ retry; SZ dq; SZ spread; SZ _] =>
      Some {| p_procs := procs; p_capacity := cap; p_actions := na; p_outkind := ok; p_workers := w; p_count := cnt;
              p_retry := retry; p_deadq := negb (dq =? 0); p_spread := negb (spread =? 0);
              p_early := false; p_filec := false; p_bbytes := 0; p_real := 0 |}
  | _ => None
  end.

(* ((key value) ...) = 6th item of the case's 4th element; absent: every option 0 *)
Fixpoint xopt_find (k : Z) (l : list sx) : Z :=
  match l with
  | [] => 0
  | SL [SZ k'; SZ v] :: r => if k' =? k then v else xopt_find k r
  | _ :: r => xopt_find k r
  end.
Definition xopt (case : sx) (k : Z) : Z :=
  match case with
  | SL [_; _; _; SL [_; _; _; _; _; SL opts]] => xopt_find k opts
  | _ => 0
  end.
Definition with_xopts (case : sx) (c : pcfg) : pcfg :=
  {| p_procs := p_procs c; p_capacity := p_capacity c; p_actions := p_actions c; p_outkind := p_outkind c; p_workers := p_workers c;
     p_count := p_count c; p_retry := p_retry c; p_deadq := p_deadq c; p_spread := p_spread c;
     p_early := 0 <? xopt case 9; p_filec := (xopt case 8 =? 1) && negb (p_spread c); p_bbytes := xopt case 10;
     p_real := xopt case 12 |}.

(* ---- replay through the component LTSs ------------------------------------------------------- *)
Definition slabel_of (e : pentry) : option slabel :=
  if pok e =? 2 then
    let s := poi e in
    match pk e with
    | 20 => Some (SPut s (pa e) (pd e))
    | 21 => Some (SGet s (pa e) (pb e))
    | 22 => Some (SLeave s)
    | 23 => Some (SDetach s (negb (pa e =? 0)))
    | 24 => Some (SAttach s)
    | 25 => Some (SCommit s (pa e))
    | 26 => Some (SBlock s)
    | 27 => Some (STimeout s (pa e))
    | 28 => Some (SCharge s)
    | 29 => Some (SPop s)
    | _ => None
    end
  else None.

Fixpoint run_stream (t : sst) (es : list pentry) (n : Z) : Z * sst * bool :=
  match es with
  | [] => (n, t, true)
  | e :: r =>
      match slabel_of e with
      | Some l => match sstep t l with
                  | Some t' => run_stream t' r (n + 1)
                  | None => (n, t, false)
                  end
      | None => run_stream t r (n + 1)
      end
  end.

(* batcher entries of the pipeline trace in the format of BatcherGlue *)
Definition bentry_of (e : pentry) : option entry :=
  if pok e =? 1 then
    let args := match pk e with
                | 102 => [pa e]                       (* OutSaw: pipedrv records (seq, count) — only seq is kept, ids unknown *)
                | _ => [pa e; pb e; pc e; pd e]
                end in
    Some {| ebidx := poi e; ekind_raw := pk e; eargs := args;
            elabel := if pk e =? 102 then None else label_of (pk e) args |}
  else None.
Definition bentries (es : list pentry) : list entry :=
  flat_map (fun e => match bentry_of e with Some b => [b] | None => [] end) es.

Definition batcher_cfgs (c : pcfg) (atomic : bool) : cfg * cfg :=
  ({| workers := p_workers c; maxCount := p_count c; maxBytes := p_bbytes c; retriable := p_outkind c =? 2; retry := p_retry c;
      deadq := p_deadq c; atomic_push := atomic |},
   {| workers := 1; maxCount := p_count c; maxBytes := p_bbytes c; retriable := false; retry := 0; deadq := false; atomic_push := atomic |}).

(* ---- processors: every processor's labels are replayed through Model/Proc.v ------------------- *)
(* per processor: (index, current stream, state) *)
Record procst := { pr_stream : Z; pr_st : pst }.
Fixpoint get_proc (l : list (Z * procst)) (i : Z) : option procst :=
  match l with [] => None | (k, v) :: r => if k =? i then Some v else get_proc r i end.
Fixpoint set_proc (l : list (Z * procst)) (i : Z) (v : procst) : list (Z * procst) :=
  match l with [] => [(i, v)] | (k, w) :: r => if k =? i then (k, v) :: r else (k, w) :: set_proc r i v end.

Definition proc_step (n : Z) (ps : list (Z * procst)) (e : pentry) : option (list (Z * procst)) :=
  if negb (pok e =? 3) then Some ps else
  let p := poi e in
  let cur := match get_proc ps p with Some v => v | None => {| pr_stream := -2; pr_st := pinit n |} end in
  let st := pr_st cur in
  let upd s' strm := Some (set_proc ps p {| pr_stream := strm; pr_st := s' |}) in
  match pk e with
  | 30 => (* ProcDo: a = stream, b = seq, c = action index, d = kind + 8*busy *)
      let kind := pd e mod 8 in
      let busy := 8 <=? pd e in
      let ev := {| pseq := (if kind =? 1 then 0 else pb e); pkind := kind |} in
      let strm := if kind =? 1 then pr_stream cur else pa e in
      (* an event entering the chain: taken from the stream (empty stack) or pushed by Spawn (inside a Do) *)
      let st1 :=
        match stack st with
        | [] =>
            (* a new stream: nothing may be held over from the previous one *)
            let st0 := if pr_stream cur =? strm then st
                       else {| nact := nact st; stack := []; held := held st; lasttaken := 0; outs := outs st;
                               dropped := dropped st; pcrashed := pcrashed st |} in
            if negb (pr_stream cur =? strm) && match held st with [] => false | _ :: _ => true end then None
            else if (kind =? 3) || (pc e =? 0) then pstep st0 (PTake ev (pc e))
            else match pstep st0 (PTake ev 0) with Some s1 => pstep s1 (PSkipTo ev (pc e)) | None => None end
        | f :: _ =>
            match fph f with
            | InDo => pstep st (PPush ev (pc e))
            | BeforeDo => if fidx f <? pc e then pstep st (PSkipTo ev (pc e)) else Some st
            | MustOut => Some st
            end
        end in
      match st1 with
      | Some s1 => match pstep s1 (PDo ev (pc e) busy) with Some s2 => upd s2 strm | None => None end
      | None => None
      end
  | 31 => (* ProcResult: d = result *)
      match pres_of_Z (pd e), stack st with
      | Some r, f :: _ => match pstep st (PResult (fev f) (pc e) r) with
                          | Some s' => if (pseq (fev f) =? pb e) || (pkind (fev f) =? 1) then upd s' (pr_stream cur) else None
                          | None => None
                          end
      | _, _ => None
      end
  | 32 => (* ProcOut: c = kind *)
      let ev := {| pseq := (if pc e =? 1 then 0 else pb e); pkind := pc e |} in
      (* with no actions at all the event taken from the stream goes straight to the output *)
      let st0 := match stack st with
                 | [] => (let base := if pr_stream cur =? pa e then st
                                      else {| nact := nact st; stack := []; held := held st; lasttaken := 0; outs := outs st;
                                              dropped := dropped st; pcrashed := pcrashed st |} in
                          if negb (pr_stream cur =? pa e) && match held st with [] => false | _ :: _ => true end then None
                          else if nact st =? 0 then pstep base (PTake ev 0)
                          else match pstep base (PTake ev 0) with       (* no action matched the event *)
                               | Some s1 => pstep s1 (PSkipTo ev (nact st))
                               | None => None
                               end)
                 | f :: _ =>
                     (* a child spawned by the last action leaves the chain at once: no Do precedes its Out *)
                     match fph f with
                     | InDo => if pc e =? 1 then pstep st (PPush ev (nact st)) else None
                     | BeforeDo => pstep st (PSkipTo ev (nact st))
                     | MustOut => Some st
                     end
                 end in
      match st0 with
      | Some s0 => match pstep s0 (POut ev) with Some s' => upd s' (if pc e =? 1 then pr_stream cur else pa e) | None => None end
      | None => None
      end
  | 35 => (* Propagate: b = seq, c = next action index *)
      match held_at (held st) (pc e - 1) with
      | Some h => if pseq h =? pb e
                  then match pstep st (PPropagate h (pc e)) with Some s' => upd s' (pr_stream cur) | None => None end
                  else None
      | None => None
      end
  | 36 => match stack st with
          | f :: _ => match pstep st (PSpawn (fev f) (pc e)) with Some s' => upd s' (pr_stream cur) | None => None end
          | [] => None
          end
  | _ => Some ps
  end.

Fixpoint run_procs (n : Z) (ps : list (Z * procst)) (es : list pentry) (k : Z) : Z * bool :=
  match es with
  | [] => (k, true)
  | e :: r => match proc_step n ps e with
              | Some ps' => run_procs n ps' r (k + 1)
              | None => (k, false)
              end
  end.

Fixpoint last_of_ (s : Z) (l : list (Z * Z)) : option Z :=
  match l with [] => None | (s', v) :: r => if s' =? s then Some v else last_of_ s r end.

(* ---- per-stream end-to-end flow: every stream's labels are replayed through Model/StreamFlow.v ---- *)
(* the processor labels of an entry, as labels of the logical processor of the entry's stream *)
Definition plabels_of (st : pst) (e : pentry) : option (list plabel) :=
  match pk e with
  | 30 =>
      let kind := pd e mod 8 in
      let busy := 8 <=? pd e in
      let ev := {| pseq := (if kind =? 1 then 0 else pb e); pkind := kind |} in
      let pre := match stack st with
                 | [] => if (kind =? 3) || (pc e =? 0) then Some [PTake ev (pc e)] else Some [PTake ev 0; PSkipTo ev (pc e)]
                 | f :: _ => match fph f with
                             | InDo => Some [PPush ev (pc e)]
                             | BeforeDo => if fidx f <? pc e then Some [PSkipTo ev (pc e)] else Some []
                             | MustOut => Some []
                             end
                 end in
      match pre with Some l => Some (l ++ [PDo ev (pc e) busy]) | None => None end
  | 31 => match pres_of_Z (pd e), stack st with
          | Some r, f :: _ => if (pseq (fev f) =? pb e) || (pkind (fev f) =? 1) then Some [PResult (fev f) (pc e) r] else None
          | _, _ => None
          end
  | 32 =>
      let ev := {| pseq := (if pc e =? 1 then 0 else pb e); pkind := pc e |} in
      match stack st with
      | [] => if nact st =? 0 then Some [PTake ev 0; POut ev]
              else Some [PTake ev 0; PSkipTo ev (nact st); POut ev]      (* no action matched the event *)
      | f :: _ => match fph f with
                  | InDo => if pc e =? 1 then Some [PPush ev (nact st); POut ev] else None
                  | BeforeDo => Some [PSkipTo ev (nact st); POut ev]      (* the remaining actions did not match *)
                  | MustOut => Some [POut ev]
                  end
      end
  | 35 => match held_at (held st) (pc e - 1) with
          | Some h => if pseq h =? pb e then Some [PPropagate h (pc e)] else None
          | None => None
          end
  | 36 => match stack st with f :: _ => Some [PSpawn (fev f) (pc e)] | [] => None end
  | _ => Some []
  end.

Fixpoint fsteps (f : fst_) (ls : list plabel) : option fst_ :=
  match ls with
  | [] => Some f
  | l :: r => match fstep f (FProc l) with Some f' => fsteps f' r | None => None end
  end.

Fixpoint get_flow (l : list (Z * fst_)) (i : Z) : option fst_ :=
  match l with [] => None | (k, v) :: r => if k =? i then Some v else get_flow r i end.
Fixpoint set_flow (l : list (Z * fst_)) (i : Z) (v : fst_) : list (Z * fst_) :=
  match l with [] => [(i, v)] | (k, w) :: r => if k =? i then (k, v) :: r else (k, w) :: set_flow r i v end.

Record flows := { fl_cur : list (Z * Z); fl_st : list (Z * fst_) }.   (* processor -> current stream; stream -> state *)

Definition flow_step (n : Z) (sync : bool) (fs : flows) (e : pentry) : option flows :=
  let get s := match get_flow (fl_st fs) s with Some v => v | None => finit n sync end in
  if pok e =? 3 then
    match pk e with
    | 30 | 31 | 32 | 35 | 36 =>
        let s := if 0 <=? pa e then pa e else (match last_of_ (poi e) (fl_cur fs) with Some v => v | None => -1 end) in
        if s <? 0 then None else
        let f := get s in
        match plabels_of (proc f) e with
        | Some ls => match fsteps f ls with
                     | Some f' => Some {| fl_cur := (poi e, s) :: fl_cur fs; fl_st := set_flow (fl_st fs) s f' |}
                     | None => None
                     end
        | None => None
        end
    | _ => Some fs
    end
  else if (pok e =? 1) && (pk e =? 1) && (poi e =? 0) && (0 <=? pb e) then
    (* Batcher.Add on the main batcher: a = seq, b = stream, d = kind *)
    match fstep (get (pb e)) (FAdd {| pseq := pa e; pkind := pd e |}) with
    | Some f' => Some {| fl_cur := fl_cur fs; fl_st := set_flow (fl_st fs) (pb e) f' |}
    | None => None
    end
  else if (pok e =? 4) && (pk e =? 38) then
    match fstep (get (pa e)) (FCommit {| pseq := pb e; pkind := 0 |}) with
    | Some f' => Some {| fl_cur := fl_cur fs; fl_st := set_flow (fl_st fs) (pa e) f' |}
    | None => None
    end
  else Some fs.

Fixpoint run_flows (n : Z) (sync : bool) (fs : flows) (es : list pentry) (k : Z) : Z * bool :=
  match es with
  | [] => (k, true)
  | e :: r => match flow_step n sync fs e with
              | Some fs' => run_flows n sync fs' r (k + 1)
              | None => (k, false)
              end
  end.

(* ---- the product (Model/Pipe.v): main batcher and all flows as ONE transition system -------------- *)
(* the trace's main-batcher labels (Add, Commit, ...) and processor labels drive [gstep]; the theorems of
   Proofs/Pipe.v (F2 redundant, end-to-end frontier / order / conservation) are about exactly these runs *)
Record pipes := { pp_cur : list (Z * Z); pp_g : gst; pp_ic : list Z }.   (* processor -> current stream; product state; streams of the input commits seen *)
Definition count_ic (s : Z) (l : list Z) : nat := length (filter (Z.eqb s) l).

Fixpoint gsteps (c : cfg) (n : Z) (g : gst) (s : Z) (ls : list plabel) : option gst :=
  match ls with
  | [] => Some g
  | l :: r => match gstep c n g (GP s l) with Some g' => gsteps c n g' s r | None => None end
  end.

Definition pipe_step (c : cfg) (n : Z) (ps : pipes) (e : pentry) : option pipes :=
  if pok e =? 3 then
    match pk e with
    | 30 | 31 | 32 | 35 | 36 =>
        let s := if 0 <=? pa e then pa e else (match last_of_ (poi e) (pp_cur ps) with Some v => v | None => -1 end) in
        if s <? 0 then None else
        match plabels_of (proc (gflow n (pp_g ps) s)) e with
        | Some ls => match gsteps c n (pp_g ps) s ls with
                     | Some g' => Some {| pp_cur := (poi e, s) :: pp_cur ps; pp_g := g'; pp_ic := pp_ic ps |}
                     | None => None
                     end
        | None => None
        end
    | _ => Some ps
    end
  else if (pok e =? 1) && (poi e =? 0) then
    match bentry_of e with
    | Some be => match elabel be with
                 | Some l => match gstep c n (pp_g ps) (GB l) with
                             | Some g' => Some {| pp_cur := pp_cur ps; pp_g := g'; pp_ic := pp_ic ps |}
                             | None => None
                             end
                 | None => Some ps
                 end
    | None => Some ps
    end
  else if (pok e =? 4) && (pk e =? 38) then
    (* InputPlugin.Commit(stream a, seq b): the k-th input commit of a stream is the k-th commit of its flow, already made
       (Controller.Commit is logged before pipeline.Commit runs): input commits = a prefix of the flow's commits, in order *)
    match nth_error (rev (commits (gflow n (pp_g ps) (pa e)))) (count_ic (pa e) (pp_ic ps)) with
    | Some x => if pseq x =? pb e then Some {| pp_cur := pp_cur ps; pp_g := pp_g ps; pp_ic := pa e :: pp_ic ps |} else None
    | None => None
    end
  else Some ps.

Fixpoint run_pipe (c : cfg) (n : Z) (ps : pipes) (es : list pentry) (k : Z) : Z * bool :=
  match es with
  | [] => (k, true)
  | e :: r => match pipe_step c n ps e with
              | Some ps' => run_pipe c n ps' r (k + 1)
              | None => (k, false)
              end
  end.

(* ---- charged-stream hand-off: labels of makeCharged / joinStream replayed through Model/Charged.v ---- *)
Definition clabel_of (e : pentry) : option clabel :=
  if (pok e =? 2) && (pk e =? 28) then Some CCharge
  else if (pok e =? 2) && (pk e =? 29) then Some CPop
  else if (pok e =? 5) && (pk e =? 19) then Some (CSignal (pa e))
  else if (pok e =? 5) && (pk e =? 39) then Some CSleep
  else if (pok e =? 5) && (pk e =? 34) then Some (CWake (negb (pb e =? 0)))
  else None.

Fixpoint run_charged (s : cst) (es : list pentry) (k : Z) : Z * bool :=
  match es with
  | [] => (k, true)
  | e :: r =>
      if (pok e =? 4) && ((pk e =? 110) || (pk e =? 116)) then (k, true)   (* quiescence reached / Stop called: shutdown follows *)
      else match clabel_of e with
           | Some l => match cstep s l with
                       | Some s' => run_charged s' r (k + 1)
                       | None => (k, false)
                       end
           | None => run_charged s r (k + 1)
           end
  end.

(* raw monitor (C04 "no processor asleep while work is queued"), independent of the LTS: the counters are
   rebuilt from the labels alone (a wake-up exists only where a Signal label is), and the predicate is
   evaluated at the start of every chargedMu critical section *)
Fixpoint m_no_sleeper (es : list pentry) (q sl w : Z) : bool :=
  match es with
  | [] => true
  | e :: r =>
      (* at quiescence every wake-up that was issued must have been consumed: a Signal that did not wake
         anybody although a processor slept shows up here *)
      if (pok e =? 4) && (pk e =? 110) then (w =? 0) else
      if (pok e =? 4) && (pk e =? 116) then true else          (* Stop called with events in flight: shutdown follows *)
      let ok := (sl <=? w) || (q <=? w) in
      match clabel_of e with
      | Some CCharge => ok && m_no_sleeper r (q + 1) sl w
      | Some (CSignal _) => m_no_sleeper r q sl (if w <? sl then w + 1 else w)
      | Some CSleep => ok && m_no_sleeper r q (sl + 1) w
      | Some (CWake stop) => if stop then true else ok && m_no_sleeper r q (sl - 1) (Z.max 0 (w - 1))
      | Some CPop => m_no_sleeper r (q - 1) sl w
      | None => m_no_sleeper r q sl w
      end
  end.

(* ---- helpers -------------------------------------------------------------------------------- *)
Definition key_eqb (a b : Z * Z) : bool := (fst a =? fst b) && (snd a =? snd b).
Fixpoint mem_key (k : Z * Z) (l : list (Z * Z)) : bool :=
  match l with [] => false | x :: r => key_eqb k x || mem_key k r end.
Fixpoint nodup_keys (l : list (Z * Z)) : bool :=
  match l with [] => true | x :: r => negb (mem_key x r) && nodup_keys r end.
Fixpoint last_of (s : Z) (l : list (Z * Z)) : option Z :=   (* l newest first: the latest value recorded for s *)
  match l with [] => None | (s', v) :: r => if s' =? s then Some v else last_of s r end.

Definition is_k (ok k : Z) (e : pentry) : bool := (pok e =? ok) && (pk e =? k).

(* events put into streams: (stream, seq) with kind regular at put time; unlock events (kind 4) excluded *)
Definition puts (es : list pentry) : list (Z * Z) :=
  flat_map (fun e => if is_k 2 20 e && (pd e =? 0) then [(poi e, pa e)] else []) es.
Definition input_commits (es : list pentry) : list (Z * Z) :=
  flat_map (fun e => if is_k 4 38 e then [(pa e, pb e)] else []) es.
(* silent drops: finalize(notifyInput=false, backEvent=true) of a regular / child-parent event *)
Definition drops (es : list pentry) : list (Z * Z) :=
  flat_map (fun e => if is_k 4 33 e && (pc e =? 2) && ((pd e =? 0) || (pd e =? 2)) then [(pa e, pb e)] else []) es.
Definition backs (es : list pentry) : list (Z * Z) :=
  flat_map (fun e => if is_k 4 33 e && (2 <=? pc e) && ((pd e =? 0) || (pd e =? 2)) then [(pa e, pb e)] else []) es.

Definition no_kind (k : Z) (es : list pentry) : bool := negb (existsb (fun e => pk e =? k) es).

(* ---- C02: per stream, commits in read order, once; conservation at quiescence ---------------- *)
Fixpoint m_commits_increasing (es : list pentry) (lastc : list (Z * Z)) (lasto : list (Z * Z)) : bool :=
  match es with
  | [] => true
  | e :: r =>
      if is_k 4 38 e then
        let s := pa e in
        (match last_of s lastc with Some v => v <? pb e | None => true end) &&
        (match last_of s lasto with Some v => v <? pc e | None => true end) &&
        m_commits_increasing r ((s, pb e) :: lastc) ((s, pc e) :: lasto)
      else m_commits_increasing r lastc lasto
  end.

Definition m_conservation (es : list pentry) : bool :=
  let p := puts es in
  let c := input_commits es in
  let d := drops es in
  nodup_keys (c ++ d) && forallb (fun k => mem_key k p) (c ++ d) && forallb (fun k => mem_key k (c ++ d)) p.

(* shutdown with events in flight: what is in flight stays un-finished, so only the safety half is claimed - every commit /
   drop is of an event that was put, none twice *)
Definition m_conservation_safe (es : list pentry) : bool :=
  let p := puts es in
  let c := input_commits es in
  let d := drops es in
  nodup_keys (c ++ d) && forallb (fun k => mem_key k p) (c ++ d).

(* ---- admission: what In() said and what the streams saw agree ------------------------------------- *)
(* a record In() refused (label 111: (source, offset)) - empty / over the size limit / antispam / undecodable / refused by
   the input - is never put into a stream (hence never committed); at quiescence the number of records In() accepted is the
   number of regular events put into streams *)
Definition put_records (es : list pentry) : list (Z * Z) :=
  flat_map (fun e => if is_k 2 20 e && (pd e =? 0) then [(pb e, pc e)] else []) es.
Definition m_admission (es : list pentry) : bool :=
  let p := put_records es in
  forallb (fun e => negb (is_k 4 111 e) || negb (mem_key (pa e, pb e) p)) es &&
  forallb (fun e => negb (is_k 4 110 e) || (pc e =? Z.of_nat (length p))) es.

(* ---- C02, consumer side: the commits as the file input sees them ---------------------------------- *)
(* with option 8 every InputPlugin.Commit (label 38: stream a, offset c) is forwarded to the real jobProvider.commit of the file
   input: label 118 (stream a, offset b, panicked d) follows it, labels 119 (stream b, stored offset c) report the offsets the
   provider holds at the end.  The forwarded commit is the input commit just seen on that stream; Model/StreamOffsets.v must
   accept it (the stored offset moves forward: no "offset corruption") and the real code must not have panicked; the stored
   offsets are the model's, for every stream the model holds one for.  An early-stop case takes the trace while processors may
   still be committing: the forwarder is closed when the stored offsets are read (one critical section with the labels 119),
   so input commits after that have no label 118 *)
Fixpoint m_filec_go (early : bool) (es : list pentry) (t : fcst) (last38 : list (Z * Z)) (n38 n118 : Z) (reported : list Z) : bool :=
  match es with
  | [] => (if early then n118 <=? n38 else n38 =? n118) && forallb (fun kv : Z * Z => mem_z (fst kv) reported) t
  | e :: r =>
      if is_k 4 38 e then m_filec_go early r t ((pa e, pc e) :: last38) (n38 + 1) n118 reported
      else if is_k 4 118 e then
        match last_of (pa e) last38, fc_commit t (pa e) (pb e) with
        | Some off, Some t' => (off =? pb e) && (pd e =? 0) && m_filec_go early r t' last38 n38 (n118 + 1) reported
        | _, _ => false
        end
      else if is_k 4 119 e then (0 <=? pb e) && (fc_get t (pb e) =? pc e) && m_filec_go early r t last38 n38 n118 (pb e :: reported)
      else m_filec_go early r t last38 n38 n118 reported
  end.
Definition m_filec (c : pcfg) (es : list pentry) : bool :=
  if p_filec c then m_filec_go (p_early c) es [] [] 0 0 [] else no_kind 118 es && no_kind 119 es.

(* ---- C02, producer side of "none is unaccounted for": the hold ledger ---------------------------------- *)
(* An action that answers Hold keeps the event; the pipeline gets it back only through Propagate, called by that action
   from a later Do - of the next event of the stream or of the stream's time-out event.  The processor delivers either only
   while it believes the action busy: processEvent goes on waiting on the stream (blockGet, where the time-out arrives) iff
   busyActionsTotal > 0, and the mark of an action is set by Hold / Collapse and CLEARED by Pass / Break / Discard /
   Propagate (processor.go doActions: tryMarkBusy / tryResetBusy).  So an action that holds an event and gives an answer
   that clears its mark (e.g. Discard for a line that no longer fits into the joined event) is forgotten by the processor:
   it leaves the stream, no time-out is ever delivered, the held event is neither committed nor dropped, and the events
   that follow it on the stream are taken by another processor and committed first.  Model/Proc.v identifies "busy" with
   "holds an event" and sees such a trace break only at the NEXT Do label of the processor (guard of PDo: the busy bit of the
   label is the model's held_at; proc_step above: a new stream while an event is held) - if there is one.  The ledger keeps
   the two apart - the event each (processor, action) holds, and the processor's busy mark as the answers set and clear it -
   and is replayed on the processors' own labels (30 Do / 31 Result / 35 Propagate) of every trace, whatever the actions are
   (scripted, the real join / join_template, the real k8s multiline action, which is busy WITHOUT holding: it collapses the
   chunks of a partial line):
     H1  the busy bit of a Do label is the mark (the processor's bookkeeping is what the answers say);
     H2  Hold is answered only by an action that holds nothing (P2 of Model/Proc.v);
     H3  an answer that clears the mark - Pass, Break, Discard - is given only by an action that holds nothing
         (Pass / Break: P3 of Model/Proc.v; Discard: the seeded class);
     H4  Propagate(e) comes from the action that holds e, and frees it (P1);
     H5  a processor that holds an event of stream s takes regular events of s only (it did not leave the stream).
   Proofs/PipeGlue.v: on every accepted trace a held event's action is marked busy (hl_held_marked: the processor keeps
   waiting, so the stream's time-out can reach the action), no (processor, action) holds two events, every event ever held
   is still held or was propagated exactly once (hl_accounting), and nothing held at the end = the propagated events are
   exactly the held ones (hl_quiescent).  No proofs here. *)
Definition hkey : Type := (Z * Z)%type.                       (* processor, action index *)
Record hst := {
  hl_held : list (hkey * (Z * Z));      (* (processor, action) -> (stream, seq) of the event it holds *)
  hl_mark : list hkey;                  (* busy marks *)
  hl_holds : list (Z * Z);              (* history: every event ever held, newest first *)
  hl_props : list (Z * Z)               (* history: every event propagated, newest first *)
}.
Definition hinit : hst := {| hl_held := []; hl_mark := []; hl_holds := []; hl_props := [] |}.

Inductive hlabel :=
| HDo (p a s kind : Z) (busy : bool)            (* Do of action a on processor p is entered with an event of stream s *)
| HResult (p a s q : Z) (r : pres)              (* it answered r for event (s, q) *)
| HPropagate (p a s q : Z).                     (* action a, inside Do, called Propagate with event (s, q) *)

Fixpoint h_find (k : hkey) (l : list (hkey * (Z * Z))) : option (Z * Z) :=
  match l with [] => None | (k', v) :: r => if key_eqb k' k then Some v else h_find k r end.
Fixpoint h_remove (k : hkey) (l : list (hkey * (Z * Z))) : list (hkey * (Z * Z)) :=
  match l with [] => [] | (k', v) :: r => if key_eqb k' k then r else (k', v) :: h_remove k r end.
Definition h_unmark (k : hkey) (l : list hkey) : list hkey := filter (fun x => negb (key_eqb x k)) l.
Definition h_marked (k : hkey) (l : list hkey) : bool := existsb (fun x => key_eqb x k) l.
Definition h_mark (k : hkey) (l : list hkey) : list hkey := if h_marked k l then l else k :: l.

Definition hstep (t : hst) (l : hlabel) : option hst :=
  match l with
  | HDo p a s kind busy =>
      if Bool.eqb busy (h_marked (p, a) (hl_mark t)) &&                                                       (* H1 *)
         (negb (kind =? 0) ||
          forallb (fun x : hkey * (Z * Z) => negb (fst (fst x) =? p) || (fst (snd x) <? 0) || (fst (snd x) =? s)) (hl_held t))  (* H5 *)
      then Some t else None
  | HResult p a s q r =>
      let holding := match h_find (p, a) (hl_held t) with Some _ => true | None => false end in
      match r with
      | RHold => if holding then None                                                                          (* H2 *)
                 else Some {| hl_held := ((p, a), (s, q)) :: hl_held t; hl_mark := h_mark (p, a) (hl_mark t);
                              hl_holds := (s, q) :: hl_holds t; hl_props := hl_props t |}
      | RCollapse => Some {| hl_held := hl_held t; hl_mark := h_mark (p, a) (hl_mark t); hl_holds := hl_holds t; hl_props := hl_props t |}
      | RPass | RBreak | RDiscard =>
          if holding then None                                                                                 (* H3 *)
          else Some {| hl_held := hl_held t; hl_mark := h_unmark (p, a) (hl_mark t); hl_holds := hl_holds t; hl_props := hl_props t |}
      end
  | HPropagate p a s q =>
      match h_find (p, a) (hl_held t) with
      | Some v => if key_eqb v (s, q)                                                                          (* H4 *)
                  then Some {| hl_held := h_remove (p, a) (hl_held t); hl_mark := h_unmark (p, a) (hl_mark t);
                               hl_holds := hl_holds t; hl_props := (s, q) :: hl_props t |}
                  else None
      | None => None
      end
  end.

Fixpoint hrun (t : hst) (ls : list hlabel) : option hst :=
  match ls with
  | [] => Some t
  | l :: r => match hstep t l with Some t' => hrun t' r | None => None end
  end.

(* the ledger labels of a trace: processor labels 30 (a stream, b seq, c action, d kind + 8*busy), 31 (d result),
   35 (c = index of the NEXT action) *)
Definition hlabel_of (e : pentry) : option hlabel :=
  if pok e =? 3 then
    match pk e with
    | 30 => Some (HDo (poi e) (pc e) (pa e) (pd e mod 8) (8 <=? pd e))
    | 31 => match pres_of_Z (pd e) with Some r => Some (HResult (poi e) (pc e) (pa e) (pb e) r) | None => None end
    | 35 => Some (HPropagate (poi e) (pc e - 1) (pa e) (pb e))
    | _ => None
    end
  else None.
Definition hlabels (es : list pentry) : list hlabel :=
  flat_map (fun e => match hlabel_of e with Some l => [l] | None => [] end) es.

(* monitor 17: the trace is a run of the ledger; at quiescence nothing is held any more (early-stop cases: what is held
   at shutdown stays held - only the safety half) *)
Definition m_hold_ledger (early : bool) (es : list pentry) : bool :=
  forallb (fun e => negb (is_k 3 31 e) || match pres_of_Z (pd e) with Some _ => true | None => false end) es &&
  match hrun hinit (hlabels es) with
  | Some t => early || match hl_held t with [] => true | _ :: _ => false end
  | None => false
  end.

(* ---- C01: commit implies acked, and the frontier ------------------------------------------------ *)
(* at every input commit of (s, seq): the event had been handed to the output (ProcOut) and, when the
   output batches, committed by a batcher whose send had returned (the batcher monitors check that part);
   and every earlier event of s is already committed or silently dropped *)
Fixpoint m_frontier (es : list pentry) (outs fin : list (Z * Z)) (putseqs : list (Z * Z)) : bool :=
  match es with
  | [] => true
  | e :: r =>
      if is_k 2 20 e && (pd e =? 0) then m_frontier r outs fin ((poi e, pa e) :: putseqs)
      else if is_k 3 32 e then m_frontier r ((pa e, pb e) :: outs) fin putseqs
      else if is_k 4 33 e && (pc e =? 2) && ((pd e =? 0) || (pd e =? 2)) then m_frontier r outs ((pa e, pb e) :: fin) putseqs
      else if is_k 4 38 e then
        let s := pa e in let seq := pb e in
        mem_key (s, seq) outs &&
        forallb (fun k => negb (fst k =? s) || negb (snd k <? seq) || mem_key k fin) putseqs &&
        m_frontier r outs ((s, seq) :: fin) putseqs
      else m_frontier r outs fin putseqs
  end.

(* with a batching output: each input commit is preceded by the batcher's Controller.Commit of that event *)
Fixpoint m_commit_via_batcher (es : list pentry) (bc : list (Z * Z)) : bool :=
  match es with
  | [] => true
  | e :: r =>
      if is_k 1 100 e then m_commit_via_batcher r ((pb e, pa e) :: bc)
      else if is_k 4 38 e then mem_key (pa e, pb e) bc && m_commit_via_batcher r bc
      else m_commit_via_batcher r bc
  end.

(* per batcher: a batch enters its commit section only after its OutFn returned; OutFn never starts for a batch
   that already entered its commit section *)
Fixpoint m_outend_before_commit (es : list entry) (begun ended committed : list Z) : bool :=
  match es with
  | [] => true
  | e :: r =>
      match ekind_raw e, eargs e with
      | 6, seq :: _ => negb (mem_z seq committed) && m_outend_before_commit r (seq :: begun) ended committed
      | 7, seq :: _ => m_outend_before_commit r begun (seq :: ended) committed
      | 8, seq :: _ => (negb (mem_z seq begun) || mem_z seq ended) && m_outend_before_commit r begun ended (seq :: committed)
      | _, _ => m_outend_before_commit r begun ended committed
      end
  end.

(* ---- C01: a batcher commits an event only when ITS OWN output acknowledged the event's batch ------------------------- *)
(* per batcher b (0 main, 1 dead queue) the content of every sealed batch is rebuilt from the Add labels between two Seal
   labels (key of an event = (stream, 8*seq + kind)).  Batch (b, q) is ACKNOWLEDGED when its send returned success: OutEnd for
   a plain batcher and for the dead queue (their OutFn cannot fail), RetryResult ok for the retriable main batcher.  A give-up of
   the retry loop (RetryGiveUp) is not an acknowledgement, WHATEVER made the loop stop (attempts used up, or backoff.Stop with
   attempts remaining / unlimited attempts): with a dead queue the events belong to the dead queue from then on (its own batcher
   has to acknowledge and commit them) and the main batcher must commit none of them; without a dead queue the batch is the
   output's reported loss (onRetryError ran) and is committed as such.
   Controller.Commit(e) by batcher b must fall inside a commit section of b (CommitBegin q .. CommitEnd q), e must be an event of
   batch (b, q), and (b, q) must be acknowledged / reported lost unless it holds no deliverable event (child-parent events only). *)
Definition ekey (stream seq kind : Z) : Z * Z := (stream, 8 * seq + kind).
Definition key_iterable (k : Z * Z) : bool := negb (snd k mod 8 =? 2).
Definition bq_eqb (a b : Z * Z) : bool := key_eqb a b.
Definition batch_keys (bat : list ((Z * Z) * (Z * Z))) (bq : Z * Z) : list (Z * Z) :=
  flat_map (fun x => if bq_eqb (fst x) bq then [snd x] else []) bat.

Fixpoint m_commit_acked (retr dq : bool) (es : list pentry) (cur : list (Z * (Z * Z))) (bat : list ((Z * Z) * (Z * Z)))
                        (acked opn : list (Z * Z)) : bool :=
  match es with
  | [] => true
  | e :: r =>
      if negb (pok e =? 1) then m_commit_acked retr dq r cur bat acked opn else
      let b := poi e in
      match pk e with
      | 1 => m_commit_acked retr dq r ((b, ekey (pb e) (pa e) (pd e)) :: cur) bat acked opn
      | 3 => let mine := filter (fun x => fst x =? b) cur in
             m_commit_acked retr dq r (filter (fun x => negb (fst x =? b)) cur)
                            (map (fun x => ((b, pa e), snd x)) mine ++ bat) acked opn
      | 7 => if (b =? 0) && retr then m_commit_acked retr dq r cur bat acked opn
             else m_commit_acked retr dq r cur bat ((b, pa e) :: acked) opn
      | 13 => if pc e =? 0 then m_commit_acked retr dq r cur bat acked opn
              else m_commit_acked retr dq r cur bat ((b, pa e) :: acked) opn
      | 14 => if dq then m_commit_acked retr dq r cur bat acked opn
              else m_commit_acked retr dq r cur bat ((b, pa e) :: acked) opn
      | 8 => m_commit_acked retr dq r cur bat acked ((b, pa e) :: opn)
      | 9 => m_commit_acked retr dq r cur bat acked (filter (fun x => negb (fst x =? b)) opn)
      | 100 =>
          match last_of b opn with
          | Some q =>
              let ks := batch_keys bat (b, q) in
              mem_key (ekey (pb e) (pa e) (pd e)) ks &&
              (mem_key (b, q) acked || negb (existsb key_iterable ks)) &&
              m_commit_acked retr dq r cur bat acked opn
          | None => false
          end
      | _ => m_commit_acked retr dq r cur bat acked opn
      end
  end.

(* ---- C10 (spread routing): the same frontier per SOURCE (partition) and offset ------------------ *)
Fixpoint m_source_frontier (es : list pentry) (fin : list (Z * Z)) (accepted : list (Z * Z)) (key_of : list ((Z * Z) * (Z * Z))) : bool :=
  (* accepted: (src, offset); key_of: (stream, seq) -> (src, offset) *)
  match es with
  | [] => true
  | e :: r =>
      if is_k 2 20 e && (pd e =? 0) then
        m_source_frontier r fin ((pb e, pc e) :: accepted) (((poi e, pa e), (pb e, pc e)) :: key_of)
      else if is_k 4 33 e && (pc e =? 2) && ((pd e =? 0) || (pd e =? 2)) then
        match find (fun kv => key_eqb (fst kv) (pa e, pb e)) key_of with
        | Some kv => m_source_frontier r (snd kv :: fin) accepted key_of
        | None => m_source_frontier r fin accepted key_of
        end
      else if is_k 4 38 e then
        let src := pd e in let off := pc e in
        forallb (fun k => negb (fst k =? src) || negb (snd k <? off) || mem_key k fin) accepted &&
        m_source_frontier r ((src, off) :: fin) accepted key_of
      else m_source_frontier r fin accepted key_of
  end.

(* every InputPlugin.Commit carries a (source, offset) the pipeline accepted from that input: a commit for anything else
   (a spawned child, a time-out, a stale copy) acknowledges a record that was never consumed *)
Fixpoint m_commit_of_accepted (es : list pentry) (accepted : list (Z * Z)) : bool :=
  match es with
  | [] => true
  | e :: r =>
      if is_k 2 20 e && (pd e =? 0) then m_commit_of_accepted r ((pb e, pc e) :: accepted)
      else if is_k 4 38 e then mem_key (pd e, pc e) accepted && m_commit_of_accepted r accepted
      else m_commit_of_accepted r accepted
  end.

(* ---- C05 (pipeline part): every pooled event goes back exactly once; idle => in-use = 0 ---------- *)
Definition m_pool_conservation (quiescent : bool) (es : list pentry) : bool :=
  nodup_keys (backs es) && forallb (fun k => mem_key k (puts es)) (backs es) &&
  (negb quiescent ||
   (forallb (fun e => negb (is_k 4 110 e) || ((pa e =? 0) && (pb e =? 0))) es &&
    forallb (fun k => mem_key k (backs es)) (puts es))).

(* ---- C13 (processor part): a time-out event is only ever handed to a busy action ----------------- *)
Definition m_timeout_to_busy (es : list pentry) : bool :=
  forallb (fun e => negb (is_k 3 37 e) || (pd e =? 1)) es &&
  forallb (fun e => negb (is_k 3 30 e) || negb (pd e mod 8 =? 3) || (8 <=? pd e)) es &&
  no_kind 112 es.

(* ---- C15 (processor part): while an action is busy it only sees events of the stream it holds ---- *)
Fixpoint m_single_stream (es : list pentry) (holder : list ((Z * Z) * Z)) : bool :=
  match es with
  | [] => true
  | e :: r =>
      if is_k 3 31 e && ((pd e =? 3) || (pd e =? 1)) then m_single_stream r (((poi e, pc e), pa e) :: holder)
      else if is_k 3 30 e && (8 <=? pd e) then
        (match find (fun kv => key_eqb (fst kv) (poi e, pc e)) holder with
         | Some kv => snd kv =? pa e
         | None => false
         end) && m_single_stream r holder
      else m_single_stream r holder
  end.

(* stream-level commit numbers (stream.commit stores) never decrease: a lower one stored after a higher one leaves
   commitSeq behind awaySeq for ever (the stream can no longer detach) *)
Fixpoint m_scommit_monotone (es : list pentry) (lastc : list (Z * Z)) : bool :=
  match es with
  | [] => true
  | e :: r =>
      if is_k 2 25 e then
        (match last_of (poi e) lastc with Some v => v <=? pa e | None => true end) &&
        m_scommit_monotone r ((poi e, pa e) :: lastc)
      else m_scommit_monotone r lastc
  end.

(* ---- C04 (pipeline part): no wedge observed ------------------------------------------------------ *)
(* 103 stuck, 101 panic, 114 probe event: In-to-commit latency (a, ms) within its bound (b, ms) *)
Definition m_no_wedge (es : list pentry) : bool :=
  no_kind 103 es && no_kind 101 es && forallb (fun e => negb (pk e =? 114) || (pa e <=? pb e)) es.

(* ---- verdict assembly ---------------------------------------------------------------------------- *)
(* early-stop cases (Pipeline.Stop called with events in flight, label 116): every LTS is replayed on the WHOLE trace, the
   part after the call included.  streamer.stop() hands every stream an unlock event (stream LTS: SPut / SGet kind 4); the
   processor that takes one leaves its stream and stops (fix 5c4c757: before it, it went on to other streams with an event
   still held, which Model/Proc.v rejects - a new stream while an event is held), the others finish the events queued in
   front of the unlock event; Batcher.Stop is LStop (no Add is enabled after it) *)
Definition lts_ok (atomic : bool) (c : pcfg) (es : list pentry) : bool * sx :=
  let '(n, t, ok) := run_stream sinit es 0 in
  let be := bentries es in
  let '(cm, cd) := batcher_cfgs c atomic in
  let '(n1, s1, ok1) := if 1 <=? p_outkind c then run_entries cm 0 (init cm) be 0 else (0, init cm, true) in
  let '(n2, s2, ok2) := if p_deadq c then run_entries cd 1 (init cd) be 0 else (0, init cd, true) in
  (* the k8s multiline action is busy WITHOUT holding an event (Collapse of a partial line's chunk); Model/Proc.v has no such
     state (busy = holds), so the cases whose real action it is are judged by the hold ledger (monitor 17), which keeps mark
     and held event apart, and by the other LTSs / monitors - not by the processor, flow and product replays *)
  let nohold := p_real c =? 3 in
  let '(n3, ok3) := if nohold then (0, true) else run_procs (p_actions c) [] es 0 in
  let '(n4, ok4) := if p_spread c || p_deadq c || nohold then (0, true)   (* spread routing / dead queue: recorded findings, not replayed *)
                    else run_flows (p_actions c) (p_outkind c =? 0) {| fl_cur := []; fl_st := [] |} es 0 in
  let '(n5, ok5) := run_charged cinit es 0 in
  let '(n6, ok6) := if (1 <=? p_outkind c) && negb (p_spread c) && negb (p_deadq c) && negb nohold
                    then run_pipe cm (p_actions c) {| pp_cur := []; pp_g := ginit cm; pp_ic := [] |} es 0 else (0, true) in
  (ok && negb (scrashed t) && ok1 && ok2 && negb (crashed s1) && negb (crashed s2) && ok3 && ok4 && ok5 && ok6,
   SL [SL [of_bool ok; SZ n; of_bool (scrashed t)]; summary n1 s1 ok1; summary n2 s2 ok2; SL [of_bool ok3; SZ n3]; SL [of_bool ok4; SZ n4]; SL [of_bool ok5; SZ n5];
       SL [of_bool ok6; SZ n6]]).

(* a monitor set = list of (monitor id, verdict); the ids of the failing ones are reported in the
   model field of a Violates verdict (known findings are matched on them) *)
Definition failing (ms : list (Z * bool)) : list Z :=
  flat_map (fun m : Z * bool => if snd m then @nil Z else [fst m]) ms.

Definition pipe_run (atomic : bool) (mon : pcfg -> list pentry -> list (Z * bool)) (case obs : sx) : verdict :=
  match case, as_list pentry_of_sx obs with
  | SL (cs :: _), Some es =>
      match pcfg_of_sx cs with
      | Some c0 =>
          let c := with_xopts case c0 in
          let '(ok, m) := lts_ok atomic c es in
          match failing (mon c es) with
          | [] => if ok then Agree else Differ m
          | fs => Violates (SL [SL (map SZ fs); m])
          end
      | None => BadCase
      end
  | _, _ => BadCase
  end.

Definition quiescent (es : list pentry) : bool := no_kind 103 es.

(* monitor ids: 1 wedge/panic observed, 2 per-stream commit order, 3 commit twice, 4 conservation,
   5 frontier, 6 commit not via an acknowledged batch, 7 pool conservation, 8 per-source frontier (spread),
   9 time-out to an idle action, 10 busy action saw another stream, 11 a processor sleeps while a charged stream has no wake-up coming,
   12 a stream's commit number moved backwards, 13 input commit of a (source, offset) that was never accepted,
   14 a batcher committed an event its own output never acknowledged (e.g. the main batcher after handing the batch to the dead queue),
   15 a record In() refused reached a stream / the accepted count is not the number of events put into streams,
   16 the file input fed with the commit notifications hit "offset corruption" / stores something else than the last commit of a stream,
   17 the hold ledger: an action gave an answer that clears its busy mark (Pass / Break / Discard) while it holds an event, answered
      Hold while holding, propagated an event it does not hold, the processor's busy bit is not what the answers say, a processor
      took an event of another stream while one of its actions holds one, or an event is still held when the pipeline is idle.
   Early-stop cases (Pipeline.Stop with events in flight) claim no completeness: 4 and 7 keep their safety halves *)
Definition conservation_mon (c : pcfg) (es : list pentry) : bool :=
  if p_early c then m_conservation_safe es else m_conservation es.
Definition c02_mon (c : pcfg) (es : list pentry) : list (Z * bool) :=
  [(1, m_no_wedge es); (2, m_commits_increasing es [] []); (3, nodup_keys (input_commits es)); (4, conservation_mon c es);
   (12, m_scommit_monotone es []); (15, m_admission es); (16, m_filec c es); (17, m_hold_ledger (p_early c) es)].
Definition c01_mon (c : pcfg) (es : list pentry) : list (Z * bool) :=
  [(1, m_no_wedge es); (5, m_frontier es [] [] []);
   (6, (p_outkind c =? 0) ||
       (m_commit_via_batcher es [] && m_outend_before_commit (of_b 0 (bentries es)) [] [] [] &&
        m_outend_before_commit (of_b 1 (bentries es)) [] [] []));
   (14, (p_outkind c =? 0) || m_commit_acked (p_outkind c =? 2) (p_deadq c) es [] [] [] []);
   (15, m_admission es)].
Definition c05_mon (c : pcfg) (es : list pentry) : list (Z * bool) :=
  [(1, m_no_wedge es); (7, m_pool_conservation (negb (p_early c)) es); (15, m_admission es)].
Definition c04_mon (c : pcfg) (es : list pentry) : list (Z * bool) :=
  [(1, m_no_wedge es); (4, conservation_mon c es); (11, m_no_sleeper es 0 0 0); (12, m_scommit_monotone es [])].
Definition c10_mon (c : pcfg) (es : list pentry) : list (Z * bool) :=
  [(1, m_no_wedge es); (8, m_source_frontier es [] [] []); (13, m_commit_of_accepted es [])].
Definition c13_mon (c : pcfg) (es : list pentry) : list (Z * bool) := [(1, m_no_wedge es); (9, m_timeout_to_busy es)].
Definition c15_mon (c : pcfg) (es : list pentry) : list (Z * bool) :=
  [(1, m_no_wedge es); (10, m_single_stream es []); (9, m_timeout_to_busy es)].
