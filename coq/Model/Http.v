(* Model of plugin/input/http/http.go: processBulk / processChunk / serveBulk / source-id free list.
   No proofs here (Proofs/Http.v), so the model still runs when a proof breaks. *)
From Verif Require Import Base.Sx.

Definition NL : byte := 10%N.

(* ---- processChunk ------------------------------------------------------------------------
   for pos < len(readBuff): on '\n' emit (eventBuff ++ readBuff[nlPos:pos]) if eventBuff is
   non-empty, else readBuff[nlPos:pos]; eventBuff = eventBuff[:0]; nlPos = pos+1.
   [eb] is the carry-over;
   [rcur] is the REVERSED readBuff[nlPos:pos] (so the model runs in linear time).             *)
Definition rev_fast (l : bytes) : bytes := rev_append l [].   (* = rev l (List.rev_alt), linear *)

Fixpoint scan (rb rcur eb : bytes) : list bytes * bytes * bytes :=
  match rb with
  | [] => ([], rev_fast rcur, eb)
  | c :: rb' =>
      if N.eqb c NL then
        let ev := match eb with [] => rev_fast rcur | _ :: _ => eb ++ rev_fast rcur end in
        let '(evs, cur', eb') := scan rb' [] [] in
        (ev :: evs, cur', eb')
      else scan rb' (c :: rcur) eb
  end.

Definition process_chunk (rb eb : bytes) (last : bool) : list bytes * bytes :=
  let '(evs, cur, eb') := scan rb [] eb in
  if last then (evs ++ [eb' ++ cur], []) else (evs, eb' ++ cur).

(* ---- processBulk: a read is a chunk or an error ------------------------------------------ *)
Inductive rd := Chunk (b : bytes) | ReadErr.

Fixpoint bulk_loop (reads : list rd) (eb : bytes) : list bytes * bytes * bool :=
  match reads with
  | [] => ([], eb, true)                                 (* n == 0 && err == io.EOF *)
  | ReadErr :: _ => ([], eb, false)                      (* return err *)
  | Chunk c :: rs =>
      let '(e1, eb1) := process_chunk c eb false in
      let '(e2, eb2, ok) := bulk_loop rs eb1 in
      (e1 ++ e2, eb2, ok)
  end.

(* events handed to the pipeline, and whether processBulk returned nil *)
Definition process_bulk_rd (reads : list rd) : list bytes * bool :=
  let '(evs, eb, ok) := bulk_loop reads [] in
  if ok then
    match eb with
    | [] => (evs, true)
    | _ :: _ => (evs ++ fst (process_chunk [] eb true), true)
    end
  else (evs, false).

Definition process_bulk (chunks : list bytes) : list bytes :=
  fst (process_bulk_rd (map Chunk chunks)).

(* serveBulk: 200 after processBulk returned nil, 400 otherwise *)
Definition serve_bulk (reads : list rd) : list bytes * Z :=
  let '(evs, ok) := process_bulk_rd reads in (evs, if ok then 200 else 400).

(* ---- specification: the newline-separated segments, the last one iff non-empty ---------- *)
(* complete lines (without their newline) and the unterminated tail of a byte string *)
Fixpoint lines_tail (b : bytes) : list bytes * bytes :=
  match b with
  | [] => ([], [])
  | c :: b' =>
      let '(ls, t) := lines_tail b' in
      if N.eqb c NL then ([] :: ls, t)
      else match ls with
           | [] => ([], c :: t)
           | l :: ls' => ((c :: l) :: ls', t)
           end
  end.

Definition split_body (b : bytes) : list bytes :=
  let '(ls, t) := lines_tail b in
  match t with [] => ls | _ :: _ => ls ++ [t] end.

Definition chunks_of (reads : list rd) : list bytes :=
  flat_map (fun r => match r with Chunk c => [c] | ReadErr => [] end) reads.
Definition no_err (reads : list rd) : bool :=
  forallb (fun r => match r with Chunk _ => true | ReadErr => false end) reads.

(* ---- source id free list (getSourceID / putSourceID under p.mu) -------------------------- *)
Record idpool := { free : list Z; seq : Z; held : list Z }.
Definition idpool0 : idpool := {| free := []; seq := 0; held := [] |}.
Inductive idop := Get | Put (k : nat).          (* Put k: the k-th current holder returns its id *)

Fixpoint remove_nth {A} (k : nat) (l : list A) : list A :=
  match l, k with
  | [], _ => []
  | _ :: r, O => r
  | x :: r, S k' => x :: remove_nth k' r
  end.

Definition id_step (p : idpool) (o : idop) : idpool * option Z :=
  match o with
  | Get =>
      let fr := match free p with [] => [seq p] | _ :: _ => free p end in
      let sq := match free p with [] => seq p + 1 | _ :: _ => seq p end in
      let x := last fr 0 in
      ({| free := removelast fr; seq := sq; held := held p ++ [x] |}, Some x)
  | Put k =>
      match nth_error (held p) k with
      | None => (p, None)
      | Some x => ({| free := free p ++ [x]; seq := seq p; held := remove_nth k (held p) |}, None)
      end
  end.

Fixpoint id_run (p : idpool) (ops : list idop) : idpool * list (option Z) :=
  match ops with
  | [] => (p, [])
  | o :: r => let '(p1, x) := id_step p o in let '(p2, xs) := id_run p1 r in (p2, x :: xs)
  end.

(* ---- exchange glue: case = (reads...) with read = bytes | 0 (error); obs = ((events...) status) *)
Definition rd_of_sx (s : sx) : option rd :=
  match s with SB b => Some (Chunk b) | SZ 0 => Some ReadErr | _ => None end.

Definition c11_model (case : sx) : option sx :=
  match as_list rd_of_sx case with
  | Some reads => let '(evs, st) := serve_bulk reads in Some (SL [SL (map SB evs); SZ st])
  | None => None
  end.

(* property predicate on the observed behaviour, independent of the operational model:
   status 200 => events are split_body of the whole body and no read failed;
   in any case the events are a prefix-consistent split of what was read. *)
Definition c11_pred (case obs : sx) : bool :=
  match as_list rd_of_sx case, obs with
  | Some reads, SL [SL evs; SZ st] =>
      if Z.eqb st 200
      then no_err reads && sx_eqb (SL evs) (SL (map SB (split_body (concat (chunks_of reads)))))
      else negb (no_err reads)
  | _, _ => false
  end.

Definition c11_run (case obs : sx) : verdict :=
  match c11_model case with
  | None => BadCase
  | Some m =>
      if sx_eqb m obs then (if c11_pred case obs then Agree else Violates m)
      else if c11_pred case obs then Differ m else Violates m
  end.

(* id pool glue: case = (ops...) op = -1 (Get) | k>=0 (Put k); obs = (ids returned by the Gets) *)
Definition idop_of_sx (s : sx) : option idop :=
  match s with SZ z => if Z.ltb z 0 then Some Get else Some (Put (Z.to_nat z)) | _ => None end.
Definition ids_of (xs : list (option Z)) : list sx :=
  flat_map (fun x => match x with Some z => [SZ z] | None => [] end) xs.
Definition c11_id_model (case : sx) : option sx :=
  match as_list idop_of_sx case with
  | Some ops => Some (SL (ids_of (snd (id_run idpool0 ops))))
  | None => None
  end.

(* concurrent requests: case = ((request ...) (order ...)); every request behaves as if alone *)
Definition c11_multi_model (case : sx) : option sx :=
  match case with
  | SL [SL reqs; SL _] =>
      match opt_map c11_model reqs with Some outs => Some (SL outs) | None => None end
  | _ => None
  end.
Definition c11_multi_pred (case obs : sx) : bool :=
  match case, obs with
  | SL [SL reqs; SL _], SL outs =>
      (fix go (rs os : list sx) : bool :=
         match rs, os with
         | [], [] => true
         | r :: rs', o :: os' => c11_pred r o && go rs' os'
         | _, _ => false
         end) reqs outs
  | _, _ => false
  end.
Definition c11_multi_run (case obs : sx) : verdict :=
  match c11_multi_model case with
  | None => BadCase
  | Some m =>
      if c11_multi_pred case obs then (if sx_eqb m obs then Agree else Differ m) else Violates m
  end.

(* a history of gzip requests on ONE plugin (which = 4): case = (request ...), request = (read ...) as above, or 1 = a body
   whose gzip header is bad (answered 400, no event).  Two of the good requests overlap in time (the harness holds one
   inside controller.In while the other is served); every request still behaves as if alone. *)
Definition c11_hist_model_one (r : sx) : option sx :=
  match r with
  | SZ 1 => Some (SL [SL []; SZ 400])
  | _ => c11_model r
  end.
Definition c11_hist_pred_one (r o : sx) : bool :=
  match r with
  | SZ 1 => sx_eqb o (SL [SL []; SZ 400])
  | _ => c11_pred r o
  end.
Definition c11_hist_run (case obs : sx) : verdict :=
  match case, obs with
  | SL reqs, SL outs =>
      match opt_map c11_hist_model_one reqs with
      | Some ms =>
          let ok := (fix go (rs os : list sx) : bool :=
                       match rs, os with
                       | [], [] => true
                       | r :: rs', o :: os' => c11_hist_pred_one r o && go rs' os'
                       | _, _ => false
                       end) reqs outs in
          if ok then (if sx_eqb (SL ms) obs then Agree else Differ (SL ms)) else Violates (SL ms)
      | None => BadCase
      end
  | _, _ => BadCase
  end.

(* ---- which = 5: one plain request whose scripted reads may return data TOGETHER with an error (io.Reader allows it,
   net/http bodies do it routinely).  read = #bytes | 0 as above, or
     (1 #bytes)  the bytes are returned with io.EOF on their last part; the body has ended (later reads are not reached)
     (2 #bytes)  the bytes are returned with a non-EOF error; the body has ended.
   Pure glue: the case is rewritten into the plain read list that processBulk sees.  (n > 0, io.EOF) is a chunk like
   any other followed by the end of the body.  (n > 0, err): processBulk as written returns the error without looking
   at the n bytes ([keep] = false); handing them over first ([keep] = true) is equally allowed by the property (no 200
   either way), so both readings are accepted.  The bytes of a (2 ..) read must fit the 16 KiB read buffer (a longer
   read would be split by Read and only its last part would carry the error). *)
Fixpoint norm_reads (keep : bool) (l : list sx) : option (list sx) :=
  match l with
  | [] => Some []
  | SL [SZ 1; SB b] :: _ => Some [SB b]
  | SL [SZ 2; SB b] :: _ =>
      if N.leb (N.of_nat (length b)) 16384%N
      then Some (if keep then [SB b; SZ 0] else [SZ 0]) else None
  | SL _ :: _ => None
  | x :: r => match norm_reads keep r with Some r' => Some (x :: r') | None => None end
  end.

Definition c11_ext_run (case obs : sx) : verdict :=
  match case with
  | SL l =>
      match norm_reads false l, norm_reads true l with
      | Some a, Some b =>
          match c11_run (SL a) obs with
          | Agree => Agree
          | v => match c11_run (SL b) obs with Agree => Agree | _ => v end
          end
      | _, _ => BadCase
      end
  | _ => BadCase
  end.

(* ---- which = 6: a history of gzip requests on ONE plugin with FAILING bodies of every kind, so that readers which
   failed in the middle of a stream go back to the pool and are reused.  case = (request ...), request =
     1                     not a gzip stream (bad header)                      -> no event, 400
     (0 #body)             gzip(body), delivered at once                       -> exact
     (3 #body k)           gzip(body), the COMPRESSED bytes arrive |k| at a time (k < 0: the last ones with io.EOF) -> exact
     (6 #b1 #b2)           two gzip members gzip(b1) ++ gzip(b2)               -> exact, body = b1 ++ b2 (multistream)
     (2 #body cut)         gzip(body) truncated to its first cut bytes         -> failing
     (4 #body cut k)       first cut compressed bytes (k at a time), then a read error -> failing
     (5 #body w)           gzip(body) with a wrong CRC (w = 0) / length (w = 1) trailer -> failing
     (7 #body #junk)       gzip(body) followed by junk that is no gzip header  -> failing
   A failing request must not be answered 200 (model: 400) and what it handed over before failing must be a prefix of
   the COMPLETE lines of its body (how far the decompressor got is below this model: relational clause).  Every other
   request behaves as if alone although the last two exact ones overlap in time, as for which = 4. *)
Fixpoint sx_prefix (a b : list sx) : bool :=
  match a, b with
  | [], _ => true
  | x :: a', y :: b' => sx_eqb x y && sx_prefix a' b'
  | _ :: _, [] => false
  end.

Definition fault_rel (body : bytes) (o : sx) : sx * bool :=
  match o with
  | SL [SL evs; SZ st] =>
      if sx_prefix evs (map SB (fst (lines_tail body)))
      then (SL [SL evs; SZ 400], negb (Z.eqb st 200))
      else (SL [SL []; SZ 400], false)
  | _ => (SL [SL []; SZ 400], false)
  end.

Definition fault_exact (c o : sx) : option (sx * bool) :=
  match c11_model c with Some m => Some (m, c11_pred c o) | None => None end.

Definition fault_one (r o : sx) : option (sx * bool) :=
  match r with
  | SZ 1 => Some (SL [SL []; SZ 400], sx_eqb o (SL [SL []; SZ 400]))
  | SL [SZ 0; SB b] => fault_exact (SL [SB b]) o
  | SL [SZ 3; SB b; SZ _] => fault_exact (SL [SB b]) o
  | SL [SZ 6; SB b1; SB b2] => fault_exact (SL [SB b1; SB b2]) o
  | SL [SZ 2; SB b; SZ _] => Some (fault_rel b o)
  | SL [SZ 4; SB b; SZ _; SZ _] => Some (fault_rel b o)
  | SL [SZ 5; SB b; SZ _] => Some (fault_rel b o)
  | SL [SZ 7; SB b; SB (j :: _)] => if N.eqb j 31 then None else Some (fault_rel b o)
  | _ => None
  end.

Fixpoint pairs_go (f : sx -> sx -> option (sx * bool)) (rs os : list sx) : option (list sx * bool) :=
  match rs, os with
  | [], [] => Some ([], true)
  | r :: rs', o :: os' =>
      match f r o, pairs_go f rs' os' with
      | Some (m, ok), Some (ms, oks) => Some (m :: ms, ok && oks)
      | _, _ => None
      end
  | _, _ => None
  end.

Definition pairs_run (f : sx -> sx -> option (sx * bool)) (case obs : sx) : verdict :=
  match case, obs with
  | SL rs, SL os =>
      match pairs_go f rs os with
      | Some (ms, ok) =>
          if ok then (if sx_eqb (SL ms) obs then Agree else Differ (SL ms)) else Violates (SL ms)
      | None => BadCase
      end
  | _, _ => BadCase
  end.

Definition c11_fault_run : sx -> sx -> verdict := pairs_run fault_one.

(* ---- which = 7: several PHASES of concurrent requests on one plugin (warm buffer pools): case = (phase ...),
   phase = ((request ...) (order ...) hold); obs = one which-3 observable per phase.  [hold] names a request the harness
   parks inside controller.In until the others of its phase are done (-1 = none); like the order it must not matter. *)
Definition phase_one (p o : sx) : option (sx * bool) :=
  match p with
  | SL [SL reqs; SL ord; SZ _] =>
      let p' := SL [SL reqs; SL ord] in
      match c11_multi_model p' with
      | Some m => Some (m, c11_multi_pred p' o)
      | None => None
      end
  | _ => None
  end.

Definition c11_phases_run : sx -> sx -> verdict := pairs_run phase_one.

(* entry point of the model runner (extracted, and evaluated by vm_compute in the cross-check):
   0 / 2 = one request (plain / gzip), 1 = source-id pool, 3 = concurrent requests, 4 = gzip request history,
   5 = one request with reads that return data together with an error, 6 = gzip histories with failing bodies,
   7 = phases of concurrent requests on one plugin *)
Definition c11_entry (which : Z) (case obs : sx) : verdict :=
  match which with
  | 0 | 2 => c11_run case obs
  | 3 => c11_multi_run case obs
  | 4 => c11_hist_run case obs
  | 5 => c11_ext_run case obs
  | 6 => c11_fault_run case obs
  | 7 => c11_phases_run case obs
  | _ => match c11_id_model case with
         | Some m => exact_verdict m obs
         | None => BadCase
         end
  end.
