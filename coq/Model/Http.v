(* Model of plugin/input/http/http.go: processBulk / processChunk / serveBulk / source-id free list.
   No proofs here (Proofs/Http.v), so the model still runs when a proof breaks. *)
From Verif Require Import Base.Sx.

Definition NL : byte := 10%N.

(* ---- processChunk ------------------------------------------------------------------------
   for pos < len(readBuff): on '\n' emit (eventBuff ++ readBuff[nlPos:pos]) if eventBuff is
   non-empty, else readBuff[nlPos:pos]; eventBuff = eventBuff[:0]; nlPos = pos+1.
   [eb] is the carry-over;
   [rcur] is the REVERSED readBuff[nlPos:pos] (so the model runs in linear time).             *)
Definition rev_fast (l : bytes) : bytes := rev_append l [].   (* = rev l (List.rev_alt), linear *)

Fixpoint scan (rb rcur eb : bytes) : list bytes * bytes * bytes :=
  match rb with
  | [] => ([], rev_fast rcur, eb)
  | c :: rb' =>
      if N.eqb c NL then
        let ev := match eb with [] => rev_fast rcur | _ :: _ => eb ++ rev_fast rcur end in
        let '(evs, cur', eb') := scan rb' [] [] in
        (ev :: evs, cur', eb')
      else scan rb' (c :: rcur) eb
  end.

Definition process_chunk (rb eb : bytes) (last : bool) : list bytes * bytes :=
  let '(evs, cur, eb') := scan rb [] eb in
  if last then (evs ++ [eb' ++ cur], []) else (evs, eb' ++ cur).

(* ---- processBulk: a read is a chunk or an error ------------------------------------------ *)
Inductive rd := Chunk (b : bytes) | ReadErr.

Fixpoint bulk_loop (reads : list rd) (eb : bytes) : list bytes * bytes * bool :=
  match reads with
  | [] => ([], eb, true)                                 (* n == 0 && err == io.EOF *)
  | ReadErr :: _ => ([], eb, false)                      (* return err *)
  | Chunk c :: rs =>
      let '(e1, eb1) := process_chunk c eb false in
      let '(e2, eb2, ok) := bulk_loop rs eb1 in
      (e1 ++ e2, eb2, ok)
  end.

(* events handed to the pipeline, and whether processBulk returned nil *)
Definition process_bulk_rd (reads : list rd) : list bytes * bool :=
  let '(evs, eb, ok) := bulk_loop reads [] in
  if ok then
    match eb with
    | [] => (evs, true)
    | _ :: _ => (evs ++ fst (process_chunk [] eb true), true)
    end
  else (evs, false).

Definition process_bulk (chunks : list bytes) : list bytes :=
  fst (process_bulk_rd (map Chunk chunks)).

(* serveBulk: 200 after processBulk returned nil, 400 otherwise *)
Definition serve_bulk (reads : list rd) : list bytes * Z :=
  let '(evs, ok) := process_bulk_rd reads in (evs, if ok then 200 else 400).

(* ---- specification: the newline-separated segments, the last one iff non-empty ---------- *)
(* complete lines (without their newline) and the unterminated tail of a byte string *)
Fixpoint lines_tail (b : bytes) : list bytes * bytes :=
  match b with
  | [] => ([], [])
  | c :: b' =>
      let '(ls, t) := lines_tail b' in
      if N.eqb c NL then ([] :: ls, t)
      else match ls with
           | [] => ([], c :: t)
           | l :: ls' => ((c :: l) :: ls', t)
           end
  end.

Definition split_body (b : bytes) : list bytes :=
  let '(ls, t) := lines_tail b in
  match t with [] => ls | _ :: _ => ls ++ [t] end.

Definition chunks_of (reads : list rd) : list bytes :=
  flat_map (fun r => match r with Chunk c => [c] | ReadErr => [] end) reads.
Definition no_err (reads : list rd) : bool :=
  forallb (fun r => match r with Chunk _ => true | ReadErr => false end) reads.

(* ---- source id free list (getSourceID / putSourceID under p.mu) -------------------------- *)
Record idpool := { free : list Z; seq : Z; held : list Z }.
Definition idpool0 : idpool := {| free := []; seq := 0; held := [] |}.
Inductive idop := Get | Put (k : nat).          (* Put k: the k-th current holder returns its id *)

Fixpoint remove_nth {A} (k : nat) (l : list A) : list A :=
  match l, k with
  | [], _ => []
  | _ :: r, O => r
  | x :: r, S k' => x :: remove_nth k' r
  end.

Definition id_step (p : idpool) (o : idop) : idpool * option Z :=
  match o with
  | Get =>
      let fr := match free p with [] => [seq p] | _ :: _ => free p end in
      let sq := match free p with [] => seq p + 1 | _ :: _ => seq p end in
      let x := last fr 0 in
      ({| free := removelast fr; seq := sq; held := held p ++ [x] |}, Some x)
  | Put k =>
      match nth_error (held p) k with
      | None => (p, None)
      | Some x => ({| free := free p ++ [x]; seq := seq p; held := remove_nth k (held p) |}, None)
      end
  end.

Fixpoint id_run (p : idpool) (ops : list idop) : idpool * list (option Z) :=
  match ops with
  | [] => (p, [])
  | o :: r => let '(p1, x) := id_step p o in let '(p2, xs) := id_run p1 r in (p2, x :: xs)
  end.

(* ---- exchange glue: case = (reads...) with read = bytes | 0 (error); obs = ((events...) status) *)
Definition rd_of_sx (s : sx) : option rd :=
  match s with SB b => Some (Chunk b) | SZ 0 => Some ReadErr | _ => None end.

Definition c11_model (case : sx) : option sx :=
  match as_list rd_of_sx case with
  | Some reads => let '(evs, st) := serve_bulk reads in Some (SL [SL (map SB evs); SZ st])
  | None => None
  end.

(* property predicate on the observed behaviour, independent of the operational model:
   status 200 => events are split_body of the whole body and no read failed;
   in any case the events are a prefix-consistent split of what was read. *)
Definition c11_pred (case obs : sx) : bool :=
  match as_list rd_of_sx case, obs with
  | Some reads, SL [SL evs; SZ st] =>
      if Z.eqb st 200
      then no_err reads && sx_eqb (SL evs) (SL (map SB (split_body (concat (chunks_of reads)))))
      else negb (no_err reads)
  | _, _ => false
  end.

Definition c11_run (case obs : sx) : verdict :=
  match c11_model case with
  | None => BadCase
  | Some m =>
      if sx_eqb m obs then (if c11_pred case obs then Agree else Violates m)
      else if c11_pred case obs then Differ m else Violates m
  end.

(* id pool glue: case = (ops...) op = -1 (Get) | k>=0 (Put k); obs = (ids returned by the Gets) *)
Definition idop_of_sx (s : sx) : option idop :=
  match s with SZ z => if Z.ltb z 0 then Some Get else Some (Put (Z.to_nat z)) | _ => None end.
Definition ids_of (xs : list (option Z)) : list sx :=
  flat_map (fun x => match x with Some z => [SZ z] | None => [] end) xs.
Definition c11_id_model (case : sx) : option sx :=
  match as_list idop_of_sx case with
  | Some ops => Some (SL (ids_of (snd (id_run idpool0 ops))))
  | None => None
  end.

(* concurrent requests: case = ((request ...) (order ...)); every request behaves as if alone *)
Definition c11_multi_model (case : sx) : option sx :=
  match case with
  | SL [SL reqs; SL _] =>
      match opt_map c11_model reqs with Some outs => Some (SL outs) | None => None end
  | _ => None
  end.
Definition c11_multi_pred (case obs : sx) : bool :=
  match case, obs with
  | SL [SL reqs; SL _], SL outs =>
      (fix go (rs os : list sx) : bool :=
         match rs, os with
         | [], [] => true
         | r :: rs', o :: os' => c11_pred r o && go rs' os'
         | _, _ => false
         end) reqs outs
  | _, _ => false
  end.
Definition c11_multi_run (case obs : sx) : verdict :=
  match c11_multi_model case with
  | None => BadCase
  | Some m =>
      if c11_multi_pred case obs then (if sx_eqb m obs then Agree else Differ m) else Violates m
  end.

(* a history of gzip requests on ONE plugin (which = 4): case = (request ...), request = (read ...) as above, or 1 = a body
   whose gzip header is bad (answered 400, no event).  Two of the good requests overlap in time (the harness holds one
   inside controller.In while the other is served); every request still behaves as if alone. *)
Definition c11_hist_model_one (r : sx) : option sx :=
  match r with
  | SZ 1 => Some (SL [SL []; SZ 400])
  | _ => c11_model r
  end.
Definition c11_hist_pred_one (r o : sx) : bool :=
  match r with
  | SZ 1 => sx_eqb o (SL [SL []; SZ 400])
  | _ => c11_pred r o
  end.
Definition c11_hist_run (case obs : sx) : verdict :=
  match case, obs with
  | SL reqs, SL outs =>
      match opt_map c11_hist_model_one reqs with
      | Some ms =>
          let ok := (fix go (rs os : list sx) : bool :=
                       match rs, os with
                       | [], [] => true
                       | r :: rs', o :: os' => c11_hist_pred_one r o && go rs' os'
                       | _, _ => false
                       end) reqs outs in
          if ok then (if sx_eqb (SL ms) obs then Agree else Differ (SL ms)) else Violates (SL ms)
      | None => BadCase
      end
  | _, _ => BadCase
  end.

(* ---- which = 5: one plain request whose scripted reads may return data TOGETHER with an error (io.Reader allows it,
   net/http bodies do it routinely).  read = #bytes | 0 as above, or
     (1 #bytes)  the bytes are returned with io.EOF on their last part; the body has ended (later reads are not reached)
     (2 #bytes)  the bytes are returned with a non-EOF error; the body has ended.
   Pure glue: the case is rewritten into the plain read list that processBulk sees.  (n > 0, io.EOF) is a chunk like
   any other followed by the end of the body.  (n > 0, err): processBulk as written returns the error without looking
   at the n bytes ([keep] = false); handing them over first ([keep] = true) is equally allowed by the property (no 200
   either way), so both readings are accepted.  The bytes of a (2 ..) read must fit the 16 KiB read buffer (a longer
   read would be split by Read and only its last part would carry the error). *)
Fixpoint norm_reads (keep : bool) (l : list sx) : option (list sx) :=
  match l with
  | [] => Some []
  | SL [SZ 1; SB b] :: _ => Some [SB b]
  | SL [SZ 2; SB b] :: _ =>
      if N.leb (N.of_nat (length b)) 16384%N
      then Some (if keep then [SB b; SZ 0] else [SZ 0]) else None
  | SL _ :: _ => None
  | x :: r => match norm_reads keep r with Some r' => Some (x :: r') | None => None end
  end.

Definition c11_ext_run (case obs : sx) : verdict :=
  match case with
  | SL l =>
      match norm_reads false l, norm_reads true l with
      | Some a, Some b =>
          match c11_run (SL a) obs with
          | Agree => Agree
          | v => match c11_run (SL b) obs with Agree => Agree | _ => v end
          end
      | _, _ => BadCase
      end
  | _ => BadCase
  end.

(* ---- which = 6: a history of gzip requests on ONE plugin with FAILING bodies of every kind, so that readers which
   failed in the middle of a stream go back to the pool and are reused.  case = (request ...), request =
     1                     not a gzip stream (bad header)                      -> no event, 400
     (0 #body)             gzip(body), delivered at once                       -> exact
     (3 #body k)           gzip(body), the COMPRESSED bytes arrive |k| at a time (k < 0: the last ones with io.EOF) -> exact
     (6 #b1 #b2)           two gzip members gzip(b1) ++ gzip(b2)               -> exact, body = b1 ++ b2 (multistream)
     (2 #body cut)         gzip(body) truncated to its first cut bytes         -> failing
     (4 #body cut k)       first cut compressed bytes (k at a time), then a read error -> failing
     (5 #body w)           gzip(body) with a wrong CRC (w = 0) / length (w = 1) trailer -> failing
     (7 #body #junk)       gzip(body) followed by junk that is no gzip header  -> failing
   A failing request must not be answered 200 (model: 400) and what it handed over before failing must be a prefix of
   the COMPLETE lines of its body (how far the decompressor got is below this model: relational clause).  Every other
   request behaves as if alone although the last two exact ones overlap in time, as for which = 4. *)
Fixpoint sx_prefix (a b : list sx) : bool :=
  match a, b with
  | [], _ => true
  | x :: a', y :: b' => sx_eqb x y && sx_prefix a' b'
  | _ :: _, [] => false
  end.

Definition fault_rel (body : bytes) (o : sx) : sx * bool :=
  match o with
  | SL [SL evs; SZ st] =>
      if sx_prefix evs (map SB (fst (lines_tail body)))
      then (SL [SL evs; SZ 400], negb (Z.eqb st 200))
      else (SL [SL []; SZ 400], false)
  | _ => (SL [SL []; SZ 400], false)
  end.

Definition fault_exact (c o : sx) : option (sx * bool) :=
  match c11_model c with Some m => Some (m, c11_pred c o) | None => None end.

Definition fault_one (r o : sx) : option (sx * bool) :=
  match r with
  | SZ 1 => Some (SL [SL []; SZ 400], sx_eqb o (SL [SL []; SZ 400]))
  | SL [SZ 0; SB b] => fault_exact (SL [SB b]) o
  | SL [SZ 3; SB b; SZ _] => fault_exact (SL [SB b]) o
  | SL [SZ 6; SB b1; SB b2] => fault_exact (SL [SB b1; SB b2]) o
  | SL [SZ 2; SB b; SZ _] => Some (fault_rel b o)
  | SL [SZ 4; SB b; SZ _; SZ _] => Some (fault_rel b o)
  | SL [SZ 5; SB b; SZ _] => Some (fault_rel b o)
  | SL [SZ 7; SB b; SB (j :: _)] => if N.eqb j 31 then None else Some (fault_rel b o)
  | _ => None
  end.

Fixpoint pairs_go (f : sx -> sx -> option (sx * bool)) (rs os : list sx) : option (list sx * bool) :=
  match rs, os with
  | [], [] => Some ([], true)
  | r :: rs', o :: os' =>
      match f r o, pairs_go f rs' os' with
      | Some (m, ok), Some (ms, oks) => Some (m :: ms, ok && oks)
      | _, _ => None
      end
  | _, _ => None
  end.

Definition pairs_run (f : sx -> sx -> option (sx * bool)) (case obs : sx) : verdict :=
  match case, obs with
  | SL rs, SL os =>
      match pairs_go f rs os with
      | Some (ms, ok) =>
          if ok then (if sx_eqb (SL ms) obs then Agree else Differ (SL ms)) else Violates (SL ms)
      | None => BadCase
      end
  | _, _ => BadCase
  end.

Definition c11_fault_run : sx -> sx -> verdict := pairs_run fault_one.

(* ---- which = 7: several PHASES of concurrent requests on one plugin (warm buffer pools): case = (phase ...),
   phase = ((request ...) (order ...) hold); obs = one which-3 observable per phase.  [hold] names a request the harness
   parks inside controller.In until the others of its phase are done (-1 = none); like the order it must not matter. *)
Definition phase_one (p o : sx) : option (sx * bool) :=
  match p with
  | SL [SL reqs; SL ord; SZ _] =>
      let p' := SL [SL reqs; SL ord] in
      match c11_multi_model p' with
      | Some m => Some (m, c11_multi_pred p' o)
      | None => None
      end
  | _ => None
  end.

Definition c11_phases_run : sx -> sx -> verdict := pairs_run phase_one.

(* ---- which = 8: requests on one plugin under a controller whose In BLOCKS BEFORE IT READS ITS BYTES (back-pressure),
   driven by a sequential script: case = ((procs) (request ...) (step ...)), request = (gz (read ...) (park ...)).
   [gz] = 1: the reads are the gzip members of the body (all of them bytes); [park] = the In calls of the request at
   which the controller blocks before looking at the bytes; [step] = which request runs next / -1 = every buffer in the
   plugin's pools is overwritten; [procs] = GOMAXPROCS of the run.  obs = one ((event ...) status) per request, the
   events being what the controller reads AFTER the gate of that In call was released.
   None of procs / gz / park / step may matter: every request behaves as if alone ([c11_model] of its reads) and the
   property's predicate [c11_pred] is evaluated per request on the bytes seen after the release. *)
Definition gated_reads_ok (gz : Z) (reads : sx) : bool :=
  if Z.eqb gz 1
  then match reads with
       | SL l => forallb (fun r => match r with SB _ => true | _ => false end) l
       | _ => false
       end
  else Z.eqb gz 0.

Definition all_ints (l : list sx) : bool := forallb (fun r => match r with SZ _ => true | _ => false end) l.

Definition gated_one (r o : sx) : option (sx * bool) :=
  match r with
  | SL [SZ gz; reads; SL parks] =>
      if gated_reads_ok gz reads && all_ints parks
      then match c11_model reads with
           | Some m => Some (m, c11_pred reads o)
           | None => None
           end
      else None
  | _ => None
  end.

Definition c11_gated_run (case obs : sx) : verdict :=
  match case with
  | SL [SL cfg; SL reqs; SL steps] =>
      if all_ints cfg && all_ints steps then pairs_run gated_one (SL reqs) obs else BadCase
  | _ => BadCase
  end.

(* ---- buffer-level model: pooled buffers, views handed to a controller that reads them LATER --------------------------
   The value-level model above cannot exhibit aliasing: there an event IS a byte string.  In the Go code an event is a
   VIEW (a slice) of the request's read buffer or of its carry-over buffer, both taken from / returned to sync.Pools
   that all requests of the plugin share, and controller.In may look at the view arbitrarily late before it returns
   (the real pipeline.In first waits for a free event).  This machine has a shared heap of buffers, one free list, and
   per request the two local variables readBuff (RB) / eventBuff (EB).  A request is a list of operations:
     OGet s          newReadBuff / newEventBuffs: a buffer is taken out of the pool (ANY of the pooled ones, or a new one:
                     sync.Pool promises nothing) and becomes the request's buffer s; the request never looks at what it
                     held before (eventBuff is resliced to [:0], readBuff is only viewed below the n bytes just read)
     OWrite s d      buffer s now holds d (r.Read into readBuff; append to eventBuff, growth included; eventBuff[:0])
     OIn s off len   controller.In(buf_s[off:off+len]) is called and blocks
     ORet            ... the controller reads the view NOW and In returns
     OPut s          the buffer goes back to the pool; the local variable keeps pointing at it (as in Go)
   The machine is total: it executes ill-behaved programs too (a view of a buffer that was Put before: the seeded
   regression), which is what makes the refutation example possible.  [own], [loc] and the bytes in [pend] are ghost
   state for the proofs; no step depends on them. *)
Inductive slot := RB | EB.
Record two (A : Type) := mk2 { at_rb : A; at_eb : A }.
Arguments mk2 {A}. Arguments at_rb {A}. Arguments at_eb {A}.
Definition get2 {A} (t : two A) (s : slot) : A := match s with RB => at_rb t | EB => at_eb t end.
Definition set2 {A} (t : two A) (s : slot) (x : A) : two A :=
  match s with RB => mk2 x (at_eb t) | EB => mk2 (at_rb t) x end.

Definition view (l : bytes) (off len : nat) : bytes := firstn len (skipn off l).

Inductive op :=
| OGet (s : slot) | OWrite (s : slot) (d : bytes) | OIn (s : slot) (off len : nat) | ORet | OPut (s : slot).

Record rstate := mkR { prog : list op; arr : two (option nat); own : two bool; loc : two bytes;
                       pend : option (nat * nat * nat * bytes); outs : list bytes }.
Record mstate := mkM { heap : nat -> bytes; pool : list nat; fresh : nat; rq : nat -> rstate }.

Definition upd {A} (f : nat -> A) (k : nat) (x : A) : nat -> A := fun j => if Nat.eqb j k then x else f j.

(* Get: the k-th pooled buffer, or a new one when there is no k-th (an empty pool, or sync.Pool just does not find it) *)
Definition take_pool (k : nat) (st : mstate) : nat * list nat * nat :=
  match nth_error (pool st) k with
  | Some b => (b, remove_nth k (pool st), fresh st)
  | None => (fresh st, pool st, S (fresh st))
  end.

Definition exec_op (st : mstate) (r k : nat) (rs : rstate) (o : op) (rest : list op) : mstate :=
  let skip := mkM (heap st) (pool st) (fresh st)
                  (upd (rq st) r (mkR rest (arr rs) (own rs) (loc rs) (pend rs) (outs rs))) in
  match o with
  | OGet s =>
      let '(b, pl, fr) := take_pool k st in
      mkM (upd (heap st) b []) pl fr
          (upd (rq st) r (mkR rest (set2 (arr rs) s (Some b)) (set2 (own rs) s true) (set2 (loc rs) s [])
                              (pend rs) (outs rs)))
  | OWrite s d =>
      match get2 (arr rs) s with
      | Some b => mkM (upd (heap st) b d) (pool st) (fresh st)
                      (upd (rq st) r (mkR rest (arr rs) (own rs) (set2 (loc rs) s d) (pend rs) (outs rs)))
      | None => skip
      end
  | OIn s off len =>
      match get2 (arr rs) s with
      | Some b => mkM (heap st) (pool st) (fresh st)
                      (upd (rq st) r (mkR rest (arr rs) (own rs) (loc rs)
                                          (Some (b, off, len, view (heap st b) off len)) (outs rs)))
      | None => skip
      end
  | ORet =>
      match pend rs with
      | Some (b, off, len, _) =>
          mkM (heap st) (pool st) (fresh st)
              (upd (rq st) r (mkR rest (arr rs) (own rs) (loc rs) None (view (heap st b) off len :: outs rs)))
      | None => skip
      end
  | OPut s =>
      match get2 (arr rs) s with
      | Some b => mkM (heap st) (b :: pool st) (fresh st)
                      (upd (rq st) r (mkR rest (arr rs) (set2 (own rs) s false) (loc rs) (pend rs) (outs rs)))
      | None => skip
      end
  end.

(* a schedule: request r performs its next operation (k = which pooled buffer a Get finds), or somebody scribbles over
   every buffer that currently sits in the pool (the harness' poison step; any foreign user of free memory) *)
Inductive sstep := SRun (r k : nat) | SPoison (f : nat -> bytes).

Definition mstep (st : mstate) (x : sstep) : mstate :=
  match x with
  | SRun r k =>
      let rs := rq st r in
      match prog rs with [] => st | o :: rest => exec_op st r k rs o rest end
  | SPoison f =>
      mkM (fun b => if existsb (Nat.eqb b) (pool st) then f b else heap st b) (pool st) (fresh st) (rq st)
  end.

Definition run_sched (sch : list sstep) (st : mstate) : mstate := fold_left mstep sch st.

Definition rstate0 (p : list op) : rstate := mkR p (mk2 None None) (mk2 false false) (mk2 [] []) None [].
Definition init_st (progs : nat -> list op) : mstate := mkM (fun _ => []) [] 0 (fun r => rstate0 (progs r)).

(* what a request hands over when nobody interferes: its own writes, its own views *)
Fixpoint intended (l : two bytes) (p : list op) : list bytes :=
  match p with
  | [] => []
  | OGet s :: p' => intended (set2 l s []) p'
  | OWrite s d :: p' => intended (set2 l s d) p'
  | OIn s off len :: p' => view (get2 l s) off len :: intended l p'
  | _ :: p' => intended l p'
  end.

(* the discipline: a buffer is written, viewed and Put only while the request holds it, it is held until In returned,
   and a request blocked in In does nothing but return from it *)
Fixpoint wf_from (o : two bool) (pending : bool) (p : list op) : bool :=
  match p with
  | [] => negb pending
  | OGet s :: p' => negb pending && negb (get2 o s) && wf_from (set2 o s true) false p'
  | OWrite s _ :: p' => negb pending && get2 o s && wf_from o false p'
  | OIn s _ _ :: p' => negb pending && get2 o s && wf_from o true p'
  | ORet :: p' => pending && wf_from o false p'
  | OPut s :: p' => negb pending && get2 o s && wf_from (set2 o s false) false p'
  end.

(* processBulk / processChunk as such a program (http.go:524-583), positions as in the Go code:
   readBuff[nlPos:pos] is a view of RB, a joined line and the final unterminated line are views of EB *)
Fixpoint scan_ops (full rb : bytes) (nlPos pos : nat) (eb : bytes) : list op :=
  match rb with
  | [] => [OWrite EB (eb ++ view full nlPos (pos - nlPos))]
  | c :: rb' =>
      if N.eqb c NL then
        (match eb with
         | [] => [OIn RB nlPos (pos - nlPos); ORet]
         | _ :: _ => [OWrite EB (eb ++ view full nlPos (pos - nlPos));
                      OIn EB 0 (length (eb ++ view full nlPos (pos - nlPos))); ORet; OWrite EB []]
         end) ++ scan_ops full rb' (S pos) (S pos) []
      else scan_ops full rb' nlPos (S pos) eb
  end.

(* [early] = the seeded variant: both buffers go back to the pools right after EOF, before the tail is flushed *)
Fixpoint loop_ops (early : bool) (reads : list rd) (eb : bytes) : list op :=
  match reads with
  | [] =>
      (if early then [OPut EB; OPut RB] else []) ++
      match eb with [] => [] | _ :: _ => [OIn EB 0 (length eb); ORet; OWrite EB []] end
  | ReadErr :: _ => if early then [OPut EB; OPut RB] else []
  | Chunk c :: rs =>
      OWrite RB c :: scan_ops c c 0 0 eb ++ loop_ops early rs (snd (process_chunk c eb false))
  end.

Definition bulk_ops (reads : list rd) : list op :=
  OGet RB :: OGet EB :: loop_ops false reads [] ++ [OPut EB; OPut RB].
Definition bulk_ops_early_put (reads : list rd) : list op :=
  OGet RB :: OGet EB :: loop_ops true reads [].

(* ---- which = 9: the request ROUTE in front of serveBulk (http.go ServeHTTP / auth / serveBulk's method check, and
   elasticsearch.go): CORS headers, OPTIONS, authentication (disabled / basic / bearer, header override), meta templates,
   emulate mode (no / elasticsearch with its non-bulk paths).  The property's clauses are about requests that are
   INGESTED; this sub-model says which requests are (and that nothing else ever hands an event to the pipeline), and
   that for an ingested request none of the options changes what serve_bulk does with the body.
   case = (cfg (request ...)), all requests run one after another on one plugin configured by cfg:
     cfg     = (mode strat #hdr ((#name #secret) ...) (#origin-pattern ...) hdrs meta)
               mode 0 = no emulation, 1 = elasticsearch; strat 0 = disabled, 1 = basic, 2 = bearer; #hdr = auth.header;
               hdrs = 1: cors.allowed_headers / exposed_headers are configured; meta = 1: meta templates are configured
     request = (method #path #hsel cred #origin ((#cf v) (#xff v) (#xreal v) (#remote v)) #q gz (read ...))
               method 0 POST | 1 GET | 2 OPTIONS | 3 PUT | 4 DELETE;  #hsel = the header that carries the credentials;
               cred = 0 | (1 #user #pass) -> "Basic " b64(user:pass) | (2 #token) -> "Bearer " token | (3 #raw);
               the ip candidates with v = whether net.ParseIP accepts the text (for RemoteAddr: its part before the
               first ':'), checked by the harness as an oracle; #q = value of the query argument q ("" = none)
     obs     = (((event ...) status class #allow-origin (meta ...)) ...)
               class = which canned body a 200 carried: 0 none | 1 bulk result | 2 info | 3 xpack | 4 license | 5 {}
               meta  = () or (#login #ip #q-rendered): the meta handed over with the events of the request         *)
Definition S_BEARER : bytes := [66;101;97;114;101;114;32]%N.   (* "Bearer " *)
Definition S_BASIC_L : bytes := [98;97;115;105;99;32]%N.        (* "basic " *)
Definition P_BULK : bytes := [47;95;98;117;108;107]%N.          (* "/_bulk" *)
Definition P_ROOT : bytes := [47]%N.                            (* "/" *)
Definition P_XPACK : bytes := [47;95;120;112;97;99;107]%N.      (* "/_xpack" *)
Definition P_LICENSE : bytes := [47;95;108;105;99;101;110;115;101]%N.   (* "/_license" *)
Definition P_ILM : bytes := [47;95;105;108;109;47;112;111;108;105;99;121]%N.   (* "/_ilm/policy" *)
Definition P_IDXT : bytes := [47;95;105;110;100;101;120;95;116;101;109;112;108;97;116;101]%N.   (* "/_index_template" *)
Definition P_TMPL : bytes := [47;95;116;101;109;112;108;97;116;101]%N.   (* "/_template" *)
Definition P_INGEST : bytes := [47;95;105;110;103;101;115;116]%N.   (* "/_ingest" *)
Definition P_NODES : bytes := [47;95;110;111;100;101;115]%N.    (* "/_nodes" *)
Definition S_NIL : bytes := [60;110;105;108;62]%N.              (* "<nil>" *)
Definition S_STAR : bytes := [42]%N.                            (* "*" *)

Fixpoint is_prefix (p l : bytes) : bool :=
  match p, l with
  | [], _ => true
  | x :: p', y :: l' => N.eqb x y && is_prefix p' l'
  | _ :: _, [] => false
  end.
Definition is_suffix (s l : bytes) : bool := is_prefix (rev_fast s) (rev_fast l).
Definition is_nil {A} (l : list A) : bool := match l with [] => true | _ :: _ => false end.

Inductive cred := CNone | CBasic (u p : bytes) | CBearer (t : bytes) | CRaw (v : bytes).
Record rcfg := mkCfg { c_mode : Z; c_strat : Z; c_hdr : bytes; c_secrets : list (bytes * bytes);
                       c_origins : list bytes; c_meta : bool }.
Record ipc := mkIp { ip_text : bytes; ip_valid : bool }.
Record rreq := mkReq { q_method : Z; q_path : bytes; q_hsel : bytes; q_cred : cred; q_origin : bytes;
                       q_cf : ipc; q_xff : ipc; q_xreal : ipc; q_remote : ipc; q_q : bytes; q_gz : bool;
                       q_reads : list rd }.

(* Secrets[user] / nameByBearerToken[token] *)
Fixpoint lookup (k : bytes) (l : list (bytes * bytes)) : option bytes :=
  match l with
  | [] => None
  | (a, b) :: r => if N_eqb_list a k then Some b else lookup k r
  end.
Fixpoint rlookup (v : bytes) (l : list (bytes * bytes)) : option bytes :=
  match l with
  | [] => None
  | (a, b) :: r => if N_eqb_list b v then Some a else rlookup v r
  end.

(* what sits in the header named auth.header (authBasic copies exactly that header over Authorization first) *)
Definition eff_cred (c : rcfg) (q : rreq) : cred := if N_eqb_list (q_hsel q) (c_hdr c) then q_cred q else CNone.

Definition bearer_token (cr : cred) : option bytes :=
  match cr with
  | CBearer t => Some t
  | CRaw v => if is_prefix S_BEARER v then Some (skipn 7 v) else None
  | _ => None
  end.

(* auth (http.go:605-647).  AuthPanic: basic strategy, a user that is not configured and an empty password:
   Secrets[user] = "" = password makes authBasic say yes, and the success counter of that user does not exist
   (nil *metric.Counter): the handler panics before anything is read; net/http recovers it and drops the connection *)
Inductive auth_res := AuthOk (login : bytes) | AuthFail | AuthPanic.
Definition auth (c : rcfg) (q : rreq) : auth_res :=
  if Z.eqb (c_strat c) 0 then AuthOk []
  else if Z.eqb (c_strat c) 1 then
    match eff_cred c q with
    | CBasic u p =>
        match lookup u (c_secrets c) with
        | Some s => if N_eqb_list s p then AuthOk u else AuthFail
        | None => match p with [] => AuthPanic | _ :: _ => AuthFail end
        end
    | _ => AuthFail
    end
  else
    match bearer_token (eff_cred c q) with
    | Some t => match rlookup t (c_secrets c) with Some n => AuthOk n | None => AuthFail end
    | None => AuthFail
    end.
Definition auth_ok (a : auth_res) : bool := match a with AuthOk _ => true | _ => false end.

(* the specification of "this request presents a configured secret", independent of [auth] *)
Definition authorised (c : rcfg) (q : rreq) : bool :=
  if Z.eqb (c_strat c) 0 then true
  else if Z.eqb (c_strat c) 1 then
    match eff_cred c q with
    | CBasic u p => existsb (fun np => N_eqb_list (fst np) u && N_eqb_list (snd np) p) (c_secrets c)
    | _ => false
    end
  else
    match bearer_token (eff_cred c q) with
    | Some t => existsb (fun np => N_eqb_list (snd np) t) (c_secrets c)
    | None => false
    end.

Definition bulk_route (c : rcfg) (q : rreq) : bool := Z.eqb (c_mode c) 0 || N_eqb_list (q_path q) P_BULK.

(* elasticsearch.go / http.go:442-479: the paths that are answered without reading the body *)
Definition es_class (q : rreq) : Z :=
  if N_eqb_list (q_path q) P_ROOT then (if Z.eqb (q_method q) 1 then 2 else 0)
  else if N_eqb_list (q_path q) P_XPACK then 3
  else if N_eqb_list (q_path q) P_LICENSE then 4
  else if existsb (fun p => is_prefix p (q_path q)) [P_ILM; P_IDXT; P_TMPL; P_INGEST; P_NODES] then 5
  else 0.

(* the request is handed to processBulk *)
Definition ingests (c : rcfg) (q : rreq) : bool :=
  negb (Z.eqb (q_method q) 2) && auth_ok (auth c q) && bulk_route c q && Z.eqb (q_method q) 0.

(* ServeHTTP: (events, status, class) *)
Definition route (c : rcfg) (q : rreq) : list bytes * Z * Z :=
  if Z.eqb (q_method q) 2 then ([], 200, 0)
  else match auth c q with
       | AuthPanic => ([], -1, 0)
       | AuthFail => ([], 401, 0)
       | AuthOk _ =>
           if bulk_route c q then
             if Z.eqb (q_method q) 0
             then let '(evs, st) := serve_bulk (q_reads q) in (evs, st, if Z.eqb st 200 then 1 else 0)
             else ([], 405, 0)
           else ([], 200, es_class q)
       end.

(* CORS (http.go:223-265): patterns are lower-cased at start-up (the glue only accepts lower-case ones), "*" alone
   allows everything, one '*' inside a pattern = prefix + suffix match of a strictly longer origin *)
Fixpoint split_star (ao : bytes) : option (bytes * bytes) :=
  match ao with
  | [] => None
  | ch :: r =>
      if N.eqb ch 42 then Some ([], r)
      else match split_star r with Some (pre, suf) => Some (ch :: pre, suf) | None => None end
  end.
Definition origin_match (origin ao : bytes) : bool :=
  match split_star ao with
  | None => negb (is_nil ao) && N_eqb_list origin ao
  | Some (pre, suf) =>
      let ps := (length pre + length suf)%nat in
      Nat.ltb 0 ps && Nat.ltb ps (length origin) && is_prefix pre origin && is_suffix suf origin
  end.
Definition allow_origin (c : rcfg) (origin : bytes) : bytes :=
  if existsb (N_eqb_list S_STAR) (c_origins c) then origin
  else if existsb (origin_match origin) (c_origins c) then origin
  else S_STAR.

(* getUserIP (http.go:664-680) + "{{ .remote_addr }}" *)
Fixpoint before_colon (l : bytes) : bytes :=
  match l with [] => [] | ch :: r => if N.eqb ch 58 then [] else ch :: before_colon r end.
Definition pick_ip (q : rreq) : bytes :=
  let show := fun (t : bytes) (v : bool) => if v then t else S_NIL in
  if negb (is_nil (ip_text (q_cf q))) then show (ip_text (q_cf q)) (ip_valid (q_cf q))
  else if negb (is_nil (ip_text (q_xff q))) then show (ip_text (q_xff q)) (ip_valid (q_xff q))
  else if negb (is_nil (ip_text (q_xreal q))) then show (ip_text (q_xreal q)) (ip_valid (q_xreal q))
  else show (before_colon (ip_text (q_remote q))) (ip_valid (q_remote q)).

Definition route_meta (c : rcfg) (q : rreq) (evs : list bytes) : list sx :=
  if c_meta c && negb (is_nil evs)
  then match auth c q with
       | AuthOk login => [SB login; SB (pick_ip q); SB (91%N :: q_q q ++ [93%N])]
       | _ => []
       end
  else [].

(* glue *)
Definition cred_of_sx (s : sx) : option cred :=
  match s with
  | SZ 0 => Some CNone
  | SL [SZ 1; SB u; SB p] => Some (CBasic u p)
  | SL [SZ 2; SB t] => Some (CBearer t)
  | SL [SZ 3; SB v] => Some (CRaw v)
  | _ => None
  end.
Definition pair_of_sx (s : sx) : option (bytes * bytes) :=
  match s with SL [SB a; SB b] => Some (a, b) | _ => None end.
Definition ipc_of_sx (s : sx) : option ipc :=
  match s with SL [SB t; SZ 0] => Some (mkIp t false) | SL [SB t; SZ 1] => Some (mkIp t true) | _ => None end.
Definition cfg_of_sx (s : sx) : option rcfg :=
  match s with
  | SL [SZ mode; SZ strat; SB hdr; secrets; origins; SZ hdrs; SZ meta] =>
      match as_list pair_of_sx secrets, as_list as_B origins with
      | Some sec, Some ors =>
          if (Z.eqb mode 0 || Z.eqb mode 1) && (Z.eqb strat 0 || Z.eqb strat 1 || Z.eqb strat 2)
             && (Z.eqb hdrs 0 || Z.eqb hdrs 1) && (Z.eqb meta 0 || Z.eqb meta 1)
          then Some (mkCfg mode strat hdr sec ors (Z.eqb meta 1)) else None
      | _, _ => None
      end
  | _ => None
  end.
Definition req_of_sx (s : sx) : option (rreq * sx) :=
  match s with
  | SL [SZ m; SB path; SB hsel; cr; SB origin; SL [cf; xff; xreal; remote]; SB qv; SZ gz; reads] =>
      match cred_of_sx cr, ipc_of_sx cf, ipc_of_sx xff, ipc_of_sx xreal, ipc_of_sx remote, as_list rd_of_sx reads with
      | Some cr', Some a, Some b, Some c', Some d, Some rds =>
          if Z.leb 0 m && Z.leb m 4 && gated_reads_ok gz reads
          then Some (mkReq m path hsel cr' origin a b c' d qv (Z.eqb gz 1) rds, reads) else None
      | _, _, _, _, _, _ => None
      end
  | _ => None
  end.

(* what the glue rejects (the harness never generates it): a second '*' in an origin pattern (Fatal at start-up),
   upper-case patterns (ToLower is outside the model), two secrets with one name / one value (Go map), a ':' in a basic
   user name (it would end the name), a raw header that net/http would parse as basic credentials *)
Fixpoint distinct (l : list bytes) : bool :=
  match l with [] => true | x :: r => negb (existsb (N_eqb_list x) r) && distinct r end.
Definition lower_b (ch : byte) : byte := if N.leb 65 ch && N.leb ch 90 then (ch + 32)%N else ch.
Definition pattern_ok (ao : bytes) : bool :=
  forallb (fun ch => negb (N.leb 65 ch && N.leb ch 90)) ao &&
  match split_star ao with Some (_, suf) => negb (existsb (N.eqb 42) suf) | None => true end.
Definition cfg_ok (c : rcfg) : bool :=
  distinct (map fst (c_secrets c)) && distinct (map snd (c_secrets c)) && forallb pattern_ok (c_origins c).
Definition cred_ok (cr : cred) : bool :=
  match cr with
  | CBasic u _ => negb (existsb (N.eqb 58) u)
  | CRaw v => negb (N_eqb_list (map lower_b (firstn 6 v)) S_BASIC_L)
  | _ => true
  end.

Definition route_one (c : rcfg) (r o : sx) : option (sx * bool) :=
  match req_of_sx r with
  | Some (q, reads) =>
      if cred_ok (q_cred q) then
        let '(evs, st, cl) := route c q in
        let m := SL [SL (map SB evs); SZ st; SZ cl; SB (allow_origin c (q_origin q)); SL (route_meta c q evs)] in
        let ok := match o with
                  | SL [SL oevs; SZ ost; _; _; _] =>
                      if ingests c q then c11_pred reads (SL [SL oevs; SZ ost])
                      else is_nil oevs && (authorised c q || Z.eqb (q_method q) 2 || negb (Z.eqb ost 200))
                  | _ => false
                  end in
        Some (m, ok)
      else None
  | None => None
  end.

Definition c11_route_run (case obs : sx) : verdict :=
  match case with
  | SL [cfg; reqs] =>
      match cfg_of_sx cfg with
      | Some c => if cfg_ok c then pairs_run (route_one c) reqs obs else BadCase
      | None => BadCase
      end
  | _ => BadCase
  end.

(* ---- which = 10: requests sent over a REAL connection to the plugin's own listener (Start -> listenHTTP, plain or TLS):
   case = ((int ...) (request ...)), request = (gz piece (#write ...)): the client sends the body in the given writes
   (chunked transfer encoding, one HTTP chunk per write, or Content-Length framing; gz = 1: the gzip of the whole body in
   pieces of [piece] bytes).  How the transport hands the bytes to processBulk is not under the harness' control and,
   by the chunking theorem, cannot matter: every request behaves as c11_model of its writes.  Several requests of a case
   are sent concurrently over connections of their own.                                                              *)
Definition all_bytes (l : list sx) : bool := forallb (fun r => match r with SB _ => true | _ => false end) l.
Definition wire_one (r o : sx) : option (sx * bool) :=
  match r with
  | SL [SZ gz; SZ _; SL ws] =>
      if (Z.eqb gz 0 || Z.eqb gz 1) && all_bytes ws then fault_exact (SL ws) o else None
  | _ => None
  end.
Definition c11_wire_run (case obs : sx) : verdict :=
  match case with
  | SL [SL cfg; reqs] => if all_ints cfg then pairs_run wire_one reqs obs else BadCase
  | _ => BadCase
  end.

(* ---- which = 11: Stop() while a request is in flight on the plugin's own listener.  case = (gz park abort (#write ...)):
   the request is parked inside controller.In at its park-th event (if it has that many), Stop is called, then the
   request is released.  abort = 1: the client has closed the connection before the end of the body (a read error on
   the real transport).  obs = ((event ...) status early refused): early = 1 iff Stop returned while the request was
   still parked, refused = 1 iff the address no longer accepts connections after Stop.
   abort = 0: the request is completed and answered as if nothing happened; abort = 1: no answer (status 0), what was
   handed over is a prefix of the complete lines of what was sent.  In both cases Stop waits for the request.        *)
Definition c11_stop_run (case obs : sx) : verdict :=
  match case, obs with
  | SL [SZ gz; SZ park; SZ abort; SL ws], SL [SL evs; SZ st; SZ early; SZ refused] =>
      if (Z.eqb gz 0 || Z.eqb gz 1) && (Z.eqb abort 0 || Z.eqb abort 1) && all_bytes ws then
        let flags := Z.eqb early 0 && Z.eqb refused 1 in
        if Z.eqb abort 0 then
          match c11_model (SL ws) with
          | Some (SL [mevs; mst]) =>
              let m := SL [mevs; mst; SZ 0; SZ 1] in
              if c11_pred (SL ws) (SL [SL evs; SZ st]) && flags
              then (if sx_eqb m obs then Agree else Differ m) else Violates m
          | _ => BadCase
          end
        else
          let body := concat (flat_map (fun w => match w with SB b => [b] | _ => [] end) ws) in
          let m := SL [SL evs; SZ 0; SZ 0; SZ 1] in
          if sx_prefix evs (map SB (fst (lines_tail body))) && negb (Z.eqb st 200) && flags
          then (if sx_eqb m obs then Agree else Differ m)
          else Violates (SL [SL []; SZ 0; SZ 0; SZ 1])
      else BadCase
  | _, _ => BadCase
  end.

(* ---- which = 12 / 13: the request HEADERS and the META configuration as part of the case ---------------------------------
   Everything ServeHTTP does in front of serveBulk is handed the whole *http.Request: auth reads headers,
   newMetaInformation / GetData / the meta templates get the request itself (http.go:427-433, 681-712).  net/http offers
   methods on it that READ THE BODY depending on the request's headers (ParseForm / FormValue for Content-Type
   application/x-www-form-urlencoded, ParseMultipartForm / MultipartReader for multipart/form-data).  The property
   speaks about "any request body": none of the headers, the query, the framing or the configured templates may change
   what is handed over.  In this model they are arguments that reach ONLY the meta that travels with the events:
     tmpls     config.Meta = ((name, template source) ...)
     hdrs      the header lines of the request beyond those the route model interprets (Content-Type, User-Agent, ...)
     h_xq      raw text appended to the query;  h_fl  how the request is framed (Content-Length / chunked / unknown)
     render    text/template + fmt: ANY function of the template source, the login, the client address and the request
               (a Section variable without hypotheses: the theorems hold for every renderer)
   An In call = (data, meta): processBulk hands the SAME rendered meta to every controller.In of the request. *)
Definition tmpls := list (bytes * bytes).
Definition headers := list (bytes * bytes).
Record hreq := mkHReq { h_req : rreq; h_hdrs : headers; h_xq : bytes; h_fl : Z }.
Definition meta_t := list (bytes * bytes).

Section Render.
  Variable render : bytes -> bytes -> bytes -> hreq -> bytes.   (* template, login, client address, request -> text *)

  (* metaTemplater.Render(newMetaInformation(login, getUserIP(r), r)): one value per configured template *)
  Definition hmeta (c : rcfg) (tm : tmpls) (h : hreq) : meta_t :=
    match auth c (h_req h) with
    | AuthOk login => map (fun t => (fst t, render (snd t) login (pick_ip (h_req h)) h)) tm
    | _ => []
    end.

  (* ServeHTTP on a request with headers, on a plugin with templates: (In calls, status, class) *)
  Definition route_h (c : rcfg) (tm : tmpls) (h : hreq) : list (bytes * meta_t) * Z * Z :=
    let '(evs, st, cl) := route c (h_req h) in
    (map (fun e => (e, hmeta c tm h)) evs, st, cl).
End Render.

(* the renderer of the extracted judge: the meta TEXT is not part of the observable of these streams (the meta cache of
   pipeline/metadata may answer with the text of an earlier request), the number of keys is *)
Definition render0 (_ _ _ : bytes) (_ : hreq) : bytes := [].

Definition nmeta_of (calls : list (bytes * meta_t)) : Z :=
  match calls with [] => 0 | cm :: _ => Z.of_nat (length (snd cm)) end.

(* header names the glue rejects: those the route model interprets itself (Origin, Authorization and the configured /
   used auth header, the client-address headers, Content-Encoding) and those the harness' framing sets *)
Definition H_RESERVED : list bytes :=
  [[111;114;105;103;105;110];                                             (* origin *)
   [97;117;116;104;111;114;105;122;97;116;105;111;110];                  (* authorization *)
   [99;102;45;99;111;110;110;101;99;116;105;110;103;45;105;112];         (* cf-connecting-ip *)
   [120;45;102;111;114;119;97;114;100;101;100;45;102;111;114];           (* x-forwarded-for *)
   [120;45;114;101;97;108;45;105;112];                                   (* x-real-ip *)
   [99;111;110;116;101;110;116;45;101;110;99;111;100;105;110;103];       (* content-encoding *)
   [104;111;115;116];                                                    (* host *)
   [99;111;110;110;101;99;116;105;111;110];                              (* connection *)
   [99;111;110;116;101;110;116;45;108;101;110;103;116;104];              (* content-length *)
   [116;114;97;110;115;102;101;114;45;101;110;99;111;100;105;110;103];   (* transfer-encoding *)
   [101;120;112;101;99;116];                                             (* expect *)
   [116;114;97;105;108;101;114]]%N.                                      (* trailer *)
Definition tchar (ch : byte) : bool :=
  (N.leb 48 ch && N.leb ch 57) || (N.leb 65 ch && N.leb ch 90) || (N.leb 97 ch && N.leb ch 122) || N.eqb ch 45.
Definition hdr_ok (c : rcfg) (q : rreq) (nv : bytes * bytes) : bool :=
  let l := map lower_b (fst nv) in
  negb (is_nil l) && forallb tchar l && forallb (fun ch => N.leb 32 ch && N.leb ch 126) (snd nv) &&
  negb (existsb (N_eqb_list l) H_RESERVED) &&
  negb (N_eqb_list l (map lower_b (c_hdr c))) && negb (N_eqb_list l (map lower_b (q_hsel q))).
Definition tmpls_of_sx (s : sx) : option tmpls :=
  match as_list pair_of_sx s with
  | Some tm => if distinct (map fst tm) then Some tm else None
  | None => None
  end.

(* the property's judgement of one request, given what was observed: as for which = 9 *)
Definition route_obs_ok (c : rcfg) (q : rreq) (reads oevs : sx) (ost : Z) : bool :=
  match oevs with
  | SL evs =>
      if ingests c q then c11_pred reads (SL [SL evs; SZ ost])
      else is_nil evs && (authorised c q || Z.eqb (q_method q) 2 || negb (Z.eqb ost 200))
  | _ => false
  end.

(* which = 12: case = (cfg tmpls (hrequest ...)), hrequest = (request ((#name #value) ...) #xq fl);
   obs = (((event ...) status class #allow-origin nmeta) ...) *)
Definition hroute_one (c : rcfg) (tm : tmpls) (r o : sx) : option (sx * bool) :=
  match r with
  | SL [rq; hs; SB xq; SZ fl] =>
      match req_of_sx rq, as_list pair_of_sx hs with
      | Some (q, reads), Some hdrs =>
          if cred_ok (q_cred q) && forallb (hdr_ok c q) hdrs && Z.leb 0 fl && Z.leb fl 2 then
            let '(calls, st, cl) := route_h render0 c tm (mkHReq q hdrs xq fl) in
            let m := SL [SL (map SB (map fst calls)); SZ st; SZ cl; SB (allow_origin c (q_origin q)); SZ (nmeta_of calls)] in
            let ok := match o with
                      | SL [oevs; SZ ost; _; _; _] => route_obs_ok c q reads oevs ost
                      | _ => false
                      end in
            Some (m, ok)
          else None
      | _, _ => None
      end
  | _ => None
  end.

Definition c11_hroute_run (case obs : sx) : verdict :=
  match case with
  | SL [cfg; tms; reqs] =>
      match cfg_of_sx cfg, tmpls_of_sx tms with
      | Some c, Some tm =>
          if cfg_ok c && Bool.eqb (c_meta c) (negb (is_nil tm)) then pairs_run (hroute_one c tm) reqs obs else BadCase
      | _, _ => BadCase
      end
  | _ => BadCase
  end.

(* which = 13: the same over the plugin's own listener: case = ((tls framing) tmpls (wrequest ...)),
   wrequest = (gz piece (#write ...) ((#name #value) ...) #target odd): a POST of the given target on a plugin without
   auth / emulation; the body arrives as the transport likes (c11_http_chunking), [odd] = a framing oddity the net/http
   server accepts (Expect: 100-continue, chunk extensions, a trailer, "Chunked", Transfer-Encoding + Content-Length,
   HTTP/1.0).  obs = (((event ...) status nmeta) ...) *)
Definition wire_cfg (tm : tmpls) : rcfg := mkCfg 0 0 [] [] [] (negb (is_nil tm)).
Definition wire_req (target : bytes) (gz : bool) (rds : list rd) : rreq :=
  let no := mkIp [] false in mkReq 0 target [] CNone [] no no no no [] gz rds.

Definition hwire_one (tm : tmpls) (r o : sx) : option (sx * bool) :=
  match r with
  | SL [SZ gz; SZ _; SL ws; hs; SB target; SZ odd] =>
      match as_list rd_of_sx (SL ws), as_list pair_of_sx hs with
      | Some rds, Some hdrs =>
          let c := wire_cfg tm in
          let q := wire_req target (Z.eqb gz 1) rds in
          if (Z.eqb gz 0 || Z.eqb gz 1) && all_bytes ws && forallb (hdr_ok c q) hdrs && Z.leb 0 odd && Z.leb odd 6 then
            let '(calls, st, _) := route_h render0 c tm (mkHReq q hdrs [] odd) in
            let m := SL [SL (map SB (map fst calls)); SZ st; SZ (nmeta_of calls)] in
            let ok := match o with
                      | SL [oevs; SZ ost; _] => route_obs_ok c q (SL ws) oevs ost
                      | _ => false
                      end in
            Some (m, ok)
          else None
      | _, _ => None
      end
  | _ => None
  end.

Definition c11_hwire_run (case obs : sx) : verdict :=
  match case with
  | SL [SL cfg; tms; reqs] =>
      match tmpls_of_sx tms with
      | Some tm => if all_ints cfg then pairs_run (hwire_one tm) reqs obs else BadCase
      | None => BadCase
      end
  | _ => BadCase
  end.

(* ---- which = 14: BURSTS of simultaneous requests on FRESH plugin instances: the source ids --------------------------------
   case = (rounds (phase ...)), phase = (request ...), request = (#read ...) (bytes only, at least one event).
   A round = one fresh instance; the n requests of a phase enter ServeHTTP at the same instant and each blocks in its first
   Read until all n hold a source id; the next phase starts when all are answered.  obs = the distinct round observations,
   round = (phaseobs ...), phaseobs = ((status ...) (id ...) ((event ...) ...)): status per request, the source ids that
   controller.In saw (ascending), and per source id the data of its In calls in arrival order (the groups in any order).
   Judgement per phase ([hw] = the largest number of requests that were live at once on the instance so far, this phase
   included): every request answered 200; the ids are pairwise different, as many as requests, and 0 <= id < hw (what
   [id_run] allows: theorems http_sourceid_dense / http_sourceid_high_water); the groups are, up to their order, exactly
   the newline splits of the bodies - evaluated per SOURCE ID, no attribution of events to requests by content. *)
Fixpoint z_nodup (l : list Z) : bool :=
  match l with
  | [] => true
  | x :: r => negb (existsb (Z.eqb x) r) && z_nodup r
  end.

Fixpoint remove_first (e : sx) (l : list sx) : option (list sx) :=
  match l with
  | [] => None
  | x :: r => if sx_eqb e x then Some r
              else match remove_first e r with Some r' => Some (x :: r') | None => None end
  end.

Fixpoint perm_match (exp obs : list sx) : bool :=
  match exp with
  | [] => is_nil obs
  | e :: r => match remove_first e obs with Some o' => perm_match r o' | None => false end
  end.

Definition z_of_sx (s : sx) : option Z := match s with SZ z => Some z | _ => None end.

(* the events one request must deliver under its own source id *)
Definition burst_expected (reads : list rd) : sx := SL (map SB (split_body (concat (chunks_of reads)))).

Definition burst_phase_ok (hw : Z) (reqs : list (list rd)) (o : sx) : bool :=
  match o with
  | SL [SL sts; SL ids; SL groups] =>
      match opt_map z_of_sx ids with
      | Some zs =>
          sx_eqb (SL sts) (SL (map (fun _ => SZ 200) reqs)) &&
          z_nodup zs && forallb (fun z => Z.leb 0 z && Z.ltb z hw) zs &&
          Nat.eqb (length zs) (length reqs) &&
          perm_match (map burst_expected reqs) groups
      | None => false
      end
  | _ => false
  end.

Fixpoint burst_round_ok (hw : Z) (phases : list (list (list rd))) (os : list sx) : bool :=
  match phases, os with
  | [], [] => true
  | ph :: phs, o :: os' =>
      let hw' := Z.max hw (Z.of_nat (length ph)) in
      burst_phase_ok hw' ph o && burst_round_ok hw' phs os'
  | _, _ => false
  end.

Definition burst_req_of_sx (s : sx) : option (list rd) :=
  match as_list rd_of_sx s with
  | Some reads =>
      if no_err reads && negb (is_nil (split_body (concat (chunks_of reads)))) then Some reads else None
  | None => None
  end.

Definition burst_phase_of_sx (s : sx) : option (list (list rd)) :=
  match as_list burst_req_of_sx s with
  | Some (r :: rs) => Some (r :: rs)
  | _ => None
  end.

(* what the model answers for a phase: ids 0 .. n-1 (a burst on a fresh instance) *)
Definition burst_phase_model (reqs : list (list rd)) : sx :=
  SL [SL (map (fun _ => SZ 200) reqs);
      SL (map (fun k => SZ (Z.of_nat k)) (List.seq 0 (length reqs)));
      SL (map burst_expected reqs)].

Definition c11_burst_run (case obs : sx) : verdict :=
  match case, obs with
  | SL [SZ rounds; phases], SL (o1 :: orest) =>
      match as_list burst_phase_of_sx phases with
      | Some phs =>
          if Z.ltb 0 rounds then
            let m := SL [SL (map burst_phase_model phs)] in
            if forallb (fun o => match o with SL os => burst_round_ok 0 phs os | _ => false end) (o1 :: orest)
            then Agree else Violates m
          else BadCase
      | None => BadCase
      end
  | _, _ => BadCase
  end.

(* entry point of the model runner (extracted, and evaluated by vm_compute in the cross-check):
   0 / 2 = one request (plain / gzip), 1 = source-id pool, 3 = concurrent requests, 4 = gzip request history,
   5 = one request with reads that return data together with an error, 6 = gzip histories with failing bodies,
   7 = phases of concurrent requests on one plugin, 8 = gated histories, 9 = routed requests (auth / CORS / meta /
   emulate mode), 10 = requests over the plugin's own listener, 11 = Stop with a request in flight, 12 = routed requests with
   arbitrary headers on a plugin with arbitrary meta templates, 13 = the same over the plugin's own listener,
   14 = bursts of simultaneous requests on fresh instances (source ids) *)
Definition c11_entry (which : Z) (case obs : sx) : verdict :=
  match which with
  | 0 | 2 => c11_run case obs
  | 3 => c11_multi_run case obs
  | 4 => c11_hist_run case obs
  | 5 => c11_ext_run case obs
  | 6 => c11_fault_run case obs
  | 7 => c11_phases_run case obs
  | 8 => c11_gated_run case obs
  | 9 => c11_route_run case obs
  | 10 => c11_wire_run case obs
  | 11 => c11_stop_run case obs
  | 12 => c11_hroute_run case obs
  | 13 => c11_hwire_run case obs
  | 14 => c11_burst_run case obs
  | _ => match c11_id_model case with
         | Some m => exact_verdict m obs
         | None => BadCase
         end
  end.
