(* OffsetsEntry.v — exchange glue of property C07: decodes a case, runs the models of
   Model/OffsetsFmt.v, Model/FsCrash.v (on the protocol GENERATED into Gen/SaveProtocol.v) and
   Model/OffsetsSnap.v, and judges what the real code did.  No proofs here.

   table   = (job ...)            job = (#file inode sid ts ((#stream off) ...))
   loadres = (0 (row ...)) | (1) error | (2) panic        row = (#file sid ts ((#stream off) ...))
   which 0  round trip        case = table                    obs = (#filebytes loadres)
   which 1  parser            case = #content                 obs = loadres
   which 2  fault injection   case = (target old new sys k kind)
                              obs  = (#oldbytes ((op res #data) ...) #finalbytes loadres)
              target 0 offsetDB.save, 1 offset.Save;  sys = 0 open 1 write 2 fsync 3 rename 4 close 5 unlink;
              k = which call of that kind (from 1);  kind 0 none, 1 EIO, 2 ENOSPC, 3 SIGKILL on entry;
              res 0 ok, 1 error, 2 interrupted by the kill;
              loadres of target 1 = (0 equals_old equals_new) | (1)
   which 3  commits vs saves  case = (table ((#stream off) ...)-per-job nsaves)     obs = (loadres ...)
   which 4  overlapping saves case = (table ((#stream off) ...)-per-job K)          obs = ((loadres (done_j ...)) ...)
              K goroutines each loop { commit the next offset of one of their jobs; save } on ONE offsetDB while a
              checker keeps loading the file; done_j = commits of job j finished when the checker sampled them
              AFTER its read; the last element is read after everything has stopped
   which 5  table sequence    case = (table ...)              obs = ((#filebytes loadres) ...)   one offsetDB instance
   which 6  load after crash  case = (target old new cp override names)   obs = (oldb #newb dir1 dir2 load)   see c07_crashload
   which 7  loaders' go/ast   case = (#file #recv #load #save)   obs = ((#dest ...) ((#fn #path) ...))   see c07_loadast
   which 8  = which 4 with persistence_mode sync: the saves are the ones inside the real commit (judged by c07_overlap)
   which 9  = which 3 with the saves of the real async saver goroutine and of the real stop() (judged by c07_concurrent)
   which 10 provider history  case = (sync op0 ((#name size) ...) (op ...))   obs = ((res loadres) ...)   see c07_provider
   which 11 error paths       case = (0 mode) | (1 kvs) | (2) | (3 op0 #pre #post nfiles)                 see c07_errors *)
From Verif Require Import Base.Sx Base.GoSem Model.OffsetsFmt Model.FsCrash Model.OffsetsSnap Model.OffsetsProv Gen.SaveProtocol.

(* ---- decoding ------------------------------------------------------------------------------------ *)
Definition as_N (s : sx) : option N :=
  match s with SZ z => if Z.leb 0 z then Some (Z.to_N z) else None | _ => None end.

Definition as_stream (s : sx) : option (bytes * Z) :=
  match s with SL [SB n; SZ v] => Some (n, v) | _ => None end.

Definition as_job (s : sx) : option job :=
  match s with
  | SL [SB f; i; sid; SZ ts; ss] =>
      match as_N i, as_N sid, as_list as_stream ss with
      | Some i', Some sid', Some ss' =>
          Some {| jfile := f; jinode := i'; jsid := sid'; jts := ts; jstreams := ss' |}
      | _, _, _ => None
      end
  | _ => None
  end.

Definition orow := (bytes * N * Z * list (bytes * Z))%type.
Definition as_row (s : sx) : option orow :=
  match s with
  | SL [SB f; sid; SZ ts; ss] =>
      match as_N sid, as_list as_stream ss with
      | Some sid', Some ss' => Some (f, sid', ts, ss')
      | _, _ => None
      end
  | _ => None
  end.

Inductive oload := OLoaded (rows : list orow) | OErr | OPanic | OBad.
Definition as_load (s : sx) : oload :=
  match s with
  | SL [SZ 0; rows] => match as_list as_row rows with Some r => OLoaded r | None => OBad end
  | SL [SZ 1] => OErr
  | SL [SZ 2] => OPanic
  | _ => OBad
  end.

(* ---- comparing a model result with a loaded table (Go maps: order-insensitive) ------------------- *)
Definition streams_match (ms os : list (bytes * Z)) : bool :=
  Nat.eqb (length ms) (length os) &&
  forallb (fun m => existsb (fun o => bytes_eqb (fst m) (fst o) && Z.eqb (snd m) (snd o)) os) ms.

Definition row_match (e : entry) (o : orow) : bool :=
  let '(f, sid, ts, ss) := o in
  bytes_eqb (efile e) f && N.eqb (esid e) sid &&
  match ets e with None => true | Some t => Z.eqb t ts end &&
  streams_match (estreams e) ss.

Definition rows_match (es : list entry) (os : list orow) : bool :=
  Nat.eqb (length es) (length os) && forallb (fun e => existsb (row_match e) os) es.

Definition load_match (r : res (list entry)) (o : oload) : bool :=
  match r, o with
  | Ok es, OLoaded rows => rows_match es rows
  | Err _, OErr => true
  | Panic _, OPanic => true
  | _, _ => false
  end.

Definition sx_of_entry (e : entry) : sx :=
  SL [SB (efile e); SZ (Z.of_N (esid e)); match ets e with Some t => SZ t | None => SL [] end;
      SL (map (fun kv => SL [SB (fst kv); SZ (snd kv)]) (estreams e))].
Definition sx_of_load (r : res (list entry)) : sx :=
  match r with
  | Ok es => SL [SZ 0; SL (map sx_of_entry es)]
  | Err _ => SL [SZ 1]
  | Panic _ => SL [SZ 2]
  end.

Definition judge (pred agree : bool) (m : sx) : verdict :=
  if pred then (if agree then Agree else Differ m) else Violates m.

(* ---- which 0: save then load ------------------------------------------------------------------------ *)
(* the jobs in the order the file lists them (save walks a Go map) *)
Definition reorder (js : list job) (sids : list N) : list job :=
  flat_map (fun sid => filter (fun j => N.eqb (jsid j) sid) js) sids.

Definition c07_roundtrip (case obs : sx) : verdict :=
  match as_list as_job case, obs with
  | Some js, SL [SB fbytes; lr] =>
      let o := as_load lr in
      let pred := load_match (Ok (expected_load js)) o in          (* the property: loads back to exactly the table *)
      let mp := parse fbytes in                                     (* the model parser on the real bytes *)
      let printed_ok :=
        match mp with
        | Ok es => bytes_eqb (print_jobs (reorder js (map esid es))) fbytes
        | _ => bytes_eqb (print_jobs js) fbytes || bytes_eqb (print_jobs (rev js)) fbytes
        end in
      judge pred (printed_ok && load_match mp o) (SL [SB (print_jobs js); sx_of_load mp])
  | _, _ => BadCase
  end.

(* ---- which 1: the parser on arbitrary bytes ---------------------------------------------------------- *)
Definition c07_parse (case obs : sx) : verdict :=
  match case with
  | SB content =>
      let mp := parse content in
      match as_load obs with
      | OBad => BadCase
      | o => judge true (load_match mp o) (sx_of_load mp)
      end
  | _ => BadCase
  end.

(* ---- which 2: fault injection on the real save, judged on the observed system-call trace ------------ *)
Definition op_of_Z (z : Z) : option fsop :=
  match z with
  | 0 => Some OpOpen | 1 => Some OpWrite | 2 => Some OpSync | 3 => Some OpRename
  | 4 => Some OpClose | 5 => Some OpRemove | _ => None
  end.
Definition Z_of_op (o : fsop) : Z :=
  match o with OpOpen => 0 | OpWrite => 1 | OpSync => 2 | OpRename => 3 | OpClose => 4 | OpRemove => 5 end.

(* observed event: op, result (0 ok / 1 error / 2 killed), data of a write *)
Definition oev := (fsop * Z * bytes)%type.
Definition as_oev (s : sx) : option oev :=
  match s with
  | SL [SZ o; SZ r; SB d] => match op_of_Z o with Some op => Some (op, r, d) | None => None end
  | _ => None
  end.

Definition ev_of (x : oev) (as_ok : bool) : ev :=
  let '(op, r, _) := x in {| eop := op; eok := if Z.eqb r 0 then true else if Z.eqb r 2 then as_ok else false; part := 0 |}.

(* index (among all calls of the fault-free run) of the k-th call of kind [op] *)
Fixpoint find_kth (evs : list ev) (op : fsop) (k : nat) (i : nat) : option nat :=
  match evs with
  | [] => None
  | e :: r =>
      if fsop_eqb (eop e) op
      then match k with
           | O => None
           | S O => Some i
           | S k' => find_kth r op k' (S i)
           end
      else find_kth r op k (S i)
  end.

Definition expected_trace (p : protocol) (new : bytes) (sys : fsop) (k : nat) (kind : Z) : option (list (fsop * Z)) :=
  let clean := run_proto new p [] fs0 in
  let pair (e : ev) := (eop e, if eok e then 0 else 1) in
  if Z.eqb kind 0 then Some (map pair clean)
  else match find_kth clean sys k 0%nat with
       | None => None
       | Some i =>
           if Z.eqb kind 3 then Some (map pair (firstn i clean) ++ [(sys, 2)])
           else Some (map pair (run_proto new p (repeat None i ++ [Some 0%nat]) fs0))
       end.

Definition first_write (evs : list oev) : bytes :=
  match filter (fun x => match x with (OpWrite, _, _) => true | _ => false end) evs with
  | (_, _, d) :: _ => d
  | [] => []
  end.

(* a killed call may or may not have taken effect: the trace must be safe either way *)
Definition obs_trace_safe (new : bytes) (evs : list oev) : bool :=
  let no_kill := filter (fun x => negb (Z.eqb (snd (fst x)) 2)) evs in
  trace_safe new (map (fun x => ev_of x true) no_kill) &&
  trace_safe new (map (fun x => ev_of x true) evs) &&
  trace_safe new (map (fun x => ev_of x false) evs).

Definition renamed_certainly (evs : list oev) : bool :=
  existsb (fun x => match x with (OpRename, 0, _) => true | _ => false end) evs.
Definition renamed_possibly (evs : list oev) : bool :=
  existsb (fun x => match x with (OpRename, r, _) => Z.eqb r 0 || Z.eqb r 2 | _ => false end) evs.

Definition c07_fault (case obs : sx) : verdict :=
  match case, obs with
  | SL [SZ target; oldt; newt; SZ sysz; SZ kz; SZ kind], SL [SB oldb; SL evs; SB finalb; lr] =>
      match as_list as_job oldt, as_list as_job newt, opt_map as_oev evs, op_of_Z sysz with
      | Some oldj, Some newj, Some oevs, Some sys =>
          let p := if Z.eqb target 0 then filed_save_protocol else generic_save_protocol in
          let new := first_write oevs in
          (* correspondence: the calls the real code made = the calls of the generated protocol *)
          let exp := expected_trace p new sys (Z.to_nat kz) kind in
          let got := map (fun x : oev => (fst (fst x), snd (fst x))) oevs in
          let agree :=
            match exp with
            | Some e => sx_eqb (SL (map (fun x => SL [SZ (Z_of_op (fst x)); SZ (snd x)]) e))
                               (SL (map (fun x => SL [SZ (Z_of_op (fst x)); SZ (snd x)]) got))
            | None => false
            end in
          (* the property on what really happened *)
          let is_old := bytes_eqb finalb oldb in
          let is_new := bytes_eqb finalb new in
          let content_ok :=
            if Z.eqb target 0 then
              (is_old && load_match (Ok (expected_load oldj)) (as_load lr)) ||
              (is_new && load_match (Ok (expected_load newj)) (as_load lr))
            else
              match lr with
              | SL [SZ 0; SZ eo; SZ en] => (is_old && Z.eqb eo 1) || (is_new && Z.eqb en 1)
              | _ => false
              end in
          let placed_ok :=
            (if renamed_certainly oevs then is_new else true) &&
            (if renamed_possibly oevs then true else is_old) &&
            (if Z.eqb kind 0 then is_new && renamed_certainly oevs else true) in
          let pred := obs_trace_safe new oevs && content_ok && placed_ok in
          judge pred agree
                (match exp with
                 | Some e => SL (map (fun x => SL [SZ (Z_of_op (fst x)); SZ (snd x)]) e)
                 | None => SL [SZ (-1)]
                 end)
      | _, _, _, _ => BadCase
      end
  | _, _ => BadCase
  end.

(* ---- which 3: real commits racing real saves ----------------------------------------------------------- *)
(* first state at or after index [from] that the snapshot's block of the job equals *)
Fixpoint find_state (sts : list smap) (i from : nat) (ss : list (bytes * Z)) : option nat :=
  match sts with
  | [] => None
  | m :: r => if Nat.leb from i && streams_match m ss then Some i else find_state r (S i) from ss
  end.

Definition row_of (rows : list orow) (sid : N) : list (bytes * Z) :=
  match filter (fun r : orow => N.eqb (snd (fst (fst r))) sid) rows with
  | (_, _, _, ss) :: _ => ss
  | [] => []
  end.

(* per job: walk the snapshots in order, the matched state index never decreases; returns the last index *)
Fixpoint walk_snaps (sts : list smap) (sid : N) (snaps : list (list orow)) (from : nat) : option nat :=
  match snaps with
  | [] => Some from
  | rows :: r =>
      match find_state sts 0%nat from (row_of rows sid) with
      | Some i => walk_snaps sts sid r i
      | None => None
      end
  end.

Definition c07_concurrent (case obs : sx) : verdict :=
  match case, obs with
  | SL [tbl; SL scripts; SZ _], SL snaps =>
      match as_list as_job tbl, opt_map (as_list as_stream) scripts with
      | Some js, Some scs =>
          let loads := map as_load snaps in
          let all_loaded := forallb (fun o => match o with OLoaded _ => true | _ => false end) loads in
          let rowss := map (fun o => match o with OLoaded r => r | _ => [] end) loads in
          let per_job :=
            forallb (fun jsq : job * list (bytes * Z) =>
                       let '(j, script) := jsq in
                       match walk_snaps (job_states (jstreams j) script) (jsid j) rowss 0%nat with
                       | Some last => Nat.eqb last (length script)     (* the final save sees every commit *)
                       | None => false
                       end)
                    (combine js scs) in
          let no_strangers :=
            forallb (fun rows => forallb (fun r : orow => existsb (fun j => N.eqb (jsid j) (snd (fst (fst r)))) js) rows) rowss in
          judge (all_loaded && Nat.eqb (length js) (length scs) && per_job && no_strangers) true (SL [])
      | _, _ => BadCase
      end
  | _, _ => BadCase
  end.

(* ---- which 4: overlapping saves of one offsetDB, a concurrent reader ----------------------------------- *)
Fixpoint find_state_upto (sts : list smap) (i from upto : nat) (ss : list (bytes * Z)) : option nat :=
  match sts with
  | [] => None
  | m :: r =>
      if Nat.leb from i && Nat.leb i upto && streams_match m ss then Some i
      else find_state_upto r (S i) from upto ss
  end.

(* per job: every read shows a state the job really had, not ahead of the commits done when the read
   returned, never older than what an earlier read showed *)
Fixpoint walk_reads (sts : list smap) (sid : N) (k : nat) (reads : list (list orow * list nat)) (from : nat) : option nat :=
  match reads with
  | [] => Some from
  | (rows, done) :: r =>
      match find_state_upto sts 0%nat from (nth k done 0%nat) (row_of rows sid) with
      | Some i => walk_reads sts sid k r i
      | None => None
      end
  end.

Definition as_read (s : sx) : option (oload * list nat) :=
  match s with
  | SL [lr; dn] => match as_list as_nat dn with Some d => Some (as_load lr, d) | None => None end
  | _ => None
  end.

Fixpoint number {A} (i : nat) (l : list A) : list (nat * A) :=
  match l with [] => [] | x :: r => (i, x) :: number (S i) r end.

Definition c07_overlap (case obs : sx) : verdict :=
  match case, obs with
  | SL [tbl; SL scripts; SZ _], SL reads =>
      match as_list as_job tbl, opt_map (as_list as_stream) scripts, opt_map as_read reads with
      | Some js, Some scs, Some rds =>
          let all_loaded := forallb (fun r => match fst r with OLoaded _ => true | _ => false end) rds in
          let rr := map (fun r : oload * list nat => (match fst r with OLoaded x => x | _ => [] end, snd r)) rds in
          let per_job :=
            forallb (fun kjs : nat * (job * list (bytes * Z)) =>
                       let '(k, (j, script)) := kjs in
                       match walk_reads (job_states (jstreams j) script) (jsid j) k rr 0%nat with
                       | Some last => Nat.eqb last (length script)     (* the last read sees every commit *)
                       | None => false
                       end)
                    (number 0%nat (combine js scs)) in
          let no_strangers :=
            forallb (fun r => forallb (fun row : orow => existsb (fun j => N.eqb (jsid j) (snd (fst (fst row)))) js) (fst r)) rr in
          judge (all_loaded && Nat.eqb (length js) (length scs) && negb (Nat.eqb (length rds) 0) && per_job && no_strangers)
                true (SL [])
      | _, _, _ => BadCase
      end
  | _, _ => BadCase
  end.

(* ---- which 5: a SEQUENCE of tables saved one after the other by ONE offsetDB instance ------------------ *)
(* case = (table_0 table_1 ...)   obs = ((#filebytes_0 loadres_0) (#filebytes_1 loadres_1) ...)
   The harness swaps the job table of one provider (what addJob / deleteJobAndUnlock do over time) and calls
   the real save after every swap: o.buf (64 KiB initial capacity, reset per save) and o.jobsSnapshot are
   reused, a save larger than the buffer is followed by a smaller one and vice versa. Every single save is
   judged exactly like a which-0 round trip of its table; the verdict is the worst one. *)
Definition worse (a b : verdict) : verdict :=
  match a, b with
  | BadCase, _ => a
  | _, BadCase => b
  | Violates _, _ => a
  | _, Violates _ => b
  | Differ _, _ => a
  | _, Differ _ => b
  | Agree, Agree => Agree
  end.

Fixpoint c07_seq (cases obs : list sx) : verdict :=
  match cases, obs with
  | [], [] => Agree
  | c :: cr, o :: or => worse (c07_roundtrip c o) (c07_seq cr or)
  | _, _ => Violates (SL [SZ (Z.of_nat (length cases)); SZ (Z.of_nat (length obs))])   (* a save is missing: the real code panicked *)
  end.

Definition c07_sequence (case obs : sx) : verdict :=
  match case, obs with
  | SL (c :: cr), SL ol => c07_seq (c :: cr) ol
  | _, _ => BadCase
  end.

(* ---- which 6: what a restart LOADS after a save crashed ------------------------------------------------
   case = (target old new cp override names)
            target 0 offsetDB (save / load of plugin/input/file), 1 offset.Offset with a raw callback (the snapshot is
            the byte string itself, Load reports the bytes it was handed), 2 offset.SaveYAML / LoadYAML of a map
            old = () no offsets file yet (the crash hits the very FIRST save) | (x);   new = x
            x = table (target 0) | #bytes (target 1) | ((#key value) ...) (target 2)
            cp = (0) before the first call | (1 cut) write interrupted after cut bytes | (2) before the rename | (3) done
            override = () | (0) leftover temp files removed | (1 #bytes) every leftover temp file (and every name
            cur+suffix of [names]) holds these bytes afterwards: torn at another length, garbage, a complete foreign snapshot
   obs  = (oldb #newb dir1 dir2 load)
            oldb = () | (#bytes of the offsets file after the real save of old);  newb = the complete new snapshot
            dir = (cur (#other-file ...)), cur = () | (#bytes): the directory after the crash / after the override
            load = loadres (target 0) | (0) callback not invoked, (1 #bytes) handed these bytes, (2) error, (3) panic
                   (target 1) | (0 ((#key value) ...)), (1) error, (2) panic (target 2)
   Model: the state of Model/FsCrash.v at the crash point of the GENERATED protocol, the directory a kill leaves
   there ([kill_dir]), and [load_dir], which reads only the committed file.  Predicate (the property): the loaded
   state is the one committed before the save (empty when there was none) or the complete new one. *)
Definition as_optx (s : sx) : option (option sx) :=
  match s with SL [] => Some None | SL [x] => Some (Some x) | _ => None end.
Definition as_optb (s : sx) : option (option bytes) :=
  match s with SL [] => Some None | SL [SB b] => Some (Some b) | _ => None end.
Definition optb_eqb (a b : option bytes) : bool :=
  match a, b with None, None => true | Some x, Some y => bytes_eqb x y | _, _ => false end.
Definition sx_of_optb (o : option bytes) : sx := match o with None => SL [] | Some b => SL [SB b] end.

Definition as_cp (s : sx) : option crashpt :=
  match s with
  | SL [SZ 0] => Some CBefore
  | SL [SZ 1; SZ c] => if Z.leb 0 c then Some (CWrite (Z.to_nat c)) else None
  | SL [SZ 2] => Some CBeforeRename
  | SL [SZ 3] => Some CDone
  | _ => None
  end.

Definition as_odir (s : sx) : option (option bytes * list bytes) :=
  match s with
  | SL [c; others] =>
      match as_optb c, as_list as_B others with
      | Some c', Some o' => Some (c', o')
      | _, _ => None
      end
  | _ => None
  end.

(* the bytes are the serialisation of the table (in the order the file lists the jobs) *)
Definition printed_ok (b : bytes) (js : list job) : bool :=
  match parse b with
  | Ok es => bytes_eqb (print_jobs (reorder js (map esid es))) b
  | _ => false
  end.

Definition kv := list (bytes * Z).
Definition sx_of_kv (k : kv) : sx := SL (map (fun x => SL [SB (fst x); SZ (snd x)]) k).

Definition c07_crashload (case obs : sx) : verdict :=
  match case, obs with
  | SL [SZ target; oldx; newx; cpx; _; _], SL [oldbx; SB newb; dir1x; dir2x; lr] =>
      match as_optx oldx, as_cp cpx, as_optb oldbx, as_odir dir1x, as_odir dir2x with
      | Some oldv, Some cp, Some oldb, Some (cur1, tmps1), Some (cur2, tmps2) =>
          let p := if Z.eqb target 0 then filed_save_protocol else generic_save_protocol in
          let s := crash_state p newb cp in
          let kd := kill_dir oldb s in
          (* the directory the real code left = the directory of the model's crash state; the override does not touch cur *)
          let dir_ok :=
            optb_eqb cur1 (dcur kd) && optb_eqb cur2 (dcur kd) &&
            match dtmp kd, tmps1 with
            | None, [] => true
            | Some b, [t] => bytes_eqb b t
            | _, _ => false
            end &&
            match oldv, oldb with None, None => true | Some _, Some _ => true | _, _ => false end in
          (* what the restart finds: cur as the model says, under the temp name whatever the harness left there *)
          let d := {| dcur := dcur kd; dtmp := match tmps2 with [] => None | t :: _ => Some t end |} in
          let model_dir := SL [sx_of_optb (dcur kd); sx_of_optb (dtmp kd)] in
          match target with
          | 0 =>
              match match oldv with None => Some None | Some t => option_map Some (as_list as_job t) end,
                    as_list as_job newx with
              | Some oldj, Some newj =>
                  let o := as_load lr in
                  let ml := load_dir parse (Ok []) d in
                  let pred := load_match (Ok (match oldj with None => [] | Some j => expected_load j end)) o
                              || load_match (Ok (expected_load newj)) o in
                  let tie := printed_ok newb newj &&
                             match oldj, oldb with Some j, Some b => printed_ok b j | None, None => true | _, _ => false end in
                  judge pred (dir_ok && tie && load_match ml o) (SL [model_dir; sx_of_load ml])
              | _, _ => BadCase
              end
          | 1 =>
              match match oldv with None => Some None | Some (SB b) => Some (Some b) | _ => None end, newx with
              | Some oldc, SB newc =>
                  let ml := load_dir (@Some bytes) None d in
                  let got := match lr with
                             | SL [SZ 0] => Some None
                             | SL [SZ 1; SB b] => Some (Some b)
                             | _ => None
                             end in
                  let pred := match got with
                              | Some x => optb_eqb x oldc || optb_eqb x (Some newc)
                              | None => false
                              end in
                  let tie := bytes_eqb newc newb && optb_eqb oldc oldb in
                  judge pred (dir_ok && tie && match got with Some x => optb_eqb x ml | None => false end)
                        (SL [model_dir; match ml with None => SL [SZ 0] | Some b => SL [SZ 1; SB b] end])
              | _, _ => BadCase
              end
          | 2 =>
              match match oldv with None => Some [] | Some t => as_list as_stream t end, as_list as_stream newx with
              | Some oldk, Some newk =>
                  let decode (b : bytes) : option kv :=
                    if bytes_eqb b newb then Some newk else if optb_eqb (Some b) oldb then Some oldk else None in
                  let ml := load_dir decode (Some []) d in
                  let got := match lr with SL [SZ 0; kvs] => as_list as_stream kvs | _ => None end in
                  let pred := match got with
                              | Some k => streams_match oldk k || streams_match newk k
                              | None => false
                              end in
                  judge pred (dir_ok && match got, ml with Some k, Some m => streams_match m k | _, _ => false end)
                        (SL [model_dir; match ml with Some m => SL [SZ 0; sx_of_kv m] | None => SL [SZ (-1)] end])
              | _, _ => BadCase
              end
          | _ => BadCase
          end
      | _, _, _, _, _ => BadCase
      end
  | _, _ => BadCase
  end.

(* ---- which 7: go/ast reading of the loaders ---------------------------------------------------------------
   case = (#file #recv #load #save)   obs = ((#dest ...) ((#fn #path) ...))
   dest = the destination of every os.Rename the saver reaches (the committed file), (fn, path) = every call of
   package os / filepath / ioutil the loader reaches, with its first argument.  The loader of [load_dir] reads
   ONLY the committed file: every path it touches is a rename destination of its saver (never a temp path). *)
Definition as_touch (s : sx) : option (bytes * bytes) :=
  match s with SL [SB f; SB p] => Some (f, p) | _ => None end.

Definition loader_reads_only_committed (dests : list bytes) (touched : list (bytes * bytes)) : bool :=
  negb (Nat.eqb (length dests) 0) && negb (Nat.eqb (length touched) 0) &&
  forallb (fun t => existsb (bytes_eqb (snd t)) dests) touched.

Definition c07_loadast (case obs : sx) : verdict :=
  match case, obs with
  | SL [SB _; SB _; SB _; SB _], SL [dests; touched] =>
      match as_list as_B dests, as_list as_touch touched with
      | Some ds, Some ts => judge (loader_reads_only_committed ds ts) true (SL (map SB ds))
      | _, _ => BadCase
      end
  | _, _ => BadCase
  end.

(* ---- which 10: a sequential history on a real jobProvider over real files (Model/OffsetsProv.v) --------------
   case = (sync op0 ((#name size) ...) (op ...))     obs = ((res loadres) ...) one per op
   op = (0 fi kind seq #stream off) commit | (1) save | (2 fi pos seq) worker progress | (3 fi size) size change + write
        notification | (4 fi) done | (5 fi remove) maintenance | (6 crash) stop / death + new provider | (7 fi ts) EOF time
   rows of a loadres: file name without its directory, source id = index of the file.
   Predicate (the property): every operation returned, and after every operation the offsets file loads back to a
   complete snapshot of the job table of that or an earlier moment of the history (never anything else, never a later one).
   Agreement: results and loaded tables are exactly the model's. *)
Fixpoint as_pfiles (i : N) (l : list sx) : option (list pfile) :=
  match l with
  | [] => Some []
  | SL [SB n; SZ sz] :: r =>
      match as_pfiles (N.succ i) r with
      | Some fs => Some ({| pf_id := i; pf_name := n; pf_size := sz; pf_disk := true |} :: fs)
      | None => None
      end
  | _ => None
  end.

Definition as_pop (s : sx) : option pop :=
  match s with
  | SL [SZ 0; fi; SZ kind; SZ seq; SB st; SZ off] => option_map (fun f => PCommit f kind seq st off) (as_N fi)
  | SL [SZ 1] => Some PSave
  | SL [SZ 2; fi; SZ pos; SZ seq] => option_map (fun f => PProgress f pos seq) (as_N fi)
  | SL [SZ 3; fi; SZ size] => option_map (fun f => PTrunc f size) (as_N fi)
  | SL [SZ 4; fi] => option_map PDone (as_N fi)
  | SL [SZ 5; fi; SZ rm] => option_map (fun f => PMaint f (Z.eqb rm 1)) (as_N fi)
  | SL [SZ 6; SZ crash] => Some (PRestart (Z.eqb crash 1))
  | SL [SZ 7; fi; SZ t] => option_map (fun f => PTs f t) (as_N fi)
  | _ => None
  end.

Definition as_hobs (s : sx) : option (Z * oload) :=
  match s with SL [SZ r; lr] => Some (r, as_load lr) | _ => None end.

(* (predicate, agreement) *)
Fixpoint hist_judge (ms : list (Z * pstate)) (os : list (Z * oload)) : bool * bool :=
  match ms, os with
  | [], [] => (true, true)
  | (z, st) :: mr, (r, o) :: or =>
      let '(p, a) := hist_judge mr or in
      (p && existsb (fun es => load_match (Ok es) o) (snap (p_jobs st) :: p_hist st),
       a && Z.eqb z r && load_match (Ok (p_file st)) o)
  | _, _ => (false, false)
  end.

Definition c07_provider (case obs : sx) : verdict :=
  match case, obs with
  | SL [SZ sync; SZ op0; SL files; SL ops], SL items =>
      match as_pfiles 0%N files, opt_map as_pop ops, opt_map as_hobs items with
      | Some fs, Some pops, Some hobs =>
          let cfg := {| pc_sync := Z.eqb sync 1; pc_op0 := op0 |} in
          let ms := prun cfg (pinit cfg fs) pops in
          let '(p, a) := hist_judge ms hobs in
          judge p a (SL (map (fun zs : Z * pstate => SL [SZ (fst zs); sx_of_load (Ok (p_file (snd zs)))]) ms))
      | _, _, _ => BadCase
      end
  | _, _ => BadCase
  end.

(* ---- which 11: error paths of the loaders and of the generic saver ---------------------------------------------
   (0 mode): offset.LoadYAML of a path that cannot be read      obs = (code nkeys)   code 0 nil, 1 error, 2 panic
             predicate: a loader that could not read does not report success;  model: the error, nothing loaded
   (1 kvs):  offset.SaveYAML of a value the encoder rejects over a good file      obs = (code #before #after loaded)
             = the generated protocol with a write that fails before it transfers a byte: the reader of the model
             sees the old file; predicate: an unsuccessful save never replaces a good file (bytes and loaded value)
   (2):      offsetDB.load of an existing, unreadable file      obs = loadres
             predicate: it does not hand back a table;  model: the "can't read offset file" panic
   (3 op0 #pre #post nf): a provider starts (offsets_op op0) on the file pre ++ "0" ++ post it did not write, nf = 0 | 1
             watched file (source id 0); then stop()            obs = (code loadres)   code 0 | 7 start panicked
             model: offsets_op continue and the model parser rejects the content, or lists the watched file without
             streams: start panics and the file stays as it was; otherwise the job takes exactly the loaded offsets
             and stop() writes them back (sources without a watched file are dropped)
             predicate: a start that panicked left the file untouched; one that returned left a loadable file *)
Definition c07_errors (case obs : sx) : verdict :=
  match case, obs with
  | SL [SZ 0; SZ _], SL [SZ code; SZ n] =>
      judge (negb (Z.eqb code 0)) (Z.eqb code 1 && Z.eqb n 0) (SL [SZ 1; SZ 0])
  | SL [SZ 1; _], SL [SZ code; SB before; SB after; SZ loaded] =>
      let evs := run_proto [] generic_save_protocol [None; Some 0%nat] fs0 in
      let expected := reader_sees before (fs_run [] fs0 evs) in
      judge (bytes_eqb after before && Z.eqb loaded 1)
            (Z.eqb code 1 && bytes_eqb after expected)
            (SL [SZ 1; SB before; SB expected; SZ 1])
  | SL [SZ 3; SZ op0; SB pre; SB post; SZ nf], SL [SZ code; lr] =>
      let content := pre ++ dec_N 0 ++ post in
      let fs := if Z.eqb nf 1 then [{| pf_id := 0%N; pf_name := [97; 46; 108; 111; 103]%N; pf_size := 10; pf_disk := true |}] else [] in
      let cfg := {| pc_sync := false; pc_op0 := op0 |} in
      let o := as_load lr in
      let untouched := load_match (parse content) o in               (* start refused: the file is as it was *)
      let refused := judge (if Z.eqb code 7 then untouched else match o with OLoaded _ => true | _ => false end)
                           (Z.eqb code 7 && untouched) (SL [SZ 7; sx_of_load (parse content)]) in
      match (if Z.eqb op0 0 then parse content else Ok []) with
      | Ok es =>
          if Z.eqb op0 0 && existsb (fun f => match lookup_entry es (pf_id f) with
                                              | Some e => negb (nonempty (estreams e))
                                              | None => false
                                              end) fs
          then refused                                                  (* initJobOffset: "no streams in source" *)
          else
            (* started: the jobs took the loaded offsets; stop() saved them; a timestamp the file did not list is the
               time of the load (any value) *)
            let expected :=
              map (fun j => {| efile := pj_name j; esid := pj_id j;
                               ets := match lookup_entry es (pj_id j) with Some e => ets e | None => Some 0 end;
                               estreams := pj_offs j |})
                  (filter (fun j => nonempty (pj_offs j)) (start_jobs cfg es fs)) in
            (* outside the property's domain (offsets are 0 .. 2^63-1; commit never stores a negative one): the parser
               accepts a negative offset, the job takes it, save prints it as uint64 (Model/OffsetsFmt.v: off_u64) and
               that number is beyond what the parser accepts - the model follows the code, the predicate is silent *)
            if existsb (fun e => existsb (fun kv => snd kv <? 0) (estreams e)) expected
            then judge true (Z.eqb code 0 && match o with OErr => true | _ => false end) (SL [SZ 0; SL [SZ 1]])
            else
            judge (match o with OLoaded _ => Z.eqb code 0 | _ => Z.eqb code 7 && untouched end)
                  (Z.eqb code 0 && load_match (Ok expected) o) (SL [SZ 0; sx_of_load (Ok expected)])
      | _ => refused                                                    (* start: "can't load offsets" *)
      end
  | SL [SZ 2], lr =>
      match as_load lr with
      | OBad => BadCase
      | o => judge (match o with OLoaded _ => false | _ => true end) (match o with OPanic => true | _ => false end) (SL [SZ 2])
      end
  | _, _ => BadCase
  end.

Definition c07_entry (which : Z) (case obs : sx) : verdict :=
  match which with
  | 5 => c07_sequence case obs
  | 6 => c07_crashload case obs
  | 7 => c07_loadast case obs
  | 0 => c07_roundtrip case obs
  | 1 => c07_parse case obs
  | 2 => c07_fault case obs
  | 3 => c07_concurrent case obs
  | 4 => c07_overlap case obs
  | 8 => c07_overlap case obs
  | 9 => c07_concurrent case obs
  | 10 => c07_provider case obs
  | 11 => c07_errors case obs
  | _ => BadCase
  end.
