(* Timed layer over the batcher LTS (Model/Batcher.v): "bounded staleness" judged with the DRIVER's clock.

   The untimed LTS only sees the pair (elapsed, timeout) the code itself reports in its NotReady label, and that pair is read
   from batch.startTime: a regression that keeps refreshing startTime (on a later Add, on a tick ...) reports small elapsed
   values for ever and the untimed guard accepts them.  Here every label carries the time at which the driver logged it (its
   own clock, entries 107 of a clocked trace) and the model keeps, independently of any field of the batch:

     born  = the time of the FIRST Add into the empty current batch (the add time of the oldest event of the batch);
             it is never touched by a later Add, a tick or a NotReady decision, and cleared by the Seal only
     seen  = the time of the latest decision (NotReady / the first Add) that left this non-empty batch in place

   Guards (they quote batch.go, with [lag] = what the driver's clock may be late against the code's own clock reads):
     G1  NotReady on a non-empty batch at time t:  t - born <= FlushTimeout + lag
         (updateStatus: `time.Since(b.startTime) > b.timeout` was false, and startTime - set by reset() when getBatch took the
          batch from freeBatches - is not later than the first Add)
     G2  a decision (NotReady / Seal) on a non-empty batch at time t:  t - seen <= period + lag
         (heartbeat(): one decision per `time.Sleep(time.Millisecond * 100)`; mu is never held across a blocking operation
          while the current batch is non-empty)
     G3  OutBegin of a batch at time t:  t - (time of its Seal) <= lag
         (the batch is pushed into fullBatches inside the sealing critical section, and with as many workers as batches a
          worker is idle whenever a batch is queued)
   No proofs here (Proofs/BatcherAge.v). *)
From Verif Require Import Base.Sx Model.Batcher Model.BatcherGlue.

(* batch.go heartbeat(): time.Sleep(time.Millisecond * 100) — in microseconds *)
Definition heartbeat_period : Z := 100000.

Record tcfg := {
  flushT : Z;     (* BatcherOptions.FlushTimeout, microseconds *)
  period : Z;     (* heartbeat period, microseconds *)
  lag : Z         (* tolerance of one scheduling hop, microseconds *)
}.

(* a sealed batch with the add time of each of its events: (seq, time, events NEWEST first) *)
Definition trec := (Z * Z * list (ev * Z))%type.

Record tst := {
  base : st;                 (* the state of the untimed LTS *)
  tnow : Z;                  (* time of the latest label *)
  born : option Z;           (* first Add into the empty current batch; None = current batch empty / absent *)
  seen : Z;                  (* latest decision on the current non-empty batch (its first Add when there was none yet) *)
  tcur : list (ev * Z);      (* current batch with add times, newest first *)
  tsealed : list trec;       (* (seq, seal time, events), newest first *)
  thanded : list trec        (* (seq, time of OutBegin, events), newest first *)
}.

Definition tinit (c : cfg) : tst :=
  {| base := init c; tnow := 0; born := None; seen := 0; tcur := []; tsealed := []; thanded := [] |}.

Definition tset (s : tst) (b : st) (t : Z) : tst :=
  {| base := b; tnow := t; born := born s; seen := seen s; tcur := tcur s; tsealed := tsealed s; thanded := thanded s |}.

Definition find_sealed (l : list trec) (q : Z) : option trec := find (fun r => fst (fst r) =? q) l.

Definition tstep (c : cfg) (tc : tcfg) (s : tst) (t : Z) (l : label) : option tst :=
  if t <? tnow s then None else
  match step c (base s) l with
  | None => None
  | Some b =>
      match l with
      | LAdd e =>
          match tcur s with
          | [] =>        (* the first Add into the empty batch starts the clock of the batch *)
              Some {| base := b; tnow := t; born := Some t; seen := t; tcur := [(e, t)];
                      tsealed := tsealed s; thanded := thanded s |}
          | _ :: _ =>    (* a later Add never does, whatever the size of the events *)
              Some {| base := b; tnow := t; born := born s; seen := seen s; tcur := (e, t) :: tcur s;
                      tsealed := tsealed s; thanded := thanded s |}
          end
      | LNotReady _ _ _ _ =>
          match born s with
          | None => Some (tset s b t)
          | Some a =>
              if (t - a <=? flushT tc + lag tc) && (t - seen s <=? period tc + lag tc)
              then Some {| base := b; tnow := t; born := born s; seen := t; tcur := tcur s;
                           tsealed := tsealed s; thanded := thanded s |}
              else None
          end
      | LSeal q _ _ _ =>
          if t - seen s <=? period tc + lag tc
          then Some {| base := b; tnow := t; born := None; seen := t; tcur := [];
                       tsealed := (q, t, tcur s) :: tsealed s; thanded := thanded s |}
          else None
      | LOutBegin q _ =>
          match find_sealed (tsealed s) q with
          | Some (_, z, tevs) =>
              if t - z <=? lag tc
              then Some {| base := b; tnow := t; born := born s; seen := seen s; tcur := tcur s;
                           tsealed := tsealed s; thanded := (q, t, tevs) :: thanded s |}
              else None
          | None => Some (tset s b t)
          end
      | _ => Some (tset s b t)
      end
  end.

Fixpoint trun (c : cfg) (tc : tcfg) (s : tst) (tls : list (Z * label)) : option tst :=
  match tls with
  | [] => Some s
  | (t, l) :: r => match tstep c tc s t l with Some s' => trun c tc s' r | None => None end
  end.

(* what the property promises for every event: handed to the output within this much of its own Add *)
Definition seal_bound (tc : tcfg) : Z := flushT tc + period tc + 2 * lag tc.
Definition handoff_bound (tc : tcfg) : Z := flushT tc + period tc + 3 * lag tc.

(* ---- replay of a clocked trace: entry 107 sets the time of the entries that follow ------------------------------- *)
Fixpoint trun_entries (c : cfg) (tc : tcfg) (s : tst) (es : list entry) (now n : Z) : Z * tst * bool :=
  match es with
  | [] => (n, s, true)
  | e :: r =>
      if ekind_raw e =? 107 then
        match eargs e with
        | t :: _ => trun_entries c tc s r t (n + 1)
        | [] => (n, s, false)
        end
      else
        match elabel e with
        | Some l => match tstep c tc s now l with
                    | Some s' => trun_entries c tc s' r now (n + 1)
                    | None => (n, s, false)
                    end
        | None => trun_entries c tc s r now (n + 1)
        end
  end.

(* ---- the property's own predicate on the raw clocked trace (no LTS, no field of the batch) ------------------------
   M6: EVERY event is sealed, and - if its batch is handed to the output (OutBegin) - handed over, within [bound] of the time
   of its own Add label.  [cur] = add times of the events added since the last Seal; [pend] = sealed batches not yet handed *)
Definition all_within (bound now : Z) (l : list Z) : bool := forallb (fun a => now - a <=? bound) l.

Fixpoint m_handoff_go (bound : Z) (es : list entry) (now : Z) (cur : list Z) (pend : list (Z * list Z)) : bool :=
  match es with
  | [] => true
  | e :: r =>
      match ekind_raw e, eargs e with
      | 107, t :: _ => m_handoff_go bound r t cur pend
      | 1, _ => m_handoff_go bound r now (now :: cur) pend
      | 3, q :: _ => all_within bound now cur && m_handoff_go bound r now [] ((q, cur) :: pend)
      | 6, q :: _ =>
          forallb (fun p => negb (fst p =? q) || all_within bound now (snd p)) pend &&
          m_handoff_go bound r now cur (filter (fun p => negb (fst p =? q)) pend)
      | _, _ => m_handoff_go bound r now cur pend
      end
  end.

Definition m_handoff (tc : tcfg) (es : list entry) : bool := m_handoff_go (handoff_bound tc) es 0 [] [].

(* the measured scheduling latency: first entry of kind 108 *)
Definition jitter_of (es : list entry) : option Z :=
  match find (kind_is 108) es with
  | Some e => match eargs e with j :: _ => if 0 <=? j then Some j else None | [] => None end
  | None => None
  end.

(* (flushMs, clockSlackMs) of a case; clockSlackMs = 0 / absent: the case is not clocked *)
Definition timing_of (case : sx) : option (Z * Z) :=
  match case with
  | SL [SL (_ :: _ :: _ :: SZ f :: _); _; _; SL [_; SL [_; _; _; _; SZ k]]] => Some (f, k)
  | _ => None
  end.

Definition tcfg_of (flushMs slackMs jitterUs : Z) : tcfg :=
  {| flushT := flushMs * 1000; period := heartbeat_period; lag := slackMs * 1000 + 4 * jitterUs |}.

Definition tsummary (n : Z) (s : tst) (ok : bool) (tc : tcfg) : sx :=
  SL [SZ 107; of_bool ok; SZ n; SZ (tnow s); (match born s with Some a => SZ a | None => SL [] end); SZ (seen s);
      SZ (flushT tc); SZ (lag tc); of_nat (length (tsealed s)); of_nat (length (thanded s))].

(* C08 with the clock: the untimed verdict of BatcherGlue.c08_run, then
   - M6 false                                  -> Violates
   - timed LTS refuses the trace (G1/G2/G3)    -> Differ
   A case that is not clocked keeps its untimed verdict *)
Definition c08_run_t (atomic : bool) (case obs : sx) : verdict :=
  let v := c08_run atomic case obs in
  match timing_of case with
  | Some (f, k) =>
      if 0 <? k then
        match case, as_list entry_of_sx obs with
        | SL (cs :: _), Some es0 =>
            match cfg_of_sx atomic cs, jitter_of es0 with
            | Some (c, _), Some j =>
                let tc := tcfg_of f k j in
                let es := of_b 0 es0 in
                match v with
                | BadCase => BadCase
                | Violates m => Violates m
                | _ =>
                    if m_handoff tc es then
                      match v with
                      | Agree =>
                          let '(n, s, ok) := trun_entries c tc (tinit c) es 0 0 in
                          if ok then Agree else Differ (tsummary n s ok tc)
                      | _ => v
                      end
                    else
                      let '(n, s, ok) := trun_entries c tc (tinit c) es 0 0 in
                      Violates (tsummary n s ok tc)
                end
            | _, _ => BadCase
            end
        | _, _ => BadCase
        end
      else v
  | None => v
  end.
