(* Model of one processor working on one stream (pipeline/processor.go: processEvent / doActions /
   Propagate / Spawn) as a labelled transition system, one label per verifTrace site.
   The processor is a stack machine: Propagate (called by an action from inside its Do) runs the
   flushed event through the remaining actions before the interrupted Do continues.
   Actions are NOT modelled: each Do call is an arbitrary choice of (flush the held event first? ,
   result), restricted only by the hold/propagate protocol that join-like actions follow:
     P1  Propagate is only called, from inside Do of action a, with the event a currently holds;
     P2  ActionHold keeps the current event and is returned only by an action that holds nothing;
     P3  an action that still holds an event never lets another one through (Pass / Break);
     P4  ActionBreak is returned at action a only when no later action holds an event
         (file.d's only Break is split, which first sends a time-out to every busy action);
     P5  Spawn (called from inside Do of action a) enters its events to the right of a and never past a
         holder: a child at an index > a, a time-out at a busy index, nothing held left of that index.
   P1-P5 are guards of [pstep], so every real trace is checked against them.  No proofs here. *)
From Verif Require Import Base.Sx.

Inductive pres := RPass | RCollapse | RDiscard | RHold | RBreak.   (* pipeline.ActionResult values 0..4 *)
Definition pres_of_Z (z : Z) : option pres :=
  match z with 0 => Some RPass | 1 => Some RCollapse | 2 => Some RDiscard | 3 => Some RHold | 4 => Some RBreak | _ => None end.

(* event kinds: 0 regular, 1 child, 2 child-parent, 3 time-out, 4 unlock *)
Record pev := { pseq : Z; pkind : Z }.

Inductive phase := BeforeDo | InDo | MustOut.
Record frame := { fev : pev; fidx : Z; fph : phase }.

Record pst := {
  nact : Z;                       (* number of actions *)
  stack : list frame;             (* head = innermost *)
  held : list (Z * pev);          (* (action index, event it holds) *)
  lasttaken : Z;                  (* seq of the last regular event taken from the stream *)
  (* history *)
  outs : list pev;                (* events handed to the output, reversed *)
  dropped : list pev;             (* events finalized without output (Discard / Collapse), reversed *)
  pcrashed : bool
}.
Definition pinit (n : Z) : pst :=
  {| nact := n; stack := []; held := []; lasttaken := 0; outs := []; dropped := []; pcrashed := false |}.

Inductive plabel :=
| PTake (e : pev) (start : Z)               (* the processEvent loop took e from the stream; actions start at [start] *)
| PDo (e : pev) (a : Z) (busy : bool)       (* action a's Do is entered with e *)
| PPropagate (e : pev) (next : Z)           (* action next-1, inside Do, calls Propagate(e) *)
| PSpawn (parent : pev) (n : Z)             (* action, inside Do, calls Spawn(parent, n children) *)
| PSkipTo (e : pev) (idx : Z)                 (* the actions from the event's current index up to idx-1 did not match it (doActions: `continue`) *)
| PPush (e : pev) (idx : Z)                   (* Spawn, from inside Do: a child (kind 1) or a time-out for busy action idx enters the chain at idx *)
| PResult (e : pev) (a : Z) (r : pres)      (* Do returned r *)
| POut (e : pev).                            (* the event is handed to the output *)

Fixpoint held_at (h : list (Z * pev)) (a : Z) : option pev :=
  match h with [] => None | (i, e) :: r => if i =? a then Some e else held_at r a end.
Fixpoint unhold (h : list (Z * pev)) (a : Z) : list (Z * pev) :=
  match h with [] => [] | (i, e) :: r => if i =? a then r else (i, e) :: unhold r a end.
Definition holds_after (h : list (Z * pev)) (a : Z) : bool := existsb (fun p => a <? fst p) h.
Definition pev_eqb (x y : pev) : bool := (pseq x =? pseq y) && (pkind x =? pkind y).

Definition set_stack (s : pst) (st : list frame) : pst :=
  {| nact := nact s; stack := st; held := held s; lasttaken := lasttaken s; outs := outs s; dropped := dropped s; pcrashed := pcrashed s |}.
Definition set_held (s : pst) (st : list frame) (h : list (Z * pev)) : pst :=
  {| nact := nact s; stack := st; held := h; lasttaken := lasttaken s; outs := outs s; dropped := dropped s; pcrashed := pcrashed s |}.

(* where an event that passed action a goes next *)
Definition after_pass (e : pev) (a n : Z) : frame :=
  if a + 1 <? n then {| fev := e; fidx := a + 1; fph := BeforeDo |} else {| fev := e; fidx := a; fph := MustOut |}.

Definition pstep (s : pst) (l : plabel) : option pst :=
  if pcrashed s then None else
  match l with
  | PTake e start =>
      match stack s with
      | [] =>
          if pkind e =? 3 then
            (* a time-out goes to the first busy action (after the repair of processEvent) *)
            match held_at (held s) start with
            | Some _ => if negb (existsb (fun p => fst p <? start) (held s))
                        then Some (set_stack s [{| fev := e; fidx := start; fph := BeforeDo |}]) else None
            | None => None
            end
          else if (start =? 0) && (lasttaken s <? pseq e) then
            if 0 <? nact s
            then Some {| nact := nact s; stack := [{| fev := e; fidx := 0; fph := BeforeDo |}]; held := held s; lasttaken := pseq e;
                         outs := outs s; dropped := dropped s; pcrashed := pcrashed s |}
            else Some {| nact := nact s; stack := [{| fev := e; fidx := 0; fph := MustOut |}]; held := held s; lasttaken := pseq e;
                         outs := outs s; dropped := dropped s; pcrashed := pcrashed s |}
          else None
      | _ :: _ => None
      end
  | PDo e a busy =>
      match stack s with
      | f :: r =>
          match fph f with
          | BeforeDo =>
              if pev_eqb e (fev f) && (a =? fidx f) && Bool.eqb busy (match held_at (held s) a with Some _ => true | None => false end)
              then Some (set_stack s ({| fev := fev f; fidx := a; fph := InDo |} :: r)) else None
          | _ => None
          end
      | [] => None
      end
  | PPropagate e next =>
      match stack s with
      | f :: r =>
          match fph f, held_at (held s) (next - 1) with
          | InDo, Some h =>
              (* P1: the caller is inside Do of action next-1 and flushes the event it holds *)
              if (fidx f =? next - 1) && pev_eqb e h
              then Some (set_held s ((if next <? nact s then {| fev := e; fidx := next; fph := BeforeDo |}
                                      else {| fev := e; fidx := next - 1; fph := MustOut |}) :: f :: r)
                                  (unhold (held s) (next - 1)))
              else None
          | _, _ => None
          end
      | [] => None
      end
  | PSpawn parent n =>
      match stack s with
      | f :: r => match fph f with
                  | InDo => if pev_eqb parent (fev f) || (pseq parent =? pseq (fev f)) then Some s else None
                  | _ => None
                  end
      | [] => None
      end
  | PSkipTo e idx =>
      (* P6: the match conditions of an action are consulted only while it holds nothing
         (`if !p.busyActions[index] && !event.IsTimeoutKind()`): an event can skip an action only if that action is idle *)
      match stack s with
      | f :: r =>
          match fph f with
          | BeforeDo =>
              if pev_eqb e (fev f) && (fidx f <? idx) && (idx <=? nact s) && negb (pkind e =? 3) &&
                 negb (existsb (fun p => (fidx f <=? fst p) && (fst p <? idx)) (held s))
              then Some (set_stack s ((if idx <? nact s then {| fev := fev f; fidx := idx; fph := BeforeDo |}
                                       else {| fev := fev f; fidx := idx - 1; fph := MustOut |}) :: r))
              else None
          | _ => None
          end
      | [] => None
      end
  | PPush e idx =>
      match stack s with
      | f :: r =>
          match fph f with
          | InDo =>
              (* P5: Spawn enters events to the right of the spawning action (children start at parent.action+1, a
                 time-out at a busy action) and never past a holder: nothing is held left of idx (the spawning action
                 itself holds nothing; Spawn's loop over busyActions is ascending and a time-out frees its action) *)
              if (((pkind e =? 1) && (fidx f <? idx)) ||
                  ((pkind e =? 3) && match held_at (held s) idx with Some _ => true | None => false end))
                 && negb (existsb (fun p => fst p <? idx) (held s))
              then Some (set_stack s ((if idx <? nact s then {| fev := e; fidx := idx; fph := BeforeDo |}
                                       else {| fev := e; fidx := idx - 1; fph := MustOut |}) :: f :: r))
              else None
          | _ => None
          end
      | [] => None
      end
  | PResult e a r =>
      match stack s with
      | f :: rest =>
          match fph f with
          | InDo =>
              if negb (pev_eqb e (fev f) && (a =? fidx f)) then None else
              let holding := match held_at (held s) a with Some _ => true | None => false end in
              match r with
              | RPass => if holding then None                                              (* P3 *)
                         else Some (set_stack s (after_pass (fev f) a (nact s) :: rest))
              | RBreak => if holding || holds_after (held s) a then None                   (* P3, P4 *)
                          else Some (set_stack s ({| fev := fev f; fidx := a; fph := MustOut |} :: rest))
              | RDiscard | RCollapse =>
                  Some {| nact := nact s; stack := rest; held := held s; lasttaken := lasttaken s; outs := outs s;
                          dropped := (if pkind (fev f) =? 3 then dropped s else fev f :: dropped s); pcrashed := pcrashed s |}
              | RHold => if holding then None                                              (* P2 *)
                         else Some (set_held s rest ((a, fev f) :: held s))
              end
          | _ => None
          end
      | [] => None
      end
  | POut e =>
      match stack s with
      | f :: rest =>
          match fph f with
          | MustOut => if pev_eqb e (fev f) || (pseq e =? pseq (fev f))
                       then Some {| nact := nact s; stack := rest; held := held s; lasttaken := lasttaken s;
                                    outs := fev f :: outs s; dropped := dropped s; pcrashed := pcrashed s |}
                       else None
          | _ => None
          end
      | [] => None
      end
  end.

Fixpoint prun (s : pst) (ls : list plabel) : option pst :=
  match ls with
  | [] => Some s
  | l :: r => match pstep s l with Some s' => prun s' r | None => None end
  end.
