(* Model of the payload builders of the output plugins (C19):
     pipeline/batch.go            Batch.ForEach
     plugin/output/elasticsearch  out / appendEvent / appendIndexName (REPAIRED: values escaped) / sendSplit
     plugin/output/file           out
     plugin/output/http           out / sendSplit / JSONEncoder / RawEncoder (REPAIRED: missing field keeps the buffer)
     plugin/output/kafka          out (records = slices of one shared buffer)
     plugin/output/splunk         out incl. copy_fields (the envelope of one event as a function of that event and the
                                  configuration; the copied values are oracle trees, objects exploded)
     plugin/output/gelf           out (framing only; formatEvent's rewrite of the event is the [ev_alt] oracle)
     plugin/output/loki           out / send (the envelope; its pieces are encoding/json oracle values)
   plus an executable RFC 8259 recogniser (the byte automaton of encoding/json's scanner).
   No proofs here (Proofs/Payload.v). *)
From Verif Require Import Base.Sx Base.GoSem.

Definition NL : byte := 10%N.
Definition QUOTE : byte := 34%N.
Definition BSLASH : byte := 92%N.
Definition PERCENT : byte := 37%N.

(* ==========================================================================================
   1. JSON text: string bodies, a string scanner, and the document automaton
   ========================================================================================== *)
Definition is_ws (c : byte) : bool := N.eqb c 32 || N.eqb c 9 || N.eqb c 10 || N.eqb c 13.
Definition is_digit (c : byte) : bool := N.leb 48 c && N.leb c 57.
Definition is_digit19 (c : byte) : bool := N.leb 49 c && N.leb c 57.
Definition is_hex (c : byte) : bool :=
  is_digit c || (N.leb 97 c && N.leb c 102) || (N.leb 65 c && N.leb c 70).
(* the character after a backslash: quote, backslash, slash, b f n r t *)
Definition is_simple_esc (c : byte) : bool :=
  N.eqb c 34 || N.eqb c 92 || N.eqb c 47 || N.eqb c 98 || N.eqb c 102 || N.eqb c 110 || N.eqb c 114 || N.eqb c 116.
Definition is_e (c : byte) : bool := N.eqb c 101 || N.eqb c 69.
(* a byte that may stand for itself inside a JSON string *)
Definition is_plain (c : byte) : bool := negb (N.eqb c QUOTE) && negb (N.eqb c BSLASH) && negb (N.ltb c 32).

(* [str_body_ok s]: s is the inside of a JSON string literal (RFC 8259 section 7, byte level as
   encoding/json.Valid checks it: no raw quote, no raw control character, every backslash starts
   a complete escape).  "JSON-string-safe". *)
Fixpoint str_body_ok (s : bytes) : bool :=
  match s with
  | [] => true
  | c :: r =>
      if N.eqb c QUOTE then false
      else if N.ltb c 32 then false
      else if N.eqb c BSLASH then
        match r with
        | [] => false
        | e :: r' =>
            if is_simple_esc e then str_body_ok r'
            else if N.eqb e 117 then
              match r' with
              | h1 :: h2 :: h3 :: h4 :: r'' =>
                  if is_hex h1 && is_hex h2 && is_hex h3 && is_hex h4 then str_body_ok r'' else false
              | _ => false
              end
            else false
        end
      else str_body_ok r
  end.

(* [scan_str s]: s starts just after an opening quote; the input after the closing quote, or None *)
Fixpoint scan_str (s : bytes) : option bytes :=
  match s with
  | [] => None
  | c :: r =>
      if N.eqb c QUOTE then Some r
      else if N.ltb c 32 then None
      else if N.eqb c BSLASH then
        match r with
        | [] => None
        | e :: r' =>
            if is_simple_esc e then scan_str r'
            else if N.eqb e 117 then
              match r' with
              | h1 :: h2 :: h3 :: h4 :: r'' =>
                  if is_hex h1 && is_hex h2 && is_hex h3 && is_hex h4 then scan_str r'' else None
              | _ => None
              end
            else None
        end
      else scan_str r
  end.

(* ---- the document automaton: one step per byte, a stack of open containers ------------------ *)
Inductive jctx := CObj | CArr.
Inductive jst :=
| JVal | JValOrEnd | JKeyOrEnd | JKey | JColon | JEnd
| JStr (key : bool) | JEsc (key : bool) | JHex (key : bool) (n : nat)
| JNeg | JZero | JInt | JDot | JFrac | JExp | JExpSign | JExpDig
| JLit (rest : bytes).
Definition jstate := (jst * list jctx)%type.

Definition j_end (stk : list jctx) (c : byte) : option jstate :=
  if is_ws c then Some (JEnd, stk)
  else if N.eqb c 44 then
    match stk with CObj :: _ => Some (JKey, stk) | CArr :: _ => Some (JVal, stk) | [] => None end
  else if N.eqb c 125 then match stk with CObj :: s' => Some (JEnd, s') | _ => None end
  else if N.eqb c 93 then match stk with CArr :: s' => Some (JEnd, s') | _ => None end
  else None.

Definition j_val (stk : list jctx) (c : byte) : option jstate :=
  if N.eqb c QUOTE then Some (JStr false, stk)
  else if N.eqb c 123 then Some (JKeyOrEnd, CObj :: stk)
  else if N.eqb c 91 then Some (JValOrEnd, CArr :: stk)
  else if N.eqb c 45 then Some (JNeg, stk)
  else if N.eqb c 48 then Some (JZero, stk)
  else if is_digit19 c then Some (JInt, stk)
  else if N.eqb c 116 then Some (JLit [114; 117; 101]%N, stk)
  else if N.eqb c 102 then Some (JLit [97; 108; 115; 101]%N, stk)
  else if N.eqb c 110 then Some (JLit [117; 108; 108]%N, stk)
  else None.

Definition jstep (s : jstate) (c : byte) : option jstate :=
  let '(st, stk) := s in
  match st with
  | JVal => if is_ws c then Some s else j_val stk c
  | JValOrEnd =>
      if is_ws c then Some s
      else if N.eqb c 93 then match stk with CArr :: s' => Some (JEnd, s') | _ => None end
      else j_val stk c
  | JKeyOrEnd =>
      if is_ws c then Some s
      else if N.eqb c 125 then match stk with CObj :: s' => Some (JEnd, s') | _ => None end
      else if N.eqb c QUOTE then Some (JStr true, stk) else None
  | JKey => if is_ws c then Some s else if N.eqb c QUOTE then Some (JStr true, stk) else None
  | JColon => if is_ws c then Some s else if N.eqb c 58 then Some (JVal, stk) else None
  | JEnd => j_end stk c
  | JStr k =>
      if N.eqb c QUOTE then Some (if k then JColon else JEnd, stk)
      else if N.ltb c 32 then None
      else if N.eqb c BSLASH then Some (JEsc k, stk)
      else Some s
  | JEsc k =>
      if is_simple_esc c then Some (JStr k, stk)
      else if N.eqb c 117 then Some (JHex k 3, stk) else None
  | JHex k n =>
      if is_hex c then match n with O => Some (JStr k, stk) | S n' => Some (JHex k n', stk) end else None
  | JNeg => if N.eqb c 48 then Some (JZero, stk) else if is_digit19 c then Some (JInt, stk) else None
  | JZero => if N.eqb c 46 then Some (JDot, stk) else if is_e c then Some (JExp, stk) else j_end stk c
  | JInt =>
      if is_digit c then Some s
      else if N.eqb c 46 then Some (JDot, stk) else if is_e c then Some (JExp, stk) else j_end stk c
  | JDot => if is_digit c then Some (JFrac, stk) else None
  | JFrac => if is_digit c then Some s else if is_e c then Some (JExp, stk) else j_end stk c
  | JExp =>
      if N.eqb c 43 || N.eqb c 45 then Some (JExpSign, stk)
      else if is_digit c then Some (JExpDig, stk) else None
  | JExpSign => if is_digit c then Some (JExpDig, stk) else None
  | JExpDig => if is_digit c then Some s else j_end stk c
  | JLit rest =>
      match rest with
      | [] => None
      | x :: r => if N.eqb c x then Some (match r with [] => JEnd | _ => JLit r end, stk) else None
      end
  end.

Fixpoint jrun (s : jstate) (l : bytes) : option jstate :=
  match l with
  | [] => Some s
  | c :: r => match jstep s c with Some s' => jrun s' r | None => None end
  end.

Definition j_accept (s : jstate) : bool :=
  match s with
  | (JEnd, []) | (JZero, []) | (JInt, []) | (JFrac, []) | (JExpDig, []) => true
  | _ => false
  end.

(* one JSON document (encoding/json.Valid) *)
Definition json_valid (l : bytes) : bool :=
  match jrun (JVal, []) l with Some s => j_accept s | None => false end.

Definition has_nl (l : bytes) : bool := existsb (N.eqb NL) l.

(* complete lines (without their newline) and the unterminated rest *)
Fixpoint split_tail (sep : byte) (b : bytes) : list bytes * bytes :=
  match b with
  | [] => ([], [])
  | c :: b' =>
      let '(ls, t) := split_tail sep b' in
      if N.eqb c sep then ([] :: ls, t)
      else match ls with
           | [] => ([], c :: t)
           | l :: ls' => ((c :: l) :: ls', t)
           end
  end.
Definition lines_tail := split_tail NL.

(* ==========================================================================================
   2. events and Batch.ForEach
   ========================================================================================== *)
(* An event as the builders see it.  Everything the builders obtain from insane-json is an oracle
   value carried by the event (the harness fills them from the real library and checks the
   hypotheses about them on every run):
     enc      Event.Encode (Root.Encode)                       hypotheses enc_valid, enc_line_safe
     ev_raw   Root.Dig(index_values[k]).AsString(), per placeholder position k
     ev_esc   the same value escaped as a JSON string fragment (Node.AppendEscapedString without
              the surrounding quotes)                          hypothesis esc_safe
     ev_topic Root.Dig(topic_field).AsString()
     ev_alt   http raw encoder: encoding of the configured field, None if the field is absent;
              gelf: encoding of the event after formatEvent rewrote it
     ev_copy  splunk copy_fields: per configured entry k, Root.Dig(from_k...) — None when the event
              has no such field, otherwise the value as an [oval] tree: objects exploded into their
              fields (key, the key's JSON string literal, value), everything else the encoding
              Node.Encode writes (hypothesis copy_faithful: [oenc] of the tree is that encoding)   *)
Inductive oval :=
| OV (raw : bytes)
| OO (fs : list (bytes * bytes * oval)).
Definition ofield := (bytes * bytes * oval)%type.

Record ev := mkEv {
  ev_kind : Z;
  enc : bytes;
  ev_raw : list bytes;
  ev_esc : list bytes;
  ev_topic : bytes;
  ev_alt : option bytes;
  ev_copy : list (option oval)
}.

Definition KIND_PARENT : Z := 2.          (* eventKindChildParent *)
Definition is_parent (e : ev) : bool := Z.eqb (ev_kind e) KIND_PARENT.

(* for _, event := range b.events { if event.IsChildParentKind() { continue }; cb(event) } *)
Fixpoint for_each {A} (b : list ev) (cb : A -> ev -> A) (acc : A) : A :=
  match b with
  | [] => acc
  | e :: r => if is_parent e then for_each r cb acc else for_each r cb (cb acc e)
  end.

(* specification side: the deliverable events of a batch *)
Definition deliverable (b : list ev) : list ev := filter (fun e => negb (is_parent e)) b.

(* ==========================================================================================
   3. append-only byte buffers (kept reversed so that the model is linear)
   ========================================================================================== *)
Record buf := mkBuf { rb : bytes; blen : Z }.
Definition rev_fast {A} (l : list A) : list A := rev_append l [].
(* data.outBuf[:0] — what the previous batch left in the buffer is cut off *)
Definition buf_reset (prev : bytes) : buf := mkBuf (rev_fast (firstn 0 prev)) 0.
Definition bapp (b : buf) (x : bytes) : buf := mkBuf (rev_append x (rb b)) (blen b + len x).
Definition bpush (b : buf) (c : byte) : buf := mkBuf (c :: rb b) (blen b + 1).
Definition bbytes (b : buf) : bytes := rev_fast (rb b).

(* ==========================================================================================
   4. the HTTP exchange: a script of status codes answers the requests in order
   ========================================================================================== *)
Definition next_status (script : list Z) : Z * list Z :=
  match script with [] => (200, []) | s :: r => (s, r) end.
(* xhttp.Client.DoTimeout: 200..202 is success, everything else an error; a 2xx answer is then handed
   to the sink's response reader (ES reportESErrors when process_response is set, splunk
   parseSplunkError, none for http), which may still reject it.  An answer of the script is
   1000 * kind + status:  kind 0 is the plain body {"errors":false,"code":0} every reader accepts;
   kinds 1..7 (status 200..202 only) are other bodies — an ODD kind stands for "the reader of this sink
   ACCEPTS the body", an EVEN kind for "it REJECTS it" (err != nil with a 2xx status code).  Which
   (sink, configuration, kind) combinations exist is the table [answer_ok] of the exchange glue. *)
Definition answer_status (st : Z) : Z := st mod 1000.
Definition answer_kind (st : Z) : Z := st / 1000.
Definition is_ok_status (st : Z) : bool :=
  (0 <=? st) && (st <? 8000)
  && (200 <=? answer_status st) && (answer_status st <=? 202)
  && ((answer_kind st =? 0) || Z.odd (answer_kind st)).

Record sreq := mkReq { rq_l : Z; rq_r : Z; rq_body : bytes; rq_status : Z }.

(* result of one sendSplit / send: requests made (in order), remaining script, status, err != nil *)
Definition sres := (list sreq * list Z * Z * bool)%type.

(* sendSplit(left, right, begin, data); fuel bounds the recursion depth (Err 99 = out of fuel) *)
Fixpoint send_split (fuel : nat) (script : list Z) (left right : Z) (begin : list Z) (data : bytes)
  : res sres :=
  if Z.eqb left right then Ok ([], script, 200, false) else
  match fuel with
  | O => Err 99
  | S f =>
      bl <- idx begin left ;;
      br <- idx begin right ;;
      body <- slice data bl br ;;
      let '(st, script') := next_status script in
      let rq := mkReq left right body st in
      if is_ok_status st then Ok ([rq], script', 200, false)
      else if Z.eqb st 413 then
        if Z.eqb (right - left) 1 then Ok ([rq], script', st, true)
        else
          let middle := (left + right) / 2 in
          r1 <- send_split f script' left middle begin data ;;
          let '(log1, script1, st1, err1) := r1 in
          if err1 then Ok (rq :: log1, script1, st1, true)
          else
            r2 <- send_split f script1 middle right begin data ;;
            let '(log2, script2, st2, err2) := r2 in
            Ok (rq :: log1 ++ log2, script2, st2, err2)
      else Ok ([rq], script', st, true)
  end.

(* send(data): one request with the whole payload *)
Definition send_whole (script : list Z) (n : Z) (data : bytes) : sres :=
  let '(st, script') := next_status script in
  ([mkReq 0 n data st], script', (if is_ok_status st then 200 else st), negb (is_ok_status st)).

(* what out() returns to the retrying batcher: 0 = nil, 1 = error (the batch is sent again) *)
Definition out_ret_es (st : Z) (err : bool) : Z :=
  if err then (if Z.eqb st 400 || Z.eqb st 413 then 0 else 1) else 0.
Definition out_ret_splunk (st : Z) (err : bool) : Z :=
  if err then (if Z.eqb st 400 then 0 else 1) else 0.

(* one call of a plugin's out(): requests, value returned, the buffer left in the worker data *)
Record attempt := mkAtt { at_reqs : list sreq; at_err : bool; at_ret : Z; at_buf : bytes; at_script : list Z }.

(* ==========================================================================================
   5. Elasticsearch
   ========================================================================================== *)
Inductive ival := ITime | IField.        (* "@time" or an event field *)
Record es_cfg := mkEs {
  es_op : bytes;            (* batch_op_type *)
  es_fmt : bytes;           (* index_format *)
  es_vals : list ival;      (* index_values *)
  es_time : bytes;          (* p.time *)
  es_split : bool           (* split_batch *)
}.

Definition oracle_at (l : list bytes) (k : nat) : bytes := nth k l [].
Definition NOT_SET : bytes := [110; 111; 116; 95; 115; 101; 116]%N.
Definition is_nil {A} (l : list A) : bool := match l with [] => true | _ => false end.

(* the text a placeholder is replaced with (repaired code: the event's value is escaped) *)
Definition es_piece (v : ival) (time : bytes) (e : ev) (k : nat) : bytes :=
  match v with
  | ITime => time
  | IField => if is_nil (oracle_at (ev_raw e) k) then NOT_SET else oracle_at (ev_esc e) k
  end.

(* the loop of appendIndexName over index_format; k = replacements; Panic 3 = logger.Fatal *)
Fixpoint es_name (fmt : bytes) (vals : list ival) (k : nat) (time : bytes) (e : ev) (acc : buf) : res buf :=
  match fmt with
  | [] => Ok acc
  | c :: r =>
      if N.eqb c PERCENT then
        match vals with
        | [] => Panic 3
        | v :: vals' => es_name r vals' (S k) time e (bapp acc (es_piece v time e k))
        end
      else es_name r vals k time e (bpush acc c)
  end.

(* p.headerPrefix: open brace, quoted op, colon, open brace, quoted _index, colon, opening quote of the name *)
Definition es_prefix (op : bytes) : bytes :=
  [123; 34]%N ++ op ++ [34; 58; 123; 34; 95; 105; 110; 100; 101; 120; 34; 58; 34]%N.
Definition es_suffix : bytes := [34; 125; 125]%N.

Definition es_append_index_name (c : es_cfg) (e : ev) (acc : buf) : res buf :=
  b <- es_name (es_fmt c) (es_vals c) 0 (es_time c) e (bapp acc (es_prefix (es_op c))) ;;
  Ok (bapp b es_suffix).

Definition es_append_event (c : es_cfg) (e : ev) (acc : buf) : res buf :=
  b <- es_append_index_name c e acc ;;
  Ok (bpush (bapp (bpush b NL) (enc e)) NL).

(* the action line of one event, on its own *)
Definition es_header (c : es_cfg) (e : ev) : res bytes :=
  b <- es_append_index_name c e (mkBuf [] 0) ;; Ok (bbytes b).

(* state of the ForEach callback: outBuf, begin (reversed), eventsCount *)
Definition es_state := res (buf * list Z * Z)%type.
Definition es_cb (c : es_cfg) (s : es_state) (e : ev) : es_state :=
  '(b, rbeg, n) <- s ;;
  b' <- es_append_event c e b ;;
  Ok (b', blen b :: rbeg, n + 1).

(* the payload and the begin table of a batch *)
Definition es_build (c : es_cfg) (batch : list ev) (prev : bytes) : res (bytes * list Z * Z) :=
  '(b, rbeg, n) <- for_each batch (es_cb c) (Ok (buf_reset prev, [], 0)) ;;
  Ok (bbytes b, rev_fast (blen b :: rbeg), n).

Definition es_out (c : es_cfg) (batch : list ev) (prev : bytes) (script : list Z) : res attempt :=
  '(data, begin, n) <- es_build c batch prev ;;
  '(log, script', st, err) <-
     (if es_split c then send_split (Z.to_nat n) script 0 n begin data
      else Ok (send_whole script n data)) ;;
  Ok (mkAtt log err (out_ret_es st err) data script').

(* ==========================================================================================
   6. file, http, splunk, gelf: one frame per event appended to the buffer
   ========================================================================================== *)
Definition frame_file (e : ev) : bytes := enc e ++ [NL].
Definition alt_or_empty (e : ev) : bytes := match ev_alt e with Some b => b | None => [] end.
(* http: json encoder = the event; raw encoder = the field's encoding, nothing if it is absent *)
Definition frame_http (raw : bool) (e : ev) : bytes := (if raw then alt_or_empty e else enc e) ++ [NL].
Definition SPLUNK_PRE : bytes := [123; 34; 101; 118; 101; 110; 116; 34; 58]%N.   (* {"event": *)
Definition frame_splunk (e : ev) : bytes := SPLUNK_PRE ++ enc e ++ [125]%N.

(* ---- splunk copy_fields: the envelope of ONE event ------------------------------------------
   out():  root := {} ; root.AddField("event").MutateToNode(event.Root.Node)
           for every configured entry: v := event.Root.Dig(from...) ; if v == nil { continue }
                                        pipeline.CreateNestedField(root, to).MutateToNode(v)
           outBuf = root.Encode(outBuf) ; root.DecodeString("{}")
   The envelope is a tree of ordered fields; what comes from the event is an oracle tree. *)
(* Node.Encode of a tree: an object is its fields in order, "key":value, comma separated *)
Fixpoint oenc (v : oval) : bytes :=
  match v with
  | OV r => r
  | OO fs =>
      123%N :: (fix go (fs : list ofield) (first : bool) : bytes :=
                  match fs with
                  | [] => [125]%N
                  | (_, esc, x) :: r => (if first then [] else [44]%N) ++ esc ++ 58%N :: oenc x ++ go r false
                  end) fs true
  end.

(* AddFieldNoAlloc(name) followed by a mutation of the node it returns: the FIRST field of that
   name is mutated in place, a missing one is appended (as null) and mutated *)
Fixpoint upsert (k esc : bytes) (f : option oval -> oval) (fs : list ofield) : list ofield :=
  match fs with
  | [] => [(k, esc, f None)]
  | (k', e', x) :: r =>
      if bytes_eqb k' k then (k', e', f (Some x)) :: r else (k', e', x) :: upsert k esc f r
  end.

(* the fields CreateNestedField finds below a node: a node that is not an object is reset to {} *)
Definition fields_of (o : option oval) : list ofield := match o with Some (OO fs) => fs | _ => [] end.

(* CreateNestedField(root, path).MutateToNode(v) on the fields of an object; a path segment is
   (key, the key's JSON string literal) *)
Fixpoint set_path (path : list (bytes * bytes)) (v : oval) (fs : list ofield) : list ofield :=
  match path with
  | [] => fs
  | (k, esc) :: rest =>
      match rest with
      | [] => upsert k esc (fun _ => v) fs
      | _ :: _ => upsert k esc (fun old => OO (set_path rest v (fields_of old))) fs
      end
  end.

(* one copy_fields entry: the configured `to` text and cfg.ParseFieldSelector(to) *)
Record cp_entry := mkCp { cp_to_raw : bytes; cp_to : list (bytes * bytes) }.
Definition EVENT_KEY : bytes := [101; 118; 101; 110; 116]%N.                 (* event *)
Definition EVENT_ESC : bytes := [34; 101; 118; 101; 110; 116; 34]%N.         (* "event" *)
(* Start(): an entry whose `to` is empty, "event", or starts with "event." is logged and dropped *)
Definition splunk_keep (to : bytes) : bool :=
  negb (is_nil to || bytes_eqb to EVENT_KEY || has_prefix to (EVENT_KEY ++ [46]%N)).

Fixpoint apply_copies (cfg : list cp_entry) (vals : list (option oval)) (fs : list ofield) : list ofield :=
  match cfg with
  | [] => fs
  | c :: cfg' =>
      let fs' :=
        if splunk_keep (cp_to_raw c) then
          match vals with
          | Some x :: _ => set_path (cp_to c) x fs
          | _ => fs
          end
        else fs in
      apply_copies cfg' (tl vals) fs'
  end.

(* the envelope of one event: a function of THAT event (its encoding and its copied values) and of
   the configuration only *)
Definition envelope (cfg : list cp_entry) (e : ev) : bytes :=
  oenc (OO (apply_copies cfg (ev_copy e) [(EVENT_KEY, EVENT_ESC, OV (enc e))])).
Definition frame_gelf (e : ev) : bytes := alt_or_empty e ++ [0]%N.

Definition build_frames (frame : ev -> bytes) (batch : list ev) (prev : bytes) : bytes :=
  bbytes (for_each batch (fun b e => bapp b (frame e)) (buf_reset prev)).

(* http keeps a begin table as well *)
Definition http_cb (raw : bool) (s : buf * list Z * Z) (e : ev) : buf * list Z * Z :=
  let '(b, rbeg, n) := s in (bapp b (frame_http raw e), blen b :: rbeg, n + 1).
Definition http_build (raw : bool) (batch : list ev) (prev : bytes) : bytes * list Z * Z :=
  let '(b, rbeg, n) := for_each batch (http_cb raw) (buf_reset prev, [], 0) in
  (bbytes b, rev_fast (blen b :: rbeg), n).

Definition http_out (raw split : bool) (batch : list ev) (prev : bytes) (script : list Z) : res attempt :=
  let '(data, begin, n) := http_build raw batch prev in
  '(log, script', st, err) <-
     (if split then send_split (Z.to_nat n) script 0 n begin data
      else Ok (send_whole script n data)) ;;
  Ok (mkAtt log err (out_ret_es st err) data script').

(* file: one Write of the buffer (status 0), never an error *)
Definition file_out (batch : list ev) (prev : bytes) (script : list Z) : res attempt :=
  let data := build_frames frame_file batch prev in
  Ok (mkAtt [mkReq 0 (len (deliverable batch)) data 0] false 0 data script).

Definition splunk_out (cfg : list cp_entry) (batch : list ev) (prev : bytes) (script : list Z) : res attempt :=
  let data := build_frames (envelope cfg) batch prev in
  let '(log, script', st, err) := send_whole script (len (deliverable batch)) data in
  Ok (mkAtt log err (out_ret_splunk st err) data script').

(* gelf: one TCP write; a failed write (script entry <> 200) is retried *)
Definition gelf_out (batch : list ev) (prev : bytes) (script : list Z) : res attempt :=
  let data := build_frames frame_gelf batch prev in
  let '(st, script') := next_status script in
  Ok (mkAtt [mkReq 0 (len (deliverable batch)) data st] (negb (is_ok_status st)) (if is_ok_status st then 0 else 1) data script').

(* ==========================================================================================
   7. Kafka: one record per event, its value a slice [start, end) of the shared buffer
   ========================================================================================== *)
Record k_cfg := mkK { k_default : bytes; k_use_field : bool; k_batch_size : Z }.
Record krec := mkRec { kr_topic : bytes; kr_start : Z; kr_end : Z }.

Definition k_topic (c : k_cfg) (e : ev) : bytes :=
  if k_use_field c then (if is_nil (ev_topic e) then k_default c else ev_topic e) else k_default c.

Definition k_state := res (buf * list krec * Z)%type.
(* data.messages[i] with len(data.messages) = BatchSize_ : Panic 2 when the batch is larger *)
Definition k_cb (c : k_cfg) (s : k_state) (e : ev) : k_state :=
  '(b, rrecs, i) <- s ;;
  let b' := bapp b (enc e) in
  if (0 <=? i) && (i <? k_batch_size c)
  then Ok (b', mkRec (k_topic c e) (blen b) (blen b') :: rrecs, i + 1)
  else Panic 2.

Definition kafka_build (c : k_cfg) (batch : list ev) (prev : bytes) : res (bytes * list krec) :=
  '(b, rrecs, _) <- for_each batch (k_cb c) (Ok (buf_reset prev, [], 0)) ;;
  Ok (bbytes b, rev_fast rrecs).

(* the value a record carries *)
Definition k_value (data : bytes) (r : krec) : res bytes := slice data (kr_start r) (kr_end r).

Fixpoint k_reqs (data : bytes) (recs : list krec) (st : Z) : res (list sreq) :=
  match recs with
  | [] => Ok []
  | r :: rs =>
      v <- k_value data r ;;
      tl <- k_reqs data rs st ;;
      (* a record is reported as a "request": l/r = its slice, body = topic and value *)
      Ok (mkReq (kr_start r) (kr_end r) (kr_topic r) (-1) :: mkReq (kr_start r) (kr_end r) v st :: tl)
  end.

Definition kafka_out (c : k_cfg) (batch : list ev) (prev : bytes) (script : list Z) : res attempt :=
  '(data, recs) <- kafka_build c batch prev ;;
  let '(st, script') := next_status script in
  reqs <- k_reqs data recs st ;;
  Ok (mkAtt reqs (negb (is_ok_status st)) (if is_ok_status st then 0 else 1) data script').

(* ==========================================================================================
   7b. Loki: one JSON envelope per batch (plugin/output/loki out / send)
   ========================================================================================== *)
(* The envelope is built with encoding/json, so the pieces are oracle values carried by the event
   (the harness fills them from insane-json + encoding/json and checks them with json.Valid):
     ev_raw = [ts; msg]  the JSON string literals json.Marshal writes for
                         Dig(timestamp_field).AsString() and Dig(message_field).AsString();
                         ts = [] when that value is empty: the plugin stamps time.Now(), which the
                         harness canonicalises to "@now"
     ev_topic            non-empty when isUnixNanoFormat rejects the timestamp value
     ev_alt              the event without those two fields as json.Marshal(json.RawMessage(..)) writes it
   The specification side is the same function: every attempt (also a repeated one) carries the
   entries of the ORIGINAL events. *)
Definition LOKI_PRE : bytes := [123; 34; 115; 116; 114; 101; 97; 109; 115; 34; 58; 91; 123; 34; 115; 116; 114; 101; 97; 109; 34; 58]%N.   (* {"streams":[{"stream": *)
Definition LOKI_MID : bytes := [44; 34; 118; 97; 108; 117; 101; 115; 34; 58; 91]%N.   (* ,"values":[ *)
Definition LOKI_SUF : bytes := [93; 125; 93; 125]%N.   (* ]}]} *)
Definition LOKI_NOW : bytes := [34; 64; 110; 111; 119; 34]%N.   (* "@now" *)

Definition loki_ts (e : ev) : bytes :=
  let t := oracle_at (ev_raw e) 0 in if is_nil t then LOKI_NOW else t.
(* one element of "values": [ts, line, rest of the event] *)
Definition loki_entry (e : ev) : bytes :=
  [91]%N ++ loki_ts e ++ [44]%N ++ oracle_at (ev_raw e) 1 ++ [44]%N ++ alt_or_empty e ++ [93]%N.
Definition loki_bad (e : ev) : bool := negb (is_nil (ev_topic e)).

Fixpoint loki_join (es : list ev) (first : bool) (acc : buf) : buf :=
  match es with
  | [] => acc
  | e :: r => loki_join r false (bapp (if first then acc else bpush acc 44%N) (loki_entry e))
  end.

Definition loki_body (labels : bytes) (ds : list ev) : bytes :=
  bbytes (bapp (loki_join ds true (bapp (bapp (bapp (mkBuf [] 0) LOKI_PRE) labels) LOKI_MID)) LOKI_SUF).

(* the scripted answers: Loki acknowledges with 204 *)
Definition next_status_loki (script : list Z) : Z * list Z :=
  match script with [] => (204, []) | s :: r => (s, r) end.

(* out(): no request at all when a timestamp is rejected (errUnixNanoFormat: the batch is dropped
   after logging, like a 400); a batch without deliverable events never reaches out() (Batcher.work) *)
Definition loki_out (labels : bytes) (batch : list ev) (prev : bytes) (script : list Z) : res attempt :=
  let ds := deliverable batch in
  if is_nil ds then Ok (mkAtt [] false 0 prev script)
  else if existsb loki_bad ds then Ok (mkAtt [] true 0 prev script)
  else
    let body := loki_body labels ds in
    let '(st, script') := next_status_loki script in
    let ok := Z.eqb st 204 in
    Ok (mkAtt [mkReq 0 (len ds) body st] (negb ok) (if ok || Z.eqb st 400 then 0 else 1) prev script').

(* ==========================================================================================
   8. successive batches through one worker (buffer reuse) with retries
   ========================================================================================== *)
Definition out_fn := list ev -> bytes -> list Z -> res attempt.

(* a batch is offered up to [tries] times while out() returns an error *)
Fixpoint attempts (out : out_fn) (tries : nat) (batch : list ev) (prev : bytes) (script : list Z)
  : list (res attempt) * bytes * list Z * bool :=
  match tries with
  | O => ([], prev, script, true)
  | S t =>
      match out batch prev script with
      | Ok a =>
          if Z.eqb (at_ret a) 1
          then let '(rest, p, s, ok) := attempts out t batch (at_buf a) (at_script a) in (Ok a :: rest, p, s, ok)
          else ([Ok a], at_buf a, at_script a, true)
      | r => ([r], prev, script, false)          (* a panic ends the case *)
      end
  end.

Fixpoint run_batches (out : out_fn) (batches : list (list ev)) (prev : bytes) (script : list Z)
  : list (list ev * res attempt) :=
  match batches with
  | [] => []
  | b :: bs =>
      let '(atts, p, s, ok) := attempts out 3 b prev script in
      let tagged := map (fun a => (b, a)) atts in
      if ok then tagged ++ run_batches out bs p s else tagged
  end.

(* The plugin driven through its public API (Start / Out): the plugin's own Batcher forms the batch and
   the RetriableBatcher (retry = 1: three calls) offers it to out().  Batcher.work calls OutFn only when
   the batch has an iterable (non-parent) event: a batch without one is committed without any request. *)
Definition via_out (out : out_fn) : out_fn :=
  fun batch prev script =>
    if is_nil (deliverable batch) then Ok (mkAtt [] false 0 prev script) else out batch prev script.

(* ==========================================================================================
   9. exchange glue
   ========================================================================================== *)
Definition opt_bytes_of_sx (s : sx) : option (option bytes) :=
  match s with SZ 0 => Some None | SB b => Some (Some b) | _ => None end.

(* oval = #raw | ((#key #key_literal oval) ...) *)
Fixpoint oval_of_sx (s : sx) : option oval :=
  match s with
  | SB r => Some (OV r)
  | SL l =>
      (fix go (l : list sx) : option oval :=
         match l with
         | [] => Some (OO [])
         | SL [SB k; SB e; x] :: r =>
             match oval_of_sx x, go r with
             | Some v, Some (OO fs) => Some (OO ((k, e, v) :: fs))
             | _, _ => None
             end
         | _ => None
         end) l
  | SZ _ => None
  end.
(* a copied value: 0 (the event has no such field) | oval *)
Definition copy_of_sx (s : sx) : option (option oval) :=
  match s with
  | SZ 0 => Some None
  | _ => match oval_of_sx s with Some v => Some (Some v) | None => None end
  end.

(* ev = (kind #enc (#raw ...) (#esc ...) #topic alt [(copy ...)])   alt = 0 | #bytes *)
Definition ev_of_sx (s : sx) : option ev :=
  match s with
  | SL [SZ k; SB e; r; x; SB t; a] =>
      match as_list as_B r, as_list as_B x, opt_bytes_of_sx a with
      | Some r', Some x', Some a' => Some (mkEv k e r' x' t a' [])
      | _, _, _ => None
      end
  | SL [SZ k; SB e; r; x; SB t; a; cp] =>
      match as_list as_B r, as_list as_B x, opt_bytes_of_sx a, as_list copy_of_sx cp with
      | Some r', Some x', Some a', Some cp' => Some (mkEv k e r' x' t a' cp')
      | _, _, _, _ => None
      end
  | _ => None
  end.

(* splunk cfg = (entry ...)   entry = (#from #to (#from_segment ...) ((#to_segment #literal) ...));
   the parsed paths are cfg.ParseFieldSelector's (oracle values); a kept entry whose parsed target is
   empty or starts at the "event" key is outside the model (Start's check is on the text) *)
Definition seg_of_sx (s : sx) : option (bytes * bytes) :=
  match s with SL [SB k; SB e] => Some (k, e) | _ => None end.
Definition cp_entry_of_sx (s : sx) : option cp_entry :=
  match s with
  | SL [SB _; SB to; SL _; segs] =>
      match as_list seg_of_sx segs with
      | Some p =>
          if splunk_keep to then
            match p with
            | [] => None
            | (k, _) :: _ => if bytes_eqb EVENT_KEY k then None else Some (mkCp to p)
            end
          else Some (mkCp to p)
      | None => None
      end
  | _ => None
  end.
Definition splunk_cfg_of_sx (s : sx) : option (list cp_entry) := as_list cp_entry_of_sx s.

Definition batches_of_sx (s : sx) : option (list (list ev)) := as_list (as_list ev_of_sx) s.
(* an index value is a field name or "@time" *)
Definition AT_TIME : bytes := [64; 116; 105; 109; 101]%N.
Definition ival_of_sx (s : sx) : option ival :=
  match s with SB n => Some (if bytes_eqb n AT_TIME then ITime else IField) | _ => None end.

Definition sx_of_req (r : sreq) : sx := SL [SB (rq_body r); SZ (rq_status r)].
(* attempt = (0 ((#body status) ...) ret) | (1 e) | (2) panic *)
Definition sx_flat (a : res attempt) : sx :=
  match a with
  | Ok a => SL [SZ 0; SL (map sx_of_req (at_reqs a)); SZ (at_ret a)]
  | Err e => SL [SZ 1; SZ e]
  | Panic _ => SL [SZ 2]
  end.

(* which: 0 es | 1 file | 2 http | 3 kafka | 4 splunk | 5 gelf | 6 loki;  case = (cfg (batch ...) (status ...))
   (c19_entry reduces which modulo 16: the harness numbers its buffer-size / transport variants of a sink
   16*v + sink; the model is value-level, so every variant has the same model) *)
(* Start(): an empty index_values list becomes ["@time"] *)
Definition es_default_vals (vs : list ival) : list ival := if is_nil vs then [ITime] else vs.

(* es cfg = (#op #index_format (#value ...) #time split [process_response]); the sixth element (default:
   true) only matters for the table of answers below *)
Definition es_of_sx (cfg : sx) : option (es_cfg * bool) :=
  match cfg with
  | SL [SB op; SB fmt; vals; SB time; split] =>
      match as_list ival_of_sx vals, as_bool split with
      | Some vs, Some sp => Some (mkEs op fmt (es_default_vals vs) time sp, true)
      | _, _ => None
      end
  | SL [SB op; SB fmt; vals; SB time; split; pr] =>
      match as_list ival_of_sx vals, as_bool split, as_bool pr with
      | Some vs, Some sp, Some p => Some (mkEs op fmt (es_default_vals vs) time sp, p)
      | _, _, _ => None
      end
  | _ => None
  end.

Definition out_of_case (which : Z) (cfg : sx) : option out_fn :=
  match which, cfg with
  | 0, _ => match es_of_sx cfg with Some (c, _) => Some (es_out c) | None => None end
  | 1, SL [] => Some file_out
  | 2, SL [raw; split] =>
      match as_bool raw, as_bool split with
      | Some r, Some sp => Some (http_out r sp)
      | _, _ => None
      end
  | 3, SL [SB dflt; usef; SZ bs] =>
      match as_bool usef with Some u => Some (kafka_out (mkK dflt u bs)) | None => None end
  | 4, _ => match splunk_cfg_of_sx cfg with Some c => Some (splunk_out c) | None => None end
  | 5, SL _ => Some gelf_out          (* gelf cfg: the field options, which only the oracle formatEvent reads *)
  | 6, SL [SB labels] => Some (loki_out labels)
  | _, _ => None
  end.

(* ---- the property's own predicate on what the implementation did ----------------------------
   Per call of out(): every body is well framed for its sink (ES: action line / document pairs
   with every action line one valid JSON document; file, http: complete lines; splunk: a row of
   JSON objects, each the envelope of its event — {"event":<the event>} plus the fields copy_fields
   takes from THAT event; gelf: NUL-terminated chunks); the documents in the bodies that were
   answered with success (kafka: the record values) are, in order and without repetition, documents
   of the batch's deliverable events; when the exchange ended without error they are ALL of them. *)
Fixpoint is_subseq (xs ys : list bytes) : bool :=
  match ys with
  | [] => is_nil xs
  | y :: ys' =>
      match xs with
      | [] => true
      | x :: xs' => if bytes_eqb x y then is_subseq xs' ys' else is_subseq xs ys'
      end
  end.

Fixpoint list_bytes_eqb (xs ys : list bytes) : bool :=
  match xs, ys with
  | [], [] => true
  | x :: xs', y :: ys' => bytes_eqb x y && list_bytes_eqb xs' ys'
  | _, _ => false
  end.

Fixpoint unpair (ls : list bytes) : option (list bytes * list bytes) :=
  match ls with
  | [] => Some ([], [])
  | h :: d :: r => match unpair r with Some (hs, ds) => Some (h :: hs, d :: ds) | None => None end
  | _ => None
  end.

(* cut a row of concatenated JSON documents (objects / arrays / strings) at the points where the
   automaton is back at nesting depth 0 *)
Fixpoint split_docs (s : jstate) (rcur : bytes) (l : bytes) : option (list bytes) :=
  match l with
  | [] => if is_nil rcur then Some [] else None
  | c :: r =>
      match jstep s c with
      | None => None
      | Some (JEnd, []) =>
          match split_docs (JVal, []) [] r with
          | Some ds => Some (rev_fast (c :: rcur) :: ds)
          | None => None
          end
      | Some s' => split_docs s' (c :: rcur) r
      end
  end.

Definition strip_frame (pre suf : bytes) (l : bytes) : option bytes :=
  if has_prefix l pre && has_suffix l suf && (len pre + len suf <=? len l)
  then Some (firstn (length l - length pre - length suf) (skipn (length pre) l)) else None.

(* linear-time removal of a prefix and a suffix *)
Definition strip_frame_fast (pre suf : bytes) (l : bytes) : option bytes :=
  if has_prefix l pre then
    let r := rev_fast (skipn (length pre) l) in
    let rs := rev_fast suf in
    if has_prefix r rs then Some (rev_fast (skipn (length rs) r)) else None
  else None.

(* cut a comma-separated row of JSON documents (arrays / objects / strings) *)
Fixpoint split_entries (s : jstate) (rcur : bytes) (l : bytes) : option (list bytes) :=
  match l with
  | [] => if is_nil rcur then Some [] else None
  | c :: r =>
      match jstep s c with
      | None => None
      | Some (JEnd, []) =>
          let d := rev_fast (c :: rcur) in
          match r with
          | [] => Some [d]
          | c2 :: r2 =>
              if N.eqb c2 44 && negb (is_nil r2) then
                match split_entries (JVal, []) [] r2 with
                | Some ds => Some (d :: ds)
                | None => None
                end
              else None
          end
      | Some s' => split_entries s' (c :: rcur) r
      end
  end.

(* loki: the body is one valid JSON document, the envelope around the configured labels, and its
   "values" are cut into their elements *)
Definition loki_docs (labels : bytes) (body : bytes) : option (list bytes) :=
  if json_valid body then
    match strip_frame_fast (LOKI_PRE ++ labels ++ LOKI_MID) LOKI_SUF body with
    | Some row => split_entries (JVal, []) [] row
    | None => None
    end
  else None.

Definition docs_of_body (which : Z) (cfg : sx) (body : bytes) : option (list bytes) :=
  match which with
  | 0 =>
      let '(ls, t) := lines_tail body in
      if negb (is_nil t) then None else
      match unpair ls with
      | Some (hs, ds) => if forallb json_valid hs then Some ds else None
      | None => None
      end
  | 1 | 2 => let '(ls, t) := lines_tail body in if is_nil t then Some ls else None
  | 3 => Some [body]
  | 4 => split_docs (JVal, []) [] body       (* the envelopes, whole *)
  | 5 =>
      (* every NUL-terminated chunk is one JSON document *)
      let '(ls, t) := split_tail 0%N body in
      if is_nil t && forallb json_valid ls then Some ls else None
  | 6 => match cfg with SL [SB labels] => loki_docs labels body | _ => None end
  | _ => None
  end.

Definition expected_docs (which : Z) (cfg : sx) (batch : list ev) : list bytes :=
  match which, cfg with
  | 2, SL [SZ 1; _] => map alt_or_empty (deliverable batch)
  | 5, _ => map alt_or_empty (deliverable batch)
  | 6, _ => map loki_entry (deliverable batch)
  | 4, _ => match splunk_cfg_of_sx cfg with
            | Some c => map (envelope c) (deliverable batch)
            | None => []
            end
  | _, _ => map enc (deliverable batch)
  end.

Definition carries (which st : Z) : bool :=
  if Z.eqb which 3 then negb (Z.eqb st (-1))
  else if Z.eqb which 1 then true
  else if Z.eqb which 6 then Z.eqb st 204 else is_ok_status st.

Fixpoint carried_docs (which : Z) (cfg : sx) (reqs : list sx) : option (list bytes) :=
  match reqs with
  | [] => Some []
  | SL [SB body; SZ st] :: r =>
      match docs_of_body which cfg body, carried_docs which cfg r with
      | Some d, Some ds => Some (if carries which st then d ++ ds else ds)
      | _, _ => None
      end
  | _ => None
  end.

Definition complete (which : Z) (m : res attempt) : bool :=
  Z.eqb which 3 || match m with Ok a => negb (at_err a) | _ => false end.

Definition att_docs_pred (which : Z) (cfg : sx) (batch : list ev) (m : res attempt) (o : sx) : bool :=
  match o with
  | SL [SZ 0; SL reqs; SZ _] =>
      match carried_docs which cfg reqs with
      | Some ds =>
          let want := expected_docs which cfg batch in
          is_subseq ds want && (if complete which m then list_bytes_eqb ds want else true)
      | None => false
      end
  | SL [SZ 2] => is_panic m
  | _ => false
  end.

(* ---- the routing clause of the predicate ----------------------------------------------------------
   Besides the document a sink may derive from an event WHERE the document goes: kafka the record's
   topic, elasticsearch the action line with the index name built from index_format / index_values.
   The clause: every carried document travels with the routing value of ITS OWN event,
        kafka   topic = (use_topic_field and the event has a non-empty string in topic_field)
                        ? that value : default_topic                                    [k_topic]
        es      action line = {"<op>":{"_index":"<index_format with the event's values>"}}   [es_header]
   — functions of that event and of the configuration only: no value of another event of the batch, of
   an earlier batch of the same worker (records and buffers are reused), or of an earlier attempt may
   show.  Executable form: the carried (route, document) pairs are, in order and without repetition,
   pairs of the batch's deliverable events; ALL of them when the exchange ended without error (kafka:
   always).  The other sinks have no per-event routing value outside the document: splunk's copied fields
   and gelf's host / level / timestamp fields are part of the document, which the clause above compares
   whole; loki's labels are configuration and demanded by loki_docs; file and http write to one target. *)
Definition routed := (bytes * bytes)%type.        (* routing value, document *)
Definition routed_eqb (x y : routed) : bool := bytes_eqb (fst x) (fst y) && bytes_eqb (snd x) (snd y).

Fixpoint routed_subseq (xs ys : list routed) : bool :=
  match ys with
  | [] => is_nil xs
  | y :: ys' =>
      match xs with
      | [] => true
      | x :: xs' => if routed_eqb x y then routed_subseq xs' ys' else routed_subseq xs ys'
      end
  end.

Fixpoint routed_list_eqb (xs ys : list routed) : bool :=
  match xs, ys with
  | [], [] => true
  | x :: xs', y :: ys' => routed_eqb x y && routed_list_eqb xs' ys'
  | _, _ => false
  end.

Definition kafka_of_sx (cfg : sx) : option k_cfg :=
  match cfg with
  | SL [SB dflt; usef; SZ bs] => match as_bool usef with Some u => Some (mkK dflt u bs) | None => None end
  | _ => None
  end.

(* the action line the configuration gives the event (no line at all when the configuration has more
   placeholders than values: out() dies there) *)
Definition es_route (c : es_cfg) (e : ev) : bytes := match es_header c e with Ok h => h | _ => [] end.
Definition k_routed (c : k_cfg) (e : ev) : routed := (k_topic c e, enc e).
Definition es_routed (c : es_cfg) (e : ev) : routed := (es_route c e, enc e).

(* None: the sink has no routing value outside the document *)
Definition expected_routed (which : Z) (cfg : sx) (batch : list ev) : option (list routed) :=
  match which with
  | 0 => match es_of_sx cfg with
         | Some (c, _) => Some (map (es_routed c) (deliverable batch))
         | None => None
         end
  | 3 => match kafka_of_sx cfg with
         | Some c => Some (map (k_routed c) (deliverable batch))
         | None => None
         end
  | _ => None
  end.

(* a bulk body: action line / document pairs *)
Definition es_pairs (body : bytes) : option (list routed) :=
  let '(ls, t) := lines_tail body in
  if negb (is_nil t) then None else
  match unpair ls with
  | Some (hs, ds) => Some (combine hs ds)
  | None => None
  end.

Fixpoint es_carried_pairs (reqs : list sx) : option (list routed) :=
  match reqs with
  | [] => Some []
  | SL [SB body; SZ st] :: r =>
      match es_pairs body, es_carried_pairs r with
      | Some d, Some ds => Some (if is_ok_status st then d ++ ds else ds)
      | _, _ => None
      end
  | _ => None
  end.

(* kafka: a record is observed as (#topic -1) (#value status) *)
Fixpoint kafka_pairs (reqs : list sx) : option (list routed) :=
  match reqs with
  | [] => Some []
  | SL [SB t; SZ s1] :: SL [SB v; SZ s2] :: r =>
      if Z.eqb s1 (-1) && negb (Z.eqb s2 (-1)) then
        match kafka_pairs r with Some ps => Some ((t, v) :: ps) | None => None end
      else None
  | _ => None
  end.

Definition carried_pairs (which : Z) (reqs : list sx) : option (list routed) :=
  if Z.eqb which 3 then kafka_pairs reqs else es_carried_pairs reqs.

(* ES: a request that was NOT answered with success (413 before a split, 5xx, a rejected body) went to
   the cluster all the same: whatever its answer, every request consists, in order, of (action line,
   document) pairs of the batch's deliverable events *)
Fixpoint es_all_routed (want : list routed) (reqs : list sx) : bool :=
  match reqs with
  | [] => true
  | SL [SB body; SZ _] :: r =>
      match es_pairs body with Some d => routed_subseq d want | None => false end && es_all_routed want r
  | _ => false
  end.

Definition route_pred (which : Z) (cfg : sx) (batch : list ev) (m : res attempt) (o : sx) : bool :=
  match expected_routed which cfg batch with
  | None => true
  | Some want =>
      match o with
      | SL [SZ 0; SL reqs; SZ _] =>
          match carried_pairs which reqs with
          | Some ps => routed_subseq ps want && (if complete which m then routed_list_eqb ps want else true)
                       && (if Z.eqb which 0 then es_all_routed want reqs else true)
          | None => false
          end
      | _ => true            (* a panic: judged by the clause above *)
      end
  end.

Definition att_pred (which : Z) (cfg : sx) (batch : list ev) (m : res attempt) (o : sx) : bool :=
  att_docs_pred which cfg batch m o && route_pred which cfg batch m o.

Fixpoint pred_all (which : Z) (cfg : sx) (ms : list (list ev * res attempt)) (os : list sx) : bool :=
  match ms, os with
  | [], [] => true
  | (b, m) :: ms', o :: os' => att_pred which cfg b m o && pred_all which cfg ms' os'
  | _, _ => false
  end.

(* ---- the table of answers: which (sink, configuration, answer) combinations exist ---------------
   kind  body                                                   accepted by          rejected by
    1    {"errors":true,"code":0,"items":[...]}  (odd: accepted) es, http, splunk
    2/3  not JSON                                               3: es without         2: es with process_response,
                                                                   process_response,     splunk
                                                                   http
    4/5  {"errors":true,"code":7,"items":[]}                     5: es, http           4: splunk (code > 0)
    6/7  {"errors":true}                                        7: es, http           6: splunk (no code)
   (reportESErrors only fails on a body that does not decode; parseSplunkError fails on a body that does
   not decode, has no "code", or a positive one; http has no reader.)  Kinds go with 200..202 only; the
   other sinks (file, kafka, gelf, loki) take plain answers. *)
Definition answer_ok (which : Z) (cfg : sx) (st : Z) : bool :=
  let k := answer_kind st in
  if (0 <=? st) && (st <? 1000) then true
  else if (st <? 0) || (8000 <=? st) then false
  else if negb ((200 <=? answer_status st) && (answer_status st <=? 202)) then false
  else
    match which with
    | 0 => match es_of_sx cfg with
           | Some (_, pr) => (k =? 1) || (k =? 5) || (k =? 7) || (if pr then k =? 2 else k =? 3)
           | None => false
           end
    | 2 => (k =? 1) || (k =? 3) || (k =? 5) || (k =? 7)
    | 4 => (k =? 1) || (k =? 2) || (k =? 4) || (k =? 6)
    | _ => false
    end.

(* which 10..15 = the sink 0..5 driven through the plugin's public API (its own batcher): [via_out];
   requests are observed one per attempt, so split_batch configurations are outside this form *)
Definition is_via (which : Z) : bool := (10 <=? which) && (which <=? 15).
Definition base_sink (which : Z) : Z := if is_via which then which - 10 else which.
Definition via_cfg_ok (which : Z) (cfg : sx) : bool :=
  match which, cfg with
  | 10, _ => match es_of_sx cfg with Some (c, _) => negb (es_split c) | None => false end
  | 12, SL [_; split] => match as_bool split with Some sp => negb sp | None => false end
  | 13, _ => false                      (* kafka's Start dials the brokers *)
  | _, _ => true
  end.

Definition c19_sink_run (which0 : Z) (case obs : sx) : verdict :=
  let which := base_sink which0 in
  match case with
  | SL [cfg; bs; sc] =>
      match out_of_case which cfg, batches_of_sx bs, as_list as_Z sc with
      | Some out0, Some batches, Some script =>
          if negb (forallb (answer_ok which cfg) script) then BadCase
          else if is_via which0 && negb (via_cfg_ok which0 cfg) then BadCase else
          let out := if is_via which0 then via_out out0 else out0 in
          let ms := run_batches out batches [] script in
          let m := SL (map (fun ba => sx_flat (snd ba)) ms) in
          let p := match obs with SL os => pred_all which cfg ms os | _ => false end in
          if sx_eqb m obs then (if p then Agree else Violates m)
          else if p then Differ m else Violates m
      | _, _, _ => BadCase
      end
  | _ => BadCase
  end.

(* which = 7: Batch.ForEach on a batch of the given kinds; obs = positions visited *)
Definition foreach_model (case : sx) : option sx :=
  match as_list as_Z case with
  | Some kinds =>
      (* the i-th event is tagged with i (as its one-"byte" encoding) *)
      let evs := map (fun ik => mkEv (snd ik) [N.of_nat (fst ik)] [] [] [] None [])
                     (combine (seq 0 (length kinds)) kinds) in
      let visited := rev_fast (for_each evs (fun acc e => enc e :: acc) []) in
      Some (SL (map (fun t => match t with [i] => SZ (Z.of_N i) | _ => SZ (-1) end) visited))
  | None => None
  end.

(* which = 8: str_body_ok s  vs  json.Valid of s between quotes;  which = 9: json_valid vs json.Valid *)
Definition c19_entry (which : Z) (case obs : sx) : verdict :=
  match which with
  | 7 => match foreach_model case with Some m => exact_verdict m obs | None => BadCase end
  | 8 => match case with SB s => exact_verdict (of_bool (str_body_ok s)) obs | _ => BadCase end
  | 9 => match case with SB s => exact_verdict (of_bool (json_valid s)) obs | _ => BadCase end
  | _ => c19_sink_run (which mod 16) case obs
  end.
