(* entry points of the pipeline-level checks, bound to the generated constants *)
From Verif Require Import Base.Sx Model.PipeGlue Gen.BatcherGen.
Definition c01_entry (which : Z) (case obs : sx) : verdict := pipe_run batcher_atomic_push c01_mon case obs.
Definition c02_entry (which : Z) (case obs : sx) : verdict := pipe_run batcher_atomic_push c02_mon case obs.
Definition c04_pipe_entry (which : Z) (case obs : sx) : verdict := pipe_run batcher_atomic_push c04_mon case obs.
Definition c05_pipe_entry (which : Z) (case obs : sx) : verdict := pipe_run batcher_atomic_push c05_mon case obs.
Definition c10_pipe_entry (which : Z) (case obs : sx) : verdict := pipe_run batcher_atomic_push c10_mon case obs.
Definition c13_pipe_entry (which : Z) (case obs : sx) : verdict := pipe_run batcher_atomic_push c13_mon case obs.
Definition c15_pipe_entry (which : Z) (case obs : sx) : verdict := pipe_run batcher_atomic_push c15_mon case obs.
