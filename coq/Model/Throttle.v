(* Model of plugin/action/throttle (in-memory backend): buckets.go (rebuildBuckets, simpleBuckets /
   distributedBuckets and their ring rotation), in_memory_limiter.go (isAllowed, getDistrData with
   stealing), distribution.go (parseLimitDistribution, exact arithmetic), rule.go / limiters_map.go /
   throttle.go (first matching rule, limiter key, limiters map).  No proofs here (Proofs/Throttle.v).

   Times are integers (UnixNano), Go int / int64 are unbounded Z.  Index and slice expressions go
   through GoSem.res, so "never panics" is a theorem, not an assumption of the model.             *)
From Verif Require Import Base.Sx Base.GoSem.

(* ---- configuration of one limiter -------------------------------------------------------------
   count / interval: buckets_count / bucket_interval (ns); size_kind: limit_kind = "size";
   limit: complexLimit.value; shares: limits of the listed distributions, deflimit: limit of the
   default distribution (both only used when shares <> [], i.e. distributions.isEnabled()).        *)
Record cfg := { count : Z; interval : Z; size_kind : bool; limit : Z; deflimit : Z; shares : list Z }.

Definition nslots (c : cfg) : nat := S (length (shares c)).     (* distSize + 1 *)
Definition zeros (n : nat) : list Z := repeat 0 n.

(* bucketsMeta.minID / maxID and the bucket slice b.b (simpleBuckets = rows of one slot) *)
Record lim := { minID : Z; maxID : Z; ring : list (list Z) }.

Definition lim0 (c : cfg) : lim :=
  {| minID := 0; maxID := 0; ring := repeat (zeros (nslots c)) (Z.to_nat (count c)) |}.

(* timeToBucketID: int(t.UnixNano() / interval.Nanoseconds()) — Go's / truncates towards zero *)
Definition time_to_id (c : cfg) (t : Z) : Z := Z.quot t (interval c).

(* resetFn(n):  b.b = append(b.b[n:], b.b[:n]...);  for i < n { b.reset(count-1-i) }
   At value level the append is a left rotation by n whether or not it reallocates (the destination
   b.b[count:count+n] never overlaps the source b.b[:n]); the n rows that were moved to the end are
   exactly the indices count-1-i, i < n, because len(b.b) = count.                                  *)
Definition reset_fn (n : Z) (b : list (list Z)) : res (list (list Z)) :=
  t <- slice_from b n ;;
  h <- slice_to b n ;;
  Ok (t ++ map (map (fun _ => 0)) h).

(* rebuildBuckets: returns the new meta/ring and the bucket id the event is charged to *)
Definition rebuild (c : cfg) (now ts : Z) (l : lim) : res (lim * Z) :=
  let cur := time_to_id c now in
  let l1 := if minID l =? 0
            then {| minID := cur - count c + 1; maxID := cur; ring := ring l |}
            else l in
  let mx := minID l1 + count c - 1 in
  l2 <- (if cur >? mx then
           let dif := cur - mx in
           r <- reset_fn (Z.min dif (count c)) (ring l1) ;;
           Ok {| minID := minID l1 + dif; maxID := cur; ring := r |}
         else Ok l1) ;;
  let id := time_to_id c ts in
  Ok (l2, if (id <? minID l2) || (id >? maxID l2) then maxID l2 else id).

(* buckets.get / buckets.add *)
Definition get (b : list (list Z)) (i j : Z) : res Z := row <- idx b i ;; idx row j.

Definition upd {A} (l : list A) (i : Z) (x : A) : res (list A) :=
  if (0 <=? i) && (i <? len l)
  then Ok (firstn (Z.to_nat i) l ++ x :: skipn (S (Z.to_nat i)) l)
  else Panic 2.

Definition add (b : list (list Z)) (i j v : Z) : res (list (list Z)) :=
  row <- idx b i ;;
  x <- idx row j ;;
  row' <- upd row j (x + v) ;;
  upd b i row'.

(* the stealing loop of getDistrData: best = (maxDiff, idx, limit); strict > keeps the first maximum *)
Fixpoint steal (row : list Z) (val : Z) (ds : list Z) (i : Z) (best : Z * Z * Z) : res (Z * Z * Z) :=
  match ds with
  | [] => Ok best
  | d :: ds' =>
      cv <- idx row (i + 1) ;;
      let cd := d - (cv + val) in
      steal row val ds' (i + 1) (if cd >? fst (fst best) then (cd, i + 1, d) else best)
  end.

(* getDistrData: dv = Some i when the event's field value is listed in ratio i, None otherwise
   (absent field, unlisted value): returns (distribution index in the bucket, limit to compare with) *)
Definition distr_data (c : cfg) (b : list (list Z)) (index val : Z) (dv : option Z) : res (Z * Z) :=
  match dv with
  | Some i => d <- idx (shares c) i ;; Ok (i + 1, d)
  | None =>
      c0 <- get b index 0 ;;
      if c0 + val <=? deflimit c then Ok (0, deflimit c)
      else
        row <- idx b index ;;
        best <- steal row val (shares c) 0 (-1, 0, deflimit c) ;;
        Ok (snd (fst best), snd best)
  end.

(* inMemoryLimiter.isAllowed *)
Definition allow (c : cfg) (l : lim) (now ts size : Z) (dv : option Z) : res (lim * bool) :=
  if limit c <? 0 then Ok (l, true) else
  ' (l1, id) <- rebuild c now ts l ;;
  let index := id - minID l1 in
  let val := if size_kind c then size else 1 in
  ' (slot, lm) <- (match shares c with
                   | [] => Ok (0, limit c)
                   | _ :: _ => distr_data c (ring l1) index val dv
                   end) ;;
  r <- add (ring l1) index slot val ;;
  v <- get r index slot ;;
  Ok ({| minID := minID l1; maxID := maxID l1; ring := r |}, v <=? lm).

Record op := { o_now : Z; o_ts : Z; o_size : Z; o_dv : option Z }.

(* a history on one limiter: the decisions taken before a panic (if any), and the final state *)
Fixpoint lrun (c : cfg) (l : lim) (ops : list op) : list bool * res lim :=
  match ops with
  | [] => ([], Ok l)
  | o :: r =>
      match allow c l (o_now o) (o_ts o) (o_size o) (o_dv o) with
      | Ok (l', b) => let '(bs, fin) := lrun c l' r in (b :: bs, fin)
      | Err e => ([], Err e)
      | Panic p => ([], Panic p)
      end
  end.

(* ==== reference semantics ========================================================================
   What the property says, with no ring and no reset: a counter per (bucket id, slot) that is never
   cleared, kept as the list of all charges; the sliding window [hi-count+1, hi] (hi = the largest
   clock bucket seen so far) only decides to which id an event is charged.                          *)
Record charge := { c_id : Z; c_slot : Z; c_val : Z; c_pass : bool }.

Definition in_cell (id slot : Z) (x : charge) : bool := (c_id x =? id) && (c_slot x =? slot).

(* total charged so far to one cell — passed and rejected events alike *)
Fixpoint ctr (h : list charge) (id slot : Z) : Z :=
  match h with
  | [] => 0
  | x :: r => (if in_cell id slot x then c_val x else 0) + ctr r id slot
  end.

Record spec := { s_hi : option Z; s_hist : list charge }.      (* history: newest charge first *)
Definition spec0 : spec := {| s_hi := None; s_hist := [] |}.

Definition s_window (c : cfg) (s : spec) (now : Z) : Z :=
  let cur := time_to_id c now in
  match s_hi s with None => cur | Some h => Z.max h cur end.

(* effective bucket: the event's own id when inside the window, the newest bucket otherwise *)
Definition s_eid (c : cfg) (hi ts : Z) : Z :=
  let id := time_to_id c ts in
  if (hi - count c + 1 <=? id) && (id <=? hi) then id else hi.

(* the limit a slot is compared with: slot 0 = whole limit (no distribution) or default share *)
Definition cell_limit (c : cfg) (slot : Z) : Z :=
  match shares c with
  | [] => limit c
  | _ :: _ => if slot =? 0 then deflimit c else nth (Z.to_nat (slot - 1)) (shares c) 0
  end.

Fixpoint s_steal (cv : Z -> Z) (val : Z) (ds : list Z) (i : Z) (best : Z * Z) : Z * Z :=   (* (maxDiff, idx) *)
  match ds with
  | [] => best
  | d :: ds' =>
      let cd := d - (cv (i + 1) + val) in
      s_steal cv val ds' (i + 1) (if cd >? fst best then (cd, i + 1) else best)
  end.

Definition s_slot (c : cfg) (cv : Z -> Z) (val : Z) (dv : option Z) : Z :=
  match shares c with
  | [] => 0
  | _ :: _ =>
      match dv with
      | Some i => i + 1
      | None => if cv 0 + val <=? deflimit c then 0 else snd (s_steal cv val (shares c) 0 (-1, 0))
      end
  end.

Definition s_step (c : cfg) (s : spec) (o : op) : spec * bool :=
  if limit c <? 0 then (s, true) else
  let hi := s_window c s (o_now o) in
  let eid := s_eid c hi (o_ts o) in
  let val := if size_kind c then o_size o else 1 in
  let slot := s_slot c (ctr (s_hist s) eid) val (o_dv o) in
  let pass := ctr (s_hist s) eid slot + val <=? cell_limit c slot in
  ({| s_hi := Some hi;
      s_hist := {| c_id := eid; c_slot := slot; c_val := val; c_pass := pass |} :: s_hist s |}, pass).

Fixpoint s_run (c : cfg) (s : spec) (ops : list op) : spec * list bool :=
  match ops with
  | [] => (s, [])
  | o :: r => let '(s1, b) := s_step c s o in let '(s2, bs) := s_run c s1 r in (s2, b :: bs)
  end.

(* ---- what the theorems count ------------------------------------------------------------------ *)
Definition zcount {A} (f : A -> bool) (l : list A) : Z := len (filter f l).
Definition arrivals (h : list charge) (id slot : Z) : Z := zcount (in_cell id slot) h.
Definition passes (h : list charge) (id slot : Z) : Z :=
  zcount (fun x => in_cell id slot x && c_pass x) h.
Fixpoint passed_size (h : list charge) (id slot : Z) : Z :=
  match h with
  | [] => 0
  | x :: r => (if in_cell id slot x && c_pass x then c_val x else 0) + passed_size r id slot
  end.
(* over all slots of one bucket id *)
Definition in_id (id : Z) (x : charge) : bool := c_id x =? id.
Fixpoint passed_size_id (h : list charge) (id : Z) : Z :=
  match h with
  | [] => 0
  | x :: r => (if in_id id x && c_pass x then c_val x else 0) + passed_size_id r id
  end.
Definition sumZ (l : list Z) : Z := fold_right Z.add 0 l.

(* hypotheses of the theorems, as executable predicates *)
Definition wf_cfg (c : cfg) : bool := (1 <=? count c) && (1 <=? interval c).
Definition dv_ok (c : cfg) (o : op) : bool :=
  match o_dv o with None => true | Some i => (0 <=? i) && (i <? len (shares c)) end.
(* the clock is past the first window after the epoch, so that minID = 0 really means "not set" *)
Definition timed (c : cfg) (o : op) : bool := count c * interval c <=? o_now o.
Definition well_timed (c : cfg) (ops : list op) : bool := forallb (fun o => timed c o && dv_ok c o) ops.

(* closed form of the window: the newest bucket is the largest clock bucket seen *)
Fixpoint max_cur (c : cfg) (acc : Z) (ops : list op) : Z :=
  match ops with [] => acc | o :: r => max_cur c (Z.max acc (time_to_id c (o_now o))) r end.

(* counting directly on (effective bucket, decision) pairs — no distribution, so one cell per id *)
Definition arrivals_at (es : list Z) (id : Z) : Z := zcount (fun e => e =? id) es.
Definition passes_at (es : list Z) (ds : list bool) (id : Z) : Z :=
  zcount (fun p => (fst p =? id) && snd p) (combine es ds).
Definition hist_of (c : cfg) (ops : list op) : list charge := s_hist (fst (s_run c spec0 ops)).

(* closed form of the bucket every event is charged to *)
Fixpoint eids_from (c : cfg) (hi : option Z) (ops : list op) : list Z :=
  match ops with
  | [] => []
  | o :: r =>
      let cur := time_to_id c (o_now o) in
      let h := match hi with None => cur | Some h => Z.max h cur end in
      s_eid c h (o_ts o) :: eids_from c (Some h) r
  end.

(* every decision is exactly "the cell's total, this event included, is within the cell's limit"
   (history newest first; the total counts rejected events too: the code adds, then compares) *)
Fixpoint hist_exact (c : cfg) (h : list charge) : Prop :=
  match h with
  | [] => True
  | x :: r => c_pass x = (ctr r (c_id x) (c_slot x) + c_val x <=? cell_limit c (c_slot x)) /\ hist_exact c r
  end.

(* distribution: where an event is charged and when it may be rejected.  A listed value goes to its own
   slot; an unlisted value is rejected only when neither the default share nor any listed share has
   room for it, and a stolen slot always has room (so stealing never causes a rejection).
   [r] = the history before the event, [x] = the event's charge.                                    *)
Definition charge_ok (c : cfg) (o : op) (r : list charge) (x : charge) : Prop :=
  match o_dv o with
  | Some i => c_slot x = i + 1
  | None =>
      (c_pass x = false ->
       forall slot, 0 <= slot < Z.of_nat (nslots c) -> cell_limit c slot < ctr r (c_id x) slot + c_val x) /\
      (c_slot x <> 0 -> c_pass x = true)
  end.
Fixpoint hist_attr (c : cfg) (rops : list op) (h : list charge) : Prop :=      (* both newest first *)
  match rops, h with
  | [], [] => True
  | o :: ro, x :: r => charge_ok c o r x /\ hist_attr c ro r
  | _, _ => False
  end.

(* the value in the ring for bucket id / slot (used by the refinement statement only) *)
Definition cell (l : lim) (id slot : Z) : Z :=
  nth (Z.to_nat slot) (nth (Z.to_nat (id - minID l)) (ring l) []) 0.

(* ring_refines_map: index i of the ring is bucket id minID + i; what the ring holds for the ids of the
   window is the never-reset total; ids above the window have never been charged *)
Definition refines (c : cfg) (l : lim) (s : spec) : Prop :=
  match s_hi s with
  | None => l = lim0 c /\ s_hist s = []
  | Some hi =>
      maxID l = hi /\ minID l = hi - count c + 1 /\ 0 < minID l /\
      length (ring l) = Z.to_nat (count c) /\ Forall (fun row => length row = nslots c) (ring l) /\
      (forall id slot, minID l <= id <= maxID l -> 0 <= slot < Z.of_nat (nslots c) ->
                       cell l id slot = ctr (s_hist s) id slot) /\
      (forall id slot, maxID l < id -> ctr (s_hist s) id slot = 0)
  end.

(* ---- parseLimitDistribution in exact arithmetic -----------------------------------------------
   ratios are given in percent; math.Round is half away from zero; operands here are >= 0.        *)
Definition round_div (a b : Z) : Z := (2 * a + b) / (2 * b).              (* round(a/b), a >= 0 < b *)
Definition share_of (total pct : Z) : Z := round_div (pct * total) 100.
(* Ok (default share :: listed shares) | Err 1 ratio out of range | Err 2 sum of ratios > 1.
   Exact arithmetic; the code sums float64 ratios, so ratios that sum to exactly 1 may come out as
   1.0000000000000002 and be rejected at Start (0.28+0.32+0.3+0.1) — a config-validation quirk outside
   property C16; the comparison (c16_run2) accepts either outcome when the percents sum to exactly 100. *)
Definition parse_shares (total : Z) (pcts : list Z) : res (list Z) :=
  if negb (forallb (fun p => (0 <=? p) && (p <=? 100)) pcts) then Err 1
  else if 100 <? sumZ pcts then Err 2
  else match pcts with [] => Ok [0] | _ :: _ => Ok (share_of total (100 - sumZ pcts) :: map (share_of total) pcts) end.

(* ==== plugin level: rules, throttle key, limiters map ============================================ *)
Definition fields := list (bytes * bytes).
Fixpoint lookup (f : bytes) (ev : fields) : bytes :=          (* Root.Dig(f).AsString(): "" when absent *)
  match ev with
  | [] => []
  | (k, v) :: r => if bytes_eqb k f then v else lookup f r
  end.

Record rule := { r_conds : fields; r_limit : Z; r_size : bool }.

Definition rule_match (r : rule) (ev : fields) : bool :=
  forallb (fun kv => bytes_eqb (lookup (fst kv) ev) (snd kv)) (r_conds r).

Fixpoint first_match (rs : list rule) (n : Z) (ev : fields) : option (Z * rule) :=
  match rs with
  | [] => None
  | r :: rs' => if rule_match r ev then Some (n, r) else first_match rs' (n + 1) ev
  end.

(* rules = config rules followed by the default rule (no conditions) *)
Record pcfg := { p_count : Z; p_interval : Z; p_rules : list rule }.

Definition rule_cfg (p : pcfg) (r : rule) : cfg :=
  {| count := p_count p; interval := p_interval p; size_kind := r_size r; limit := r_limit r;
     deflimit := 0; shares := [] |}.

Definition KEY : bytes := [107%N].                                       (* throttle_field "k" *)
Definition DEFAULT_KEY : bytes := [100; 101; 102; 97; 117; 108; 116]%N.  (* "default" *)
Definition throttle_key (ev : fields) : bytes :=
  match lookup KEY ev with [] => DEFAULT_KEY | v => v end.
(* byteIdxPart = {byte('a' + ruleNum), ':'} ++ throttleKey — the conversion to byte wraps *)
Definition lim_key (n : Z) (k : bytes) : bytes := Z.to_N ((97 + n) mod 256) :: 58%N :: k.

(* the limiter keeps the limit it was created with (newInMemoryLimiter copies rule.limit) *)
Definition lmap := list (bytes * (cfg * lim)).
Fixpoint lm_get (m : lmap) (k : bytes) : option (cfg * lim) :=
  match m with
  | [] => None
  | (k', l) :: r => if bytes_eqb k' k then Some l else lm_get r k
  end.
Fixpoint lm_set (m : lmap) (k : bytes) (l : cfg * lim) : lmap :=
  match m with
  | [] => [(k, l)]
  | (k', l') :: r => if bytes_eqb k' k then (k, l) :: r else (k', l') :: lm_set r k l
  end.

Record pev := { e_now : Z; e_ts : Z; e_size : Z; e_fields : fields }.
Definition pev_op (e : pev) : op := {| o_now := e_now e; o_ts := e_ts e; o_size := e_size e; o_dv := None |}.

(* Plugin.isAllowed + limitersMap.getOrAdd: the limiter is created with the limit of the rule that
   first asked for the key, and found again by key only *)
Definition lm_find (p : pcfg) (m : lmap) (k : bytes) (r : rule) : cfg * lim :=
  match lm_get m k with Some cl => cl | None => (rule_cfg p r, lim0 (rule_cfg p r)) end.
Definition pstep (p : pcfg) (m : lmap) (e : pev) : res (lmap * bool) :=
  match first_match (p_rules p) 0 (e_fields e) with
  | None => Ok (m, true)
  | Some (n, r) =>
      let k := lim_key n (throttle_key (e_fields e)) in
      let '(c, l) := lm_find p m k r in
      ' (l', b) <- allow c l (e_now e) (e_ts e) (e_size e) None ;;
      Ok (lm_set m k (c, l'), b)
  end.

Fixpoint prun (p : pcfg) (m : lmap) (es : list pev) : list bool * res lmap :=
  match es with
  | [] => ([], Ok m)
  | e :: r =>
      match pstep p m e with
      | Ok (m', b) => let '(bs, fin) := prun p m' r in (b :: bs, fin)
      | Err x => ([], Err x)
      | Panic x => ([], Panic x)
      end
  end.

(* the limiter an event goes to (None: no rule matches, passes unthrottled) *)
Definition ev_key (p : pcfg) (e : pev) : option bytes :=
  match first_match (p_rules p) 0 (e_fields e) with
  | None => None
  | Some (n, _) => Some (lim_key n (throttle_key (e_fields e)))
  end.
Definition ev_cfg (p : pcfg) (e : pev) : option cfg :=
  match first_match (p_rules p) 0 (e_fields e) with
  | None => None
  | Some (_, r) => Some (rule_cfg p r)
  end.
Definition for_key (p : pcfg) (k : bytes) (e : pev) : bool :=
  match ev_key p e with Some k' => bytes_eqb k' k | None => false end.
(* the decisions of the events of one key, out of the decisions of the whole trace *)
Fixpoint pick {A B} (f : A -> bool) (xs : list A) (ys : list B) : list B :=
  match xs, ys with
  | x :: xs', y :: ys' => if f x then y :: pick f xs' ys' else pick f xs' ys'
  | _, _ => []
  end.

(* ==== exchange glue ============================================================================== *)
(* which = 0  one limiter.
     case = (count interval kind limit deflimit (share ...) (op ...)),  op = (now ts size dv), dv = -1 | index
     obs  = ((decision ...) final)   final = (0 (minID maxID (row ...))) | (2)  after a panic        *)
Definition dv_of (z : Z) : option Z := if z <? 0 then None else Some z.
Definition op_of_sx (s : sx) : option op :=
  match s with
  | SL [SZ n; SZ t; SZ z; SZ d] => Some {| o_now := n; o_ts := t; o_size := z; o_dv := dv_of d |}
  | _ => None
  end.

Definition case0 (s : sx) : option (cfg * list op) :=
  match s with
  | SL [SZ cnt; SZ itv; SZ kd; SZ lm; SZ dl; shs; ops] =>
      match as_list as_Z shs, as_list op_of_sx ops with
      | Some sh, Some os =>
          let c := {| count := cnt; interval := itv; size_kind := negb (kd =? 0); limit := lm;
                      deflimit := dl; shares := sh |} in
          if (0 <=? cnt) && (1 <=? itv) && forallb (dv_ok c) os then Some (c, os) else None
      | _, _ => None
      end
  | _ => None
  end.

Definition sx_of_lim (l : lim) : sx :=
  SL [SZ (minID l); SZ (maxID l); SL (map (fun row => SL (map SZ row)) (ring l))].
Definition sx_of_run (r : list bool * res lim) : sx :=
  SL [SL (map of_bool (fst r)); sx_of_res sx_of_lim (snd r)].

(* the property's predicate on what the implementation did: inside the property's domain (count >= 1,
   clock past the first window, limit >= 0 or unlimited) every decision is the one the reference
   semantics prescribes — passes never exceed the cell's limit and nothing is rejected below it *)
Definition decisions_of (obs : sx) : option (list bool) :=
  match obs with SL [ds; _] => as_list as_bool ds | _ => None end.
Fixpoint bools_eqb (a b : list bool) : bool :=
  match a, b with
  | [], [] => true
  | x :: a', y :: b' => Bool.eqb x y && bools_eqb a' b'
  | _, _ => false
  end.
Definition c16_pred0 (c : cfg) (ops : list op) (obs : sx) : bool :=
  if wf_cfg c && well_timed c ops then
    match decisions_of obs with
    | Some ds => bools_eqb ds (snd (s_run c spec0 ops))
    | None => false
    end
  else true.

Definition verdict_of (model obs : sx) (pred : bool) : verdict :=
  if pred then (if sx_eqb model obs then Agree else Differ model) else Violates model.

Definition c16_run0 (case obs : sx) : verdict :=
  match case0 case with
  | None => BadCase
  | Some (c, ops) => verdict_of (sx_of_run (lrun c (lim0 c) ops)) obs (c16_pred0 c ops obs)
  end.

(* which = 1  plugin level.
     case = (count interval (rule ...) (event ...))   rule = (limit kind ((field value) ...)); the last
            rule is the default rule;  event = (now ts size ((field value) ...))
     obs  = ((decision ...) final)   final = (0 (limiter-key ...)) sorted | (2)                       *)
Definition kv_of_sx (s : sx) : option (bytes * bytes) :=
  match s with SL [SB k; SB v] => Some (k, v) | _ => None end.
Definition rule_of_sx (s : sx) : option rule :=
  match s with
  | SL [SZ lm; SZ kd; cs] =>
      match as_list kv_of_sx cs with
      | Some conds => Some {| r_conds := conds; r_limit := lm; r_size := negb (kd =? 0) |}
      | None => None
      end
  | _ => None
  end.
Definition pev_of_sx (s : sx) : option pev :=
  match s with
  | SL [SZ n; SZ t; SZ z; fs] =>
      match as_list kv_of_sx fs with
      | Some f => Some {| e_now := n; e_ts := t; e_size := z; e_fields := f |}
      | None => None
      end
  | _ => None
  end.
Definition case1 (s : sx) : option (pcfg * list pev) :=
  match s with
  | SL [SZ cnt; SZ itv; rs; es] =>
      match as_list rule_of_sx rs, as_list pev_of_sx es with
      | Some rules, Some evs =>
          if (0 <=? cnt) && (1 <=? itv)
          then Some ({| p_count := cnt; p_interval := itv; p_rules := rules |}, evs) else None
      | _, _ => None
      end
  | _ => None
  end.

(* sorted, duplicate-free list of keys (the harness sorts the Go map's keys) *)
Fixpoint bytes_ltb (a b : bytes) : bool :=
  match a, b with
  | [], [] => false
  | [], _ :: _ => true
  | _ :: _, [] => false
  | x :: a', y :: b' => if N.ltb x y then true else if N.ltb y x then false else bytes_ltb a' b'
  end.
Fixpoint insert_key (k : bytes) (l : list bytes) : list bytes :=
  match l with
  | [] => [k]
  | x :: r => if bytes_ltb k x then k :: l else if bytes_eqb k x then l else x :: insert_key k r
  end.
Definition sorted_keys (m : lmap) : list bytes := fold_right insert_key [] (map fst m).

Definition sx_of_prun (r : list bool * res lmap) : sx :=
  SL [SL (map of_bool (fst r)); sx_of_res (fun m => SL (map SB (sorted_keys m))) (snd r)].

(* predicate: every key's decisions are those of the reference semantics run on that key's events
   alone, with the limit of the first matching rule (keys never share a budget) *)
Fixpoint keys_of (p : pcfg) (es : list pev) : list bytes :=
  match es with
  | [] => []
  | e :: r => match ev_key p e with Some k => insert_key k (keys_of p r) | None => keys_of p r end
  end.
Definition key_cfg (p : pcfg) (k : bytes) (es : list pev) : option cfg :=
  match filter (for_key p k) es with e :: _ => ev_cfg p e | [] => None end.
Definition p_timed (p : pcfg) (e : pev) : bool := p_count p * p_interval p <=? e_now e.
Definition c16_pred1 (p : pcfg) (es : list pev) (obs : sx) : bool :=
  if (1 <=? p_count p) && (Z.of_nat (length (p_rules p)) <=? 256) && forallb (p_timed p) es then
    match decisions_of obs with
    | Some ds =>
        (length ds =? length es)%nat &&
        forallb (fun k =>
                   match key_cfg p k es with
                   | Some c => bools_eqb (pick (for_key p k) es ds)
                                 (snd (s_run c spec0 (map pev_op (filter (for_key p k) es))))
                   | None => true
                   end) (keys_of p es) &&
        bools_eqb (pick (fun e => match ev_key p e with None => true | Some _ => false end) es ds)
                  (map (fun _ => true) (filter (fun e => match ev_key p e with None => true | Some _ => false end) es))
    | None => false
    end
  else true.

Definition c16_run1 (case obs : sx) : verdict :=
  match case1 case with
  | None => BadCase
  | Some (p, es) => verdict_of (sx_of_prun (prun p [] es)) obs (c16_pred1 p es obs)
  end.

(* which = 2  parseLimitDistribution.  case = (total (pct ...))   obs = (0 (def share ...)) | (1 e)
   The code multiplies float64 ratios: a product that is an exact tie (x.5) may come out on either
   side, so the check is relational: every share is A nearest integer of pct * total / 100.        *)
Definition share_ok (total pct s : Z) : bool := Z.abs (100 * s - pct * total) <=? 50.
Fixpoint shares_ok (total : Z) (pcts ss : list Z) : bool :=
  match pcts, ss with
  | [], [] => true
  | p :: pcts', x :: ss' => share_ok total p x && shares_ok total pcts' ss'
  | _, _ => false
  end.
Definition c16_run2 (case obs : sx) : verdict :=
  match case with
  | SL [SZ total; ps] =>
      match as_list as_Z ps with
      | Some pcts =>
          if 0 <=? total then
            let m := parse_shares total pcts in
            let msx := sx_of_res (fun l => SL (map SZ l)) m in
            match m, obs with
            | Ok _, SL [SZ 1; SZ 2] =>        (* float64 sum of ratios that add up to exactly 1 may exceed 1 *)
                if sumZ pcts =? 100 then Agree else Violates msx
            | Ok _, SL [SZ 0; ss] =>
                match as_list as_Z ss, pcts with
                | Some l, _ :: _ => if shares_ok total ((100 - sumZ pcts) :: pcts) l then Agree else Violates msx
                | _, _ => exact_verdict msx obs
                end
            | _, _ => exact_verdict msx obs
            end
          else BadCase
      | None => BadCase
      end
  | _ => BadCase
  end.

(* ==== threshold streams: glue for cases that cross the scale / history thresholds of the Go code.
   Pure glue: every sub-model below decodes a richer case text and then runs the SAME model functions
   (lrun / prun / allow) and the SAME predicates (c16_pred0 / c16_pred1 / s_run) as which = 0 and 1.    *)

(* which = 3  one limiter, run-length encoded history (tens of thousands of ops, hundreds of buckets).
     case = (count interval kind limit deflimit (share ...) (seg ...)),
     seg  = (reps now ts size dv step): reps copies of the op, the i-th with now + i*step, ts + i*step
     obs  = (((bit n) ...) final): the decisions as maximal runs; final as for which = 0                 *)
Fixpoint expand_seg (k : nat) (n t z d step : Z) : list op :=
  match k with
  | O => []
  | S k' => {| o_now := n; o_ts := t; o_size := z; o_dv := dv_of d |} :: expand_seg k' (n + step) (t + step) z d step
  end.
Definition seg_of_sx (s : sx) : option (list op) :=
  match s with
  | SL [SZ reps; SZ n; SZ t; SZ z; SZ d; SZ step] =>
      if (0 <=? reps) && (reps <=? 200000) then Some (expand_seg (Z.to_nat reps) n t z d step) else None
  | _ => None
  end.
Definition case3 (s : sx) : option (cfg * list op) :=
  match s with
  | SL [SZ cnt; SZ itv; SZ kd; SZ lm; SZ dl; shs; segs] =>
      match as_list as_Z shs, as_list seg_of_sx segs with
      | Some sh, Some oss =>
          let os := concat oss in
          let c := {| count := cnt; interval := itv; size_kind := negb (kd =? 0); limit := lm;
                      deflimit := dl; shares := sh |} in
          if (0 <=? cnt) && (1 <=? itv) && forallb (dv_ok c) os then Some (c, os) else None
      | _, _ => None
      end
  | _ => None
  end.
Definition run_of_sx (s : sx) : option (list bool) :=
  match s with
  | SL [b; SZ n] =>
      match as_bool b with
      | Some v => if (1 <=? n) && (n <=? 200000) then Some (repeat v (Z.to_nat n)) else None
      | None => None
      end
  | _ => None
  end.
(* the plain form of a run-length observable *)
Definition unrle_obs (obs : sx) : option sx :=
  match obs with
  | SL [runs; fin] =>
      match as_list run_of_sx runs with
      | Some rs => Some (SL [SL (map of_bool (concat rs)); fin])
      | None => None
      end
  | _ => None
  end.
Definition c16_run3 (case obs : sx) : verdict :=
  match case3 case, unrle_obs obs with
  | Some (c, ops), Some obs' => verdict_of (sx_of_run (lrun c (lim0 c) ops)) obs' (c16_pred0 c ops obs')
  | _, _ => BadCase
  end.

(* which = 4  several Plugin instances of ONE pipeline (one shared limiters map), driven in sequence.
     case  = (ninst count interval (rule ...) (event ...)),  event = (inst now tsspec size ((field value) ...))
     tsspec = ns                  the time field is Format(ns)
            | (sec nsec)          the time field is Format(Unix(sec, nsec)), years 1..9999: Time.UnixNano()
                                  wraps in int64; 0001-01-01T00:00:00Z is the zero Time -> time.Now()
            | #raw                an unparseable time field -> time.Now()
     Instance 0 owns the injected clock: the clock is what the last instance-0 event set, so an event of
     another instance must carry that same now (checked here).  time.Now() is the REAL clock, which is
     after every injected clock the harness uses (now < 1.5e18 ns, interval <= 1e17 ns checked here):
     such an event is timed in the future of the window.
     The MODEL sees the int64 the code computes; the PREDICATE sees the true event time.               *)
Definition wrap64 (z : Z) : Z := let m := z mod 2 ^ 64 in if m <? 2 ^ 63 then m else m - 2 ^ 64.
Definition ZERO_SEC : Z := -62135596800.
Definition FAR : Z := 2 ^ 62.
Inductive tsspec := TsNs (t : Z) | TsSec (sec nsec : Z) | TsNow.
Definition tsspec_of_sx (s : sx) : option tsspec :=
  match s with
  | SZ t => Some (TsNs t)
  | SL [SZ sec; SZ nsec] =>
      if (0 <=? nsec) && (nsec <? 10 ^ 9) && (ZERO_SEC <=? sec) && (sec <=? 253402300799)
      then (if (sec =? ZERO_SEC) && (nsec =? 0) then Some TsNow else Some (TsSec sec nsec)) else None
  | SB _ => Some TsNow
  | _ => None
  end.
Definition ts_code (t : tsspec) : Z :=
  (* bucketsMeta.timeToBucketID saturates an instant that Time.UnixNano cannot represent (repair of C16-unixnano-wrap) *)
  match t with TsNs t => t | TsSec s n => Z.max (- 2 ^ 63) (Z.min (2 ^ 63 - 1) (s * 10 ^ 9 + n)) | TsNow => FAR end.
Definition ts_true (t : tsspec) : Z :=
  match t with TsNs t => t | TsSec s n => s * 10 ^ 9 + n | TsNow => FAR end.
Record mev := { m_inst : Z; m_now : Z; m_ts : tsspec; m_size : Z; m_fields : fields }.
Definition mev_of_sx (s : sx) : option mev :=
  match s with
  | SL [SZ i; SZ n; t; SZ z; fs] =>
      match tsspec_of_sx t, as_list kv_of_sx fs with
      | Some ts, Some f => Some {| m_inst := i; m_now := n; m_ts := ts; m_size := z; m_fields := f |}
      | _, _ => None
      end
  | _ => None
  end.
(* clock discipline of the harness (see above) *)
Fixpoint mevs_ok (ninst itv : Z) (clock : option Z) (es : list mev) : bool :=
  match es with
  | [] => true
  | e :: r =>
      (0 <=? m_inst e) && (m_inst e <? ninst) &&
      (match m_ts e with TsNow => (m_now e <? 1500000000000000000) && (itv <=? 100000000000000000) | _ => true end) &&
      (if m_inst e =? 0
       then (match m_ts e with TsNs _ => true | _ => false end) && mevs_ok ninst itv (Some (m_now e)) r
       else (match clock with Some c => m_now e =? c | None => false end) && mevs_ok ninst itv clock r)
  end.
Definition pev_code (e : mev) : pev := {| e_now := m_now e; e_ts := ts_code (m_ts e); e_size := m_size e; e_fields := m_fields e |}.
Definition pev_true (e : mev) : pev := {| e_now := m_now e; e_ts := ts_true (m_ts e); e_size := m_size e; e_fields := m_fields e |}.
Definition case4 (s : sx) : option (pcfg * list mev) :=
  match s with
  | SL [SZ ninst; SZ cnt; SZ itv; rs; es] =>
      match as_list rule_of_sx rs, as_list mev_of_sx es with
      | Some rules, Some evs =>
          if (1 <=? ninst) && (ninst <=? 16) && (0 <=? cnt) && (1 <=? itv) && mevs_ok ninst itv None evs
          then Some ({| p_count := cnt; p_interval := itv; p_rules := rules |}, evs) else None
      | _, _ => None
      end
  | _ => None
  end.
Definition c16_run4 (case obs : sx) : verdict :=
  match case4 case with
  | None => BadCase
  | Some (p, es) =>
      verdict_of (sx_of_prun (prun p [] (map pev_code es))) obs (c16_pred1 p (map pev_true es) obs)
  end.

(* which = 5  several Plugin instances of one pipeline driven CONCURRENTLY (one goroutine each, after the
   events of instance 0).  Count kind only, one instant (now = ts), so that the number of passes of a key
   does not depend on the interleaving: per key it must be that of the reference semantics on the key's
   events in any order.
     case = (count interval (rule ...) now (((size ((field value) ...)) ...) ...))   one event list per instance
     obs  = (((decision ...) ...) final)                                              one decision list per instance *)
Definition cev_of_sx (now : Z) (s : sx) : option pev :=
  match s with
  | SL [SZ z; fs] =>
      match as_list kv_of_sx fs with
      | Some f => Some {| e_now := now; e_ts := now; e_size := z; e_fields := f |}
      | None => None
      end
  | _ => None
  end.
Definition case5 (s : sx) : option (pcfg * list (list pev)) :=
  match s with
  | SL [SZ cnt; SZ itv; rs; SZ now; ess] =>
      match as_list rule_of_sx rs, as_list (as_list (cev_of_sx now)) ess with
      | Some rules, Some evss =>
          if (0 <=? cnt) && (1 <=? itv) && forallb (fun r => negb (r_size r)) rules &&
             (2 <=? len evss) && (len evss <=? 16)
          then Some ({| p_count := cnt; p_interval := itv; p_rules := rules |}, evss) else None
      | _, _ => None
      end
  | _ => None
  end.
Definition ztrue (l : list bool) : Z := zcount (fun b => b) l.
Fixpoint lens_eqb {A B} (a : list (list A)) (b : list (list B)) : bool :=
  match a, b with
  | [], [] => true
  | x :: a', y :: b' => (length x =? length y)%nat && lens_eqb a' b'
  | _, _ => false
  end.
(* (the key of every event is computed once; [pickm] selects by a mask) *)
Fixpoint pickm {B} (mask : list bool) (ys : list B) : list B :=
  match mask, ys with
  | m :: mask', y :: ys' => if m then y :: pickm mask' ys' else pickm mask' ys'
  | _, _ => []
  end.
Definition c16_pred5 (p : pcfg) (ess : list (list pev)) (dss : list (list bool)) : bool :=
  let es := concat ess in
  let ds := concat dss in
  if (1 <=? p_count p) && (Z.of_nat (length (p_rules p)) <=? 256) && forallb (p_timed p) es then
    let eks := map (ev_key p) es in
    lens_eqb ess dss &&
    forallb (fun k =>
               let mask := map (fun ek => match ek with Some k' => bytes_eqb k' k | None => false end) eks in
               match pickm mask es with
               | (e :: _) as kes =>
                   match ev_cfg p e with
                   | Some c => ztrue (pickm mask ds) =? ztrue (snd (s_run c spec0 (map pev_op kes)))
                   | None => true
                   end
               | [] => true
               end) (keys_of p es) &&
    forallb (fun b => b) (pickm (map (fun ek => match ek with None => true | Some _ => false end) eks) ds)
  else true.
Definition c16_run5 (case obs : sx) : verdict :=
  match case5 case, obs with
  | Some (p, ess), SL [dsx; fin] =>
      match as_list (as_list as_bool) dsx with
      | Some dss =>
          let m := prun p [] (concat ess) in
          let msx := sx_of_prun m in
          if c16_pred5 p ess dss then
            (if sx_eqb fin (sx_of_res (fun m => SL (map SB (sorted_keys m))) (snd m)) then Agree else Differ msx)
          else Violates msx
      | None => BadCase
      end
  | _, _ => BadCase
  end.

(* which = 6  limiter expiry (limitersMap.maintenance), REAL clock, one default rule of count kind, all events
   inside one bucket (the harness re-runs a case during which the real clock crossed a bucket boundary).
     case = (count interval limit exp_ms (item ...)),  item = (0 key) one event | (1 rounds gap_ms (key ...)) a pause
   of rounds * gap_ms during which every listed (hot) key is hit once per round.  Timing model, valid for
   exp_ms = 2500, gap_ms <= 500, rounds * gap_ms >= 4000 (checked here) and the 1 s maintenance ticker: a key
   that is hit every gap_ms is never dropped; a key idle for a whole pause is dropped (its next event finds a
   fresh limiter).  Only the first half is the property (a live limiter keeps its counters): the predicate
   compares the keys that are hot in EVERY pause with the reference semantics over their whole history. *)
Inductive xitem := XEv (k : bytes) | XPause (rounds : Z) (hot : list bytes).
Definition xitem_of_sx (s : sx) : option xitem :=
  match s with
  | SL [SZ 0; SB k] => match k with [] => None | _ => Some (XEv k) end
  | SL [SZ 1; SZ rounds; SZ gap; ks] =>
      match as_list as_B ks with
      | Some hot => if (1 <=? gap) && (gap <=? 500) && (4000 <=? rounds * gap) && (rounds <=? 1000)
                       && forallb (fun k => match k with [] => false | _ => true end) hot
                    then Some (XPause rounds hot) else None
      | None => None
      end
  | _ => None
  end.
Definition case6 (s : sx) : option (pcfg * list xitem) :=
  match s with
  | SL [SZ cnt; SZ itv; SZ lm; SZ ex; its] =>
      match as_list xitem_of_sx its with
      | Some items =>
          if (1 <=? cnt) && (1000000000 * 60 <=? itv) && (0 <=? lm) && (ex =? 2500)
          then Some ({| p_count := cnt; p_interval := itv;
                        p_rules := [{| r_conds := []; r_limit := lm; r_size := false |}] |}, items) else None
      | None => None
      end
  | _ => None
  end.
Definition xev (p : pcfg) (k : bytes) : pev :=
  let t := p_count p * p_interval p in {| e_now := t; e_ts := t; e_size := 1; e_fields := [(KEY, k)] |}.
Fixpoint rounds_evs (p : pcfg) (n : nat) (hot : list bytes) : list pev :=
  match n with O => [] | S n' => map (xev p) hot ++ rounds_evs p n' hot end.
Definition xitem_evs (p : pcfg) (it : xitem) : list pev :=
  match it with XEv k => [xev p k] | XPause r hot => rounds_evs p (Z.to_nat r) hot end.
Definition mem_bytes (k : bytes) (l : list bytes) : bool := existsb (bytes_eqb k) l.
Fixpoint xrun (p : pcfg) (m : lmap) (its : list xitem) : list bool * res lmap :=
  match its with
  | [] => ([], Ok m)
  | it :: r =>
      match prun p m (xitem_evs p it) with
      | (bs, Ok m1) =>
          let m2 := match it with
                    | XEv _ => m1
                    | XPause _ hot => filter (fun kl => mem_bytes (fst kl) (map (lim_key 0) hot)) m1
                    end in
          let '(bs', fin) := xrun p m2 r in (bs ++ bs', fin)
      | (bs, bad) => (bs, bad)
      end
  end.
Definition always_hot (its : list xitem) (k : bytes) : bool :=
  forallb (fun it => match it with XEv _ => true | XPause _ hot => mem_bytes k hot end) its.
Definition c16_pred6 (p : pcfg) (its : list xitem) (obs : sx) : bool :=
  let es := concat (map (xitem_evs p) its) in
  match as_list as_bool obs with
  | Some ds =>
      (length ds =? length es)%nat &&
      forallb (fun k =>
                 match k with
                 | _ :: _ :: tk =>
                     if always_hot its tk then
                       match key_cfg p k es with
                       | Some c => bools_eqb (pick (for_key p k) es ds)
                                     (snd (s_run c spec0 (map pev_op (filter (for_key p k) es))))
                       | None => true
                       end
                     else true
                 | _ => true
                 end) (keys_of p es)
  | None => false
  end.
Definition c16_run6 (case obs : sx) : verdict :=
  match case6 case with
  | None => BadCase
  | Some (p, its) => verdict_of (SL (map of_bool (fst (xrun p [] its)))) obs (c16_pred6 p its obs)
  end.

(* which = 7  the effective shares of a limit distribution with arbitrary ratios num/den (the harness measures
   them on a started Plugin of size kind: the largest event a fresh key lets through per slot).
     case = (total den (num ...))   obs = (0 (default share ...)) | (1 1) ratio out of range | (1 2) sum > 1
   The code works in float64 (ratio = float64(num)/float64(den); share = Round(ratio * total); default ratio =
   Round((1 - sum) * 100) / 100), so the check is relational: a share is A nearest integer of the exact
   product, up to the float64 error of one multiplication (relative 2^-48, generous); the default ratio is any
   whole percent nearest to 100 * (1 - sum) (a tie may fall either way); ratios that sum to exactly 1 may be
   rejected (as for which = 2).                                                                          *)
Definition near_share (total num den s : Z) : bool :=
  2 ^ 48 * (2 * Z.abs (s * den - num * total) - den) <=? 2 * den * (total + 1).
Fixpoint near_shares (total den : Z) (nums ss : list Z) : bool :=
  match nums, ss with
  | [], [] => true
  | n :: nums', x :: ss' => near_share total n den x && near_shares total den nums' ss'
  | _, _ => false
  end.
(* k is a whole percent nearest to 100 * rest / den *)
Definition near_pct (rest den k : Z) : bool := 2 ^ 30 * (2 * Z.abs (k * den - 100 * rest) - den) <=? den.
Definition def_share_ok (total rest den s : Z) : bool :=
  existsb (fun k => near_pct rest den k && near_share total k 100 s) (map Z.of_nat (seq 0 101)).
Definition c16_run7 (case obs : sx) : verdict :=
  match case with
  | SL [SZ total; SZ den; ns] =>
      match as_list as_Z ns with
      | Some nums =>
          if (0 <=? total) && (total <? 2 ^ 61) && (1 <=? den) && (den <=? 2 ^ 40) then
            let sum := sumZ nums in
            let exact := SL [SZ 0; SL (map SZ (round_div (round_div (100 * (den - sum)) den * total) 100
                                                :: map (fun n => round_div (n * total) den) nums))] in
            if negb (forallb (fun n => (0 <=? n) && (n <=? den)) nums) then exact_verdict (SL [SZ 1; SZ 1]) obs
            else if den <? sum then exact_verdict (SL [SZ 1; SZ 2]) obs
            else match nums, obs with
                 | [], _ => exact_verdict (SL [SZ 0; SL [SZ total]]) obs
                 | _, SL [SZ 1; SZ 2] => if sum =? den then Agree else Violates exact
                 | _, SL [SZ 0; ss] =>
                     match as_list as_Z ss with
                     | Some (d :: l) =>
                         if near_shares total den nums l && def_share_ok total (den - sum) den d
                         then Agree else Violates exact
                     | _ => Violates exact
                     end
                 | _, _ => Violates exact
                 end
          else BadCase
      | None => BadCase
      end
  | _ => BadCase
  end.

(* which = 8  as which = 7, and the shares must not add up to more than the limit they distribute (the title of
   the property: never more than the limit per key and bucket).  The code violates this for ratios finer than a
   percent (finding C16-default-share-rounding); the harness emits such cases only when the finding is listed. *)
Definition c16_run8 (case obs : sx) : verdict :=
  match case, obs with
  | SL [SZ total; _; _], SL [SZ 0; ss] =>
      match as_list as_Z ss with
      | Some l => if sumZ l <=? total then c16_run7 case obs
                  else match c16_run7 case obs with BadCase => BadCase | _ => Violates (SL [SZ 0; SL [SZ total]]) end
      | None => c16_run7 case obs
      end
  | _, _ => c16_run7 case obs
  end.

(* ==== which = 9: the REDIS backend (redis_limiter.go + the redis paths of limiters_map.go / throttle.go), a second
   caller of the anchored mechanism: every limiter is a pair of inMemoryLimiters — incrementLimiter (what arrived
   since the last sync) and totalLimiter (the global counters as of the last sync plus what passed the increment
   limiter since) — over one redis store.  The harness runs the real Plugin (limiter_backend: redis) against a fake
   RESP server of its own, with an injected clock, and drives redisLimiter.sync itself, so a case is a sequence:
     item = (0 now ts size dv ((field value) ...))   an event; dv = -1 | value id (field "d" = "v<id>" / "w<id>")
          | (1 now mode)                             every limiter syncs at clock now (mode 0: redisLimiter.sync in key
                                                     order; mode 1: one cycle of the real limitersMap.runSync)
          | (2 #limit-key value)                     the redis limit key is set: value = (0 n) the text n | (1 n groups)
                                                     the JSON {"limit": n, "distribution": {...}} | (2) garbage | (3) DEL
          | (3)                                      updateLimitsCfg + saveLimits: the limits file is observed
          | (4)                                      save, Stop, and a new Plugin that loads the limits file (same redis)
          | (5)                                      Stop, and a new Plugin over an EMPTY limits file: every limiter forgotten
          | (6 now #throttle-key (now' ts size dv))  a sync during which an event of that throttle key arrives: after the
                                                     snapshot of its limiter, before the first INCRBY is answered
   case = (down client routing vf count interval (rule ...) (item ...)),  rule = (limit kind conds groups),
   groups = ((percent (value id ...)) ...): the distributions of limit_distribution in index order.
   down = 1: nothing listens on the endpoint (Start logs the failed ping, runSync waits for a reconnect for ever):
   the limiters never sync.  vf = 1: limiter_value_field "limit" / limiter_distribution_field "distribution".
   obs  = ((o ...) final): o = decision | dump after a sync | () | the limits file | ();  final = dump;
   dump = ((limiter ...) (counter ...)) sorted by key, limiter = (#key #limit-key inc-limit total-limit kind
          default-share (share ...) ((value id ...) ...) inc-ring total-ring), counter = (#throttle-key bucket-id slot n).
   Err 77 = outside what the model decides exactly (a share that is an exact .5 tie in float64) -> BadCase.     *)
Definition groups := list (Z * list Z).
Definition zmem (x : Z) (l : list Z) : bool := existsb (Z.eqb x) l.
Fixpoint nodup_ids (seen ids : list Z) : option (list Z) :=
  match ids with
  | [] => Some seen
  | i :: r => if zmem i seen then None else nodup_ids (i :: seen) r
  end.
(* parseLimitDistribution's checks per ratio: range, non-empty values, no value listed twice *)
Fixpoint groups_wf (seen : list Z) (gs : groups) : bool :=
  match gs with
  | [] => true
  | (p, ids) :: r =>
      (0 <=? p) && (p <=? 100) && (match ids with [] => false | _ :: _ => true end) &&
      match nodup_ids seen ids with Some s => groups_wf s r | None => false end
  end.
Definition gsum (gs : groups) : Z := sumZ (map fst gs).
Definition groups_ok (gs : groups) : bool := groups_wf [] gs && (gsum gs <=? 100).
Inductive pres := PTie | PErr | POk (d : Z) (sh : list Z).
Definition parse_groups (lm : Z) (gs : groups) : pres :=
  if negb (groups_ok gs) then PErr else
  match gs with
  | [] => POk 0 []
  | _ :: _ =>
      if (lm <? 0) || (gsum gs =? 100) || existsb (fun p => (p * lm) mod 100 =? 50) ((100 - gsum gs) :: map fst gs)
      then PTie else POk (share_of lm (100 - gsum gs)) (map (share_of lm) (map fst gs))
  end.
Fixpoint group_idx (gs : groups) (id i : Z) : option Z :=
  match gs with
  | [] => None
  | (_, ids) :: r => if zmem id ids then Some i else group_idx r id (i + 1)
  end.

Fixpoint a_get {A} (m : list (bytes * A)) (k : bytes) : option A :=
  match m with [] => None | (k', v) :: r => if bytes_eqb k' k then Some v else a_get r k end.
Fixpoint a_set {A} (m : list (bytes * A)) (k : bytes) (v : A) : list (bytes * A) :=
  match m with
  | [] => [(k, v)]
  | (k', v') :: r => if bytes_eqb k' k then (k, v) :: r else (k', v') :: a_set r k v
  end.
Definition a_del {A} (m : list (bytes * A)) (k : bytes) : list (bytes * A) :=
  filter (fun kv => negb (bytes_eqb (fst kv) k)) m.
Fixpoint a_insert {A} (k : bytes) (v : A) (l : list (bytes * A)) : list (bytes * A) :=
  match l with
  | [] => [(k, v)]
  | (k', v') :: r => if bytes_ltb k k' then (k, v) :: l else (k', v') :: a_insert k v r
  end.
Definition a_sorted {A} (m : list (bytes * A)) : list (bytes * A) :=
  fold_right (fun kv acc => a_insert (fst kv) (snd kv) acc) [] m.
Fixpoint zinsert (x : Z) (l : list Z) : list Z :=
  match l with [] => [x] | y :: r => if x <=? y then x :: l else y :: zinsert x r end.
Definition zsort (l : list Z) : list Z := fold_right zinsert [] l.

(* one redis limiter: the limit and distribution it currently has (rl_c: limit, default share, shares; rl_gs: which
   value ids each distribution lists), the throttle key (redis counter prefix), the redis limit key, the two rings *)
Record rl := { rl_c : cfg; rl_gs : groups; rl_tkey : bytes; rl_lkey : bytes; rl_inc : lim; rl_tot : lim }.
Definition ckey := (bytes * Z * Z)%type.
Definition ckey_eqb (a b : ckey) : bool :=
  let '(k, i, d) := a in let '(k', i', d') := b in bytes_eqb k k' && (i =? i') && (d =? d').
Definition ckey_ltb (a b : ckey) : bool :=
  let '(k, i, d) := a in let '(k', i', d') := b in
  if bytes_ltb k k' then true else if bytes_ltb k' k then false
  else if i <? i' then true else if i' <? i then false else d <? d'.
Definition ctrs := list (ckey * Z).
(* INCRBY *)
Fixpoint ctr_add (cs : ctrs) (k : ckey) (x : Z) : ctrs * Z :=
  match cs with
  | [] => ([(k, x)], x)
  | (k', v) :: r => if ckey_eqb k' k then ((k, v + x) :: r, v + x)
                    else let '(r', n) := ctr_add r k x in ((k', v) :: r', n)
  end.
Fixpoint c_insert (k : ckey) (v : Z) (l : ctrs) : ctrs :=
  match l with
  | [] => [(k, v)]
  | (k', v') :: r => if ckey_ltb k k' then (k, v) :: l else (k', v') :: c_insert k v r
  end.
Definition c_sorted (m : ctrs) : ctrs := fold_right (fun kv acc => c_insert (fst kv) (snd kv) acc) [] m.

Inductive kval := KInt (n : Z) | KJson (n : Z) (gs : groups) | KRaw.
Record rst := { rs_lims : list (bytes * rl); rs_ctr : ctrs; rs_keys : list (bytes * kval) }.

(* simpleBuckets.isEmpty: b == 0; distributedBuckets.isEmpty: no slot > 0 *)
Definition row_empty (c : cfg) (row : list Z) : bool :=
  match shares c with
  | [] => forallb (fun v => v =? 0) row
  | _ :: _ => forallb (fun v => v <=? 0) row
  end.
(* bucketsMeta.actualizeIndex *)
Definition actualize (l : lim) (mx i : Z) : Z * bool :=
  if maxID l =? mx then (i, true) else let a := i - (maxID l - mx) in (a, 0 <? a).
Definition with_ring (l : lim) (r : list (list Z)) : lim := {| minID := minID l; maxID := maxID l; ring := r |}.
Definition reset_row (l : lim) (i : Z) : res lim :=
  row <- idx (ring l) i ;; r <- upd (ring l) i (map (fun _ => 0) row) ;; Ok (with_ring l r).
Fixpoint set_row (b : list (list Z)) (i d : Z) (vs : list Z) : res (list (list Z)) :=
  match vs with
  | [] => Ok b
  | v :: r => row <- idx b i ;; row' <- upd row d v ;; b' <- upd b i row' ;; set_row b' i (d + 1) r
  end.
Fixpoint push_row (k : bytes) (id d : Z) (row : list Z) (cs : ctrs) : ctrs * list Z :=
  match row with
  | [] => (cs, [])
  | x :: r => let '(cs1, v) := ctr_add cs (k, id, d) x in
              let '(cs2, vs) := push_row k id (d + 1) r cs1 in (cs2, v :: vs)
  end.
(* redisLimiter.isAllowed on the two rings: the total limiter is asked only when the increment limiter agrees *)
Definition rl_allow (c : cfg) (gs : groups) (inc tot : lim) (now ts size : Z) (dv : option Z) : res (lim * lim * bool) :=
  let dve := match dv with None => None | Some id => group_idx gs id 0 end in
  ' (inc', b1) <- allow c inc now ts size dve ;;
  ' (tot', b2) <- (if b1 then allow c tot now ts size dve else Ok (tot, false)) ;;
  Ok (inc', tot', b2).
(* an event of this limiter that arrives DURING its sync — after the snapshot, while the first INCRBY is on its way
   (the harness fires it from the fake server): (now, ts, size, dv) *)
Definition hook := option (Z * Z * Z * option Z).
(* syncLocalGlobalLimiters + updateLimiterValues over the snapshot of the increment ring *)
Fixpoint sync_rows (c : cfg) (gs : groups) (k : bytes) (mn mx i : Z) (snap : list (list Z)) (inc tot : lim) (cs : ctrs)
                   (h : hook) (fired : option bool) : res (lim * lim * ctrs * option bool) :=
  match snap with
  | [] => Ok (inc, tot, cs, fired)
  | row :: r =>
      if row_empty c row then sync_rows c gs k mn mx (i + 1) r inc tot cs h fired else
      let '(cs1, vs) := push_row k (mn + i) 0 row cs in
      ' (inc0, tot0, fired1) <- (match h with
                                | Some (en, et, ez, edv) =>
                                    ' (a, b, d) <- rl_allow c gs inc tot en et ez edv ;; Ok (a, b, Some d)
                                | None => Ok (inc, tot, fired)
                                end) ;;
      let '(ai, oki) := actualize inc0 mx i in
      inc1 <- (if oki then reset_row inc0 ai else Ok inc0) ;;
      let '(at_, okt) := actualize tot0 mx i in
      tot1 <- (if okt then (b <- set_row (ring tot0) at_ 0 vs ;; Ok (with_ring tot0 b)) else Ok tot0) ;;
      sync_rows c gs k mn mx (i + 1) r inc1 tot1 cs1 None fired1
  end.
(* updateKeyLimit: what the limit key decodes to (None: absent, or an error that is only logged) *)
Definition key_update (vf : bool) (v : kval) : option (Z * groups) :=
  match vf, v with
  | false, KInt n => Some (n, [])
  | true, KJson n gs => Some (n, gs)
  | _, _ => None
  end.
Definition with_limit (c : cfg) (n : Z) : cfg :=
  {| count := count c; interval := interval c; size_kind := size_kind c; limit := n; deflimit := deflimit c; shares := shares c |}.
Definition with_distr (c : cfg) (d : Z) (sh : list Z) : cfg :=
  {| count := count c; interval := interval c; size_kind := size_kind c; limit := limit c; deflimit := d; shares := sh |}.
(* updateLimit + updateDistribution on both limiters *)
Definition apply_update (r : rl) (n : Z) (ngs : groups) : res rl :=
  let c1 := with_limit (rl_c r) n in
  let keep := {| rl_c := c1; rl_gs := rl_gs r; rl_tkey := rl_tkey r; rl_lkey := rl_lkey r; rl_inc := rl_inc r; rl_tot := rl_tot r |} in
  match ngs, rl_gs r with
  | [], [] => Ok keep
  | _, _ =>
      match parse_groups n ngs with
      | PErr => Ok keep
      | PTie => Err 77
      | POk d sh =>
          let c2 := with_distr c1 d sh in
          if (length sh =? length (shares c1))%nat
          then Ok {| rl_c := c2; rl_gs := ngs; rl_tkey := rl_tkey r; rl_lkey := rl_lkey r; rl_inc := rl_inc r; rl_tot := rl_tot r |}
          else Ok {| rl_c := c2; rl_gs := ngs; rl_tkey := rl_tkey r; rl_lkey := rl_lkey r; rl_inc := lim0 c2; rl_tot := lim0 c2 |}
      end
  end.
(* redisLimiter.sync at injected clock now (the event time of its rebuild is the REAL time.Now(): FAR) *)
Definition sync_one (vf : bool) (now : Z) (keys : list (bytes * kval)) (cs : ctrs) (r : rl) (h : hook)
  : res (rl * ctrs * option bool) :=
  let c := rl_c r in
  ' (inc1, mx) <- rebuild c now FAR (rl_inc r) ;;
  ' (tot1, _) <- rebuild c now FAR (rl_tot r) ;;
  ' (inc2, tot2, cs2, fired) <- sync_rows c (rl_gs r) (rl_tkey r) (minID tot1) mx 0 (ring inc1) inc1 tot1 cs h None ;;
  let r2 := {| rl_c := c; rl_gs := rl_gs r; rl_tkey := rl_tkey r; rl_lkey := rl_lkey r; rl_inc := inc2; rl_tot := tot2 |} in
  match a_get keys (rl_lkey r) with
  | None => Ok (r2, cs2, fired)
  | Some v => match key_update vf v with
              | None => Ok (r2, cs2, fired)
              | Some (n, ngs) => r3 <- apply_update r2 n ngs ;; Ok (r3, cs2, fired)
              end
  end.
(* hk = (throttle key, event): the event belongs to the limiter of that throttle key (one rule: there is one) *)
Fixpoint sync_all (vf : bool) (now : Z) (keys : list (bytes * kval)) (cs : ctrs) (ls : list (bytes * rl))
                  (hk : option (bytes * (Z * Z * Z * option Z))) (fired : option bool)
  : res (list (bytes * rl) * ctrs * option bool) :=
  match ls with
  | [] => Ok ([], cs, fired)
  | (k, r) :: rest =>
      let h := match hk with Some (t, e) => if bytes_eqb t (rl_tkey r) then Some e else None | None => None end in
      ' (r', cs1, f1) <- sync_one vf now keys cs r h ;;
      (* the event has moved the injected clock: the limiters that sync after it read the event's clock *)
      let now' := match f1, hk with Some _, Some (_, (en, _, _, _)) => en | _, _ => now end in
      ' (rest', cs2, f2) <- sync_all vf now' keys cs1 rest (match f1 with Some _ => None | None => hk end)
                                     (match f1 with Some b => Some b | None => fired end) ;;
      Ok ((k, r') :: rest', cs2, f2)
  end.

Record pcfg9 := { q_vf : bool; q_count : Z; q_interval : Z; q_rules : list (rule * groups) }.
Definition LKF : bytes := [108; 107]%N.                                   (* limiter_key_field "lk" *)
Definition default_lkey (tk : bytes) : bytes :=
  ([80; 95; 107; 95] ++ tk ++ [95; 108; 105; 109; 105; 116])%N.           (* "P_k_" tk "_limit", P = the pipeline name *)
Definition new_rl (p : pcfg9) (r : rule) (gs : groups) (tk ov : bytes) : res rl :=
  match parse_groups (r_limit r) gs with
  | POk d sh =>
      let c := {| count := q_count p; interval := q_interval p; size_kind := r_size r; limit := r_limit r;
                  deflimit := d; shares := sh |} in
      Ok {| rl_c := c; rl_gs := gs; rl_tkey := tk; rl_lkey := match ov with [] => default_lkey tk | _ => ov end;
            rl_inc := lim0 c; rl_tot := lim0 c |}
  | _ => Err 77
  end.
(* Plugin.isAllowed + getOrAdd + redisLimiter.isAllowed *)
Definition ev9 (p : pcfg9) (s : rst) (now ts size : Z) (dv : option Z) (f : fields) : res (rst * bool) :=
  match first_match (map fst (q_rules p)) 0 f with
  | None => Ok (s, true)
  | Some (n, r) =>
      let tk := throttle_key f in
      let key := lim_key n tk in
      r0 <- (match a_get (rs_lims s) key with
             | Some x => Ok x
             | None => new_rl p r (nth (Z.to_nat n) (map snd (q_rules p)) []) tk (lookup LKF f)
             end) ;;
      ' (inc', tot', b2) <- rl_allow (rl_c r0) (rl_gs r0) (rl_inc r0) (rl_tot r0) now ts size dv ;;
      let r1 := {| rl_c := rl_c r0; rl_gs := rl_gs r0; rl_tkey := rl_tkey r0; rl_lkey := rl_lkey r0; rl_inc := inc'; rl_tot := tot' |} in
      Ok ({| rs_lims := a_set (rs_lims s) key r1; rs_ctr := rs_ctr s; rs_keys := rs_keys s |}, b2)
  end.

(* limitDistributions.getCfg groups the values by ratio: distributions with equal ratios come out as ONE ratio.  The
   harness canonicalises the file (ratios ascending, values sorted) before it is observed and before it is loaded. *)
Fixpoint g_insert (p : Z) (ids : list Z) (gs : groups) : groups :=
  match gs with
  | [] => [(p, ids)]
  | (q, js) :: r => if p <? q then (p, ids) :: gs
                    else if p =? q then (q, fold_right zinsert js ids) :: r
                    else (q, js) :: g_insert p ids r
  end.
Definition g_canon (gs : groups) : groups := fold_right (fun g acc => g_insert (fst g) (zsort (snd g)) acc) [] gs.
(* parseLimits: a limiter per entry of the file, with the saved limit, kind, distribution and limit key; fresh rings *)
Definition reload (r : rl) : res rl :=
  let gs := g_canon (rl_gs r) in
  match parse_groups (limit (rl_c r)) gs with
  | POk d sh =>
      let c := with_distr (rl_c r) d sh in
      Ok {| rl_c := c; rl_gs := gs; rl_tkey := rl_tkey r; rl_lkey := rl_lkey r; rl_inc := lim0 c; rl_tot := lim0 c |}
  | _ => Err 77
  end.
Fixpoint reload_all (ls : list (bytes * rl)) : res (list (bytes * rl)) :=
  match ls with
  | [] => Ok []
  | (k, r) :: rest => r' <- reload r ;; rest' <- reload_all rest ;; Ok ((k, r') :: rest')
  end.

Definition sx_of_groups_ids (gs : groups) : sx := SL (map (fun g => SL (map SZ (zsort (snd g)))) gs).
Definition sx_of_rl (kr : bytes * rl) : sx :=
  let '(k, r) := kr in let c := rl_c r in
  SL [SB k; SB (rl_lkey r); SZ (limit c); SZ (limit c); SZ (if size_kind c then 1 else 0); SZ (deflimit c);
      SL (map SZ (shares c)); sx_of_groups_ids (rl_gs r); sx_of_lim (rl_inc r); sx_of_lim (rl_tot r)].
Definition sx_of_ctr (kv : ckey * Z) : sx := let '((k, i, d), v) := kv in SL [SB k; SZ i; SZ d; SZ v].
Definition dump9 (s : rst) : sx :=
  SL [SL (map sx_of_rl (a_sorted (rs_lims s))); SL (map sx_of_ctr (c_sorted (rs_ctr s)))].
Definition sx_of_saved (kr : bytes * rl) : sx :=
  let '(k, r) := kr in let c := rl_c r in
  SL [SB k; SB (rl_lkey r); SZ (if size_kind c then 1 else 0); SZ (limit c);
      SL (map (fun g => SL [SZ (fst g); SL (map SZ (snd g))]) (g_canon (rl_gs r)))].
Definition file9 (s : rst) : sx := SL (map sx_of_saved (a_sorted (rs_lims s))).

Inductive item9 :=
| I9Ev (now ts size : Z) (dv : option Z) (f : fields)
| I9Sync (now mode : Z)
| I9Set (k : bytes) (v : option kval)
| I9Save
| I9Restart
| I9RestartEmpty
| I9SyncEv (now : Z) (t : bytes) (en et ez : Z) (edv : option Z).

(* the observations made before a panic (newest first), and whether the run ended in one *)
Fixpoint run9 (p : pcfg9) (s : rst) (its : list item9) (acc : list sx) : list sx * res rst :=
  match its with
  | [] => (acc, Ok s)
  | it :: rest =>
      match it with
      | I9Ev now ts size dv f =>
          match ev9 p s now ts size dv f with
          | Ok (s', b) => run9 p s' rest (of_bool b :: acc)
          | Err e => (acc, Err e)
          | Panic x => (acc, Panic x)
          end
      | I9Sync now mode =>
          (* mode 1: the real runSync is left running for at least two cycles; from the second on a cycle changes
             nothing (the first may recreate rings, which the second initialises from the clock) *)
          match (' (ls1, cs1, _) <- sync_all (q_vf p) now (rs_keys s) (rs_ctr s) (a_sorted (rs_lims s)) None None ;;
                 if mode =? 1 then sync_all (q_vf p) now (rs_keys s) cs1 ls1 None None else Ok (ls1, cs1, None)) with
          | Ok (ls, cs, _) =>
              let s' := {| rs_lims := ls; rs_ctr := cs; rs_keys := rs_keys s |} in
              run9 p s' rest (dump9 s' :: acc)
          | Err e => (acc, Err e)
          | Panic x => (acc, Panic x)
          end
      | I9SyncEv now t en et ez edv =>
          match sync_all (q_vf p) now (rs_keys s) (rs_ctr s) (a_sorted (rs_lims s)) (Some (t, (en, et, ez, edv))) None with
          | Ok (ls, cs, fired) =>
              let s' := {| rs_lims := ls; rs_ctr := cs; rs_keys := rs_keys s |} in
              run9 p s' rest (SL [match fired with Some b => of_bool b | None => SL [] end; dump9 s'] :: acc)
          | Err e => (acc, Err e)
          | Panic x => (acc, Panic x)
          end
      | I9Set k v =>
          let ks := match v with Some x => a_set (rs_keys s) k x | None => a_del (rs_keys s) k end in
          run9 p {| rs_lims := rs_lims s; rs_ctr := rs_ctr s; rs_keys := ks |} rest (SL [] :: acc)
      | I9Save => run9 p s rest (file9 s :: acc)
      | I9Restart =>
          match reload_all (rs_lims s) with
          | Ok ls => run9 p {| rs_lims := ls; rs_ctr := rs_ctr s; rs_keys := rs_keys s |} rest (SL [] :: acc)
          | Err e => (acc, Err e)
          | Panic x => (acc, Panic x)
          end
      | I9RestartEmpty =>
          run9 p {| rs_lims := []; rs_ctr := rs_ctr s; rs_keys := rs_keys s |} rest (SL [] :: acc)
      end
  end.

Definition group_of_sx (s : sx) : option (Z * list Z) :=
  match s with
  | SL [SZ p; ids] => match as_list as_Z ids with Some l => Some (p, l) | None => None end
  | _ => None
  end.
Definition rule9_of_sx (s : sx) : option (rule * groups) :=
  match s with
  | SL [SZ lm; SZ kd; cs; gs] =>
      match as_list kv_of_sx cs, as_list group_of_sx gs with
      | Some conds, Some g => Some ({| r_conds := conds; r_limit := lm; r_size := negb (kd =? 0) |}, g)
      | _, _ => None
      end
  | _ => None
  end.
Definition kval_of_sx (s : sx) : option (option kval) :=
  match s with
  | SL [SZ 0; SZ n] => Some (Some (KInt n))
  | SL [SZ 1; SZ n; gs] => match as_list group_of_sx gs with Some g => Some (Some (KJson n g)) | None => None end
  | SL [SZ 2] => Some (Some KRaw)
  | SL [SZ 3] => Some None
  | _ => None
  end.
Definition item9_of_sx (s : sx) : option item9 :=
  match s with
  | SL [SZ 0; SZ n; SZ t; SZ z; SZ d; fs] =>
      match as_list kv_of_sx fs with
      | Some f => if (-1 <=? d) && (0 <=? z) then Some (I9Ev n t z (dv_of d) f) else None
      | None => None
      end
  | SL [SZ 1; SZ n; SZ m] => if (m =? 0) || (m =? 1) then Some (I9Sync n m) else None
  | SL [SZ 2; SB k; v] => match kval_of_sx v with Some kv => Some (I9Set k kv) | None => None end
  | SL [SZ 3] => Some I9Save
  | SL [SZ 4] => Some I9Restart
  | SL [SZ 5] => Some I9RestartEmpty
  | SL [SZ 6; SZ n; SB t; SL [SZ en; SZ et; SZ ez; SZ d]] =>
      if (-1 <=? d) && (0 <=? ez) && (n <=? en) && negb (bytes_eqb t []) then Some (I9SyncEv n t en et ez (dv_of d)) else None
  | _ => None
  end.
Definition item9_clock (it : item9) : option Z :=
  match it with I9Ev n _ _ _ _ => Some n | I9Sync n _ => Some n | I9SyncEv _ _ en _ _ _ => Some en | _ => None end.
(* the harness's discipline: injected clocks stay below the real clock (see which = 4); a dead endpoint never syncs;
   runSync (mode 1) visits the limiters in map order, so it is used only when no two limiters share redis counters
   (one rule: a limiter per throttle key); the cluster client needs a cluster: only with a dead endpoint *)
Fixpoint clocks_mono (last : Z) (its : list item9) : bool :=
  match its with
  | [] => true
  | I9SyncEv n _ en _ _ _ :: r => (last <=? n) && (n <=? en) && clocks_mono en r
  | it :: r => match item9_clock it with
               | Some n => (last <=? n) && clocks_mono n r
               | None => clocks_mono last r
               end
  end.
(* a panic of sync in a worker goroutine of runSync would take the harness down: mode 1 only under a clock that never
   steps back (then the two rings of a limiter are rebuilt to the same window and sync does not panic) *)
Definition items9_ok (down : bool) (nrules : nat) (its : list item9) : bool :=
  forallb (fun it =>
             match item9_clock it with Some n => (0 <=? n) && (n <? 1500000000000000000) | None => true end &&
             match it with
             | I9Sync _ m => negb down && ((m =? 0) || ((nrules =? 1)%nat && clocks_mono 0 its))
             | I9SyncEv n _ _ _ _ _ => negb down && (nrules =? 1)%nat && (0 <=? n)
             | I9Set _ _ => negb down
             | _ => true
             end) its.
Definition case9 (s : sx) : option (pcfg9 * list item9) :=
  match s with
  | SL [SZ down; SZ client; SZ routing; SZ vf; SZ cnt; SZ itv; rs; its] =>
      match as_list rule9_of_sx rs, as_list item9_of_sx its with
      | Some rules, Some items =>
          if (0 <=? down) && (down <=? 1) && (0 <=? client) && (client <=? 2) && ((client <? 2) || (down =? 1)) &&
             (0 <=? routing) && (routing <=? 2) && (0 <=? vf) && (vf <=? 1) &&
             (1 <=? cnt) && (1 <=? itv) && (itv <=? 100000000000000000) &&
             (1 <=? len rules) && (len rules <=? 100) &&
             forallb (fun rg => groups_ok (snd rg) && forallb (fun g => 1 <=? fst g) (snd rg)) rules &&
             (match last rules ({| r_conds := [(KEY, KEY)]; r_limit := 0; r_size := false |}, []) with
              | (r, _) => match r_conds r with [] => true | _ => false end end) &&
             items9_ok (down =? 1) (length rules) items
          then Some ({| q_vf := (vf =? 1); q_count := cnt; q_interval := itv; q_rules := rules |}, items) else None
      | _, _ => None
      end
  | _ => None
  end.

(* the property's predicate where it transfers to the redis backend: ONE process, every sync between two events (the
   harness's discipline), no distribution, the limit never changed through redis, no restart, a clock that does not
   step back.  Then totalLimiter = the never-reset total whenever the increment limiter lets an event through, so
   every key's decisions are those of the reference semantics (c16_pred1, as for the in-memory backend).
   (With a distribution the two limiters attribute stolen events differently and the sum of the shares can be
   exceeded across syncs: model = code, outside the property, which is stated for the in-memory backend.)   *)
Fixpoint evs9 (its : list item9) (os : list sx) : option (list pev * list sx) :=
  match its, os with
  | [], [] => Some ([], [])
  | it :: r, o :: os' =>
      match evs9 r os' with
      | Some (es, ds) =>
          match it with
          | I9Ev n t z _ f => Some ({| e_now := n; e_ts := t; e_size := z; e_fields := f |} :: es, o :: ds)
          | _ => Some (es, ds)
          end
      | None => None
      end
  | _, _ => None
  end.
Definition c16_pred9 (p : pcfg9) (its : list item9) (obs : sx) : bool :=
  match q_rules p with
  | [(r, [])] =>
      if forallb (fun it => match it with I9Set _ _ | I9Restart | I9RestartEmpty | I9SyncEv _ _ _ _ _ _ => false | _ => true end) its &&
         clocks_mono (q_count p * q_interval p) its
      then match obs with
           | SL [SL os; _] =>
               match evs9 its os with
               | Some (es, ds) =>
                   c16_pred1 {| p_count := q_count p; p_interval := q_interval p; p_rules := [r] |} es (SL [SL ds; SL []])
               | None => false
               end
           | _ => false
           end
      else true
  | _ => true
  end.
Definition c16_run9 (case obs : sx) : verdict :=
  match case9 case with
  | None => BadCase
  | Some (p, its) =>
      match run9 p {| rs_lims := []; rs_ctr := []; rs_keys := [] |} its [] with
      | (_, Err _) => BadCase
      | (acc, Ok s) => verdict_of (SL [SL (rev_append acc []); SL [SZ 0; dump9 s]]) obs (c16_pred9 p its obs)
      | (acc, Panic _) => verdict_of (SL [SL (rev_append acc []); SL [SZ 2]]) obs (c16_pred9 p its obs)
      end
  end.

(* ---- one redis limiter of one process on its own: the vocabulary of theorem c16_redis_single_process --------------
   A limiter without distribution whose limit key is never set, over a store nobody else writes: events and syncs in
   any order (the syncs BETWEEN events: no event arrives inside a sync).  rrun uses the same rl_allow / sync_one as
   c16_run9.                                                                                                      *)
Inductive ritem := REv (o : op) | RSync (now : Z).
Definition rl_fresh (c : cfg) (k : bytes) : rl :=
  {| rl_c := c; rl_gs := []; rl_tkey := k; rl_lkey := []; rl_inc := lim0 c; rl_tot := lim0 c |}.
Fixpoint rrun (r : rl) (cs : ctrs) (its : list ritem) : res (list bool) :=
  match its with
  | [] => Ok []
  | REv o :: rest =>
      ' (inc', tot', b) <- rl_allow (rl_c r) (rl_gs r) (rl_inc r) (rl_tot r) (o_now o) (o_ts o) (o_size o) (o_dv o) ;;
      bs <- rrun {| rl_c := rl_c r; rl_gs := rl_gs r; rl_tkey := rl_tkey r; rl_lkey := rl_lkey r; rl_inc := inc'; rl_tot := tot' |}
                 cs rest ;;
      Ok (b :: bs)
  | RSync now :: rest =>
      ' (r', cs', _) <- sync_one false now [] cs r None ;;
      rrun r' cs' rest
  end.
Fixpoint r_events (its : list ritem) : list op :=
  match its with
  | [] => []
  | REv o :: r => o :: r_events r
  | RSync _ :: r => r_events r
  end.
Definition ritem_clock (it : ritem) : Z := match it with REv o => o_now o | RSync n => n end.
(* the clock never steps back, is past the first window after the epoch and below the real clock (FAR stands for the
   time.Now() that sync passes as event time); sizes are not negative *)
Fixpoint rtimed (c : cfg) (last : Z) (its : list ritem) : bool :=
  match its with
  | [] => true
  | it :: r =>
      let n := ritem_clock it in
      (last <=? n) && (count c * interval c <=? n) && (n <=? FAR) &&
      (match it with REv o => 0 <=? o_size o | RSync _ => true end) && rtimed c n r
  end.

(* which = 10  as which = 4, but the instances >= 1 are configured with time_field "" (Plugin.isAllowed takes
   time.Now(), the REAL clock, for every event whatever its time field says) and with limiter_key_field "lk" (a redis
   option that must not change anything under the in-memory backend).                                          *)
Definition c16_run10 (case obs : sx) : verdict :=
  match case4 case with
  | None => BadCase
  | Some (p, es) =>
      let es' := map (fun e => if m_inst e =? 0 then e else
                               {| m_inst := m_inst e; m_now := m_now e; m_ts := TsNow; m_size := m_size e; m_fields := m_fields e |}) es in
      match case with
      | SL [SZ ninst; _; SZ itv; _; _] =>
          if mevs_ok ninst itv None es'
          then verdict_of (sx_of_prun (prun p [] (map pev_code es'))) obs (c16_pred1 p (map pev_true es') obs)
          else BadCase
      | _ => BadCase
      end
  end.

(* ==== which = 11: rules that carry their OWN limit_distribution (in-memory backend; a plain throttle.Plugin started
   through the public API, the injected clock set on its limiters map).
     case  = (count interval (rule ...) (event ...)),  rule = (limit kind conds groups) as for which = 9,
             groups = ((percent (value id ...)) ...); the last rule is the default rule: its limit is default_limit,
             its groups are the plugin-level limit_distribution
             event = (now ts size dv ((field value) ...)),  dv = -1 | value id   (field "d" = "v<id>" / "w<id>")
     obs   = ((decision ...) final)   final = (0 (limiter-key ...)) sorted | (2)
   The SPECIFIED shares of a limiter are those of the rule that created it: share(value) = round(ratio x the limit of
   the MATCHING rule), the default share round((1 - sum of ratios) x that same limit) — for the default rule the
   limit is default_limit, for every other rule its own limit, whatever default_limit is.  Both the model (the ring,
   [allow]) and the predicate (the reference semantics [s_run]) are run on that configuration, so a Plugin that
   derives a rule's shares from any other limit fails the PREDICATE: some key passes more than a share allows, or is
   rejected below it.                                                                                             *)
Definition drules := list (rule * groups).
Fixpoint first_match2 (rs : drules) (n : Z) (ev : fields) : option (Z * rule * groups) :=
  match rs with
  | [] => None
  | (r, gs) :: rs' => if rule_match r ev then Some (n, r, gs) else first_match2 rs' (n + 1) ev
  end.
Record dpcfg := { w_count : Z; w_interval : Z; w_rules : drules }.
(* whole percents, exact arithmetic: share_of total pct = round(pct * total / 100) *)
Definition spec_deflimit (lm : Z) (gs : groups) : Z :=
  match gs with [] => 0 | _ :: _ => share_of lm (100 - gsum gs) end.
Definition spec_shares (lm : Z) (gs : groups) : list Z := map (share_of lm) (map fst gs).
Definition spec_cfg (p : dpcfg) (r : rule) (gs : groups) : cfg :=
  {| count := w_count p; interval := w_interval p; size_kind := r_size r; limit := r_limit r;
     deflimit := spec_deflimit (r_limit r) gs; shares := spec_shares (r_limit r) gs |}.
Record dev := { v_now : Z; v_ts : Z; v_size : Z; v_dv : option Z; v_fields : fields }.
(* the distribution the event's value is listed in (by the limiter's own groups) *)
Definition dv_slot (gs : groups) (dv : option Z) : option Z :=
  match dv with None => None | Some id => group_idx gs id 0 end.
Definition dev_op (gs : groups) (e : dev) : op :=
  {| o_now := v_now e; o_ts := v_ts e; o_size := v_size e; o_dv := dv_slot gs (v_dv e) |}.
(* the limiter keeps the limit AND the distribution it was created with *)
Definition dmap := list (bytes * (cfg * groups * lim)).
Definition dm_find (p : dpcfg) (m : dmap) (k : bytes) (r : rule) (gs : groups) : cfg * groups * lim :=
  match a_get m k with Some x => x | None => (spec_cfg p r gs, gs, lim0 (spec_cfg p r gs)) end.
Definition dstep (p : dpcfg) (m : dmap) (e : dev) : res (dmap * bool) :=
  match first_match2 (w_rules p) 0 (v_fields e) with
  | None => Ok (m, true)
  | Some (n, r, gs0) =>
      let k := lim_key n (throttle_key (v_fields e)) in
      let '(c, gs, l) := dm_find p m k r gs0 in
      let o := dev_op gs e in
      ' (l', b) <- allow c l (o_now o) (o_ts o) (o_size o) (o_dv o) ;;
      Ok (a_set m k (c, gs, l'), b)
  end.
Fixpoint drun (p : dpcfg) (m : dmap) (es : list dev) : list bool * res dmap :=
  match es with
  | [] => ([], Ok m)
  | e :: r =>
      match dstep p m e with
      | Ok (m', b) => let '(bs, fin) := drun p m' r in (b :: bs, fin)
      | Err x => ([], Err x)
      | Panic x => ([], Panic x)
      end
  end.
Definition dev_key (p : dpcfg) (e : dev) : option bytes :=
  match first_match2 (w_rules p) 0 (v_fields e) with
  | None => None
  | Some (n, _, _) => Some (lim_key n (throttle_key (v_fields e)))
  end.
Definition dev_rule (p : dpcfg) (e : dev) : option (rule * groups) :=
  match first_match2 (w_rules p) 0 (v_fields e) with
  | None => None
  | Some (_, r, gs) => Some (r, gs)
  end.
Definition dfor_key (p : dpcfg) (k : bytes) (e : dev) : bool :=
  match dev_key p e with Some k' => bytes_eqb k' k | None => false end.
Fixpoint dkeys_of (p : dpcfg) (es : list dev) : list bytes :=
  match es with
  | [] => []
  | e :: r => match dev_key p e with Some k => insert_key k (dkeys_of p r) | None => dkeys_of p r end
  end.
(* the rule (and its distribution) that the first event of a key matched *)
Definition dkey_rule (p : dpcfg) (k : bytes) (es : list dev) : option (rule * groups) :=
  match filter (dfor_key p k) es with e :: _ => dev_rule p e | [] => None end.
Definition dops_for (p : dpcfg) (k : bytes) (gs : groups) (es : list dev) : list op :=
  map (dev_op gs) (filter (dfor_key p k) es).
Definition d_timed (p : dpcfg) (e : dev) : bool := w_count p * w_interval p <=? v_now e.
Definition dunthrottled (p : dpcfg) (e : dev) : bool := match dev_key p e with None => true | Some _ => false end.
(* the property's predicate: every key's decisions are those of the reference semantics run on that key's events alone
   with the limit of the first matching rule and the SPECIFIED shares of that rule (each listed value within its share,
   the total within the sum of the shares, nothing rejected below them: c16_rule_distr_shares) *)
Definition c16_pred11 (p : dpcfg) (es : list dev) (obs : sx) : bool :=
  if (1 <=? w_count p) && (Z.of_nat (length (w_rules p)) <=? 256) && forallb (d_timed p) es then
    match decisions_of obs with
    | Some ds =>
        (length ds =? length es)%nat &&
        forallb (fun k =>
                   match dkey_rule p k es with
                   | Some (r, gs) => bools_eqb (pick (dfor_key p k) es ds)
                                       (snd (s_run (spec_cfg p r gs) spec0 (dops_for p k gs es)))
                   | None => true
                   end) (dkeys_of p es) &&
        bools_eqb (pick (dunthrottled p) es ds) (map (fun _ => true) (filter (dunthrottled p) es))
    | None => false
    end
  else true.
Definition sx_of_drun (r : list bool * res dmap) : sx :=
  SL [SL (map of_bool (fst r)); sx_of_res (fun m => SL (map SB (fold_right insert_key [] (map fst m)))) (snd r)].
Definition dev_of_sx (s : sx) : option dev :=
  match s with
  | SL [SZ n; SZ t; SZ z; SZ d; fs] =>
      match as_list kv_of_sx fs with
      | Some f => if (-1 <=? d) && (0 <=? z) then Some {| v_now := n; v_ts := t; v_size := z; v_dv := dv_of d; v_fields := f |} else None
      | None => None
      end
  | _ => None
  end.
(* float64: ratio = float64(pct)/100, share = Round(ratio * float64(limit)).  The exact products lie on the 0.01 grid,
   the float64 error is far below it for limits <= 10^12, so the share is the exact nearest integer unless the product
   is a tie x.5: then only the ratios that float64 represents exactly (0, 0.25, 0.5, 0.75, 1) are decided here (Round is
   half away from zero = round_div).  Ratios that sum to exactly 1 are accepted only when all are such dyadic ratios
   (otherwise the float64 sum may exceed 1 and Start refuses the configuration, see which = 2). *)
Definition dyadic_pct (q : Z) : bool := (q mod 25 =? 0).
Definition shares_exact (lm : Z) (gs : groups) : bool :=
  match gs with
  | [] => true
  | _ :: _ =>
      (0 <=? lm) && (lm <=? 10 ^ 12) &&
      forallb (fun q => negb ((q * lm) mod 100 =? 50) || dyadic_pct q) ((100 - gsum gs) :: map fst gs) &&
      (negb (gsum gs =? 100) || forallb dyadic_pct (map fst gs))
  end.
Definition case11 (s : sx) : option (dpcfg * list dev) :=
  match s with
  | SL [SZ cnt; SZ itv; rs; es] =>
      match as_list rule9_of_sx rs, as_list dev_of_sx es with
      | Some rules, Some evs =>
          if (0 <=? cnt) && (1 <=? itv) && (1 <=? len rules) &&
             forallb (fun rg => groups_ok (snd rg) && forallb (fun g => 1 <=? fst g) (snd rg) &&
                                shares_exact (r_limit (fst rg)) (snd rg)) rules &&
             (match last rules ({| r_conds := [(KEY, KEY)]; r_limit := 0; r_size := false |}, []) with
              | (r, _) => match r_conds r with [] => true | _ => false end end)
          then Some ({| w_count := cnt; w_interval := itv; w_rules := rules |}, evs) else None
      | _, _ => None
      end
  | _ => None
  end.
Definition c16_run11 (case obs : sx) : verdict :=
  match case11 case with
  | None => BadCase
  | Some (p, es) => verdict_of (sx_of_drun (drun p [] es)) obs (c16_pred11 p es obs)
  end.


Definition c16_entry (which : Z) (case obs : sx) : verdict :=
  match which with
  | 0 => c16_run0 case obs
  | 1 => c16_run1 case obs
  | 3 => c16_run3 case obs
  | 4 => c16_run4 case obs
  | 5 => c16_run5 case obs
  | 6 => c16_run6 case obs
  | 7 => c16_run7 case obs
  | 8 => c16_run8 case obs
  | 9 => c16_run9 case obs
  | 10 => c16_run10 case obs
  | 11 => c16_run11 case obs
  | _ => c16_run2 case obs
  end.
