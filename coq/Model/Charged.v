(* Model of the charged-stream hand-off between streams and sleeping processors
   (pipeline/streamer.go: makeCharged / joinStream, all under chargedMu).  One label per verifTrace site.
   nq = len(s.charged); slp = processors inside chargedCond.Wait(); wk = wake-ups issued by Signal and
   not yet consumed (sync.Cond has no spurious wake-ups); inloop = a woken processor holds chargedMu and
   is re-checking the loop condition; sigpend = makeCharged has appended and not yet signalled.
   No proofs here (Proofs/Charged.v). *)
From Verif Require Import Base.Sx.

Record cst := { nq : Z; slp : Z; wk : Z; inloop : bool; sigpend : bool; stopping : bool }.
Definition cinit : cst := {| nq := 0; slp := 0; wk := 0; inloop := false; sigpend := false; stopping := false |}.

Inductive clabel :=
| CCharge                     (* makeCharged: s.charged = append(...) *)
| CSignal (n : Z)             (* makeCharged: chargedCond.Signal(), n = len(s.charged) *)
| CSleep                      (* joinStream: len(s.charged) == 0, about to Wait *)
| CWake (stop : bool)         (* joinStream: Wait returned (stop: shouldStop was set) *)
| CPop.                       (* joinStream: popped a stream *)

Definition cstep (s : cst) (l : clabel) : option cst :=
  match l with
  | CCharge =>
      if negb (inloop s) && negb (sigpend s)
      then Some {| nq := nq s + 1; slp := slp s; wk := wk s; inloop := false; sigpend := true; stopping := stopping s |}
      else None
  | CSignal n =>
      if sigpend s && (n =? nq s)
      then Some {| nq := nq s; slp := slp s; wk := (if wk s <? slp s then wk s + 1 else wk s); inloop := false;
                   sigpend := false; stopping := stopping s |}
      else None
  | CSleep =>
      if (nq s =? 0) && negb (sigpend s)
      then Some {| nq := 0; slp := slp s + 1; wk := wk s; inloop := false; sigpend := false; stopping := stopping s |}
      else None
  | CWake stop =>
      if negb (sigpend s) && negb (inloop s) && (0 <? slp s) && (stop || stopping s || (0 <? wk s))
      then Some {| nq := nq s; slp := slp s - 1; wk := Z.max 0 (wk s - 1); inloop := negb stop;
                   sigpend := false; stopping := stopping s || stop |}
      else None
  | CPop =>
      if (0 <? nq s) && negb (sigpend s)
      then Some {| nq := nq s - 1; slp := slp s; wk := wk s; inloop := false; sigpend := false; stopping := stopping s |}
      else None
  end.

Fixpoint crun (s : cst) (ls : list clabel) : option cst :=
  match ls with
  | [] => Some s
  | l :: r => match cstep s l with Some s' => crun s' r | None => None end
  end.

(* C04: "no processor asleep while work is queued": whenever nobody is inside the chargedMu critical
   section, if some processor sleeps without a wake-up on its way then every queued stream has a woken
   processor coming for it *)
Definition no_sleeper_while_queued (s : cst) : bool :=
  inloop s || sigpend s || stopping s || (slp s <=? wk s) || (nq s <=? wk s).
