(* C15 entry: which < 50 the action state machines (Model/C15Entry.v), which >= 50 the processor-level clauses on pipeline traces;
   which = 51: families with a split action LEFT of a holding action (children of a split meet a busy action; Spawn sends its
   own time-out events): the single-stream monitor counts a child event (it has no stream of its own: stream id -1) as an
   event of the stream its processor is serving *)
From Verif Require Import Base.Sx Model.C15Entry Model.PipeEntry Model.PipeGlue Gen.BatcherGen.

(* cur: processor -> the stream of the last event with a stream it handed to an action; holder: (processor, action) -> the
   stream of the event the action holds.  Labels: (3 p 30 stream seq action kind+8*busy) Do, (3 p 31 stream seq action result) *)
Fixpoint m_single_stream_kids (es : list pentry) (cur : list (Z * Z)) (holder : list ((Z * Z) * Z)) : bool :=
  match es with
  | [] => true
  | e :: r =>
      let s := if 0 <=? pa e then pa e
               else match last_of_ (poi e) cur with Some v => v | None => -1 end in
      if is_k 3 31 e && ((pd e =? 3) || (pd e =? 1)) then m_single_stream_kids r cur (((poi e, pc e), s) :: holder)
      else if is_k 3 30 e then
        let cur' := if 0 <=? pa e then (poi e, pa e) :: cur else cur in
        if 8 <=? pd e then
          (match find (fun kv => key_eqb (fst kv) (poi e, pc e)) holder with
           | Some kv => snd kv =? s
           | None => false
           end) && m_single_stream_kids r cur' holder
        else m_single_stream_kids r cur' holder
      else m_single_stream_kids r cur holder
  end.

Definition c15_kids_mon (c : pcfg) (es : list pentry) : list (Z * bool) :=
  [(1, m_no_wedge es); (10, m_single_stream_kids es [] []); (9, m_timeout_to_busy es)].

Definition c15_full_entry (which : Z) (case obs : sx) : verdict :=
  if which =? 51 then pipe_run batcher_atomic_push c15_kids_mon case obs
  else if 50 <=? which then c15_pipe_entry which case obs else c15_entry which case obs.
