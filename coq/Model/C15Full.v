(* C15 entry: which < 50 the action state machines (Model/C15Entry.v), which >= 50 the processor-level clauses on pipeline traces *)
From Verif Require Import Base.Sx Model.C15Entry Model.PipeEntry.
Definition c15_full_entry (which : Z) (case obs : sx) : verdict :=
  if 50 <=? which then c15_pipe_entry which case obs else c15_entry which case obs.
