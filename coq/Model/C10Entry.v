(* C10 entry: which < 50 packing / marks (Model/Kafka.v; which = 5 the consumer group end to end, Model/KafkaGroup.v),
   which >= 50 the frontier clause on pipeline traces *)
From Coq Require Import ZArith List Bool.
From Verif Require Import Base.Sx Model.Kafka Model.KafkaGroup Model.PipeGlue Model.PipeEntry Gen.BatcherGen.
Import ListNotations.
Open Scope Z_scope.

(* ---- monitor 18: the frontier clause for commit notifications that do NOT come from the output ---------------------
   The input is told "record (source, offset) is finished" (label 4 38, InputPlugin.Commit) on two kinds of paths:
   through the output (the record was handed to the output, label 3 32, and the output / its batcher acknowledged it), or
   directly from the processor (an action discarded / collapsed it, a time-out, ...).  Monitor 8 states the frontier clause
   for every notification; with spread routing it fails on the output path (known finding: one partition is spread over
   all processors).  Monitor 18 is the same clause restricted to the notifications of records that were never handed to
   the output: such a notification says nothing about EARLIER records of the partition, so every accepted record of the
   source with a smaller offset must be finished (notified, or dropped by an action: label 4 33 with notify = 0, back = 1)
   at that moment.  `outs` = (stream, seq) of the events handed to the output so far. *)
Fixpoint m_direct_frontier (es : list pentry) (fin : list (Z * Z)) (accepted : list (Z * Z))
                           (key_of : list ((Z * Z) * (Z * Z))) (outs : list (Z * Z)) : bool :=
  match es with
  | [] => true
  | e :: r =>
      if is_k 2 20 e && (pd e =? 0) then
        m_direct_frontier r fin ((pb e, pc e) :: accepted) (((poi e, pa e), (pb e, pc e)) :: key_of) outs
      else if is_k 3 32 e then m_direct_frontier r fin accepted key_of ((pa e, pb e) :: outs)
      else if is_k 4 33 e && (pc e =? 2) && ((pd e =? 0) || (pd e =? 2)) then
        match find (fun kv => key_eqb (fst kv) (pa e, pb e)) key_of with
        | Some kv => m_direct_frontier r (snd kv :: fin) accepted key_of outs
        | None => m_direct_frontier r fin accepted key_of outs
        end
      else if is_k 4 38 e then
        let src := pd e in let off := pc e in
        (mem_key (pa e, pb e) outs ||
         forallb (fun k => negb (fst k =? src) || negb (snd k <? off) || mem_key k fin) accepted) &&
        m_direct_frontier r ((src, off) :: fin) accepted key_of outs
      else m_direct_frontier r fin accepted key_of outs
  end.

Definition c10_mon18 (c : pcfg) (es : list pentry) : list (Z * bool) :=
  c10_mon c es ++ [(18, m_direct_frontier es [] [] [] [])].

Definition c10_pipe_entry18 (which : Z) (case obs : sx) : verdict := pipe_run batcher_atomic_push c10_mon18 case obs.

Definition c10_full_entry (which : Z) (case obs : sx) : verdict :=
  if 50 <=? which then c10_pipe_entry18 which case obs
  else if which =? 5 then c10_group_run case obs
  else c10_entry which case obs.
