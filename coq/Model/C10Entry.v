(* C10 entry: which < 50 packing / marks (Model/Kafka.v; which = 5 the consumer group end to end, Model/KafkaGroup.v),
   which >= 50 the frontier clause on pipeline traces *)
From Verif Require Import Base.Sx Model.Kafka Model.KafkaGroup Model.PipeEntry.
Definition c10_full_entry (which : Z) (case obs : sx) : verdict :=
  if 50 <=? which then c10_pipe_entry which case obs
  else if which =? 5 then c10_group_run case obs
  else c10_entry which case obs.
