(* C10 entry: which < 50 packing / marks (Model/Kafka.v), which >= 50 the frontier clause on pipeline traces *)
From Verif Require Import Base.Sx Model.Kafka Model.PipeEntry.
Definition c10_full_entry (which : Z) (case obs : sx) : verdict :=
  if 50 <=? which then c10_pipe_entry which case obs else c10_entry which case obs.
