(* C11 — HTTP input: events are the body's lines, however the body is chunked.
   Only statements, each closed by [exact]; proofs live in Proofs/Http.v. *)
From Verif Require Import Base.Sx Model.Http Proofs.Http.

(* for every body and every way the transport splits it into reads (empty reads included),
   the events handed to the pipeline are exactly the newline split of the whole body *)
Theorem c11_http_chunking :
  forall chunks : list bytes, process_bulk chunks = split_body (concat chunks).
Proof. exact http_chunking. Qed.
Print Assumptions c11_http_chunking.

(* split_body is the unique decomposition into newline-free lines (+ a non-empty unterminated tail) *)
Theorem c11_split_body_is_the_line_split :
  forall b, exists ls t,
    b = concat (map (fun l => l ++ [NL]) ls) ++ t /\ Forall noNL ls /\ noNL t /\
    split_body b = ls ++ (match t with [] => [] | _ => [t] end).
Proof. exact split_body_spec. Qed.
Print Assumptions c11_split_body_is_the_line_split.

Theorem c11_line_split_unique :
  forall ls1 t1 ls2 t2,
    Forall noNL ls1 -> noNL t1 -> Forall noNL ls2 -> noNL t2 ->
    concat (map (fun l => l ++ [NL]) ls1) ++ t1 = concat (map (fun l => l ++ [NL]) ls2) ++ t2 ->
    ls1 = ls2 /\ t1 = t2.
Proof. exact nl_split_unique. Qed.
Print Assumptions c11_line_split_unique.

(* a 200 is produced only on the path that has handed over every line of the whole body *)
Theorem c11_http_ok_after_all_in :
  forall reads evs, serve_bulk reads = (evs, 200) ->
    no_err reads = true /\ evs = split_body (concat (chunks_of reads)).
Proof. exact http_ok_after_all_in. Qed.
Print Assumptions c11_http_ok_after_all_in.

(* a failed read: 400, and only complete lines of what was read before it were handed over *)
Theorem c11_http_error_prefix :
  forall reads, no_err reads = false ->
    serve_bulk reads = (fst (lines_tail (concat (before_err reads))), 400).
Proof. exact http_err_prefix. Qed.
Print Assumptions c11_http_error_prefix.

(* concurrent requests: over any sequence of get/put no source id is held twice, and a held id is
   never in the free list (so it cannot be handed to another request) *)
Theorem c11_http_sourceid_exclusive :
  forall ops, let p := fst (id_run idpool0 ops) in
    NoDup (held p) /\ (forall x, In x (held p) -> ~ In x (free p)).
Proof. exact http_sourceid_exclusive. Qed.
Print Assumptions c11_http_sourceid_exclusive.

(* back-pressure (harness which = 8): a verdict Agree / Differ on a gated history means that, whatever GOMAXPROCS,
   the park positions, the order in which requests ran / were released and the poison steps were, every request
   answered 200 delivered - as the controller read it AFTER its gate was released - exactly the newline split of ITS
   OWN body, and a request whose reads all succeeded was answered 200 *)
Theorem c11_http_gated_verdict_sound :
  forall case obs,
    (c11_gated_run case obs = Agree \/ exists m, c11_gated_run case obs = Differ m) ->
    exists cfg reqs steps outs,
      case = SL [SL cfg; SL reqs; SL steps] /\ obs = SL outs /\
      Forall2 (fun r o =>
        exists gz reads parks rds evs st,
          r = SL [SZ gz; reads; SL parks] /\ as_list rd_of_sx reads = Some rds /\ o = SL [SL evs; SZ st] /\
          (st = 200 -> no_err rds = true /\ evs = map SB (split_body (concat (chunks_of rds)))) /\
          (st <> 200 -> no_err rds = false)) reqs outs.
Proof. exact gated_verdict_sound. Qed.
Print Assumptions c11_http_gated_verdict_sound.

(* buffer-level model (shared heap, one pool, events are VIEWS that the controller reads when it likes).
   Any programs that keep the discipline [wf_from] (a buffer is written, viewed and Put only while held; it is held until
   In returned), any interleaving, any choice of sync.Pool at every Get, anybody scribbling over pooled buffers at any
   time: a request that ran to its end delivered what it would have delivered alone *)
Theorem c11_pool_views_stable :
  forall (progs : nat -> list op) (sch : list sstep) (r : nat),
    (forall r, wf_from (mk2 false false) false (progs r) = true) ->
    let st := run_sched sch (init_st progs) in
    prog (rq st r) = [] -> rev (outs (rq st r)) = intended (mk2 [] []) (progs r).
Proof. exact pool_views_stable. Qed.
Print Assumptions c11_pool_views_stable.

(* processBulk / processChunk as such a program (Get, Get, ..., deferred Put, Put) keeps the discipline ... *)
Theorem c11_http_bulk_keeps_buffers_until_in_returned :
  forall reads, wf_from (mk2 false false) false (bulk_ops reads) = true.
Proof. exact wf_bulk_ops. Qed.
Print Assumptions c11_http_bulk_keeps_buffers_until_in_returned.

(* ... so concurrent requests never mix bytes: under every interleaving (every request of the plugin runs
   processBulk on its own reads, all share the pools) the controller reads, for a request that was answered,
   exactly the events of the value-level model of THAT request's body *)
Theorem c11_http_pool_no_alias :
  forall (reads : nat -> list rd) (sch : list sstep) (r : nat),
    let st := run_sched sch (init_st (fun r => bulk_ops (reads r))) in
    prog (rq st r) = [] -> rev (outs (rq st r)) = fst (process_bulk_rd (reads r)).
Proof. exact http_pool_no_alias. Qed.
Print Assumptions c11_http_pool_no_alias.

(* non-vacuity of the buffer-level theorems: request 0 = "a\nAA" is parked at its tail while request 1 = "BB" | "\nb\n"
   gets a new pair of buffers, runs to its end and Puts them; request 2 = "C" then finds request 1's buffers in the pool;
   a poison step in between.  All three run to their end and deliver their own lines. *)
Example c11_pool_nonvacuous :
  let reads := fun r => match r with
                        | O => [Chunk [97;10;65;65]%N]
                        | S O => [Chunk [66;66]%N; Chunk [10;98;10]%N]
                        | S (S O) => [Chunk [67]%N]
                        | _ => [] end in
  let run := fun (n r : nat) => repeat (SRun r 0%nat) n in
  let st := run_sched (run 7%nat 0%nat ++ run 30%nat 1%nat ++ [SPoison (fun _ => [33;33;33]%N)] ++
                       run 30%nat 2%nat ++ run 9%nat 0%nat)
                      (init_st (fun r => bulk_ops (reads r))) in
  (prog (rq st 0%nat), prog (rq st 1%nat), prog (rq st 2%nat)) = ([], [], []) /\
  rev (outs (rq st 0%nat)) = [[97]; [65;65]]%N /\ rev (outs (rq st 1%nat)) = [[66;66]; [98]]%N /\
  rev (outs (rq st 2%nat)) = [[67]]%N /\ fresh st = 4%nat.
Proof. vm_compute. repeat split; reflexivity. Qed.

(* the model discriminates: the SEEDED variant (both buffers Put right after EOF, before the unterminated tail is
   flushed) breaks the discipline, and there is a schedule - request 0 parked at its tail, request 1 served meanwhile on
   the buffers request 0 just released - in which request 0's tail arrives as request 1's bytes *)
Example c11_early_put_is_caught :
  let a := [Chunk [97;10;65;65]%N] in
  let b := [Chunk [66;66]%N; Chunk [10;98;10]%N] in
  wf_from (mk2 false false) false (bulk_ops_early_put a) = false /\
  let progs := fun r => match r with O => bulk_ops_early_put a | S O => bulk_ops b | _ => [] end in
  let run := fun (n r : nat) => repeat (SRun r 0%nat) n in
  let st := run_sched (run 9%nat 0%nat ++ run 5%nat 1%nat ++ run 2%nat 0%nat ++ run 30%nat 1%nat) (init_st progs) in
  prog (rq st 0%nat) = [] /\ prog (rq st 1%nat) = [] /\
  rev (outs (rq st 0%nat)) = [[97]; [66;66]]%N /\ fst (process_bulk_rd a) = [[97]; [65;65]]%N /\
  rev (outs (rq st 1%nat)) = [[66;66]; [98]]%N.
Proof. vm_compute. repeat split; reflexivity. Qed.

(* the request route in front of serveBulk (harness which = 9): whatever the options are - auth strategy, auth header,
   secrets, CORS, meta templates, emulate mode - a request that reaches processBulk (POST, the bulk route of the mode,
   accepted credentials) is treated exactly as serve_bulk treats its reads ... *)
Theorem c11_http_route_options_do_not_matter :
  forall (c : rcfg) (q : rreq), ingests c q = true -> fst (route c q) = serve_bulk (q_reads q).
Proof. exact route_ingests. Qed.
Print Assumptions c11_http_route_options_do_not_matter.

(* ... so under every configuration a 200 to such a request comes after every line of its body was handed over ... *)
Theorem c11_http_route_ok_after_all_in :
  forall (c : rcfg) (q : rreq) evs st cl,
    route c q = (evs, st, cl) -> ingests c q = true -> st = 200 ->
    no_err (q_reads q) = true /\ evs = split_body (concat (chunks_of (q_reads q))).
Proof. exact route_200_after_all_in. Qed.
Print Assumptions c11_http_route_ok_after_all_in.

(* ... no other request (OPTIONS, a non-bulk path of the elasticsearch mode, another method) hands over anything ... *)
Theorem c11_http_route_nothing_else_is_ingested :
  forall (c : rcfg) (q : rreq), ingests c q = false -> fst (fst (route c q)) = [].
Proof. exact route_not_ingests. Qed.
Print Assumptions c11_http_route_nothing_else_is_ingested.

(* ... and a request that does not present a configured secret (specification [authorised], independent of the
   model of auth / authBasic / authBearer) hands over nothing and is not answered 200 (but for the CORS preflight) *)
Theorem c11_http_route_unauthorised_hands_over_nothing :
  forall (c : rcfg) (q : rreq), authorised c q = false ->
    fst (fst (route c q)) = [] /\ (q_method q <> 2 -> snd (fst (route c q)) <> 200).
Proof. exact route_unauthorised. Qed.
Print Assumptions c11_http_route_unauthorised_hands_over_nothing.

(* what a verdict Agree / Differ of the routed histories means for the real plugin *)
Theorem c11_http_route_verdict_sound :
  forall case obs,
    (c11_route_run case obs = Agree \/ exists m, c11_route_run case obs = Differ m) ->
    exists cfg c reqs outs,
      case = SL [cfg; SL reqs] /\ cfg_of_sx cfg = Some c /\ obs = SL outs /\
      Forall2 (fun r o =>
        exists q reads rds evs st x y z,
          req_of_sx r = Some (q, reads) /\ as_list rd_of_sx reads = Some rds /\ q_reads q = rds /\
          o = SL [SL evs; SZ st; x; y; z] /\
          (ingests c q = true ->
             (st = 200 -> no_err rds = true /\ evs = map SB (split_body (concat (chunks_of rds)))) /\
             (st <> 200 -> no_err rds = false)) /\
          (ingests c q = false ->
             evs = [] /\ (authorised c q = false -> q_method q <> 2 -> st <> 200))) reqs outs.
Proof. exact route_verdict_sound. Qed.
Print Assumptions c11_http_route_verdict_sound.

(* non-vacuity of the route theorems: elasticsearch mode, bearer auth under the header X-K (88 45 75), secret n -> t.
   POST /_bulk with "Bearer t" in X-K is ingested; the same credentials in another header, a wrong token, GET /_bulk,
   POST / and OPTIONS are not; basic auth: an unknown user with an empty password makes the handler panic (-1) *)
Example c11_route_nonvacuous :
  let c := mkCfg 1 2 [88;45;75]%N [([110]%N, [116]%N)] [] true in
  let ip := mkIp [] false in
  let rq := fun m path hsel cr => mkReq m path hsel cr [] ip ip ip ip [] false [Chunk [97;10;98]%N] in
  ingests c (rq 0 P_BULK [88;45;75]%N (CBearer [116]%N)) = true /\
  route c (rq 0 P_BULK [88;45;75]%N (CBearer [116]%N)) = ([[97]; [98]]%N, 200, 1) /\
  route c (rq 0 P_BULK [65]%N (CBearer [116]%N)) = ([], 401, 0) /\
  route c (rq 0 P_BULK [88;45;75]%N (CRaw [66;101;97;114;101;114;32;117]%N)) = ([], 401, 0) /\
  route c (rq 1 P_BULK [88;45;75]%N (CBearer [116]%N)) = ([], 405, 0) /\
  route c (rq 1 P_ROOT [88;45;75]%N (CBearer [116]%N)) = ([], 200, 2) /\
  route c (rq 0 P_ROOT [88;45;75]%N (CBearer [116]%N)) = ([], 200, 0) /\
  route c (rq 2 P_BULK [] CNone) = ([], 200, 0) /\
  route (mkCfg 0 1 [65]%N [([110]%N, [116]%N)] [] false) (rq 0 P_ROOT [65]%N (CBasic [120]%N [])) = ([], -1, 0) /\
  authorised (mkCfg 0 1 [65]%N [([110]%N, [116]%N)] [] false) (rq 0 P_ROOT [65]%N (CBasic [120]%N [])) = false.
Proof. vm_compute. repeat split; reflexivity. Qed.

(* non-vacuity: a body with CRLF, an empty line, a line split over three reads and no final newline *)
Example c11_nonvacuous :
  process_bulk [[97;13]; [10;10;98]; []; [99]; [100;10;101]]%N = [[97;13]; []; [98;99;100]; [101]]%N
  /\ serve_bulk [Chunk [97;10;98]%N; ReadErr; Chunk [10]%N] = ([[97]]%N, 400).
Proof. split; vm_compute; reflexivity. Qed.

(* request headers and meta templates (harness which = 12 / 13).  ServeHTTP hands the whole request to auth and to the
   meta templates before serveBulk runs; [route_h render c tm h] is ServeHTTP on a request h = (request line and body,
   header lines, extra query, framing) of a plugin configured with c and the templates tm, [render] being ANY function
   that turns a template, the login, the client address and the request into text.  Whatever they are, a request that
   reaches processBulk hands over - as the data of its In calls - exactly what serve_bulk makes of its reads ... *)
Theorem c11_http_headers_and_meta_do_not_matter :
  forall (render : bytes -> bytes -> bytes -> hreq -> bytes) (c : rcfg) (tm : tmpls) (h : hreq),
    ingests c (h_req h) = true ->
    (map fst (fst (fst (route_h render c tm h))), snd (fst (route_h render c tm h))) = serve_bulk (q_reads (h_req h)).
Proof. exact route_h_ingests. Qed.
Print Assumptions c11_http_headers_and_meta_do_not_matter.

(* ... two requests with the same request line and body are treated alike whatever their header sets, queries, framings
   and the template sets / renderers / meta flags of the plugins they are sent to ... *)
Theorem c11_http_headers_and_meta_independent :
  forall (render render' : bytes -> bytes -> bytes -> hreq -> bytes) (c : rcfg) (m' : bool) (tm tm' : tmpls) (q : rreq)
         (hs hs' : headers) (xq xq' : bytes) (fl fl' : Z),
    let c' := mkCfg (c_mode c) (c_strat c) (c_hdr c) (c_secrets c) (c_origins c) m' in
    let a := route_h render c tm (mkHReq q hs xq fl) in
    let b := route_h render' c' tm' (mkHReq q hs' xq' fl') in
    map fst (fst (fst a)) = map fst (fst (fst b)) /\ snd (fst a) = snd (fst b) /\ snd a = snd b.
Proof. exact route_h_independent. Qed.
Print Assumptions c11_http_headers_and_meta_independent.

(* ... a 200 comes after every line of the body was handed over, each with one meta value per configured template ... *)
Theorem c11_http_headers_ok_after_all_in :
  forall (render : bytes -> bytes -> bytes -> hreq -> bytes) (c : rcfg) (tm : tmpls) (h : hreq) calls st cl,
    route_h render c tm h = (calls, st, cl) -> ingests c (h_req h) = true -> st = 200 ->
    no_err (q_reads (h_req h)) = true /\
    map fst calls = split_body (concat (chunks_of (q_reads (h_req h)))) /\
    Forall (fun cm => map fst (snd cm) = map fst tm) calls.
Proof. exact route_h_200. Qed.
Print Assumptions c11_http_headers_ok_after_all_in.

(* ... and no header or template makes a request that is not ingested hand over anything, or gets a request without a
   configured secret a 200 *)
Theorem c11_http_headers_nothing_else_is_ingested :
  forall (render : bytes -> bytes -> bytes -> hreq -> bytes) (c : rcfg) (tm : tmpls) (h : hreq),
    (ingests c (h_req h) = false -> fst (fst (route_h render c tm h)) = []) /\
    (authorised c (h_req h) = false ->
       fst (fst (route_h render c tm h)) = [] /\
       (q_method (h_req h) <> 2 -> snd (fst (route_h render c tm h)) <> 200)).
Proof. exact (fun render c tm h => conj (route_h_not_ingests render c tm h) (route_h_unauthorised render c tm h)). Qed.
Print Assumptions c11_http_headers_nothing_else_is_ingested.

(* what a verdict Agree / Differ of the routed histories with headers and templates (which = 12) means for the real
   plugin: under the header set and the template set of the case every ingested request delivered the newline split of
   its body when answered 200 and was answered 200 unless a read failed; every other request handed over nothing *)
Theorem c11_http_headers_verdict_sound :
  forall case obs,
    (c11_hroute_run case obs = Agree \/ exists m, c11_hroute_run case obs = Differ m) ->
    exists cfg c tms tm reqs outs,
      case = SL [cfg; tms; SL reqs] /\ cfg_of_sx cfg = Some c /\ tmpls_of_sx tms = Some tm /\ obs = SL outs /\
      Forall2 (fun r o =>
        exists rq hs xq fl q reads rds evs st x y z,
          r = SL [rq; hs; SB xq; SZ fl] /\
          req_of_sx rq = Some (q, reads) /\ as_list rd_of_sx reads = Some rds /\ q_reads q = rds /\
          o = SL [SL evs; SZ st; x; y; z] /\
          (ingests c q = true ->
             (st = 200 -> no_err rds = true /\ evs = map SB (split_body (concat (chunks_of rds)))) /\
             (st <> 200 -> no_err rds = false)) /\
          (ingests c q = false ->
             evs = [] /\ (authorised c q = false -> q_method q <> 2 -> st <> 200))) reqs outs.
Proof. exact hroute_verdict_sound. Qed.
Print Assumptions c11_http_headers_verdict_sound.

(* the same over the plugin's own listener (which = 13): whatever header lines, target, framing oddity and template set,
   every request was answered 200 and delivered exactly the newline split of what its client wrote *)
Theorem c11_http_headers_wire_verdict_sound :
  forall case obs,
    (c11_hwire_run case obs = Agree \/ exists m, c11_hwire_run case obs = Differ m) ->
    exists cfg tms tm reqs outs,
      case = SL [SL cfg; tms; SL reqs] /\ tmpls_of_sx tms = Some tm /\ obs = SL outs /\
      Forall2 (fun r o =>
        exists gz piece ws hs target odd rds evs x,
          r = SL [SZ gz; SZ piece; SL ws; hs; SB target; SZ odd] /\ as_list rd_of_sx (SL ws) = Some rds /\
          no_err rds = true /\ o = SL [SL evs; SZ 200; x] /\
          evs = map SB (split_body (concat (chunks_of rds)))) reqs outs.
Proof. exact hwire_verdict_sound. Qed.
Print Assumptions c11_http_headers_wire_verdict_sound.

(* non-vacuity: bearer auth, two templates, a renderer that copies the Content-Type value into the meta; a form-encoded
   POST with accepted credentials hands over both lines of its body, each with both meta keys; the judge of which = 12
   calls an answer "200, no event" for it (what a handler that let net/http parse the form would produce) a violation *)
Example c11_headers_nonvacuous :
  let c := mkCfg 0 2 [88;45;75]%N [([110]%N, [116]%N)] [] true in
  let ip := mkIp [] false in
  let q := mkReq 0 P_ROOT [88;45;75]%N (CBearer [116]%N) [] ip ip ip ip [] false [Chunk [97;61;49;10;98]%N] in
  let ct := ([67;84]%N, [102;111;114;109]%N) in
  let render := fun (t login addr : bytes) (h : hreq) => t ++ login ++ concat (map snd (h_hdrs h)) in
  let tm := [([107;49]%N, [123]%N); ([107;50]%N, [125]%N)] in
  route_h render c tm (mkHReq q [ct] [] 1) =
    ([([97;61;49]%N, [([107;49]%N, [123;110;102;111;114;109]%N); ([107;50]%N, [125;110;102;111;114;109]%N)]);
      ([98]%N,       [([107;49]%N, [123;110;102;111;114;109]%N); ([107;50]%N, [125;110;102;111;114;109]%N)])], 200, 1) /\
  ingests c (h_req (mkHReq q [ct] [] 1)) = true /\
  (let case := SL [SL [SZ 0; SZ 0; SB []; SL []; SL []; SZ 0; SZ 1];
                   SL [SL [SB [107]%N; SB [123]%N]];
                   SL [SL [SL [SZ 0; SB P_ROOT; SB []; SZ 0; SB [];
                               SL [SL [SB []; SZ 0]; SL [SB []; SZ 0]; SL [SB []; SZ 0]; SL [SB []; SZ 0]];
                               SB []; SZ 0; SL [SB [97;61;49;10;98]%N]];
                           SL [SL [SB [67;84]%N; SB [102;111;114;109]%N]]; SB []; SZ 0]]] in
   c11_hroute_run case (SL [SL [SL [SB [97;61;49]%N; SB [98]%N]; SZ 200; SZ 1; SB S_STAR; SZ 1]]) = Agree /\
   c11_hroute_run case (SL [SL [SL []; SZ 200; SZ 1; SB S_STAR; SZ 0]]) =
     Violates (SL [SL [SL [SB [97;61;49]%N; SB [98]%N]; SZ 200; SZ 1; SB S_STAR; SZ 1]])).
Proof. vm_compute. repeat split; reflexivity. Qed.

(* source ids, density (harness which = 14): after any get/put history the ids that exist - free or held - are pairwise
   different, lie in [0, seq) and are exactly seq many: allocation of a fresh id and its entry into the books are ONE
   step, so the ids handed out so far are 0 .. seq-1 and each is either free or held by one request *)
Theorem c11_http_sourceid_dense :
  forall ops, let p := fst (id_run idpool0 ops) in
    NoDup (free p ++ held p) /\
    (forall x, In x (free p ++ held p) -> 0 <= x < seq p) /\
    seq p = Z.of_nat (length (free p) + length (held p)).
Proof. exact http_sourceid_dense. Qed.
Print Assumptions c11_http_sourceid_dense.

(* source ids, high-water bound: on an instance on which never more than n requests were live at once ([held_le]: at
   every point of the history at most n ids are held) no more than n ids were ever created, the held ones are pairwise
   different and all below n - so a burst of n simultaneous requests on a fresh instance holds exactly 0 .. n-1 *)
Theorem c11_http_sourceid_high_water :
  forall n ops, held_le n idpool0 ops ->
    let p := fst (id_run idpool0 ops) in
    seq p <= Z.of_nat n /\ NoDup (held p) /\ (forall x, In x (held p) -> 0 <= x < Z.of_nat n).
Proof. exact http_sourceid_high_water. Qed.
Print Assumptions c11_http_sourceid_high_water.

(* bursts (harness which = 14): a phase observation accepted by the judgement [burst_phase_ok] means: every request of
   the burst was answered 200; the source ids controller.In was called with are pairwise different, one per request,
   all in [0, hw); and the event sequences under the source ids are, up to the order of the ids, exactly the newline
   splits of the bodies - no source id carried lines of two bodies *)
Theorem c11_http_burst_phase_sound :
  forall hw reqs o, burst_phase_ok hw reqs o = true ->
    exists zs groups,
      o = SL [SL (map (fun _ => SZ 200) reqs); SL (map SZ zs); SL groups] /\
      NoDup zs /\ length zs = length reqs /\ (forall z, In z zs -> 0 <= z < hw) /\
      Coq.Sorting.Permutation.Permutation (map burst_expected reqs) groups.
Proof. exact burst_phase_sound. Qed.
Print Assumptions c11_http_burst_phase_sound.

(* non-vacuity: three simultaneous first allocations give 0 1 2 and keep the bound; two requests sharing source id 0
   (their lines interleaved under it) are rejected, the same bodies under two ids are accepted *)
Example c11_burst_nonvacuous :
  snd (id_run idpool0 [Get; Get; Get]) = [Some 0; Some 1; Some 2] /\
  held_le 3 idpool0 [Get; Get; Get; Put 1; Get] /\
  c11_entry 14 (SL [SZ 1; SL [SL [SL [SB [65;10;65]%N]; SL [SB [66;10]%N]]]])
               (SL [SL [SL [SL [SZ 200; SZ 200]; SL [SZ 0; SZ 1]; SL [SL [SB [66]%N]; SL [SB [65]%N; SB [65]%N]]]]]) = Agree /\
  (exists m, c11_entry 14 (SL [SZ 1; SL [SL [SL [SB [65;10;65]%N]; SL [SB [66;10]%N]]]])
               (SL [SL [SL [SL [SZ 200; SZ 200]; SL [SZ 0]; SL [SL [SB [65]%N; SB [66]%N; SB [65]%N]]]]]) = Violates m).
Proof. vm_compute. repeat split; repeat econstructor. Qed.
