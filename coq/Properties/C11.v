(* C11 — HTTP input: events are the body's lines, however the body is chunked.
   Only statements, each closed by [exact]; proofs live in Proofs/Http.v. *)
From Verif Require Import Base.Sx Model.Http Proofs.Http.

(* for every body and every way the transport splits it into reads (empty reads included),
   the events handed to the pipeline are exactly the newline split of the whole body *)
Theorem c11_http_chunking :
  forall chunks : list bytes, process_bulk chunks = split_body (concat chunks).
Proof. exact http_chunking. Qed.
Print Assumptions c11_http_chunking.

(* split_body is the unique decomposition into newline-free lines (+ a non-empty unterminated tail) *)
Theorem c11_split_body_is_the_line_split :
  forall b, exists ls t,
    b = concat (map (fun l => l ++ [NL]) ls) ++ t /\ Forall noNL ls /\ noNL t /\
    split_body b = ls ++ (match t with [] => [] | _ => [t] end).
Proof. exact split_body_spec. Qed.
Print Assumptions c11_split_body_is_the_line_split.

Theorem c11_line_split_unique :
  forall ls1 t1 ls2 t2,
    Forall noNL ls1 -> noNL t1 -> Forall noNL ls2 -> noNL t2 ->
    concat (map (fun l => l ++ [NL]) ls1) ++ t1 = concat (map (fun l => l ++ [NL]) ls2) ++ t2 ->
    ls1 = ls2 /\ t1 = t2.
Proof. exact nl_split_unique. Qed.
Print Assumptions c11_line_split_unique.

(* a 200 is produced only on the path that has handed over every line of the whole body *)
Theorem c11_http_ok_after_all_in :
  forall reads evs, serve_bulk reads = (evs, 200) ->
    no_err reads = true /\ evs = split_body (concat (chunks_of reads)).
Proof. exact http_ok_after_all_in. Qed.
Print Assumptions c11_http_ok_after_all_in.

(* a failed read: 400, and only complete lines of what was read before it were handed over *)
Theorem c11_http_error_prefix :
  forall reads, no_err reads = false ->
    serve_bulk reads = (fst (lines_tail (concat (before_err reads))), 400).
Proof. exact http_err_prefix. Qed.
Print Assumptions c11_http_error_prefix.

(* concurrent requests: over any sequence of get/put no source id is held twice, and a held id is
   never in the free list (so it cannot be handed to another request) *)
Theorem c11_http_sourceid_exclusive :
  forall ops, let p := fst (id_run idpool0 ops) in
    NoDup (held p) /\ (forall x, In x (held p) -> ~ In x (free p)).
Proof. exact http_sourceid_exclusive. Qed.
Print Assumptions c11_http_sourceid_exclusive.

(* non-vacuity: a body with CRLF, an empty line, a line split over three reads and no final newline *)
Example c11_nonvacuous :
  process_bulk [[97;13]; [10;10;98]; []; [99]; [100;10;101]]%N = [[97;13]; []; [98;99;100]; [101]]%N
  /\ serve_bulk [Chunk [97;10;98]%N; ReadErr; Chunk [10]%N] = ([[97]]%N, 400).
Proof. split; vm_compute; reflexivity. Qed.
