(* C18 — keep_fields and remove_fields select exactly the configured paths.
   Only statements, each closed by [exact]; proofs live in Proofs/Fields.v and Proofs/FieldsKeep.v.

   Model (Model/Fields.v): [parse_selector] / [parse_nested] = cfg.ParseFieldSelector / ParseNestedFields,
   [remove_fields] / [keep_fields] = the plugins' Start + Do on an insane-json tree (Dig by first
   matching key or by array index, Suicide = swap-remove of an object field), [keep_run] with the
   per-depth delete buffers of traverseFieldsTree.
   Specification: [split_unesc] (split on unescaped dots), [subtract] / [project] (order-preserving
   "delete / keep exactly these paths"), [jperm] (equality up to the key order of every object). *)
From Verif Require Import Base.Sx Base.GoSem Base.Json Model.Fields Proofs.Fields Proofs.FieldsKeep.

(* selectors without the "a..b" form are split on unescaped dots ("\." is a dot inside a name) *)
Theorem c18_selector_split :
  forall s, has_dotdot s = false -> parse_selector s = Ok (split_unesc s).
Proof. exact selector_split. Qed.
Print Assumptions c18_selector_split.

(* whatever the selectors: the configuration parser terminates without a panic, with paths or with
   one of its two errors (empty list / empty path) *)
Theorem c18_parser_total :
  forall sels, (exists ps, parse_nested sels = Ok ps) \/ parse_nested sels = Err 1 \/ parse_nested sels = Err 2.
Proof. exact parse_nested_total. Qed.
Print Assumptions c18_parser_total.

(* what ParseNestedFields hands to the plugins: non-empty, prefix-free paths that select the same
   parts as the listed ones (each listed path has a kept ancestor-or-self, each kept path is listed) *)
Theorem c18_config_normalised :
  forall sels ps, plain sels -> parse_nested sels = Ok ps ->
    let qs := map split_unesc sels in
    no_empty qs /\ no_empty ps /\ ps <> [] /\ prefix_free ps /\ covers qs ps /\ covers ps qs.
Proof. exact parse_nested_inv. Qed.
Print Assumptions c18_config_normalised.

(* remove_fields, for every object with unique keys and every list of selectors: up to the key order
   of each object the result is the event minus exactly the configured paths; missing paths and
   paths through scalars change nothing.  Restricted to path sets that do not index into an array
   of the event ([arr_safe]); see c18_remove_array_index_refuted. *)
Theorem c18_remove_spec_partial :
  forall sels j ps, plain sels -> parse_nested sels = Ok ps -> ouniq j -> arr_safe ps j = true ->
    exists r, remove_fields sels j = Ok r /\ jperm r (subtract (map split_unesc sels) j).
Proof. exact remove_fields_spec. Qed.
Print Assumptions c18_remove_spec_partial.

(* the same for any list of paths applied by Do, nested or not, in any order *)
Theorem c18_remove_paths_partial :
  forall ps j, ouniq j -> arr_safe ps j = true -> jperm (remove_do ps j) (subtract ps j).
Proof. exact remove_spec. Qed.
Print Assumptions c18_remove_paths_partial.

(* keep_fields, for every object with unique keys and every list of selectors: up to the key order
   the result is exactly the configured values plus the objects on the way to an existing one
   (paths that miss or cross an array / scalar select nothing), and the per-depth delete buffers
   are all empty again when Do returns *)
Theorem c18_keep_spec_partial :
  forall sels j ps, plain sels -> parse_nested sels = Ok ps -> ouniq j ->
    exists r, keep_fields sels j = Ok r /\ jperm r (project (map split_unesc sels) j) /\
              keep_run ps j = Ok (r, repeat [] (max_depth ps)).
Proof. exact keep_fields_spec. Qed.
Print Assumptions c18_keep_spec_partial.

(* listing a path and one of its descendants is the same as listing the path alone *)
Theorem c18_nested_paths_idempotent :
  forall ps p q j, no_empty ps -> In p ps ->
    subtract ((p ++ q) :: ps) j = subtract ps j /\ proj ((p ++ q) :: ps) j = proj ps j.
Proof. exact spec_nested_idem. Qed.
Print Assumptions c18_nested_paths_idempotent.

Theorem c18_nested_listing_normalised : forall p q, nest [p; p ++ q] = Ok [p].
Proof. exact nest_drops_descendant. Qed.
Print Assumptions c18_nested_listing_normalised.

(* the full clause "key order of survivors untouched" is false of the code: Suicide is a swap-remove *)
Theorem c18_key_order_refuted :
  exists sels j r, plain sels /\ ouniq j /\
    (exists ps, parse_nested sels = Ok ps /\ arr_safe ps j = true) /\
    remove_fields sels j = Ok r /\ r <> subtract (map split_unesc sels) j.
Proof. exact remove_key_order_refuted. Qed.
Print Assumptions c18_key_order_refuted.

Theorem c18_keep_key_order_refuted :
  exists sels j r, plain sels /\ ouniq j /\
    keep_fields sels j = Ok r /\ r <> project (map split_unesc sels) j.
Proof. exact keep_key_order_refuted. Qed.
Print Assumptions c18_keep_key_order_refuted.

(* the clause "paths that cross a non-object are ignored" is false of remove_fields: insane-json's
   Dig takes a numeric name as an array index ("a.0", "a.1" on {"a":[1,2,3]} leaves [2]) *)
Theorem c18_remove_array_index_refuted :
  exists sels j r, plain sels /\ ouniq j /\
    remove_fields sels j = Ok r /\ ~ jperm r (subtract (map split_unesc sels) j).
Proof. exact remove_array_index_refuted. Qed.
Print Assumptions c18_remove_array_index_refuted.

(* the executable predicate of the harness decides "equal up to key order" on trees with unique keys *)
Theorem c18_predicate_sound : forall a b, jperm_b a b = true -> jperm a b.
Proof. exact jperm_b_sound. Qed.
Print Assumptions c18_predicate_sound.
Theorem c18_predicate_complete : forall a b, jperm a b -> ouniq a -> ouniq b -> jperm_b a b = true.
Proof. exact jperm_b_complete. Qed.
Print Assumptions c18_predicate_complete.
Theorem c18_unique_keys_check : forall j, ouniq_b j = true -> ouniq j.
Proof. exact ouniq_b_sound. Qed.
Print Assumptions c18_unique_keys_check.

(* non-vacuity: {"a":{"b":1,"x.y":2,"c":[1]},"d":3}.
   remove with a.b, a.x\.y, a.c.q (through an array, not an index), zz (missing), a.b.k (nested, through a
   scalar): every hypothesis of c18_remove_spec_partial holds, b and "x.y" leave a.
   keep with a.b, a.x\.y, a.c.0.q, zz, a.b.k: exactly b and "x.y" stay, inside a. *)
Definition ex_ev : json :=
  JObj [([97], JObj [([98], JNum [49]); ([120; 46; 121], JNum [50]); ([99], JArr [JNum [49]])]);
        ([100], JNum [51])]%N.
Definition ex_sels_r : list bytes :=
  [[97; 46; 98]; [97; 46; 120; 92; 46; 121]; [97; 46; 99; 46; 113]; [122; 122]; [97; 46; 98; 46; 107]]%N.
Definition ex_sels_k : list bytes :=
  [[97; 46; 98]; [97; 46; 120; 92; 46; 121]; [97; 46; 99; 46; 48; 46; 113]; [122; 122]; [97; 46; 98; 46; 107]]%N.
Definition ex_ps_r : list path := [[[122; 122]]; [[97]; [98]]; [[97]; [120; 46; 121]]; [[97]; [99]; [113]]]%N.
Example c18_nonvacuous :
  forallb (fun s => negb (has_dotdot s)) (ex_sels_r ++ ex_sels_k) = true /\ ouniq_b ex_ev = true /\
  parse_nested ex_sels_r = Ok ex_ps_r /\ arr_safe ex_ps_r ex_ev = true /\
  remove_fields ex_sels_r ex_ev = Ok (JObj [([97], JObj [([99], JArr [JNum [49]])]); ([100], JNum [51])]%N) /\
  keep_fields ex_sels_k ex_ev = Ok (JObj [([97], JObj [([98], JNum [49]); ([120; 46; 121], JNum [50])])]%N).
Proof. repeat split; vm_compute; reflexivity. Qed.
