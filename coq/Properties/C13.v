(* C13 — no event content can crash or corrupt an action plugin.
   Part 1 (action plugins): the hand-written index arithmetic of modify / parse_re2 / json_extract / hash /
   convert_utf8_bytes / split is modelled in the result monad of Base/GoSem.v and proved total and
   tree-well-formedness preserving; mask, keep_fields / remove_fields, join / join_template / k8s multiline,
   decode and throttle are covered by C17, C18, C15, C12 and C16; the remaining plugins are exercised only by the
   generic differential harness (listed in the evidence).
   Part 2 (processor): a time-out event is only ever handed to an action that holds an event (module
   C13_proc at the end; model coq/Model/Proc.v, replayed on every real pipeline trace). Statements only. *)
From Verif Require Import Base.Sx Base.GoSem Base.Json Model.Decoders.Common
  Model.Actions.Tree Model.Actions.Subst Model.Actions.ConvertUtf8 Model.Actions.HashNorm Model.Actions.Plugins
  Model.Actions.Entry.
From Verif Require Proofs.Actions.Theorems Proofs.Actions.Plugins.
Import Proofs.Actions.Plugins.   (* sop_valid / filter_valid: what the filter parsers accept *)

(* ---- modify: cfg/substitution filters ----------------------------------------------------------- *)
Theorem c13_modify_cut_total : forall first count src p, 0 < count -> cut_apply first count src <> Panic p.
Proof. exact Theorems.c13_modify_cut_total. Qed.
Print Assumptions c13_modify_cut_total.

Theorem c13_modify_cut_spec : forall count src, 0 < count ->
  cut_apply true count src = Ok (if len src <? count then src else firstn (Z.to_nat count) src) /\
  cut_apply false count src = Ok (if len src <? count then src else skipn (Z.to_nat (len src - count)) src).
Proof. exact Theorems.c13_modify_cut_spec. Qed.
Print Assumptions c13_modify_cut_spec.

Theorem c13_modify_trim_to_total : forall mode cutset src p, cutset <> [] -> trim_to_apply mode cutset src <> Panic p.
Proof. exact Theorems.c13_modify_trim_to_total. Qed.
Print Assumptions c13_modify_trim_to_total.

(* the unrepaired parser accepted the empty cutset: src[:len(src)+1] (fixes/C13-trim-to-empty-cutset.patch) *)
Theorem c13_modify_trim_to_empty_cutset_refuted : exists mode src, trim_to_apply mode [] src = Panic 1.
Proof. exact Theorems.c13_modify_trim_to_empty_cutset_refuted. Qed.
Print Assumptions c13_modify_trim_to_empty_cutset_refuted.

Theorem c13_modify_re_total : forall nsub groups sep emp indexes src dst p,
  groups_ok nsub groups = true -> forallb (index_ok nsub (len src)) indexes = true ->
  re_apply groups sep emp indexes src dst <> Panic p.
Proof. exact Theorems.c13_modify_re_total. Qed.
Print Assumptions c13_modify_re_total.

Theorem c13_modify_total : forall skip_empty fops root p,
  forallb (fun fo => forallb sop_valid (snd fo)) fops = true -> modify_do skip_empty root fops <> Panic p.
Proof. exact Theorems.c13_modify_total. Qed.
Print Assumptions c13_modify_total.

Theorem c13_modify_tree_wf : forall skip_empty fops root root',
  wf_json root = true -> modify_do skip_empty root fops = Ok root' -> wf_json root' = true.
Proof. exact Theorems.c13_modify_tree_wf. Qed.
Print Assumptions c13_modify_tree_wf.

(* ---- parse_re2 ---------------------------------------------------------------------------------- *)
Theorem c13_parse_re2_total : forall root path prefix names sm p,
  sm = [] \/ len sm = len names -> parse_re2_do root path prefix names sm <> Panic p.
Proof. exact Theorems.c13_parse_re2_total. Qed.
Print Assumptions c13_parse_re2_total.

Theorem c13_parse_re2_tree_wf : forall root path prefix names sm root',
  wf_json root = true -> parse_re2_do root path prefix names sm = Ok root' -> wf_json root' = true.
Proof. exact Theorems.c13_parse_re2_tree_wf. Qed.
Print Assumptions c13_parse_re2_tree_wf.

(* ---- json_extract ------------------------------------------------------------------------------- *)
Theorem c13_json_extract_total : forall fmt_num prefix root path doc efs ef dup p,
  extract_tree efs ef dup <> Panic p /\
  forall fields, json_extract_do fmt_num prefix root path doc fields <> Panic p.
Proof. exact Theorems.c13_json_extract_total. Qed.
Print Assumptions c13_json_extract_total.

Theorem c13_json_extract_tree_wf : forall fmt_num prefix root path doc fields root',
  (forall r, json_number_ok (fmt_num r) = true) ->
  wf_json root = true -> wf_json doc = true ->
  json_extract_do fmt_num prefix root path doc fields = Ok root' -> wf_json root' = true.
Proof. exact Theorems.c13_json_extract_tree_wf. Qed.
Print Assumptions c13_json_extract_tree_wf.

(* ---- hash --------------------------------------------------------------------------------------- *)
Theorem c13_hash_normalizer_total : forall has data p, normalize_by_tokenizer has data <> Panic p.
Proof. exact Theorems.c13_hash_normalizer_total. Qed.
Print Assumptions c13_hash_normalizer_total.

Theorem c13_hash_total : forall hash_of root fields rpath p, hash_do hash_of root fields rpath <> Panic p.
Proof. exact Theorems.c13_hash_total. Qed.
Print Assumptions c13_hash_total.

Theorem c13_hash_tree_wf : forall hash_of root fields rpath root',
  (forall n d, 0 <= hash_of n d < 2 ^ 64) ->
  wf_json root = true -> hash_do hash_of root fields rpath = Ok root' -> wf_json root' = true.
Proof. exact Theorems.c13_hash_tree_wf. Qed.
Print Assumptions c13_hash_tree_wf.

(* ---- convert_utf8_bytes ------------------------------------------------------------------------- *)
Theorem c13_convert_utf8_bytes_scanner_total : forall is_graphic replace s p, convert is_graphic replace s <> Panic p.
Proof. exact Theorems.c13_convert_utf8_bytes_scanner_total. Qed.
Print Assumptions c13_convert_utf8_bytes_scanner_total.

Theorem c13_convert_utf8_bytes_total : forall is_graphic replace paths root p,
  convert_do is_graphic replace root paths <> Panic p.
Proof. exact Theorems.c13_convert_utf8_bytes_total. Qed.
Print Assumptions c13_convert_utf8_bytes_total.

Theorem c13_convert_utf8_bytes_tree_wf : forall is_graphic replace paths root root',
  wf_json root = true -> convert_do is_graphic replace root paths = Ok root' -> wf_json root' = true.
Proof. exact Theorems.c13_convert_utf8_bytes_tree_wf. Qed.
Print Assumptions c13_convert_utf8_bytes_tree_wf.

(* ---- split -------------------------------------------------------------------------------------- *)
Theorem c13_split_total : forall is_child root path p, split_do is_child root path <> Panic p.
Proof. exact Theorems.c13_split_total. Qed.
Print Assumptions c13_split_total.

Theorem c13_split_tree_wf : forall is_child root path r children,
  wf_json root = true -> split_do is_child root path = Ok (r, children) ->
  (r = 0 \/ r = 4) /\ forallb (fun j => is_obj j && wf_json j) children = true.
Proof. exact Theorems.c13_split_tree_wf. Qed.
Print Assumptions c13_split_tree_wf.

(* ---- shared: tree operations, number formatting, the generic layer's predicate ------------------- *)
Theorem c13_tree_ops_wf : forall root path leaf v,
  wf_json root = true -> wf_json leaf = true ->
  wf_json (jremove root path) = true /\
  wf_json (create_nested root path leaf) = true /\
  (jdig root path = Some v -> wf_json v = true).
Proof. exact Theorems.c13_tree_ops_wf. Qed.
Print Assumptions c13_tree_ops_wf.

Theorem c13_format_uint_number : forall n, 0 <= n < 2 ^ 64 -> json_number_ok (format_uint n) = true.
Proof. exact Theorems.c13_format_uint_number. Qed.
Print Assumptions c13_format_uint_number.

Theorem c13_generic_predicate : forall which plugins events obs,
  0 <= which < 30 ->
  (c13_actions_entry which (SL [SL plugins; SL events]) obs = Agree <-> obs = SL [SZ 1]).
Proof. exact Theorems.c13_generic_predicate. Qed.
Print Assumptions c13_generic_predicate.

(* ---- non-vacuity -------------------------------------------------------------------------------- *)
From Coq Require Import Strings.String.
Local Open Scope Z_scope.
Local Open Scope list_scope.
(* the README examples of the filters; the hypotheses of the totality theorems hold on them *)
Example c13_modify_nonvacuous :
  cut_apply true 10 (bs "some looooooooooooong data") = Ok (bs "some loooo")
  /\ cut_apply false 5 (bs "some looooooooooooong data") = Ok (bs " data")
  /\ trim_to_apply 1 (bs "{") (bs "some data {""k"":1} some data") = Ok (bs "{""k"":1} some data")
  /\ trim_to_apply 2 (bs "}") (bs "{""k"":1} some data") = Ok (bs "{""k"":1}")
  /\ trim_apply 2 [10%N] ((bs "{""k"":1}") ++ [10%N])%list = bs "{""k"":1}"
  (* re("(re\d+)",2,[1],","): the regexp library answered two matches with one group each *)
  /\ (groups_ok 1 [1] && forallb (index_ok 1 15) [[0; 3; 0; 3]; [4; 7; 4; 7]] = true
      /\ re_apply [1] (bs ",") false [[0; 3; 0; 3]; [4; 7; 4; 7]] (bs "re1 re2 re3 re4") [] = Ok (bs "re1,re2"))
  (* a group that did not take part in the match is skipped: (a)?(b)? on "b", groups [2,1] *)
  /\ re_apply [2; 1] [] false [[0; 1; -1; -1; 0; 1]] (bs "b") [] = Ok (bs "b").
Proof. repeat split; vm_compute; reflexivity. Qed.

Example c13_convert_utf8_bytes_nonvacuous :
  convert (fun _ => true) false (bs "$\110\145\154\154\157!") = Ok (Some (bs "$Hello!"))
  /\ convert (fun _ => true) false (bs "\xD0\xA1.xml") = Ok (Some [208; 161; 46; 120; 109; 108]%N)
  /\ convert (fun _ => true) false (bs "\ud83d\ude00") = Ok (Some [240; 159; 152; 128]%N)
  /\ convert (fun _ => true) false (bs "\u12 \x4 \") = Ok (Some (bs "\u12 \x4 "))
  /\ convert (fun _ => true) false (bs "no escapes") = Ok None.
Proof. repeat split; vm_compute; reflexivity. Qed.

Example c13_hash_normalizer_nonvacuous :
  normalize_by_tokenizer (fun _ => true) (bs "get {""a"":[1,{""b"":2}]} from 'x' and (unclosed")
    = Ok (bs "get <curly_bracketed> from <single_quoted> and <parenthesized>").
Proof. vm_compute; reflexivity. Qed.

Example c13_tree_nonvacuous :
  (* parse_re2 (?P<a>x)?(?P<b>y)?(z) on "z" with prefix p_: both named groups unmatched *)
  parse_re2_do (JObj [(bs "message", JStr (bs "z")); (bs "k", JNull)]) [bs "message"] (bs "p_")
               [[]; bs "a"; bs "b"; []] [bs "z"; []; []; bs "z"]
    = Ok (JObj [(bs "k", JNull); (bs "p_a", JStr []); (bs "p_b", JStr [])])
  /\ split_do false (JObj [(bs "items", JArr [JObj [(bs "m", JNum (bs "1"))]; JNum (bs "2"); JObj []])]) [bs "items"]
    = Ok (4, [JObj [(bs "m", JNum (bs "1"))]; JObj []])
  /\ hash_do (fun _ _ => 18446744073709551615) (JObj [(bs "message", JStr (bs "abc"))]) [([bs "message"], false, 2)] [bs "a"; bs "hash"]
    = Ok (JObj [(bs "message", JStr (bs "abc")); (bs "a", JObj [(bs "hash", JNum (bs "18446744073709551615"))])])
  /\ wf_json (JObj [(bs "n", JNum (bs "-1.5e+3"))]) = true /\ wf_json (JNum (bs "01")) = false /\ wf_json (JNum (bs ".5")) = false.
Proof. repeat split; vm_compute; reflexivity. Qed.

(* ---- processor: the stream time-out reaches only the action that holds a run ------------------------ *)
Module C13_proc.
From Verif Require Model.Proc Proofs.Proc Proofs.ProcTheorems.
Import Verif.Model.Proc Verif.Proofs.Proc Verif.Proofs.ProcTheorems.

(* the processEvent loop gives a time-out event to the first action that holds an event, and none is held left of it *)
Theorem c13_timeout_only_to_holder :
  forall s e start s', pstep s (PTake e start) = Some s' -> pkind e = 3 ->
    held_at (held s) start <> None /\ (forall j y, In (j, y) (held s) -> start <= j).
Proof. exact proc_timeout_only_to_holder. Qed.
Print Assumptions c13_timeout_only_to_holder.

(* and the first Do it enters is that (busy) action's *)
Theorem c13_timeout_first_do_is_the_holders :
  forall s e start s1 e' a busy s2, pstep s (PTake e start) = Some s1 -> pkind e = 3 ->
    pstep s1 (PDo e' a busy) = Some s2 -> e' = e /\ a = start /\ busy = true.
Proof. exact proc_timeout_first_do_busy. Qed.
Print Assumptions c13_timeout_first_do_is_the_holders.

(* the time-outs Spawn sends to busy actions: likewise *)
Theorem c13_spawn_timeout_only_to_holder :
  forall s e idx s', pstep s (PPush e idx) = Some s' -> pkind e = 3 ->
    held_at (held s) idx <> None /\ (forall j y, In (j, y) (held s) -> idx <= j).
Proof. exact proc_spawn_timeout_only_to_holder. Qed.
Print Assumptions c13_spawn_timeout_only_to_holder.

(* full-strength reading "EVERY Do of a time-out is at a busy action" is false of the model (and of the code):
   once the holder has flushed, the time-out event itself may pass on to the next, idle action *)
Theorem c13_timeout_every_do_busy_refuted :
  exists n ls s e a s', prun (pinit n) ls = Some s /\ pkind e = 3 /\ pstep s (PDo e a false) = Some s'.
Proof. exact proc_timeout_every_do_busy_refuted. Qed.
Print Assumptions c13_timeout_every_do_busy_refuted.
End C13_proc.
