(* C13 — no event content can crash or corrupt an action plugin.
   Part 1 (action plugins): the hand-written index arithmetic of modify / parse_re2 / json_extract / hash /
   convert_utf8_bytes / split is modelled in the result monad of Base/GoSem.v and proved total and
   tree-well-formedness preserving; mask, keep_fields / remove_fields, join / join_template / k8s multiline,
   decode and throttle are covered by C17, C18, C15, C12 and C16; the remaining fourteen plugins (rename, move,
   flatten, json_encode, json_decode, convert_log_level, set_time, add_host, add_file_name, convert_date, discard,
   debug, parse_es, cardinality: pure insane-json mutations and library calls) have exact tree-level models of Do
   (Model/Actions/ExtraPlugins.v) with totality, well-formedness and content specifications.
   Part 2 (processor): a time-out event is only ever handed to an action that holds an event (module
   C13_proc at the end; model coq/Model/Proc.v, replayed on every real pipeline trace). Statements only. *)
From Verif Require Import Base.Sx Base.GoSem Base.Json Model.Decoders.Common
  Model.Actions.Tree Model.Actions.Subst Model.Actions.ConvertUtf8 Model.Actions.HashNorm Model.Actions.Plugins
  Model.Actions.Entry Model.Actions.ExtraTree Model.Actions.ExtraPlugins Model.Actions.Templates Model.Actions.Procs.
From Verif Require Proofs.Actions.Theorems Proofs.Actions.Plugins Proofs.Actions.ExtraTree Proofs.Actions.ExtraPlugins
  Proofs.Actions.Templates Proofs.Actions.Procs.
From Coq Require Import Permutation.
Import Proofs.Actions.Plugins.   (* sop_valid / filter_valid: what the filter parsers accept *)
Import Proofs.Actions.ExtraTree.   (* last_get: the last value a field list gives a key *)
Import Proofs.Actions.ExtraPlugins. (* paths_nonempty, fields_nonempty, kept, receive, es_inv *)

(* ---- modify: cfg/substitution filters ----------------------------------------------------------- *)
Theorem c13_modify_cut_total : forall first count src p, 0 < count -> cut_apply first count src <> Panic p.
Proof. exact Theorems.c13_modify_cut_total. Qed.
Print Assumptions c13_modify_cut_total.

Theorem c13_modify_cut_spec : forall count src, 0 < count ->
  cut_apply true count src = Ok (if len src <? count then src else firstn (Z.to_nat count) src) /\
  cut_apply false count src = Ok (if len src <? count then src else skipn (Z.to_nat (len src - count)) src).
Proof. exact Theorems.c13_modify_cut_spec. Qed.
Print Assumptions c13_modify_cut_spec.

Theorem c13_modify_trim_to_total : forall mode cutset src p, cutset <> [] -> trim_to_apply mode cutset src <> Panic p.
Proof. exact Theorems.c13_modify_trim_to_total. Qed.
Print Assumptions c13_modify_trim_to_total.

(* the unrepaired parser accepted the empty cutset: src[:len(src)+1] (fixes/C13-trim-to-empty-cutset.patch) *)
Theorem c13_modify_trim_to_empty_cutset_refuted : exists mode src, trim_to_apply mode [] src = Panic 1.
Proof. exact Theorems.c13_modify_trim_to_empty_cutset_refuted. Qed.
Print Assumptions c13_modify_trim_to_empty_cutset_refuted.

Theorem c13_modify_re_total : forall nsub groups sep emp indexes src dst p,
  groups_ok nsub groups = true -> forallb (index_ok nsub (len src)) indexes = true ->
  re_apply groups sep emp indexes src dst <> Panic p.
Proof. exact Theorems.c13_modify_re_total. Qed.
Print Assumptions c13_modify_re_total.

Theorem c13_modify_total : forall skip_empty fops root p,
  forallb (fun fo => forallb sop_valid (snd fo)) fops = true -> modify_do skip_empty root fops <> Panic p.
Proof. exact Theorems.c13_modify_total. Qed.
Print Assumptions c13_modify_total.

Theorem c13_modify_tree_wf : forall skip_empty fops root root',
  wf_json root = true -> modify_do skip_empty root fops = Ok root' -> wf_json root' = true.
Proof. exact Theorems.c13_modify_tree_wf. Qed.
Print Assumptions c13_modify_tree_wf.

(* ---- parse_re2 ---------------------------------------------------------------------------------- *)
Theorem c13_parse_re2_total : forall root path prefix names sm p,
  sm = [] \/ len sm = len names -> parse_re2_do root path prefix names sm <> Panic p.
Proof. exact Theorems.c13_parse_re2_total. Qed.
Print Assumptions c13_parse_re2_total.

Theorem c13_parse_re2_tree_wf : forall root path prefix names sm root',
  wf_json root = true -> parse_re2_do root path prefix names sm = Ok root' -> wf_json root' = true.
Proof. exact Theorems.c13_parse_re2_tree_wf. Qed.
Print Assumptions c13_parse_re2_tree_wf.

(* ---- json_extract ------------------------------------------------------------------------------- *)
Theorem c13_json_extract_total : forall fmt_num prefix root path doc efs ef dup p,
  extract_tree efs ef dup <> Panic p /\
  forall fields, json_extract_do fmt_num prefix root path doc fields <> Panic p.
Proof. exact Theorems.c13_json_extract_total. Qed.
Print Assumptions c13_json_extract_total.

Theorem c13_json_extract_tree_wf : forall fmt_num prefix root path doc fields root',
  (forall r, json_number_ok (fmt_num r) = true) ->
  wf_json root = true -> wf_json doc = true ->
  json_extract_do fmt_num prefix root path doc fields = Ok root' -> wf_json root' = true.
Proof. exact Theorems.c13_json_extract_tree_wf. Qed.
Print Assumptions c13_json_extract_tree_wf.

(* ---- hash --------------------------------------------------------------------------------------- *)
Theorem c13_hash_normalizer_total : forall has data p, normalize_by_tokenizer has data <> Panic p.
Proof. exact Theorems.c13_hash_normalizer_total. Qed.
Print Assumptions c13_hash_normalizer_total.

Theorem c13_hash_total : forall hash_of root fields rpath p, hash_do hash_of root fields rpath <> Panic p.
Proof. exact Theorems.c13_hash_total. Qed.
Print Assumptions c13_hash_total.

Theorem c13_hash_tree_wf : forall hash_of root fields rpath root',
  (forall n d, 0 <= hash_of n d < 2 ^ 64) ->
  wf_json root = true -> hash_do hash_of root fields rpath = Ok root' -> wf_json root' = true.
Proof. exact Theorems.c13_hash_tree_wf. Qed.
Print Assumptions c13_hash_tree_wf.

(* ---- convert_utf8_bytes ------------------------------------------------------------------------- *)
Theorem c13_convert_utf8_bytes_scanner_total : forall is_graphic replace s p, convert is_graphic replace s <> Panic p.
Proof. exact Theorems.c13_convert_utf8_bytes_scanner_total. Qed.
Print Assumptions c13_convert_utf8_bytes_scanner_total.

Theorem c13_convert_utf8_bytes_total : forall is_graphic replace paths root p,
  convert_do is_graphic replace root paths <> Panic p.
Proof. exact Theorems.c13_convert_utf8_bytes_total. Qed.
Print Assumptions c13_convert_utf8_bytes_total.

Theorem c13_convert_utf8_bytes_tree_wf : forall is_graphic replace paths root root',
  wf_json root = true -> convert_do is_graphic replace root paths = Ok root' -> wf_json root' = true.
Proof. exact Theorems.c13_convert_utf8_bytes_tree_wf. Qed.
Print Assumptions c13_convert_utf8_bytes_tree_wf.

(* ---- split -------------------------------------------------------------------------------------- *)
Theorem c13_split_total : forall is_child root path p, split_do is_child root path <> Panic p.
Proof. exact Theorems.c13_split_total. Qed.
Print Assumptions c13_split_total.

Theorem c13_split_tree_wf : forall is_child root path r children,
  wf_json root = true -> split_do is_child root path = Ok (r, children) ->
  (r = 0 \/ r = 4) /\ forallb (fun j => is_obj j && wf_json j) children = true.
Proof. exact Theorems.c13_split_tree_wf. Qed.
Print Assumptions c13_split_tree_wf.

(* ---- shared: tree operations, number formatting, the generic layer's predicate ------------------- *)
Theorem c13_tree_ops_wf : forall root path leaf v,
  wf_json root = true -> wf_json leaf = true ->
  wf_json (jremove root path) = true /\
  wf_json (create_nested root path leaf) = true /\
  (jdig root path = Some v -> wf_json v = true).
Proof. exact Theorems.c13_tree_ops_wf. Qed.
Print Assumptions c13_tree_ops_wf.

Theorem c13_format_uint_number : forall n, 0 <= n < 2 ^ 64 -> json_number_ok (format_uint n) = true.
Proof. exact Theorems.c13_format_uint_number. Qed.
Print Assumptions c13_format_uint_number.

Theorem c13_generic_predicate : forall which plugins events obs,
  0 <= which < 30 ->
  (c13_actions_entry which (SL [SL plugins; SL events]) obs = Agree <-> obs = SL [SZ 1]).
Proof. exact Theorems.c13_generic_predicate. Qed.
Print Assumptions c13_generic_predicate.

(* ---- sub-model 53: the per-processor instances of one action, run concurrently (Model/Actions/Procs.v; stream
   'processors' of harness/c13/procs.go): K instances started as the pipeline starts them for K processors, each on
   its own goroutine with its own events; the observation carries, per instance, what it did concurrently and what a
   fresh instance does on the same events alone ------------------------------------------------------------------ *)
Theorem c13_procs_predicate : forall mode k obs, Procs.procs_ok mode k obs = true ->
  exists conc solo, obs = SL [SL conc; SL solo] /\ length conc = k /\ length solo = k /\
    (forall s, In s conc \/ In s solo -> Proofs.Actions.Procs.clean_stream s) /\
    (mode = 0 -> conc = solo).
Proof. exact Proofs.Actions.Procs.procs_ok_spec. Qed.
Print Assumptions c13_procs_predicate.

Theorem c13_procs_violation_record_rejected : forall mode k conc solo s recs code rest,
  In s conc \/ In s solo -> s = SL recs -> In (SL (SZ code :: rest)) recs -> code <> 0 ->
  Procs.procs_ok mode k (SL [SL conc; SL solo]) = false.
Proof. exact Proofs.Actions.Procs.procs_violation_record_rejected. Qed.
Print Assumptions c13_procs_violation_record_rejected.

Theorem c13_procs_agree_iff : forall plugins mode streams obs,
  (2 <= length streams)%nat -> mode = 0 \/ mode = 1 ->
  (Procs.c13_procs_entry 53 (SL [SL plugins; SZ mode; SL streams]) obs = Agree <->
   Procs.procs_ok mode (length streams) obs = true).
Proof. exact Proofs.Actions.Procs.procs_agree_iff. Qed.
Print Assumptions c13_procs_agree_iff.

Theorem c13_procs_strict_differs_violates : forall plugins streams conc solo,
  (2 <= length streams)%nat -> conc <> solo ->
  exists m, Procs.c13_procs_entry 53 (SL [SL plugins; SZ 0; SL streams]) (SL [SL conc; SL solo]) = Violates m.
Proof. exact Proofs.Actions.Procs.procs_strict_differs_violates. Qed.
Print Assumptions c13_procs_strict_differs_violates.

Example c13_procs_nonvacuous :
  Procs.procs_ok 0 2 (SL [SL [SL [SL [SZ 0; SZ 3; SB [1%N]]]; SL [SL [SZ 0; SZ 1; SB [2%N]]]];
                          SL [SL [SL [SZ 0; SZ 3; SB [1%N]]]; SL [SL [SZ 0; SZ 1; SB [2%N]]]]]) = true /\
  Procs.procs_ok 0 2 (SL [SL [SL [SL [SZ 0; SZ 3; SB [9%N]]]; SL [SL [SZ 0; SZ 1; SB [2%N]]]];
                          SL [SL [SL [SZ 0; SZ 3; SB [1%N]]]; SL [SL [SZ 0; SZ 1; SB [2%N]]]]]) = false /\
  Procs.procs_ok 1 2 (SL [SL [SL [SL [SZ 2; SB [112%N]]]; SL []]; SL [SL [SL [SZ 0; SZ 0; SB []]]; SL []]]) = false.
Proof. vm_compute. repeat split. Qed.


(* ==== tree-level models of the plugins that are pure insane-json mutations and library calls ==========
   (Model/Actions/ExtraPlugins.v, sub-models 42..49).  A result is (ActionResult, tree): 0 Pass, 1 Collapse,
   2 Discard.  <plugin>_total: for EVERY tree and every configuration the plugin's validation accepts the
   model answers Ok (no panic, no broken event); <plugin>_wf: a defined result and a well-formed tree;
   <plugin>_spec: what changes and that nothing else does. *)

(* ---- rename ------------------------------------------------------------------------------------- *)
(* every configuration the (repaired, fix 4232b91) validation accepts: Start drops the key that is empty after
   the unescaping, cfg.ParseFieldSelector (oracle sel) of a non-empty selector is a non-empty path; so totality
   needs no hypothesis on the operations *)
Theorem c13_rename_cfg_paths_nonempty : forall sel cfg, (forall k, k <> [] -> sel k <> []) ->
  paths_nonempty (rename_ops sel cfg) = true.
Proof. exact rename_cfg_paths_nonempty. Qed.
Print Assumptions c13_rename_cfg_paths_nonempty.

Theorem c13_rename_total_wf :
  (forall sel, (forall k, k <> [] -> sel k <> []) -> forall preserve cfg root,
     exists r, rename_cfg_do sel preserve cfg root = Ok (APass, r))
  /\
  (forall preserve ops root a r, wf_json root = true ->
     rename_do preserve ops root = Ok (a, r) -> a = APass /\ wf_json r = true)
  /\
  (forall cfg k' v, In (k', v) (unescape_map cfg) <-> exists k, In (k, v) cfg /\ k' = unescape_key k /\ k' <> []).
Proof. exact (conj rename_cfg_total (conj rename_wf unescape_map_in)). Qed.
Print Assumptions c13_rename_total_wf.

Theorem c13_rename_spec :
  (forall preserve root path name, path <> [] ->
  exists r, rename_step preserve root (path, name) = Ok r /\
    ((preserve = true /\ jdig root [name] <> None) \/ jdig root path = None -> r = root) /\
    (forall v, preserve = false \/ jdig root [name] = None -> jdig root path = Some v ->
       r = obj_set name v (jremove root path) /\
       (is_object root = false -> r = jremove root path) /\
       (forall fs1, jremove root path = JObj fs1 ->
          exists fs2, r = JObj fs2 /\ field_get fs2 name = Some v /\
                      forall k, k <> name -> field_get fs2 k = field_get fs1 k)))
  /\
  (forall preserve fs k name v,
  field_get fs k = Some v -> preserve = false \/ field_get fs name = None -> NoDup (map fst fs) ->
  exists fs2, rename_step preserve (JObj fs) ([k], name) = Ok (JObj fs2) /\
    field_get fs2 name = Some v /\
    (name <> k -> field_get fs2 k = None) /\
    (forall k', k' <> name -> k' <> k -> field_get fs2 k' = field_get fs k')).
Proof. exact (conj rename_step_spec rename_top_level_spec). Qed.
Print Assumptions c13_rename_spec.

(* "every other field holds what it held" needs the hypothesis on duplicate keys (swap-remove reorders) *)
Theorem c13_rename_other_fields_refuted : exists fs k name k',
  k' <> name /\ k' <> k /\
  exists fs2, rename_step false (JObj fs) ([k], name) = Ok (JObj fs2) /\ field_get fs2 k' <> field_get fs k'.
Proof. exact rename_other_fields_refuted. Qed.
Print Assumptions c13_rename_other_fields_refuted.

(* ---- shared: Suicide of an object field, MergeToRoot, Dig after a Mutate --------------------------- *)
(* Suicide of an object field: the other fields stay, up to the swap-remove reordering *)
(* ---- flatten, json_decode (MergeToRoot) ---------------------------------------------------------- *)
(* Dig after a Mutate of the node Dig finds *)
Theorem c13_tree_ops_spec :
  (forall fs k v, field_get fs k = Some v ->
  exists fs', jremove (JObj fs) [k] = JObj fs' /\ Permutation fs ((k, v) :: fs') /\
    (NoDup (map fst fs) -> forall k', k' <> k -> field_get fs' k' = field_get fs k') /\
    (NoDup (map fst fs) -> field_get fs' k = None))
  /\
  (forall fs src k,
  exists fs', merge_to_root (JObj fs) src = JObj fs' /\
    field_get fs' k = match last_get src k with Some v => Some v | None => field_get fs k end)
  /\
  (forall (f : json -> json) path j v,
  jdig j path = Some v -> jdig (jupdate j path f) path = Some (f v)).
Proof. exact (conj jremove_field_spec (conj merge_to_root_get jdig_jupdate_same)). Qed.
Print Assumptions c13_tree_ops_spec.

(* ---- move --------------------------------------------------------------------------------------- *)
(* ---- move --------------------------------------------------------------------------------------- *)
Theorem c13_move_allow_total_wf :
  (forall target fields root, fields_nonempty fields = true ->
  exists r, move_allow_do target fields root = Ok (APass, r))
  /\
  (forall target fields root a r, wf_json root = true ->
  move_allow_do target fields root = Ok (a, r) -> a = APass /\ wf_json r = true).
Proof. exact (conj move_allow_total move_allow_wf). Qed.
Print Assumptions c13_move_allow_total_wf.

(* moving an ancestor of the target takes the target out of the event: from then on fields are only removed *)
Theorem c13_move_allow_spec :
  (forall target root field v,
  jdig root field = Some v -> field <> [] ->
  path_eqb field target = false -> path_proper_prefix field target = false ->
  exists name, idx field (len field - 1) = Ok name /\
    move_allow_step target (root, true) field = Ok (jupdate (jremove root field) target (obj_set name v), true) /\
    forall t, jdig (jremove root field) target = Some t ->
      jdig (jupdate (jremove root field) target (obj_set name v)) target = Some (obj_set name v t))
  /\
  (forall target root alive field,
  (jdig root field = None \/ (alive = true /\ path_eqb field target = true)) ->
  move_allow_step target (root, alive) field = Ok (root, alive))
  /\
  (forall target root alive field v,
  jdig root field = Some v -> field <> [] ->
  alive = false \/ (path_eqb field target = false /\ path_proper_prefix field target = true) ->
  move_allow_step target (root, alive) field = Ok (jremove root field, false)).
Proof. exact (conj move_allow_step_spec (conj move_allow_step_skip move_allow_step_detached)). Qed.
Print Assumptions c13_move_allow_spec.

Theorem c13_move_block_total_wf :
  (forall target blocked root, exists r, move_block_do target blocked root = Ok (APass, r))
  /\
  (forall target blocked root a r, wf_json root = true ->
  move_block_do target blocked root = Ok (a, r) -> a = APass /\ wf_json r = true).
Proof. exact (conj move_block_total move_block_wf). Qed.
Print Assumptions c13_move_block_total_wf.

(* the root keeps, in some order, exactly the target and the blocked names; the target receives every
   other field in the original order *)
Theorem c13_move_block_spec : forall target blocked fs,
  let fs1 := set_field fs target (coerce_obj (field_get fs target)) in
  exists tid tfs cur tfs',
    field_index fs1 target 0 = Some tid /\ nth_error fs1 tid = Some (target, JObj tfs) /\
    move_block_do target blocked (JObj fs) = Ok (APass, JObj (untag tid tfs' cur)) /\
    Permutation cur (filter (kept blocked tid) (tagged fs1)) /\
    tfs' = receive tfs (filter (fun e => negb (kept blocked tid e)) (tagged fs1)).
Proof. exact move_block_spec. Qed.
Print Assumptions c13_move_block_spec.

(* ---- flatten, json_decode (MergeToRoot), json_encode ---------------------------------------------- *)
Theorem c13_flatten_total_wf :
  (forall path prefix root, exists r, flatten_do path prefix root = Ok (APass, r))
  /\
  (forall path prefix root a r, wf_json root = true ->
  flatten_do path prefix root = Ok (a, r) -> a = APass /\ wf_json r = true).
Proof. exact (conj flatten_total flatten_wf). Qed.
Print Assumptions c13_flatten_total_wf.

Theorem c13_flatten_spec :
  (forall path prefix root,
  (forall fs, jdig root path <> Some (JObj fs)) -> flatten_do path prefix root = Ok (APass, root))
  /\
  (forall path prefix rfs fs,
  jdig (JObj rfs) path = Some (JObj fs) ->
  exists fs1 fs2, jremove (JObj rfs) path = JObj fs1 /\
    flatten_do path prefix (JObj rfs) = Ok (APass, JObj fs2) /\
    forall k, field_get fs2 k = match last_get (prefix_fields prefix fs) k with Some v => Some v | None => field_get fs1 k end)
  /\
  (forall path prefix root fs,
  is_object root = false -> jdig root path = Some (JObj fs) -> flatten_do path prefix root = Ok (APass, jremove root path)).
Proof. exact (conj flatten_spec (conj flatten_object_spec flatten_not_object_root)). Qed.
Print Assumptions c13_flatten_spec.

Theorem c13_json_decode_total_wf :
  (forall path prefix doc root, exists r, json_decode_do path prefix doc root = Ok (APass, r))
  /\
  (forall path prefix doc root a r, wf_json root = true ->
  (forall d, doc = Some d -> wf_json d = true) ->
  json_decode_do path prefix doc root = Ok (a, r) -> a = APass /\ wf_json r = true).
Proof. exact (conj json_decode_total json_decode_wf). Qed.
Print Assumptions c13_json_decode_total_wf.

Theorem c13_json_decode_spec :
  (forall path prefix doc root,
  jdig root path = None \/ (forall fs, doc <> Some (JObj fs)) -> json_decode_do path prefix doc root = Ok (APass, root))
  /\
  (forall path prefix rfs fs v,
  jdig (JObj rfs) path = Some v ->
  exists fs1 fs2, jremove (JObj rfs) path = JObj fs1 /\
    json_decode_do path prefix (Some (JObj fs)) (JObj rfs) = Ok (APass, JObj fs2) /\
    forall k, field_get fs2 k = match last_get (prefix_fields prefix fs) k with Some x => Some x | None => field_get fs1 k end).
Proof. exact (conj json_decode_spec json_decode_object_spec). Qed.
Print Assumptions c13_json_decode_spec.

(* ---- json_encode -------------------------------------------------------------------------------- *)
Theorem c13_json_encode :
  (forall path enc root, exists r, json_encode_do path enc root = Ok (APass, r))
  /\
  (forall path enc root a r, wf_json root = true ->
  json_encode_do path enc root = Ok (a, r) -> a = APass /\ wf_json r = true)
  /\
  (forall path enc root,
  (jdig root path = None -> json_encode_do path enc root = Ok (APass, root)) /\
  (forall v, jdig root path = Some v ->
     exists r, json_encode_do path enc root = Ok (APass, r) /\ r = jupdate root path (fun _ => JStr enc) /\
               jdig r path = Some (JStr enc))).
Proof. exact (conj json_encode_total (conj json_encode_wf json_encode_spec)). Qed.
Print Assumptions c13_json_encode.

(* ---- convert_log_level -------------------------------------------------------------------------- *)
(* ---- convert_log_level -------------------------------------------------------------------------- *)
Theorem c13_convert_log_level_total_wf :
  (forall norm path style_string default rof root,
  exists r, convert_log_level_do norm path style_string default rof root = Ok (APass, r))
  /\
  (forall norm path style_string default rof root a r, wf_json root = true ->
  convert_log_level_do norm path style_string default rof root = Ok (a, r) -> a = APass /\ wf_json r = true).
Proof. exact (conj convert_log_level_total convert_log_level_wf). Qed.
Print Assumptions c13_convert_log_level_total_wf.

Theorem c13_convert_log_level_spec :
  (forall norm path style_string default rof root v,
  jdig root path = Some v ->
  let level := if (len (as_string (Some v)) =? 0) && negb (len default =? 0) then default else as_string (Some v) in
  let n := level_number (norm level) in
  (n < 0 -> convert_log_level_do norm path style_string default rof root
              = Ok (APass, if rof then jremove root path else root)) /\
  (0 <= n -> exists nv r, convert_log_level_do norm path style_string default rof root = Ok (APass, r) /\
      (if style_string then idx level_names n = Ok (as_string (Some nv)) /\ nv = JStr (as_string (Some nv))
       else nv = JNum (format_uint n)) /\
      r = jupdate root path (fun _ => nv) /\ jdig r path = Some nv))
  /\
  (forall norm path style_string rof root,
  jdig root path = None -> convert_log_level_do norm path style_string [] rof root = Ok (APass, root)).
Proof. exact (conj convert_log_level_spec convert_log_level_missing). Qed.
Print Assumptions c13_convert_log_level_spec.

(* ---- set_time, add_host, add_file_name, convert_date, discard, debug ------------------------------ *)
(* ---- set_time, add_host, add_file_name, convert_date, discard, debug ------------------------------ *)
Theorem c13_set_time :
  (forall field override value root, exists r, set_time_do field override value root = Ok (APass, r))
  /\
  (forall field override value root a r, wf_json root = true -> wf_json value = true ->
  set_time_do field override value root = Ok (a, r) -> a = APass /\ wf_json r = true)
  /\
  (forall field override value root,
  (forall v, jdig root [field] = Some v ->
     set_time_do field override value root = Ok (APass, if override then jupdate root [field] (fun _ => value) else root) /\
     (override = true -> jdig (jupdate root [field] (fun _ => value)) [field] = Some value)) /\
  (jdig root [field] = None -> forall fs, root = JObj fs ->
     exists fs2, set_time_do field override value root = Ok (APass, JObj fs2) /\
       field_get fs2 field = Some value /\ forall k, k <> field -> field_get fs2 k = field_get fs k) /\
  (jdig root [field] = None -> is_object root = false -> set_time_do field override value root = Ok (APass, root))).
Proof. exact (conj set_time_total (conj set_time_wf set_time_spec)). Qed.
Print Assumptions c13_set_time.

Theorem c13_add_host :
  (forall field host root, exists r, add_host_do field host root = Ok (APass, r))
  /\
  (forall field host root a r, wf_json root = true ->
  add_host_do field host root = Ok (a, r) -> a = APass /\ wf_json r = true)
  /\
  (forall field host root,
  (forall fs, root = JObj fs -> exists fs2, add_host_do field host root = Ok (APass, JObj fs2) /\
      field_get fs2 field = Some (JStr host) /\ forall k, k <> field -> field_get fs2 k = field_get fs k) /\
  (is_object root = false -> add_host_do field host root = Ok (APass, root))).
Proof. exact (conj add_host_total (conj add_host_wf add_host_spec)). Qed.
Print Assumptions c13_add_host.

Theorem c13_add_file_name :
  (forall path source root, exists r, add_file_name_do path source root = Ok (APass, r))
  /\
  (forall path source root a r, wf_json root = true ->
  add_file_name_do path source root = Ok (a, r) -> a = APass /\ wf_json r = true)
  /\
  (forall k rest source fs,
  exists fs2, add_file_name_do (k :: rest) source (JObj fs) = Ok (APass, JObj fs2) /\
    field_get fs2 k = Some (create_nested (coerce_obj (field_get fs k)) rest (JStr source)) /\
    forall k', k' <> k -> field_get fs2 k' = field_get fs k').
Proof. exact (conj add_file_name_total (conj add_file_name_wf add_file_name_spec)). Qed.
Print Assumptions c13_add_file_name.

Theorem c13_convert_date_total_wf :
  (forall path rof table root, exists r, convert_date_do path rof table root = Ok (APass, r))
  /\
  (forall path rof table root a r, wf_json root = true ->
  (forall v, In (Some v) table -> wf_json v = true) ->
  convert_date_do path rof table root = Ok (a, r) -> a = APass /\ wf_json r = true).
Proof. exact (conj convert_date_total convert_date_wf). Qed.
Print Assumptions c13_convert_date_total_wf.

(* first-match selection over the source formats *)
Theorem c13_convert_date_spec :
  (forall path rof table root v,
  jdig root path = Some v ->
  let valid := match v with JStr _ | JNum _ => true | _ => false end in
  (forall nv, valid = true -> first_some table = Some nv ->
     convert_date_do path rof table root = Ok (APass, jupdate root path (fun _ => nv)) /\
     jdig (jupdate root path (fun _ => nv)) path = Some nv) /\
  (valid = false \/ first_some table = None ->
     convert_date_do path rof table root = Ok (APass, if rof then jremove root path else root)))
  /\
  (forall (l : list (option json)),
  match first_some l with
  | Some x => exists a b, l = a ++ Some x :: b /\ Forall (fun o => o = None) a
  | None => Forall (fun o => o = None) l
  end).
Proof. exact (conj convert_date_spec first_some_spec). Qed.
Print Assumptions c13_convert_date_spec.

Theorem c13_discard_debug : forall root,
  discard_do root = Ok (ADiscard, root) /\ debug_do root = Ok (APass, root).
Proof. exact discard_debug_spec. Qed.
Print Assumptions c13_discard_debug.

(* ---- parse_es (the "wrong state" panic is unreachable), cardinality (no cache entry expires) ------ *)
(* ---- parse_es: the "wrong state" panic is unreachable -------------------------------------------- *)
Theorem c13_parse_es :
  (forall evs st, es_inv st = true ->
  exists rs st1, parse_es_run st evs = Ok (rs, st1) /\ es_inv st1 = true /\
    length rs = length evs /\ Forall (fun r => r = APass \/ r = ACollapse \/ r = ADiscard) rs)
  /\
  (forall root,
  (forall st, parse_es_do st None = Ok (ADiscard, st)) /\
  parse_es_do (true, false) (Some root) = Ok (APass, (false, false)) /\
  parse_es_do (false, true) (Some root) = Ok (ACollapse, (false, false)) /\
  parse_es_do (false, false) (Some root) =
    Ok (if is_some (jdig root [k_delete]) then (ACollapse, (false, false))
        else if is_some (jdig root [k_update]) then (ACollapse, (false, true))
        else if is_some (jdig root [k_index]) || is_some (jdig root [k_create]) then (ACollapse, (true, false))
        else (ADiscard, (false, false)))).
Proof. exact (conj parse_es_total parse_es_spec). Qed.
Print Assumptions c13_parse_es.

(* ---- cardinality (no entry of the cache expires) -------------------------------------------------- *)
Theorem c13_cardinality :
  (forall keys fields limit action cache root,
  exists r t cache1, card_do keys fields limit action cache root = Ok (r, t, cache1) /\ (r = APass \/ r = ADiscard))
  /\
  (forall keys fields limit action cache root r t cache1, wf_json root = true ->
  card_do keys fields limit action cache root = Ok (r, t, cache1) -> wf_json t = true)
  /\
  (forall keys fields limit action cache root,
  let prefix := append_to (map fst keys) (map (fun kf => as_string (jdig root (snd kf))) keys) in
  let over := (0 <=? limit) && (limit <=? count_prefix cache prefix) in
  (over = true -> action = 1 -> card_do keys fields limit action cache root = Ok (ADiscard, root, cache)) /\
  (over = true -> action = 2 -> card_do keys fields limit action cache root
       = Ok (APass, fold_left (fun r kf => jremove r (snd kf)) fields root, cache)) /\
  (over = false \/ (action <> 1 /\ action <> 2) ->
     exists cache1, card_do keys fields limit action cache root = Ok (APass, root, cache1) /\
       let full := prefix ++ append_to (map fst fields) (map (fun kf => as_string (jdig root (snd kf))) fields) in
       mem_bytes full cache1 = true /\ (mem_bytes full cache = true -> cache1 = cache) /\
       (mem_bytes full cache = false -> cache1 = full :: cache))).
Proof. exact (conj card_total (conj card_wf card_spec)). Qed.
Print Assumptions c13_cardinality.

(* ---- coverage round: the join templates' hand-written checks and cfg.ParseFieldSelector ------------------
   (Model/Actions/Templates.v, exact differential streams 51 / 52 of harness/c13/covmodels.go) *)
(* every StartCheck / ContinueCheck of every template (0 go_panic, 1 cs_exception, 2 go_data_race) returns a value
   on every byte string: no s[i] / s[a:b] of containsAt, containsEndOf, containsException, containsGoroutineID,
   containsLineNumber, containsCreatedBy, containsCall, endsWithIdentifier, containsPanicAddress is out of range and
   no backwards loop runs out of its fuel *)
Theorem c13_join_template_checks_return : forall tmpl continue s, exists b, template_check tmpl continue s = Ok b.
Proof. exact Templates.template_check_ok. Qed.
Print Assumptions c13_join_template_checks_return.

Theorem c13_join_template_checks_total : forall tmpl continue s p, template_check tmpl continue s <> Panic p.
Proof. exact Templates.template_check_total. Qed.
Print Assumptions c13_join_template_checks_total.

(* the (^\s*$) alternative of go_panic's continue pattern *)
Theorem c13_join_template_only_spaces : forall l, only_spaces l = forallb a_is_space l.
Proof. exact Templates.only_spaces_spec. Qed.
Print Assumptions c13_join_template_only_spaces.

(* cfg.ParseFieldSelector (every action's Start runs it over its field options; rename.Do's paths come from it) *)
Theorem c13_field_selector_total :
  (forall selector, exists r, parse_field_selector selector = Ok r)
  /\ (forall selector p, parse_field_selector selector <> Panic p).
Proof. exact (conj Templates.parse_field_selector_ok Templates.parse_field_selector_total). Qed.
Print Assumptions c13_field_selector_total.

Theorem c13_field_selector_nonempty : forall selector r,
  selector <> [] -> parse_field_selector selector = Ok r -> r <> [].
Proof. exact Templates.parse_field_selector_nonempty. Qed.
Print Assumptions c13_field_selector_nonempty.

Theorem c13_field_selector_plain : forall selector,
  selector <> [] -> index_byte selector 46%N = -1 -> parse_field_selector selector = Ok [selector].
Proof. exact Templates.parse_field_selector_plain. Qed.
Print Assumptions c13_field_selector_plain.

(* with the modelled selector parser in the place of the oracle, rename's totality (c13_rename_total_wf, first clause)
   holds without any hypothesis *)
Theorem c13_rename_total_modelled_selector :
  (forall cfg, paths_nonempty (rename_ops Templates.selector_fn cfg) = true)
  /\ (forall preserve cfg root, exists r, rename_cfg_do Templates.selector_fn preserve cfg root = Ok (APass, r)).
Proof. exact (conj Templates.rename_paths_nonempty_modelled_selector Templates.rename_total_modelled_selector). Qed.
Print Assumptions c13_rename_total_modelled_selector.

(* ---- non-vacuity -------------------------------------------------------------------------------- *)
From Coq Require Import Strings.String.
Local Open Scope Z_scope.
Local Open Scope list_scope.
(* the README examples of the filters; the hypotheses of the totality theorems hold on them *)
Example c13_modify_nonvacuous :
  cut_apply true 10 (bs "some looooooooooooong data") = Ok (bs "some loooo")
  /\ cut_apply false 5 (bs "some looooooooooooong data") = Ok (bs " data")
  /\ trim_to_apply 1 (bs "{") (bs "some data {""k"":1} some data") = Ok (bs "{""k"":1} some data")
  /\ trim_to_apply 2 (bs "}") (bs "{""k"":1} some data") = Ok (bs "{""k"":1}")
  /\ trim_apply 2 [10%N] ((bs "{""k"":1}") ++ [10%N])%list = bs "{""k"":1}"
  (* re("(re\d+)",2,[1],","): the regexp library answered two matches with one group each *)
  /\ (groups_ok 1 [1] && forallb (index_ok 1 15) [[0; 3; 0; 3]; [4; 7; 4; 7]] = true
      /\ re_apply [1] (bs ",") false [[0; 3; 0; 3]; [4; 7; 4; 7]] (bs "re1 re2 re3 re4") [] = Ok (bs "re1,re2"))
  (* a group that did not take part in the match is skipped: (a)?(b)? on "b", groups [2,1] *)
  /\ re_apply [2; 1] [] false [[0; 1; -1; -1; 0; 1]] (bs "b") [] = Ok (bs "b").
Proof. repeat split; vm_compute; reflexivity. Qed.

Example c13_convert_utf8_bytes_nonvacuous :
  convert (fun _ => true) false (bs "$\110\145\154\154\157!") = Ok (Some (bs "$Hello!"))
  /\ convert (fun _ => true) false (bs "\xD0\xA1.xml") = Ok (Some [208; 161; 46; 120; 109; 108]%N)
  /\ convert (fun _ => true) false (bs "\ud83d\ude00") = Ok (Some [240; 159; 152; 128]%N)
  /\ convert (fun _ => true) false (bs "\u12 \x4 \") = Ok (Some (bs "\u12 \x4 "))
  /\ convert (fun _ => true) false (bs "no escapes") = Ok None.
Proof. repeat split; vm_compute; reflexivity. Qed.

Example c13_hash_normalizer_nonvacuous :
  normalize_by_tokenizer (fun _ => true) (bs "get {""a"":[1,{""b"":2}]} from 'x' and (unclosed")
    = Ok (bs "get <curly_bracketed> from <single_quoted> and <parenthesized>").
Proof. vm_compute; reflexivity. Qed.

Example c13_tree_nonvacuous :
  (* parse_re2 (?P<a>x)?(?P<b>y)?(z) on "z" with prefix p_: both named groups unmatched *)
  parse_re2_do (JObj [(bs "message", JStr (bs "z")); (bs "k", JNull)]) [bs "message"] (bs "p_")
               [[]; bs "a"; bs "b"; []] [bs "z"; []; []; bs "z"]
    = Ok (JObj [(bs "k", JNull); (bs "p_a", JStr []); (bs "p_b", JStr [])])
  /\ split_do false (JObj [(bs "items", JArr [JObj [(bs "m", JNum (bs "1"))]; JNum (bs "2"); JObj []])]) [bs "items"]
    = Ok (4, [JObj [(bs "m", JNum (bs "1"))]; JObj []])
  /\ hash_do (fun _ _ => 18446744073709551615) (JObj [(bs "message", JStr (bs "abc"))]) [([bs "message"], false, 2)] [bs "a"; bs "hash"]
    = Ok (JObj [(bs "message", JStr (bs "abc")); (bs "a", JObj [(bs "hash", JNum (bs "18446744073709551615"))])])
  /\ wf_json (JObj [(bs "n", JNum (bs "-1.5e+3"))]) = true /\ wf_json (JNum (bs "01")) = false /\ wf_json (JNum (bs ".5")) = false.
Proof. repeat split; vm_compute; reflexivity. Qed.


(* ---- non-vacuity of the tree-level theorems 42..49 -------------------------------------------------- *)
Example c13_rename_nonvacuous :
  (* {"a":{"b":1},"x":2,"y":3}  rename a.b -> x with override, then a -> z: swap-remove order shows *)
  paths_nonempty [([bs "a"; bs "b"], bs "x"); ([bs "a"], bs "z")] = true
  /\ rename_do false [([bs "a"; bs "b"], bs "x"); ([bs "a"], bs "z")]
       (JObj [(bs "a", JObj [(bs "b", JNum (bs "1"))]); (bs "x", JNum (bs "2")); (bs "y", JNum (bs "3"))])
     = Ok (APass, JObj [(bs "y", JNum (bs "3")); (bs "x", JNum (bs "1")); (bs "z", JObj [])])
  /\ rename_do true [([bs "a"; bs "b"], bs "x")]
       (JObj [(bs "a", JObj [(bs "b", JNum (bs "1"))]); (bs "x", JNum (bs "2"))])
     = Ok (APass, JObj [(bs "a", JObj [(bs "b", JNum (bs "1"))]); (bs "x", JNum (bs "2"))]).
Proof. repeat split; vm_compute; reflexivity. Qed.

(* the witness of the repaired finding C13-rename-empty-path-cycle: the key "_" is no operation any more;
   the model function on the empty path it used to yield answers Err (the root tied into itself) *)
Example c13_rename_empty_path_is_rejected_by_validation :
  rename_ops (fun k => [k]) [(bs "_", bs "x"); (bs "__a", bs "y"); ([], bs "z"); (bs "_b", bs "w")]
    = [([bs "_a"], bs "y"); ([bs "b"], bs "w")]
  /\ rename_cfg_do (fun k => [k]) true [(bs "_", bs "x")] (JObj [(bs "a", JNum (bs "1"))]) = Ok (APass, JObj [(bs "a", JNum (bs "1"))])
  /\ rename_do true [([], bs "x")] (JObj [(bs "a", JNum (bs "1"))]) = Err 1.
Proof. repeat split; vm_compute; reflexivity. Qed.

Example c13_move_nonvacuous :
  (* README example 1 (allow) and 2 (block) of the move action *)
  move_allow_do [bs "other"] [[bs "log"; bs "stream"]; [bs "zone"]]
    (JObj [(bs "service", JStr (bs "test")); (bs "log", JObj [(bs "level", JStr (bs "error")); (bs "stream", JStr (bs "stderr"))]);
           (bs "zone", JStr (bs "z501"))])
  = Ok (APass, JObj [(bs "service", JStr (bs "test")); (bs "log", JObj [(bs "level", JStr (bs "error"))]);
                     (bs "other", JObj [(bs "stream", JStr (bs "stderr")); (bs "zone", JStr (bs "z501"))])])
  /\ move_block_do (bs "other") [bs "log"]
    (JObj [(bs "service", JStr (bs "test")); (bs "log", JObj []); (bs "zone", JStr (bs "z501"));
           (bs "other", JObj [(bs "user", JStr (bs "ivanivanov"))])])
  = Ok (APass, JObj [(bs "other", JObj [(bs "user", JStr (bs "ivanivanov")); (bs "service", JStr (bs "test")); (bs "zone", JStr (bs "z501"))]);
                     (bs "log", JObj [])])
  (* the moved field is an ancestor of the target: the whole branch leaves the event, later fields are lost *)
  /\ move_allow_do [bs "a"; bs "b"] [[bs "a"]; [bs "m"]] (JObj [(bs "a", JNum (bs "1")); (bs "m", JNum (bs "2"))])
  = Ok (APass, JObj []).
Proof. repeat split; vm_compute; reflexivity. Qed.

Example c13_flatten_decode_encode_nonvacuous :
  flatten_do [bs "a"] (bs "pre_") (JObj [(bs "a", JObj [(bs "b", JNum (bs "1")); (bs "c", JNull)]); (bs "pre_c", JBool true)])
    = Ok (APass, JObj [(bs "pre_c", JNull); (bs "pre_b", JNum (bs "1"))])
  /\ json_decode_do [bs "log"] (bs "p_") (Some (JObj [(bs "x", JNum (bs "1"))])) (JObj [(bs "log", JStr (bs "{""x"":1}")); (bs "k", JNull)])
    = Ok (APass, JObj [(bs "k", JNull); (bs "p_x", JNum (bs "1"))])
  /\ json_decode_do [bs "log"] [] None (JObj [(bs "log", JStr (bs "{"))]) = Ok (APass, JObj [(bs "log", JStr (bs "{"))])
  /\ json_encode_do [bs "a"; bs "0"] (bs "{""b"":1}") (JObj [(bs "a", JArr [JObj [(bs "b", JNum (bs "1"))]; JNull])])
    = Ok (APass, JObj [(bs "a", JArr [JStr (bs "{""b"":1}"); JNull])]).
Proof. repeat split; vm_compute; reflexivity. Qed.

Example c13_one_step_nonvacuous :
  (* convert_log_level: " WARN " normalised by the oracle to "warn" *)
  convert_log_level_do (fun s => if bytes_eqb s (bs " WARN ") then bs "warn" else s) [bs "level"] false [] false
      (JObj [(bs "level", JStr (bs " WARN "))]) = Ok (APass, JObj [(bs "level", JNum (bs "4"))])
  /\ convert_log_level_do (fun s => s) [bs "a"; bs "level"] true (bs "info") true (JObj [(bs "a", JArr [])])
      = Ok (APass, JObj [(bs "a", JObj [(bs "level", JStr (bs "informational"))])])
  /\ convert_log_level_do (fun s => s) [bs "level"] true [] true (JObj [(bs "level", JStr (bs "nope")); (bs "k", JNull)])
      = Ok (APass, JObj [(bs "k", JNull)])
  /\ set_time_do (bs "time") false (JNum (bs "1")) (JObj [(bs "time", JNull)]) = Ok (APass, JObj [(bs "time", JNull)])
  /\ set_time_do (bs "time") true (JNum (bs "1")) (JObj []) = Ok (APass, JObj [(bs "time", JNum (bs "1"))])
  /\ add_host_do (bs "host") (bs "h") (JObj [(bs "host", JNull)]) = Ok (APass, JObj [(bs "host", JStr (bs "h"))])
  /\ add_file_name_do [bs "a"; bs "f"] (bs "x.log") (JObj [(bs "a", JNum (bs "1"))]) = Ok (APass, JObj [(bs "a", JObj [(bs "f", JStr (bs "x.log"))])])
  /\ convert_date_do [bs "time"] true [None; Some (JNum (bs "1624379067"))] (JObj [(bs "time", JStr (bs "2021-06-22T16:24:27Z"))])
      = Ok (APass, JObj [(bs "time", JNum (bs "1624379067"))])
  /\ convert_date_do [bs "time"] true [None; None] (JObj [(bs "time", JStr (bs "x")); (bs "k", JNull)]) = Ok (APass, JObj [(bs "k", JNull)])
  /\ convert_date_do [bs "time"] true [Some JNull] (JObj [(bs "time", JBool true)]) = Ok (APass, JObj []).
Proof. repeat split; vm_compute; reflexivity. Qed.

Example c13_sequences_nonvacuous :
  (* parse_es: index line, document, time-out, update line, document, junk *)
  es_inv (false, false) = true
  /\ parse_es_run (false, false)
       [Some (JObj [(bs "index", JObj [])]); Some (JObj [(bs "f", JNull)]); None; Some (JObj [(bs "update", JObj [])]);
        Some (JObj [(bs "doc", JNull)]); Some (JObj [(bs "f", JNull)])]
     = Ok ([1; 0; 2; 1; 1; 2], (false, false))
  (* cardinality: limit 1 per service, the second distinct level of service a is discarded *)
  /\ card_run [(bs "service", [bs "service"])] [(bs "level", [bs "level"])] 1 1 []
       [JObj [(bs "service", JStr (bs "a")); (bs "level", JStr (bs "x"))];
        JObj [(bs "service", JStr (bs "a")); (bs "level", JStr (bs "y"))];
        JObj [(bs "service", JStr (bs "b")); (bs "level", JStr (bs "y"))]]
     = Ok [(0, JObj [(bs "service", JStr (bs "a")); (bs "level", JStr (bs "x"))]);
           (2, JObj [(bs "service", JStr (bs "a")); (bs "level", JStr (bs "y"))]);
           (0, JObj [(bs "service", JStr (bs "b")); (bs "level", JStr (bs "y"))])].
Proof. repeat split; vm_compute; reflexivity. Qed.

(* the template checks on lines of a Go panic / a C# exception, and selectors with an escaped and a doubled dot *)
Example c13_templates_selector_nonvacuous :
  template_check 0 false (bs "panic: runtime error") = Ok true
  /\ template_check 0 true (bs "main.(*T).f(0x1, 0x2)") = Ok true
  /\ template_check 0 true (bs "	app/x.go:12 +0x1d") = Ok true
  /\ template_check 0 true (bs "a line that is no part of a trace") = Ok false
  /\ template_check 1 false (bs "  UNHANDLED Exception. System.X") = Ok true
  /\ template_check 1 true (bs "   at Program.Main()") = Ok true
  /\ template_check 1 true (bs "System.NullReferenceException: Object reference") = Ok true
  /\ template_check 1 true (bs "Exception: first") = Ok false
  /\ template_check 2 true (bs "==================") = Ok true
  /\ parse_field_selector (bs "a.b\.c.d") = Ok [bs "a"; bs "b.c"; bs "d"]
  /\ parse_field_selector (bs "a..b") = Ok [bs "a.b"]
  /\ parse_field_selector (bs ".") = Ok [[]]
  /\ parse_field_selector [] = Ok [].
Proof. repeat split; vm_compute; reflexivity. Qed.

(* ---- processor: the stream time-out reaches only the action that holds a run ------------------------ *)
Module C13_proc.
From Verif Require Model.Proc Proofs.Proc Proofs.ProcTheorems.
Import Verif.Model.Proc Verif.Proofs.Proc Verif.Proofs.ProcTheorems.

(* the processEvent loop gives a time-out event to the first action that holds an event, and none is held left of it *)
Theorem c13_timeout_only_to_holder :
  forall s e start s', pstep s (PTake e start) = Some s' -> pkind e = 3 ->
    held_at (held s) start <> None /\ (forall j y, In (j, y) (held s) -> start <= j).
Proof. exact proc_timeout_only_to_holder. Qed.
Print Assumptions c13_timeout_only_to_holder.

(* and the first Do it enters is that (busy) action's *)
Theorem c13_timeout_first_do_is_the_holders :
  forall s e start s1 e' a busy s2, pstep s (PTake e start) = Some s1 -> pkind e = 3 ->
    pstep s1 (PDo e' a busy) = Some s2 -> e' = e /\ a = start /\ busy = true.
Proof. exact proc_timeout_first_do_busy. Qed.
Print Assumptions c13_timeout_first_do_is_the_holders.

(* the time-outs Spawn sends to busy actions: likewise *)
Theorem c13_spawn_timeout_only_to_holder :
  forall s e idx s', pstep s (PPush e idx) = Some s' -> pkind e = 3 ->
    held_at (held s) idx <> None /\ (forall j y, In (j, y) (held s) -> idx <= j).
Proof. exact proc_spawn_timeout_only_to_holder. Qed.
Print Assumptions c13_spawn_timeout_only_to_holder.

(* full-strength reading "EVERY Do of a time-out is at a busy action" is false of the model (and of the code):
   once the holder has flushed, the time-out event itself may pass on to the next, idle action *)
Theorem c13_timeout_every_do_busy_refuted :
  exists n ls s e a s', prun (pinit n) ls = Some s /\ pkind e = 3 /\ pstep s (PDo e a false) = Some s'.
Proof. exact proc_timeout_every_do_busy_refuted. Qed.
Print Assumptions c13_timeout_every_do_busy_refuted.
End C13_proc.
