(* TEMPORARY (builder's, so that ./check C13 runs): the coordinator assembles the final file from
   Properties/C13_actions.v.txt and the processor-level theorems. *)
From Verif Require Import Base.Sx Base.GoSem Model.Actions.Subst.
Example c13_tmp_nonvacuous : cut_apply true 2 [1;2;3]%N = Ok [1;2]%N.
Proof. vm_compute. reflexivity. Qed.
