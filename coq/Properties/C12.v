(* C12 — decoders are total and faithful.
   Only statements, each closed by [exact]; models in Model/Decoders/*.v, proofs in Proofs/Decoders/*.v.
   "Never crashes" is [<> Panic p] in the result monad of Base/GoSem.v, where every Go slice / index
   expression of the scanners is a [slice] / [idx] that yields Panic when out of range, and a loop
   that would not terminate within its fuel is a Panic as well. *)
From Verif Require Import Base.Sx Base.GoSem Model.Decoders.Common Model.Decoders.Cri Model.Decoders.Postgres
  Model.Decoders.Nginx Model.Decoders.Syslog Model.Decoders.SyslogRfc3164 Model.Decoders.SyslogRfc5424
  Model.Decoders.Csv Model.Decoders.JsonCut
  Proofs.Decoders.Cri Proofs.Decoders.Postgres Proofs.Decoders.Nginx Proofs.Decoders.SyslogRfc3164
  Proofs.Decoders.SyslogRfc5424 Proofs.Decoders.Csv Proofs.Decoders.JsonCut.
From Coq Require Import Permutation.

(* ---- totality: every byte string, every parameter value ---------------------------------------- *)
Theorem c12_cri_total : forall data p, decode_cri data <> Panic p.
Proof. exact decode_cri_total. Qed.
Print Assumptions c12_cri_total.

Theorem c12_postgres_total : forall data p, decode_postgres data <> Panic p.
Proof. exact decode_postgres_total. Qed.
Print Assumptions c12_postgres_total.

(* for every implementation of the "key has only letters" test (unicode.IsLetter over UTF-8) *)
Theorem c12_nginx_total : forall only_letters with_custom_fields data p,
  decode_nginx only_letters with_custom_fields data <> Panic p.
Proof. exact decode_nginx_total. Qed.
Print Assumptions c12_nginx_total.

Theorem c12_syslog_rfc3164_total : forall facility_as_string severity_as_string data p,
  decode_s3164 facility_as_string severity_as_string data <> Panic p.
Proof. exact decode_s3164_total. Qed.
Print Assumptions c12_syslog_rfc3164_total.

Theorem c12_syslog_rfc5424_total : forall facility_as_string severity_as_string data p,
  decode_s5424 facility_as_string severity_as_string data <> Panic p.
Proof. exact decode_s5424_total. Qed.
Print Assumptions c12_syslog_rfc5424_total.

(* for every implementation of bytes.TrimSpace, every delimiter, column count and invalid-line mode *)
Theorem c12_csv_total : forall trim_space delimiter ncolumns continue_mode data p,
  decode_csv_checked trim_space delimiter ncolumns continue_mode data <> Panic p.
Proof. exact decode_csv_checked_total. Qed.
Print Assumptions c12_csv_total.

(* ---- faithfulness ------------------------------------------------------------------------------- *)
Theorem c12_cri_faithful : forall time stream t0 tag log,
  index_byte time SP = -1 -> index_byte stream SP = -1 -> len stream = 6 ->
  index_byte (t0 :: tag) SP = -1 ->
  decode_cri (cri_line time stream (t0 :: tag) log) =
  Ok {| cri_time := time; cri_stream := stream; cri_partial := beq t0 80%N;
        cri_log := if beq t0 80%N then removelast log else log |}.
Proof. exact decode_cri_faithful. Qed.
Print Assumptions c12_cri_faithful.

Theorem c12_postgres_faithful :
  forall t1 t2 t3 pid sep num k1 client k2 db k3 user level log,
  index_byte t1 SP = -1 -> index_byte t2 SP = -1 -> index_byte t3 SP = -1 ->
  index_byte pid RBRACK = -1 -> index_byte sep LBRACK = -1 -> index_byte num RBRACK = -1 ->
  index_byte k1 EQUALS = -1 -> index_byte k1 COMMA = -1 -> index_byte client COMMA = -1 ->
  index_byte k2 EQUALS = -1 -> index_byte k2 COMMA = -1 -> index_byte db COMMA = -1 ->
  index_byte k3 EQUALS = -1 -> index_byte k3 SP = -1 -> index_byte user SP = -1 ->
  index_byte level SP = -1 ->
  decode_postgres (pg_line t1 t2 t3 pid sep num k1 client k2 db k3 user level log) =
  Ok {| pg_time := t1 ++ SP :: t2 ++ SP :: t3; pg_pid := pid; pg_num := num; pg_client := client;
        pg_db := db; pg_user := user; pg_log := log |}.
Proof. exact decode_postgres_faithful. Qed.
Print Assumptions c12_postgres_faithful.

(* "never alters bytes of the caller's buffer": DecodePostgres is the one scanner that WRITES through
   its input (it assembles the time field by appending onto data[:pos]); the field it builds is a
   prefix of the input, so every byte it writes already has that value. (For all decoders the harness
   additionally checks guard bytes around the line on every case; aliasing itself is outside the
   value-level models.) *)
Theorem c12_postgres_time_in_place : forall data row,
  decode_postgres data = Ok row -> exists rest, data = pg_time row ++ SP :: rest.
Proof. exact decode_postgres_time_in_place. Qed.
Print Assumptions c12_postgres_time_in_place.

(* unquoted fields without delimiter / quote / newline, the last one untouched by TrimSpace *)
Theorem c12_csv_faithful : forall trim_space delimiter fields,
  delimiter <> QUOTE -> delimiter <> NL ->
  Forall (fun f => index_byte f delimiter = -1 /\ index_byte f QUOTE = -1 /\ index_byte f NL = -1) fields ->
  csv_line delimiter fields <> [] ->
  trim_space (last fields []) = last fields [] ->
  decode_csv trim_space delimiter (csv_line delimiter fields) = Ok fields.
Proof. exact decode_csv_faithful. Qed.
Print Assumptions c12_csv_faithful.

(* ---- json_max_fields_size: cutFieldsBySize as repaired by ed38629, a08bbd4, 86e6b5f ------------- *)
(* one answer of gjson = (Index, len(Str), limit, Raw) (jfound); these are oracle values.  The model
   evaluates the code's guard "Raw stands at Index" (json_raw_at), finds the closing quote of the string
   at Index itself (json_raw_len) and insists that Raw is exactly that string.  esc_valid = the escaped
   content of a valid JSON string: no bare quote, no control character, every backslash starts a 2-byte
   escape or a 6-byte \uXXXX escape. *)

(* never slices or indexes out of range, for ANY document (valid or not), any len(Str) and any Raw, when
   the limit is not negative (negative limits are rejected when the decoder is built,
   fixes/C12-json-negative-limit.patch), Index is not negative and gjson's Raw - whenever it does stand
   at Index - is the string that starts there (raw_consistent; checked by the harness on every run) *)
Theorem c12_json_cut_total : forall data index strlen limit raw p,
  0 <= limit -> 0 <= index -> raw_consistent data index raw ->
  json_cut data index strlen limit raw <> Panic p.
Proof. exact json_cut_total. Qed.
Print Assumptions c12_json_cut_total.

(* 86e6b5f: an answer whose Raw does not occur in the document at Index (gjson leaves Index at 0 for
   results that are not a slice of the document: a|@this, a|@reverse, [a,z].0) leaves the document
   unchanged when it is the only path, and is ignored - wherever it stands among the answers - when
   there are several *)
Theorem c12_json_cut_index_unknown : forall data index strlen limit raw,
  0 <= index -> ~ raw_occurs_at data index raw ->
  json_cut data index strlen limit raw = Ok data /\
  forall found1 found2,
    json_cut_many data (found1 ++ (index, strlen, limit, raw) :: found2) = json_cut_many data (found1 ++ found2).
Proof.
  intros data index strlen limit raw Hi Hn.
  split; [exact (json_cut_index_unknown data index strlen limit raw Hi Hn)|].
  intros found1 found2. exact (json_cut_many_index_unknown data found1 index strlen limit raw found2 Hi Hn).
Qed.
Print Assumptions c12_json_cut_index_unknown.

(* THE clause "per-field size limits cut only the named string fields and always leave valid JSON":
   in a document  pre "raw" post  the string is replaced by its first k bytes and nothing else changes;
   the kept text is again valid escaped content (no escape sequence is split); a string whose unescaped
   length fits the limit is untouched; otherwise k <= limit and k is the LARGEST such number that leaves
   valid content (so k > limit - 6, and k = limit when position limit does not fall inside an escape) *)
Theorem c12_json_cut_spec : forall pre raw post strlen limit,
  esc_valid raw = true -> 0 <= limit ->
  exists k : nat,
    json_cut (pre ++ QUOTE :: raw ++ QUOTE :: post) (len pre) strlen limit (QUOTE :: raw ++ [QUOTE]) =
      Ok (pre ++ QUOTE :: firstn k raw ++ QUOTE :: post) /\
    (k <= length raw)%nat /\
    esc_valid (firstn k raw) = true /\
    (strlen <= limit -> k = length raw) /\
    (limit < strlen ->
       Z.of_nat k <= limit /\
       (forall k' : nat, (k < k' <= length raw)%nat -> Z.of_nat k' <= limit -> esc_valid (firstn k' raw) = false) /\
       (limit <= len raw -> limit - 6 < Z.of_nat k) /\
       (limit <= len raw -> esc_valid (firstn (Z.to_nat limit) raw) = true -> Z.of_nat k = limit)).
Proof. exact json_cut_spec. Qed.
Print Assumptions c12_json_cut_spec.

(* how much of a string is kept (json_kept, used by the next theorem) has exactly those properties *)
Theorem c12_json_kept_spec : forall raw strlen limit,
  esc_valid raw = true -> 0 <= limit ->
  let k := json_kept raw strlen limit in
  (k <= length raw)%nat /\
  esc_valid (firstn k raw) = true /\
  (strlen <= limit -> k = length raw) /\
  (limit < strlen ->
     Z.of_nat k <= limit /\
     (forall k' : nat, (k < k' <= length raw)%nat -> Z.of_nat k' <= limit -> esc_valid (firstn k' raw) = false) /\
     (limit <= len raw -> limit - 6 < Z.of_nat k) /\
     (limit <= len raw -> esc_valid (firstn (Z.to_nat limit) raw) = true -> Z.of_nat k = limit)).
Proof. exact json_kept_spec. Qed.
Print Assumptions c12_json_kept_spec.

(* several paths (positions found on the original document, sorted by descending start, cut one after
   the other, a position skipped when the next one has the same end - a08bbd4): in a document
   pre "raw1" post1 "raw2" post2 ...  every string may be named by SEVERAL paths (a and \a), each with its
   own limit; gjson's answers are handed over in any order (Go map iteration).  Every named string is cut
   once, by the smallest of the limits given for it (jf_limit; what is kept: c12_json_kept_spec), and
   nothing else changes.  jfield = (raw, post, len(Str), limit, further limits for the same string),
   jf_ok = raw is valid escaped content and no limit is negative; junk = further answers that find
   nothing (finds_nothing: the string fits its limit, or Raw is not at Index - c12_json_cut_index_unknown) *)
Theorem c12_json_cut_many_spec : forall pre fs junk found,
  Forall jf_ok fs -> Forall (finds_nothing (pre ++ jf_doc fs)) junk ->
  Permutation found (jf_found (len pre) fs ++ junk) ->
  json_cut_many (pre ++ jf_doc fs) found = Ok (pre ++ jf_cut fs).
Proof. exact json_cut_many_spec. Qed.
Print Assumptions c12_json_cut_many_spec.

(* the witness that refuted the clause before a08bbd4 ( a : 0123456789 with limits 3 and 5 given by two
   paths for the one string; the second cut removed the closing quote) is now cut once to 012, whatever
   the order of the answers, also for equal limits *)
Lemma c12_json_cut_many_aliased_repaired :
  let doc := alias_pre ++ QUOTE :: alias_raw ++ QUOTE :: alias_post in
  let q := QUOTE :: alias_raw ++ [QUOTE] in
  let out := Ok (alias_pre ++ QUOTE :: firstn 3 alias_raw ++ QUOTE :: alias_post) in
  esc_valid alias_raw = true /\
  json_cut_many doc [(len alias_pre, 10, 3, q); (len alias_pre, 10, 5, q)] = out /\
  json_cut_many doc [(len alias_pre, 10, 5, q); (len alias_pre, 10, 3, q)] = out /\
  json_cut_many doc [(len alias_pre, 10, 3, q); (len alias_pre, 10, 3, q)] = out /\
  (* a|@this next to a: gjson answers Index 0 for the modifier path *)
  json_cut_many doc [(len alias_pre, 10, 3, q); (0, 10, 5, q)] = out /\
  json_cut doc 0 10 5 q = Ok doc.
Proof. exact json_cut_many_aliased_repaired. Qed.
Print Assumptions c12_json_cut_many_aliased_repaired.

(* the runner's executable predicate (Violates when false) is the framing statement of the theorems:
   the output is the document with nothing but the named strings replaced by prefixes of themselves *)
Theorem c12_json_cut_framed : forall pre fs out, Forall jf_ok fs ->
  (json_cut_framed (pre ++ jf_doc fs) (jf_found (len pre) fs) out = Some true <->
   exists ks, length ks = length fs /\ out = pre ++ cut_doc (jf_pairs fs) ks).
Proof. exact json_cut_framed_doc. Qed.
Print Assumptions c12_json_cut_framed.

(* ---- non-vacuity --------------------------------------------------------------------------------- *)
From Coq Require Import Strings.String.
Local Open Scope Z_scope.

(* the documented examples decode to their fields; the inputs that used to crash are errors or
   (CRI, CSV) well-defined rows *)
Example c12_cri_nonvacuous :
  decode_cri (bs "2016-10-06T00:17:09.669794202Z stdout P log content 1") =
    Ok {| cri_time := bs "2016-10-06T00:17:09.669794202Z"; cri_stream := bs "stdout"; cri_partial := true;
          cri_log := bs "log content " |}
  /\ decode_cri (bs " stdout P ") = Ok {| cri_time := []; cri_stream := bs "stdout"; cri_partial := true; cri_log := [] |}
  /\ decode_cri (bs "t stdout") = Err 2.
Proof. repeat split; vm_compute; reflexivity. Qed.

Example c12_postgres_nonvacuous :
  decode_postgres (bs "2021-06-22 16:24:27 GMT [7291] => [3-1] client=test_client,db=test_db,user=test_user LOG:  listening") =
    Ok {| pg_time := bs "2021-06-22 16:24:27 GMT"; pg_pid := bs "7291"; pg_num := bs "3-1"; pg_client := bs "test_client";
          pg_db := bs "test_db"; pg_user := bs "test_user"; pg_log := bs "listening" |}
  /\ decode_postgres (bs "a b c ]") = Err 2
  /\ decode_postgres (bs "a b c [1] [2] ,=") = Err 6
  /\ decode_postgres (bs "a b c [1] [2] a=b,c=d,e=f L ") = Err 11.
Proof. repeat split; vm_compute; reflexivity. Qed.

Example c12_nginx_nonvacuous :
  decode_nginx ascii_only_letters true
    (bs "2022/08/17 10:49:27 [error] 2725122#2725122: *792412315 lua udp socket read timed out, context: ngx.timer") =
    Ok {| ng_time := bs "2022/08/17 10:49:27"; ng_level := bs "error"; ng_pid := bs "2725122"; ng_tid := bs "2725122";
          ng_cid := bs "792412315"; ng_msg := bs "lua udp socket read timed out";
          ng_fields := [(bs "context", bs "ngx.timer")] |}.
Proof. vm_compute; reflexivity. Qed.

Example c12_syslog_nonvacuous :
  decode_s3164 false true (bs "<34>Oct 11 22:14:15 mymachine myproc[10]: failed") =
    Ok {| s3_pri := bs "34"; s3_fac := bs "4"; s3_sev := bs "CRIT"; s3_ts := bs "Oct 11 22:14:15"; s3_host := bs "mymachine";
          s3_app := bs "myproc"; s3_procid := bs "10"; s3_msg := bs "failed" |}
  /\ decode_s3164 false false (bs "<34>Oct 11 22:14:15 h a[]") = Err E_FORMAT
  /\ decode_s5424 false false (bs "<165>1 2003-10-11T22:14:15.003Z host app 10 ID47 [ex@1 iut=""3"" b=""x""] An event") =
    Ok {| s5_pri := bs "165"; s5_fac := bs "20"; s5_sev := bs "5"; s5_ver := bs "1"; s5_ts := bs "2003-10-11T22:14:15.003Z";
          s5_host := bs "host"; s5_app := bs "app"; s5_procid := bs "10"; s5_msgid := bs "ID47"; s5_msg := bs "An event";
          s5_sd := [(bs "ex@1", [(bs "b", bs "x"); (bs "iut", bs "3")])] |}
  /\ decode_s5424 false false (bs "<1>1 - - - - - [id ]") = Err E_SD.
Proof. repeat split; vm_compute; reflexivity. Qed.

Example c12_csv_nonvacuous :
  decode_csv_checked ascii_trim_space 44%N 0 false (bs "a,""b """" ,c"",d ") = Ok [bs "a"; bs "b "" ,c"; bs "d"]
  /\ decode_csv_checked ascii_trim_space 44%N 0 false (bs "a,") = Ok [bs "a"; []]
  /\ decode_csv_checked ascii_trim_space 44%N 0 false (bs """a""") = Ok [bs "a"]
  /\ decode_csv_checked ascii_trim_space 44%N 3 false (bs "a,b") = Err 4.
Proof. repeat split; vm_compute; reflexivity. Qed.

(* the hypotheses of the faithfulness theorems are satisfiable on the documented lines *)
Example c12_faithful_nonvacuous :
  (index_byte (bs "2016-10-06T00:17:09.669794202Z") SP = -1 /\ index_byte (bs "stderr") SP = -1 /\
   len (bs "stderr") = 6 /\ index_byte (bs "F") SP = -1)
  /\ pg_line (bs "2021-06-22") (bs "16:24:27") (bs "GMT") (bs "7291") (bs " => ") (bs "3-1") (bs " client") (bs "c")
              (bs "db") (bs "d") (bs "user") (bs "u") (bs "LOG:") (bs "listening")
      = bs "2021-06-22 16:24:27 GMT [7291] => [3-1] client=c,db=d,user=u LOG:  listening"
  /\ csv_line 44%N [bs "a"; []; bs "c d"] = bs "a,,c d".
Proof. repeat split; vm_compute; reflexivity. Qed.

(* valid escaped content exists (two-byte escapes, \uXXXX, a surrogate pair, UTF-8 text), strings with
   escapes are cut at an escape boundary, several at once too *)
Example c12_json_cut_nonvacuous :
  esc_valid (bs "x\u00e9\n\\y\""z\ud83d\ude00 é") = true
  /\ esc_valid (bs "a\") = false /\ esc_valid (bs "a\u00e") = false /\ esc_valid (bs "a""b") = false
  /\ json_cut (bs "{""a"":""xyz"",""b"":1}") 5 3 1 (bs """xyz""") = Ok (bs "{""a"":""x"",""b"":1}")
  /\ json_cut (bs "{""a"":""a\""""}") 5 2 1 (bs """a\""""") = Ok (bs "{""a"":""a""}")
  /\ json_cut (bs "{""a"":""x\u00e9\ny"",""b"":1}") 5 5 4 (bs """x\u00e9\ny""") = Ok (bs "{""a"":""x"",""b"":1}")
  /\ json_cut (bs "{""a"":""x\u00e9\ny"",""b"":1}") 5 5 7 (bs """x\u00e9\ny""") = Ok (bs "{""a"":""x\u00e9\ny"",""b"":1}")
  /\ json_cut (bs "{""a"":""x\u00e9\ny\tz"",""b"":1}") 5 8 7 (bs """x\u00e9\ny\tz""") = Ok (bs "{""a"":""x\u00e9"",""b"":1}")
  /\ json_cut (bs "{""a"":""xyz"",""b"":1}") 0 3 1 (bs """xyz""") = Ok (bs "{""a"":""xyz"",""b"":1}")
  /\ ~ raw_occurs_at (alias_pre ++ QUOTE :: alias_raw ++ QUOTE :: alias_post) 0 (QUOTE :: alias_raw ++ [QUOTE])
  /\ json_cut_many (bs "{""a"":""ab\ncd"",""b"":""x\\y""}") [(18, 3, 2, bs """x\\y"""); (5, 5, 3, bs """ab\ncd""")] = Ok (bs "{""a"":""ab"",""b"":""x""}")
  /\ json_cut_many (bs "{""a"":""ab\ncd"",""b"":""x\\y""}") [(18, 3, 2, bs """x\\y"""); (5, 5, 4, bs """ab\ncd"""); (0, 5, 1, bs """ab\ncd"""); (5, 5, 3, bs """ab\ncd""")] = Ok (bs "{""a"":""ab"",""b"":""x""}")
  /\ Forall jf_ok [(bs "ab\ncd", bs ",""b"":", 5, 4, [3]); (bs "x\\y", bs "}", 3, 2, [])]
  /\ jf_doc [(bs "ab\ncd", bs ",""b"":", 5, 4, [3]); (bs "x\\y", bs "}", 3, 2, [])] = bs """ab\ncd"",""b"":""x\\y""}"
  /\ jf_found 5 [(bs "ab\ncd", bs ",""b"":", 5, 4, [3]); (bs "x\\y", bs "}", 3, 2, [])] = [(5, 5, 4, bs """ab\ncd"""); (5, 5, 3, bs """ab\ncd"""); (18, 3, 2, bs """x\\y""")]
  /\ jf_cut [(bs "ab\ncd", bs ",""b"":", 5, 4, [3]); (bs "x\\y", bs "}", 3, 2, [])] = bs """ab"",""b"":""x""}".
Proof.
  repeat split; try (vm_compute; reflexivity); try exact alias_raw_not_at_0.
  repeat constructor; apply Z.leb_le; reflexivity.
Qed.
