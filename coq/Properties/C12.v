(* C12 — decoders are total and faithful.
   Only statements, each closed by [exact]; models in Model/Decoders/*.v, proofs in Proofs/Decoders/*.v.
   "Never crashes" is [<> Panic p] in the result monad of Base/GoSem.v, where every Go slice / index
   expression of the scanners is a [slice] / [idx] that yields Panic when out of range, and a loop
   that would not terminate within its fuel is a Panic as well. *)
From Verif Require Import Base.Sx Base.GoSem Model.Decoders.Common Model.Decoders.Cri Model.Decoders.Postgres
  Model.Decoders.Nginx Model.Decoders.Syslog Model.Decoders.SyslogRfc3164 Model.Decoders.SyslogRfc5424
  Model.Decoders.Csv Model.Decoders.JsonCut Model.Decoders.ToJson Model.Decoders.Select Model.Decoders.PipeIn Model.Decoders.Params
  Proofs.Decoders.Select Proofs.Decoders.PipeIn Proofs.Decoders.Params
  Proofs.Decoders.Cri Proofs.Decoders.Postgres Proofs.Decoders.Nginx Proofs.Decoders.SyslogRfc3164
  Proofs.Decoders.SyslogRfc5424 Proofs.Decoders.Csv Proofs.Decoders.JsonCut.
From Coq Require Import Permutation.

(* ---- totality: every byte string, every parameter value ---------------------------------------- *)
Theorem c12_cri_total : forall data p, decode_cri data <> Panic p.
Proof. exact decode_cri_total. Qed.
Print Assumptions c12_cri_total.

Theorem c12_postgres_total : forall data p, decode_postgres data <> Panic p.
Proof. exact decode_postgres_total. Qed.
Print Assumptions c12_postgres_total.

(* for every implementation of the "key has only letters" test (unicode.IsLetter over UTF-8) *)
Theorem c12_nginx_total : forall only_letters with_custom_fields data p,
  decode_nginx only_letters with_custom_fields data <> Panic p.
Proof. exact decode_nginx_total. Qed.
Print Assumptions c12_nginx_total.

Theorem c12_syslog_rfc3164_total : forall facility_as_string severity_as_string data p,
  decode_s3164 facility_as_string severity_as_string data <> Panic p.
Proof. exact decode_s3164_total. Qed.
Print Assumptions c12_syslog_rfc3164_total.

Theorem c12_syslog_rfc5424_total : forall facility_as_string severity_as_string data p,
  decode_s5424 facility_as_string severity_as_string data <> Panic p.
Proof. exact decode_s5424_total. Qed.
Print Assumptions c12_syslog_rfc5424_total.

(* for every implementation of bytes.TrimSpace, every delimiter, column count and invalid-line mode *)
Theorem c12_csv_total : forall trim_space delimiter ncolumns continue_mode data p,
  decode_csv_checked trim_space delimiter ncolumns continue_mode data <> Panic p.
Proof. exact decode_csv_checked_total. Qed.
Print Assumptions c12_csv_total.

(* ---- faithfulness ------------------------------------------------------------------------------- *)
Theorem c12_cri_faithful : forall time stream t0 tag log,
  index_byte time SP = -1 -> index_byte stream SP = -1 -> len stream = 6 ->
  index_byte (t0 :: tag) SP = -1 ->
  decode_cri (cri_line time stream (t0 :: tag) log) =
  Ok {| cri_time := time; cri_stream := stream; cri_partial := beq t0 80%N;
        cri_log := if beq t0 80%N then removelast log else log |}.
Proof. exact decode_cri_faithful. Qed.
Print Assumptions c12_cri_faithful.

Theorem c12_postgres_faithful :
  forall t1 t2 t3 pid sep num k1 client k2 db k3 user level log,
  index_byte t1 SP = -1 -> index_byte t2 SP = -1 -> index_byte t3 SP = -1 ->
  index_byte pid RBRACK = -1 -> index_byte sep LBRACK = -1 -> index_byte num RBRACK = -1 ->
  index_byte k1 EQUALS = -1 -> index_byte k1 COMMA = -1 -> index_byte client COMMA = -1 ->
  index_byte k2 EQUALS = -1 -> index_byte k2 COMMA = -1 -> index_byte db COMMA = -1 ->
  index_byte k3 EQUALS = -1 -> index_byte k3 SP = -1 -> index_byte user SP = -1 ->
  index_byte level SP = -1 ->
  decode_postgres (pg_line t1 t2 t3 pid sep num k1 client k2 db k3 user level log) =
  Ok {| pg_time := t1 ++ SP :: t2 ++ SP :: t3; pg_pid := pid; pg_num := num; pg_client := client;
        pg_db := db; pg_user := user; pg_log := log |}.
Proof. exact decode_postgres_faithful. Qed.
Print Assumptions c12_postgres_faithful.

(* "never alters bytes of the caller's buffer": DecodePostgres is the one scanner that WRITES through
   its input (it assembles the time field by appending onto data[:pos]); the field it builds is a
   prefix of the input, so every byte it writes already has that value. (For all decoders the harness
   additionally checks guard bytes around the line on every case; aliasing itself is outside the
   value-level models.) *)
Theorem c12_postgres_time_in_place : forall data row,
  decode_postgres data = Ok row -> exists rest, data = pg_time row ++ SP :: rest.
Proof. exact decode_postgres_time_in_place. Qed.
Print Assumptions c12_postgres_time_in_place.

(* unquoted fields without delimiter / quote / newline, the last one untouched by TrimSpace *)
Theorem c12_csv_faithful : forall trim_space delimiter fields,
  delimiter <> QUOTE -> delimiter <> NL ->
  Forall (fun f => index_byte f delimiter = -1 /\ index_byte f QUOTE = -1 /\ index_byte f NL = -1) fields ->
  csv_line delimiter fields <> [] ->
  trim_space (last fields []) = last fields [] ->
  decode_csv trim_space delimiter (csv_line delimiter fields) = Ok fields.
Proof. exact decode_csv_faithful. Qed.
Print Assumptions c12_csv_faithful.

(* ---- json_max_fields_size: cutFieldsBySize as repaired by ed38629, a08bbd4, 86e6b5f ------------- *)
(* one answer of gjson = (Index, len(Str), limit, Raw) (jfound); these are oracle values.  The model
   evaluates the code's guard "Raw stands at Index" (json_raw_at), finds the closing quote of the string
   at Index itself (json_raw_len) and insists that Raw is exactly that string.  esc_valid = the escaped
   content of a valid JSON string: no bare quote, no control character, every backslash starts a 2-byte
   escape or a 6-byte \uXXXX escape. *)

(* never slices or indexes out of range, for ANY document (valid or not), any len(Str) and any Raw, when
   the limit is not negative (negative limits are rejected when the decoder is built,
   fixes/C12-json-negative-limit.patch), Index is not negative and gjson's Raw - whenever it does stand
   at Index - is the string that starts there (raw_consistent; checked by the harness on every run) *)
Theorem c12_json_cut_total : forall data index strlen limit raw p,
  0 <= limit -> 0 <= index -> raw_consistent data index raw ->
  json_cut data index strlen limit raw <> Panic p.
Proof. exact json_cut_total. Qed.
Print Assumptions c12_json_cut_total.

(* 86e6b5f: an answer whose Raw does not occur in the document at Index (gjson leaves Index at 0 for
   results that are not a slice of the document: a|@this, a|@reverse, [a,z].0) leaves the document
   unchanged when it is the only path, and is ignored - wherever it stands among the answers - when
   there are several *)
Theorem c12_json_cut_index_unknown : forall data index strlen limit raw,
  0 <= index -> ~ raw_occurs_at data index raw ->
  json_cut data index strlen limit raw = Ok data /\
  forall found1 found2,
    json_cut_many data (found1 ++ (index, strlen, limit, raw) :: found2) = json_cut_many data (found1 ++ found2).
Proof.
  intros data index strlen limit raw Hi Hn.
  split; [exact (json_cut_index_unknown data index strlen limit raw Hi Hn)|].
  intros found1 found2. exact (json_cut_many_index_unknown data found1 index strlen limit raw found2 Hi Hn).
Qed.
Print Assumptions c12_json_cut_index_unknown.

(* THE clause "per-field size limits cut only the named string fields and always leave valid JSON":
   in a document  pre "raw" post  the string is replaced by its first k bytes and nothing else changes;
   the kept text is again valid escaped content (no escape sequence is split); a string whose unescaped
   length fits the limit is untouched; otherwise k <= limit and k is the LARGEST such number that leaves
   valid content (so k > limit - 6, and k = limit when position limit does not fall inside an escape) *)
Theorem c12_json_cut_spec : forall pre raw post strlen limit,
  esc_valid raw = true -> 0 <= limit ->
  exists k : nat,
    json_cut (pre ++ QUOTE :: raw ++ QUOTE :: post) (len pre) strlen limit (QUOTE :: raw ++ [QUOTE]) =
      Ok (pre ++ QUOTE :: firstn k raw ++ QUOTE :: post) /\
    (k <= length raw)%nat /\
    esc_valid (firstn k raw) = true /\
    (strlen <= limit -> k = length raw) /\
    (limit < strlen ->
       Z.of_nat k <= limit /\
       (forall k' : nat, (k < k' <= length raw)%nat -> Z.of_nat k' <= limit -> esc_valid (firstn k' raw) = false) /\
       (limit <= len raw -> limit - 6 < Z.of_nat k) /\
       (limit <= len raw -> esc_valid (firstn (Z.to_nat limit) raw) = true -> Z.of_nat k = limit)).
Proof. exact json_cut_spec. Qed.
Print Assumptions c12_json_cut_spec.

(* how much of a string is kept (json_kept, used by the next theorem) has exactly those properties *)
Theorem c12_json_kept_spec : forall raw strlen limit,
  esc_valid raw = true -> 0 <= limit ->
  let k := json_kept raw strlen limit in
  (k <= length raw)%nat /\
  esc_valid (firstn k raw) = true /\
  (strlen <= limit -> k = length raw) /\
  (limit < strlen ->
     Z.of_nat k <= limit /\
     (forall k' : nat, (k < k' <= length raw)%nat -> Z.of_nat k' <= limit -> esc_valid (firstn k' raw) = false) /\
     (limit <= len raw -> limit - 6 < Z.of_nat k) /\
     (limit <= len raw -> esc_valid (firstn (Z.to_nat limit) raw) = true -> Z.of_nat k = limit)).
Proof. exact json_kept_spec. Qed.
Print Assumptions c12_json_kept_spec.

(* several paths (positions found on the original document, sorted by descending start, cut one after
   the other, a position skipped when the next one has the same end - a08bbd4): in a document
   pre "raw1" post1 "raw2" post2 ...  every string may be named by SEVERAL paths (a and \a), each with its
   own limit; gjson's answers are handed over in any order (Go map iteration).  Every named string is cut
   once, by the smallest of the limits given for it (jf_limit; what is kept: c12_json_kept_spec), and
   nothing else changes.  jfield = (raw, post, len(Str), limit, further limits for the same string),
   jf_ok = raw is valid escaped content and no limit is negative; junk = further answers that find
   nothing (finds_nothing: the string fits its limit, or Raw is not at Index - c12_json_cut_index_unknown) *)
Theorem c12_json_cut_many_spec : forall pre fs junk found,
  Forall jf_ok fs -> Forall (finds_nothing (pre ++ jf_doc fs)) junk ->
  Permutation found (jf_found (len pre) fs ++ junk) ->
  json_cut_many (pre ++ jf_doc fs) found = Ok (pre ++ jf_cut fs).
Proof. exact json_cut_many_spec. Qed.
Print Assumptions c12_json_cut_many_spec.

(* the witness that refuted the clause before a08bbd4 ( a : 0123456789 with limits 3 and 5 given by two
   paths for the one string; the second cut removed the closing quote) is now cut once to 012, whatever
   the order of the answers, also for equal limits *)
Lemma c12_json_cut_many_aliased_repaired :
  let doc := alias_pre ++ QUOTE :: alias_raw ++ QUOTE :: alias_post in
  let q := QUOTE :: alias_raw ++ [QUOTE] in
  let out := Ok (alias_pre ++ QUOTE :: firstn 3 alias_raw ++ QUOTE :: alias_post) in
  esc_valid alias_raw = true /\
  json_cut_many doc [(len alias_pre, 10, 3, q); (len alias_pre, 10, 5, q)] = out /\
  json_cut_many doc [(len alias_pre, 10, 5, q); (len alias_pre, 10, 3, q)] = out /\
  json_cut_many doc [(len alias_pre, 10, 3, q); (len alias_pre, 10, 3, q)] = out /\
  (* a|@this next to a: gjson answers Index 0 for the modifier path *)
  json_cut_many doc [(len alias_pre, 10, 3, q); (0, 10, 5, q)] = out /\
  json_cut doc 0 10 5 q = Ok doc.
Proof. exact json_cut_many_aliased_repaired. Qed.
Print Assumptions c12_json_cut_many_aliased_repaired.

(* the runner's executable predicate (Violates when false) is the framing statement of the theorems:
   the output is the document with nothing but the named strings replaced by prefixes of themselves *)
Theorem c12_json_cut_framed : forall pre fs out, Forall jf_ok fs ->
  (json_cut_framed (pre ++ jf_doc fs) (jf_found (len pre) fs) out = Some true <->
   exists ks, length ks = length fs /\ out = pre ++ cut_doc (jf_pairs fs) ks).
Proof. exact json_cut_framed_doc. Qed.
Print Assumptions c12_json_cut_framed.

(* ---- Pipeline.In: the decoder the pipeline selects, and what In does with a line --------------------- *)
(* csv with all three invalid_line_mode values ("fatal" is logger.Fatalf - the distinguished error 5, a configured exit,
   never a Panic); modes other than "fatal" are the two-mode function of c12_csv_total *)
Theorem c12_csv_mode_total : forall trim_space delimiter ncolumns mode data p,
  decode_csv_mode trim_space delimiter ncolumns mode data <> Panic p.
Proof. exact decode_csv_mode_total. Qed.
Print Assumptions c12_csv_mode_total.

Theorem c12_csv_mode_checked : forall trim_space delimiter ncolumns mode data,
  mode <> 2 ->
  decode_csv_mode trim_space delimiter ncolumns mode data =
  decode_csv_checked trim_space delimiter ncolumns (mode =? 1) data.
Proof. exact decode_csv_mode_checked. Qed.
Print Assumptions c12_csv_mode_checked.

(* "Pipeline.In selects the decoder" (decoder.TypeFromString / decoder.New in pipeline.New, SuggestDecoder, the JSON
   fallback of Start, the switch of In): for every configured name, every list of suggested types and every judgement
   of the decoder constructors on the params (pok), a pipeline that starts (no Fatal) has a type the switch of In knows
   - it never reaches logger.Panic("unknown decoder") -, the type is not AUTO any more, and when the switch calls
   p.decoder.DecodeToJson that decoder is not nil and has the pipeline's type *)
Theorem c12_in_selects_decoder : forall pok name suggested st,
  pipe_resolve pok name suggested = Some st ->
  (in_route (ps_type st) <> RUnknown) /\ (ps_type st <> 1) /\
  (in_route (ps_type st) = RDecoder -> ps_dec st = NewDec (ps_type st)).
Proof. exact resolve_safe. Qed.
Print Assumptions c12_in_selects_decoder.

Theorem c12_type_name_roundtrip : forall t, 1 <= t <= 10 -> type_from_string (type_name t) = t.
Proof. exact type_name_roundtrip. Qed.
Print Assumptions c12_type_name_roundtrip.

(* "never crashes the process" at the level of Pipeline.In: checkInputBytes' not-an-event test, the switch (RAW's
   bytes[:len(bytes)-1] included) and the six hand-written scanners, for every configuration that starts, every params
   value and every line *)
Theorem c12_pipeline_in_total : forall pok name suggested st params data p,
  pipe_resolve pok name suggested = Some st ->
  pipe_in (ps_type st) params data <> Panic p.
Proof. exact pipe_in_total. Qed.
Print Assumptions c12_pipeline_in_total.

(* the RAW decoder: the message is the line without its last byte, whatever that byte is *)
Theorem c12_pipeline_in_raw : forall params msg c,
  not_an_event (msg ++ [c]) = false -> pipe_in 3 params (msg ++ [c]) = Ok (SL [SB msg]).
Proof. exact pipe_in_raw. Qed.
Print Assumptions c12_pipeline_in_raw.

Theorem c12_pipeline_in_cri_faithful : forall params time stream t0 tag log,
  index_byte time SP = -1 -> index_byte stream SP = -1 -> len stream = 6 ->
  index_byte (t0 :: tag) SP = -1 ->
  pipe_in 4 params (cri_line time stream (t0 :: tag) log) =
  Ok (sx_cri {| cri_time := time; cri_stream := stream; cri_partial := beq t0 80%N;
                cri_log := if beq t0 80%N then removelast log else log |}).
Proof. exact pipe_in_cri_faithful. Qed.
Print Assumptions c12_pipeline_in_cri_faithful.

(* a refused line yields no event: EventSeqIDError, or a Fatal log entry under is_strict / csv "fatal" *)
Theorem c12_pipeline_in_refused : forall strict t params meta data e,
  pipe_in t params data = Err e ->
  pipe_item strict t params meta data = Some (SL [SZ 0]) \/ pipe_item strict t params meta data = Some (SL [SZ 4]).
Proof. exact pipe_item_refused. Qed.
Print Assumptions c12_pipeline_in_refused.

(* ---- the parameter checks of the constructors (decoder.New -> extract*Params) ------------------------ *)
(* the former assumption "json_max_fields_size limits are >= 0" (hypothesis 0 <= limit of c12_json_cut_total): whatever
   extractJsonParams accepts - int, float64 (truncated toward zero), json.Number - has no negative limit *)
Theorem c12_json_params_nonneg : forall params limits,
  json_params params = Ok limits -> Forall (fun kv => 0 <= snd kv) limits.
Proof. exact json_params_nonneg. Qed.
Print Assumptions c12_json_params_nonneg.

(* every csv decoder that can be built has a delimiter other than NUL, the quote, CR and LF ... *)
Theorem c12_csv_params_delimiter : forall params c,
  csv_params params = Ok c ->
  cc_delim c <> 0%N /\ cc_delim c <> QUOTE /\ cc_delim c <> 13%N /\ cc_delim c <> NL.
Proof. exact csv_params_delim. Qed.
Print Assumptions c12_csv_params_delimiter.

(* ... so the faithfulness of csv holds for it without a hypothesis on the delimiter *)
Theorem c12_csv_built_faithful : forall params c trim_space fields,
  csv_params params = Ok c ->
  Forall (fun f => index_byte f (cc_delim c) = -1 /\ index_byte f QUOTE = -1 /\ index_byte f NL = -1) fields ->
  csv_line (cc_delim c) fields <> [] ->
  trim_space (last fields []) = last fields [] ->
  decode_csv trim_space (cc_delim c) (csv_line (cc_delim c) fields) = Ok fields.
Proof. exact csv_built_faithful. Qed.
Print Assumptions c12_csv_built_faithful.

Theorem c12_syslog_params_formats : forall params ff sf,
  syslog_params params = Ok (ff, sf) ->
  (ff = K_number \/ ff = K_string) /\ (sf = K_number \/ sf = K_string).
Proof. exact syslog_params_formats. Qed.
Print Assumptions c12_syslog_params_formats.

(* no parameter check panics, whatever the Params hold (any Go value under any key) *)
Theorem c12_params_total : forall kind params compiles has_message m,
  params_model kind params compiles has_message = Some m -> is_bad_obs m = false.
Proof. exact params_total. Qed.
Print Assumptions c12_params_total.

(* ---- non-vacuity --------------------------------------------------------------------------------- *)
From Coq Require Import Strings.String.
Local Open Scope Z_scope.

(* the documented examples decode to their fields; the inputs that used to crash are errors or
   (CRI, CSV) well-defined rows *)
Example c12_cri_nonvacuous :
  decode_cri (bs "2016-10-06T00:17:09.669794202Z stdout P log content 1") =
    Ok {| cri_time := bs "2016-10-06T00:17:09.669794202Z"; cri_stream := bs "stdout"; cri_partial := true;
          cri_log := bs "log content " |}
  /\ decode_cri (bs " stdout P ") = Ok {| cri_time := []; cri_stream := bs "stdout"; cri_partial := true; cri_log := [] |}
  /\ decode_cri (bs "t stdout") = Err 2.
Proof. repeat split; vm_compute; reflexivity. Qed.

Example c12_postgres_nonvacuous :
  decode_postgres (bs "2021-06-22 16:24:27 GMT [7291] => [3-1] client=test_client,db=test_db,user=test_user LOG:  listening") =
    Ok {| pg_time := bs "2021-06-22 16:24:27 GMT"; pg_pid := bs "7291"; pg_num := bs "3-1"; pg_client := bs "test_client";
          pg_db := bs "test_db"; pg_user := bs "test_user"; pg_log := bs "listening" |}
  /\ decode_postgres (bs "a b c ]") = Err 2
  /\ decode_postgres (bs "a b c [1] [2] ,=") = Err 6
  /\ decode_postgres (bs "a b c [1] [2] a=b,c=d,e=f L ") = Err 11.
Proof. repeat split; vm_compute; reflexivity. Qed.

Example c12_nginx_nonvacuous :
  decode_nginx ascii_only_letters true
    (bs "2022/08/17 10:49:27 [error] 2725122#2725122: *792412315 lua udp socket read timed out, context: ngx.timer") =
    Ok {| ng_time := bs "2022/08/17 10:49:27"; ng_level := bs "error"; ng_pid := bs "2725122"; ng_tid := bs "2725122";
          ng_cid := bs "792412315"; ng_msg := bs "lua udp socket read timed out";
          ng_fields := [(bs "context", bs "ngx.timer")] |}.
Proof. vm_compute; reflexivity. Qed.

Example c12_syslog_nonvacuous :
  decode_s3164 false true (bs "<34>Oct 11 22:14:15 mymachine myproc[10]: failed") =
    Ok {| s3_pri := bs "34"; s3_fac := bs "4"; s3_sev := bs "CRIT"; s3_ts := bs "Oct 11 22:14:15"; s3_host := bs "mymachine";
          s3_app := bs "myproc"; s3_procid := bs "10"; s3_msg := bs "failed" |}
  /\ decode_s3164 false false (bs "<34>Oct 11 22:14:15 h a[]") = Err E_FORMAT
  /\ decode_s5424 false false (bs "<165>1 2003-10-11T22:14:15.003Z host app 10 ID47 [ex@1 iut=""3"" b=""x""] An event") =
    Ok {| s5_pri := bs "165"; s5_fac := bs "20"; s5_sev := bs "5"; s5_ver := bs "1"; s5_ts := bs "2003-10-11T22:14:15.003Z";
          s5_host := bs "host"; s5_app := bs "app"; s5_procid := bs "10"; s5_msgid := bs "ID47"; s5_msg := bs "An event";
          s5_sd := [(bs "ex@1", [(bs "b", bs "x"); (bs "iut", bs "3")])] |}
  /\ decode_s5424 false false (bs "<1>1 - - - - - [id ]") = Err E_SD.
Proof. repeat split; vm_compute; reflexivity. Qed.

Example c12_csv_nonvacuous :
  decode_csv_checked ascii_trim_space 44%N 0 false (bs "a,""b """" ,c"",d ") = Ok [bs "a"; bs "b "" ,c"; bs "d"]
  /\ decode_csv_checked ascii_trim_space 44%N 0 false (bs "a,") = Ok [bs "a"; []]
  /\ decode_csv_checked ascii_trim_space 44%N 0 false (bs """a""") = Ok [bs "a"]
  /\ decode_csv_checked ascii_trim_space 44%N 3 false (bs "a,b") = Err 4.
Proof. repeat split; vm_compute; reflexivity. Qed.

(* the hypotheses of the faithfulness theorems are satisfiable on the documented lines *)
Example c12_faithful_nonvacuous :
  (index_byte (bs "2016-10-06T00:17:09.669794202Z") SP = -1 /\ index_byte (bs "stderr") SP = -1 /\
   len (bs "stderr") = 6 /\ index_byte (bs "F") SP = -1)
  /\ pg_line (bs "2021-06-22") (bs "16:24:27") (bs "GMT") (bs "7291") (bs " => ") (bs "3-1") (bs " client") (bs "c")
              (bs "db") (bs "d") (bs "user") (bs "u") (bs "LOG:") (bs "listening")
      = bs "2021-06-22 16:24:27 GMT [7291] => [3-1] client=c,db=d,user=u LOG:  listening"
  /\ csv_line 44%N [bs "a"; []; bs "c d"] = bs "a,,c d".
Proof. repeat split; vm_compute; reflexivity. Qed.

(* valid escaped content exists (two-byte escapes, \uXXXX, a surrogate pair, UTF-8 text), strings with
   escapes are cut at an escape boundary, several at once too *)
Example c12_json_cut_nonvacuous :
  esc_valid (bs "x\u00e9\n\\y\""z\ud83d\ude00 é") = true
  /\ esc_valid (bs "a\") = false /\ esc_valid (bs "a\u00e") = false /\ esc_valid (bs "a""b") = false
  /\ json_cut (bs "{""a"":""xyz"",""b"":1}") 5 3 1 (bs """xyz""") = Ok (bs "{""a"":""x"",""b"":1}")
  /\ json_cut (bs "{""a"":""a\""""}") 5 2 1 (bs """a\""""") = Ok (bs "{""a"":""a""}")
  /\ json_cut (bs "{""a"":""x\u00e9\ny"",""b"":1}") 5 5 4 (bs """x\u00e9\ny""") = Ok (bs "{""a"":""x"",""b"":1}")
  /\ json_cut (bs "{""a"":""x\u00e9\ny"",""b"":1}") 5 5 7 (bs """x\u00e9\ny""") = Ok (bs "{""a"":""x\u00e9\ny"",""b"":1}")
  /\ json_cut (bs "{""a"":""x\u00e9\ny\tz"",""b"":1}") 5 8 7 (bs """x\u00e9\ny\tz""") = Ok (bs "{""a"":""x\u00e9"",""b"":1}")
  /\ json_cut (bs "{""a"":""xyz"",""b"":1}") 0 3 1 (bs """xyz""") = Ok (bs "{""a"":""xyz"",""b"":1}")
  /\ ~ raw_occurs_at (alias_pre ++ QUOTE :: alias_raw ++ QUOTE :: alias_post) 0 (QUOTE :: alias_raw ++ [QUOTE])
  /\ json_cut_many (bs "{""a"":""ab\ncd"",""b"":""x\\y""}") [(18, 3, 2, bs """x\\y"""); (5, 5, 3, bs """ab\ncd""")] = Ok (bs "{""a"":""ab"",""b"":""x""}")
  /\ json_cut_many (bs "{""a"":""ab\ncd"",""b"":""x\\y""}") [(18, 3, 2, bs """x\\y"""); (5, 5, 4, bs """ab\ncd"""); (0, 5, 1, bs """ab\ncd"""); (5, 5, 3, bs """ab\ncd""")] = Ok (bs "{""a"":""ab"",""b"":""x""}")
  /\ Forall jf_ok [(bs "ab\ncd", bs ",""b"":", 5, 4, [3]); (bs "x\\y", bs "}", 3, 2, [])]
  /\ jf_doc [(bs "ab\ncd", bs ",""b"":", 5, 4, [3]); (bs "x\\y", bs "}", 3, 2, [])] = bs """ab\ncd"",""b"":""x\\y""}"
  /\ jf_found 5 [(bs "ab\ncd", bs ",""b"":", 5, 4, [3]); (bs "x\\y", bs "}", 3, 2, [])] = [(5, 5, 4, bs """ab\ncd"""); (5, 5, 3, bs """ab\ncd"""); (18, 3, 2, bs """x\\y""")]
  /\ jf_cut [(bs "ab\ncd", bs ",""b"":", 5, 4, [3]); (bs "x\\y", bs "}", 3, 2, [])] = bs """ab"",""b"":""x""}".
Proof.
  repeat split; try (vm_compute; reflexivity); try exact alias_raw_not_at_0.
  repeat constructor; apply Z.leb_le; reflexivity.
Qed.

Example c12_pipeline_in_nonvacuous :
  (* "auto" + SuggestDecoder(NO), (CRI), (POSTGRES): the first suggestion that is a type wins *)
  pipe_resolve (fun _ => true) (bs "auto") [0; 4; 5] = Some {| ps_type := 4; ps_dec := NewNil; ps_params := true |}
  (* "auto" alone: JSON, built without the params *)
  /\ pipe_resolve (fun _ => true) (bs "auto") [] = Some {| ps_type := 2; ps_dec := NewDec 2; ps_params := false |}
  /\ pipe_resolve (fun _ => true) (bs "csv") [4] = Some {| ps_type := 10; ps_dec := NewDec 10; ps_params := true |}
  /\ pipe_resolve (fun _ => true) (bs "jsonl") [] = None
  /\ pipe_resolve (fun t => negb (t =? 7)) (bs "auto") [7] = None
  /\ pipe_in 3 (SL [SZ 0]) (bs "x") = Ok (SL [SB []])
  /\ pipe_in 3 (SL [SZ 0]) [NL] = Err 0
  /\ pipe_item false 10 (SL [SZ 10; SZ 59; SZ 2; SZ 2; SB (bs "p_")]) [] (bs "a;b;c") = Some (SL [SZ 4])
  /\ pipe_item false 10 (SL [SZ 10; SZ 59; SZ 2; SZ 1; SB (bs "p_")]) [(bs "m", bs "v")] (bs "a;b;c") =
       Some (SL [SZ 1; SL [SL [SB (bs "c0"); SB (bs "a")]; SL [SB (bs "c1"); SB (bs "b")]; SL [SB (bs "m"); SB (bs "v")];
                          SL [SB (bs "p_2"); SB (bs "c")]]])
  /\ pipe_item true 4 (SL [SZ 0]) [] (bs "bad") = Some (SL [SZ 4])
  /\ select_model (bs "syslog_rfc5424") = SL [SZ 9; SZ 1; SZ 9]
  /\ select_model (bs "cri") = SL [SZ 4; SZ 0]
  /\ select_model (bs "CRI") = SL [SZ 0; SZ 2].
Proof. repeat split; vm_compute; reflexivity. Qed.

Example c12_params_nonvacuous :
  json_params [SL [SB K_json_max_fields_size; SL [SZ 4; SL [SB (bs "a"); SL [SZ 5; SZ (-1)]]; SL [SB (bs "b"); SL [SZ 6; SB (bs "+12")]]]]]
    = Ok [(bs "a", 0); (bs "b", 12)]
  /\ json_params [SL [SB K_json_max_fields_size; SL [SZ 4; SL [SB (bs "a"); SL [SZ 1; SZ (-1)]]]]] = Err 3
  /\ json_params [SL [SB K_json_max_fields_size; SL [SZ 4; SL [SB (bs "a"); SL [SZ 6; SB (bs "1.5")]]]]] = Err 2
  /\ json_params [SL [SB K_json_max_fields_size; SL [SZ 3]]] = Err 1
  /\ csv_params [SL [SB K_delimiter; SL [SZ 0; SB [QUOTE]]]] = Err 6
  /\ csv_params [SL [SB K_delimiter; SL [SZ 0; SB (bs ";;")]]] = Err 5
  /\ csv_params [SL [SB K_columns; SL [SZ 3; SL [SZ 0; SB (bs "x")]]]; SL [SB K_delimiter; SL [SZ 0; SB (bs ";")]]]
     = Ok {| cc_columns := [bs "x"]; cc_prefix := []; cc_mode := K_default; cc_delim := 59%N |}
  /\ syslog_params [SL [SB K_syslog_severity_format; SL [SZ 0; SB (bs "str")]]] = Err 4
  /\ proto_params [SL [SB K_proto_file; SL [SZ 0; SB (bs "x")]]] true true = Err 3.
Proof. repeat split; vm_compute; reflexivity. Qed.
