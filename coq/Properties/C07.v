(* C07 — the offsets file is always a loadable snapshot, never ahead of commits.
   Only statements, each closed by [exact]; proofs live in Proofs/OffsetsFmt.v, Proofs/FsCrash.v,
   Proofs/OffsetsSnap.v, Proofs/OffsetsProv.v.  [filed_save_protocol] / [generic_save_protocol] are GENERATED from the Go source
   (Gen/SaveProtocol.v): if offsetDB.save or offset.Save stops syncing before the rename, or renames after
   a failed write/fsync, [eq_refl] below no longer type-checks. *)
From Verif Require Import Base.Sx Base.GoSem Model.OffsetsFmt Model.FsCrash Model.OffsetsSnap Model.OffsetsProv Gen.SaveProtocol
  Proofs.OffsetsFmt Proofs.FsCrash Proofs.OffsetsSnap Proofs.OffsetsProv.
From Coq Require Import Lia.

(* ---- format: the parser loads back exactly what the writer printed --------------------------------
   for every job table whose file names and stream names contain no newline (stream names may be empty,
   contain ':' or blanks or any other byte), source ids pairwise different, stream names of one job
   pairwise different, inode / source id < 2^64, timestamp an int64, offsets 0 .. 2^63-1 *)
Theorem c07_parse_print :
  forall js : list job,
    (Forall (fun j =>
       ~ In NL (jfile j) /\ (jinode j < 2 ^ 64)%N /\ (jsid j < 2 ^ 64)%N /\ (- 2 ^ 63 <= jts j < 2 ^ 63)%Z /\
       Forall (fun so => ~ In NL (fst so) /\ (0 <= snd so < 2 ^ 63)%Z) (jstreams j) /\
       NoDup (map fst (jstreams j))) js /\
     NoDup (map jsid (filter has_streams js))) ->
    parse (print_jobs js) = Ok (map view (filter has_streams js)).
Proof. exact parse_print. Qed.
Print Assumptions c07_parse_print.

(* names containing a newline (known finding C07-newline-name; c07_parse_print above is the strongest true
   restriction): the stream name "a\nb" makes the file unloadable, the stream name "x: 1\n    y" makes it
   load as the two streams x -> 1 and y -> 2 *)
Theorem c07_parse_print_newline_refuted :
  (exists e, parse (print_jobs [nl_job_unloadable]) = Err e) /\
  parse (print_jobs [nl_job_forged]) =
    Ok [{| efile := [102]%N; esid := 1%N; ets := Some 0%Z; estreams := [([120]%N, 1%Z); ([121]%N, 2%Z)] |}] /\
  parse (print_jobs [nl_job_forged]) <> Ok (expected_load [nl_job_forged]).
Proof. exact parse_print_newline_refuted. Qed.
Print Assumptions c07_parse_print_newline_refuted.

(* ---- protocol: every crash point, every pattern of failing calls -----------------------------------
   for the protocol p GENERATED from the source, every old and new content, every device behaviour
   (oracle: which calls fail, how much a failing write transferred):
   1. in every state the run goes through, a reader of the offsets file sees the complete old or the
      complete new snapshot, and so does whoever reads it after a power loss in that state;
   2. whenever a rename succeeds, no write or fsync has failed before it and the temp file's volatile AND
      durable content is exactly the new snapshot (durable before it replaces; an unsuccessful write
      never replaces a good file);
   3. when no call fails, the new snapshot is in place at the end. *)
Theorem c07_save_crash_safe_filed :
  forall (old new : bytes) (o : oracle),
    let evs := run_proto new filed_save_protocol o fs0 in
    Forall (fun s =>
              (reader_sees old s = old \/ reader_sees old s = new) /\
              (forall c, after_crash old s c -> c = old \/ c = new))
           (states new fs0 evs) /\
    (forall pre e post, evs = pre ++ e :: post -> eop e = OpRename -> eok e = true ->
       let s := fs_run new fs0 pre in ws_failed s = false /\ vol s = new /\ dur s = new) /\
    (o = [] -> reader_sees old (fs_run new fs0 evs) = new).
Proof. exact (protocol_safe_sound filed_save_protocol eq_refl). Qed.
Print Assumptions c07_save_crash_safe_filed.

Theorem c07_save_crash_safe_generic :
  forall (old new : bytes) (o : oracle),
    let evs := run_proto new generic_save_protocol o fs0 in
    Forall (fun s =>
              (reader_sees old s = old \/ reader_sees old s = new) /\
              (forall c, after_crash old s c -> c = old \/ c = new))
           (states new fs0 evs) /\
    (forall pre e post, evs = pre ++ e :: post -> eop e = OpRename -> eok e = true ->
       let s := fs_run new fs0 pre in ws_failed s = false /\ vol s = new /\ dur s = new) /\
    (o = [] -> reader_sees old (fs_run new fs0 evs) = new).
Proof. exact (protocol_safe_sound generic_save_protocol eq_refl). Qed.
Print Assumptions c07_save_crash_safe_generic.

(* the decision procedure behind the two theorems above is sound for every protocol *)
Theorem c07_protocol_safe_sound : forall p, protocol_safe p = true -> crash_safe p.
Proof. exact protocol_safe_sound. Qed.
Print Assumptions c07_protocol_safe_sound.

(* ... and the code as it was before the repairs (and the rename-before-fsync mutation) is refuted *)
Theorem c07_save_after_failed_write_refuted : ~ crash_safe legacy_filed_protocol.
Proof. exact legacy_filed_refuted. Qed.
Print Assumptions c07_save_after_failed_write_refuted.

Theorem c07_save_without_sync_refuted : ~ crash_safe legacy_generic_protocol.
Proof. exact legacy_generic_refuted. Qed.
Print Assumptions c07_save_without_sync_refuted.

Theorem c07_rename_before_sync_refuted : ~ crash_safe rename_before_sync_protocol.
Proof. exact rename_before_sync_refuted. Qed.
Print Assumptions c07_rename_before_sync_refuted.

(* the harness' executable predicate on an observed system-call trace means the same *)
Theorem c07_trace_safe_sound :
  forall old new evs, trace_safe new evs = true ->
    (reader_sees old (fs_run new fs0 evs) = old \/ reader_sees old (fs_run new fs0 evs) = new) /\
    (forall c, after_crash old (fs_run new fs0 evs) c -> c = old \/ c = new).
Proof. exact trace_safe_sound. Qed.
Print Assumptions c07_trace_safe_sound.

Theorem c07_trace_safe_prefix :
  forall new pre post, trace_safe new (pre ++ post) = true -> trace_safe new pre = true.
Proof. exact trace_safe_prefix. Qed.
Print Assumptions c07_trace_safe_prefix.

(* ---- recovery: what a restarted process LOADS after a crash of a save -----------------------------------
   [old] : option bytes — None = there is no offsets file yet (the crash hits the very FIRST save).
   [crash_dir old s d]: the directory d a crash in state s may leave — the name cur still bound to what it held
   before the save, or (after the rename) to the new inode with its durable content, or anything if that inode
   was not synced; NOTHING is assumed about what is left under the temp name (absent, empty, a torn prefix of
   any length, the complete new snapshot, garbage).  [load_dir] — the loader of both savers — reads only the
   committed file; a missing file is the empty state.  For the protocol GENERATED from the source, every old,
   every new, every device behaviour, every crash point and every such directory: the loaded state is the one
   committed before the save (the empty state when there was none) or the complete new one.
   Instantiated with the model of the real parser (offsetDB.load) and with the identity (Offset.Load hands the
   bytes to the callback). *)
Theorem c07_load_after_crash_filed :
  forall (old : option bytes) (new : bytes) (o : oracle),
    Forall (fun s => forall d : dir,
              (dcur d = old \/ (cur_new s = true /\ exists c, dcur d = Some c /\ (c = dur s \/ vol s <> dur s))) ->
              load_dir parse (Ok []) d = match old with None => Ok [] | Some b => parse b end \/
              load_dir parse (Ok []) d = parse new)
           (states new fs0 (run_proto new filed_save_protocol o fs0)).
Proof. exact (load_after_crash filed_save_protocol eq_refl (res (list entry)) parse (Ok [])). Qed.
Print Assumptions c07_load_after_crash_filed.

Theorem c07_load_after_crash_generic :
  forall (old : option bytes) (new : bytes) (o : oracle),
    Forall (fun s => forall d : dir,
              (dcur d = old \/ (cur_new s = true /\ exists c, dcur d = Some c /\ (c = dur s \/ vol s <> dur s))) ->
              load_dir (@Some bytes) None d = old \/ load_dir (@Some bytes) None d = Some new)
           (states new fs0 (run_proto new generic_save_protocol o fs0)).
Proof. exact (load_after_crash_raw generic_save_protocol eq_refl). Qed.
Print Assumptions c07_load_after_crash_generic.

(* for every protocol the decision procedure accepts, every value type and decoder *)
Theorem c07_load_after_crash_sound :
  forall p, protocol_safe p = true ->
  forall (A : Type) (decode : bytes -> A) (empty : A) (old : option bytes) (new : bytes) (o : oracle),
    Forall (fun s => forall d, crash_dir old s d ->
                       load_dir decode empty d = load_old decode empty old \/ load_dir decode empty d = decode new)
           (states new fs0 (run_proto new p o fs0)).
Proof. exact load_after_crash. Qed.
Print Assumptions c07_load_after_crash_sound.

(* the crash points the harness realises on the real code (stream family 'crash-load': before the first call,
   the write interrupted after cut bytes, before the rename, done) are states of a run of the protocol, so the
   verdict of which 6 is an instance of the theorem: whatever is left under the temp name *)
Theorem c07_crash_point_recovery :
  forall p, protocol_safe p = true ->
  forall (A : Type) (decode : bytes -> A) (empty : A) (old : option bytes) (new : bytes) (cp : crashpt) (tmp : option bytes),
    let d := {| dcur := dcur (kill_dir old (crash_state p new cp)); dtmp := tmp |} in
    load_dir decode empty d = load_old decode empty old \/ load_dir decode empty d = decode new.
Proof. exact crash_point_recovery. Qed.
Print Assumptions c07_crash_point_recovery.

Theorem c07_crash_state_is_a_crash_point :
  forall p new cp, In (crash_state p new cp) (states new fs0 (run_proto new p (crash_oracle p new cp) fs0)).
Proof. exact crash_state_in_states. Qed.
Print Assumptions c07_crash_state_is_a_crash_point.

(* a loader that falls back to the temp file when the offsets file is missing is refuted: the first save of the
   snapshot [1; 2] is killed after one byte reached the temp file; the restart loads [1], which is neither the
   empty state nor the new snapshot (the loader that reads only the committed file yields the empty state) *)
Theorem c07_load_fallback_to_tmp_refuted :
  protocol_safe tmp_sync_rename_protocol = true /\
  exists (new : bytes) (cp : crashpt),
    let d := kill_dir None (crash_state tmp_sync_rename_protocol new cp) in
    load_dir_fallback (@Some bytes) None d <> load_old (@Some bytes) None None /\
    load_dir_fallback (@Some bytes) None d <> Some new /\
    load_dir (@Some bytes) None d = None.
Proof. exact fallback_load_refuted. Qed.
Print Assumptions c07_load_fallback_to_tmp_refuted.

(* ---- commits vs saves: every interleaving of the labels, several saves of one offsetDB in flight ---------
   every block (job, offsets) of the offsets file, of the shared buffer, of every temp file, is the offsets map
   that job had at an earlier instant (the instant a save held the job's lock), and none of its offsets exceeds
   what is committed now — whether or not save keeps o.mu until the rename *)
Theorem c07_snapshot_not_ahead :
  forall (hold : bool) (ls : list label) (c : cst),
    run_lts hold cst0 ls = Some c ->
    forall j m,
      (In (j, m) (file c) \/ In (j, m) (buf c) \/
       (exists i tmp, In (i, Written tmp) (saves c) /\ In (j, m) tmp) \/
       (exists i b, In (i, b) (built c) /\ In (j, m) b)) ->
      (exists t, In t (live c :: hist c) /\ tget t j = Some m) /\
      (exists m', tget (live c) j = Some m' /\ forall s, sget m s <= sget m' s).
Proof. exact snapshot_not_ahead. Qed.
Print Assumptions c07_snapshot_not_ahead.

(* the offsets file is always ONE complete snapshot — untouched, or exactly the buffer one save serialised from
   the first to the last job of its job list — for every interleaving of overlapping saves and commits, GIVEN
   what the code's mutual exclusion provides: [save_holds_mu_until_rename] is read off the Go AST
   (Gen/SaveProtocol.v); if save releases o.mu before the write/rename this statement no longer type-checks *)
Theorem c07_file_is_one_complete_snapshot :
  forall (ls : list label) (c : cst),
    run_lts save_holds_mu_until_rename cst0 ls = Some c ->
    if renamed c then exists i, In (i, file c) (built c) else file c = [].
Proof. exact file_complete_when_mu_held. Qed.
Print Assumptions c07_file_is_one_complete_snapshot.

(* with the lock released once the buffer is built, two overlapping saves leave a truncated file *)
Theorem c07_overlapping_saves_refuted :
  exists c, run_lts false cst0 overlap_trace = Some c /\
            file c = [(1%N, [([97%N], 5)])] /\
            built c = [(1%nat, [(1%N, [([97%N], 5)]); (2%N, [([97%N], 6)])])] /\
            ~ file_complete c.
Proof. exact file_complete_refuted_when_mu_released. Qed.
Print Assumptions c07_overlapping_saves_refuted.

(* ---- the provider around the file (Model/OffsetsProv.v): histories of commit / save / truncation / done / maintenance /
   restart on one jobProvider, persistence mode async or sync, offsets_op continue / tail / reset -----------------------
   in every state of every history the offsets file loads back to the complete snapshot of the job table of that state
   or of a state before it (never a later one, never a mixture) *)
Theorem c07_provider_file_is_earlier_snapshot :
  forall cfg fs ops pre st post,
    pstates cfg (pinit cfg fs) ops = pre ++ st :: post ->
    exists st', In st' (pre ++ [st]) /\ p_file st = snap (p_jobs st').
Proof. exact prov_file_is_earlier_snapshot. Qed.
Print Assumptions c07_provider_file_is_earlier_snapshot.

(* the list the executable predicate of stream family 'provider-history' searches (snapshot of the current table and of
   every earlier one) contains the model's file after every operation *)
Theorem c07_provider_file_in_history :
  forall cfg fs ops,
    Forall (fun zs => In (p_file (snd zs)) (snap (p_jobs (snd zs)) :: p_hist (snd zs))) (prun cfg (pinit cfg fs) ops).
Proof. exact prov_file_in_history. Qed.
Print Assumptions c07_provider_file_in_history.

(* what must not count does not count: an event of an unknown source, of a kind other than regular / childParent, or
   numbered at or below the truncation mark leaves table and file as they are, in both persistence modes *)
Theorem c07_provider_ignored_commit :
  forall cfg st fi kind seq s off,
    (find_job (p_jobs st) fi = None \/
     commits_kind kind = false \/
     exists j, find_job (p_jobs st) fi = Some j /\ seq <= pj_ign j) ->
    pstep cfg st (PCommit fi kind seq s off) = (0, st).
Proof. exact prov_ignored_commit. Qed.
Print Assumptions c07_provider_ignored_commit.

(* an offset is stored only strictly above the stored one; otherwise commit panics and nothing changes *)
Theorem c07_provider_commit_not_above :
  forall cfg st fi kind seq s off j,
    find_job (p_jobs st) fi = Some j -> commits_kind kind = true -> pj_ign j < seq -> off <= sget (pj_offs j) s ->
    pstep cfg st (PCommit fi kind seq s off) = (7, st).
Proof. exact prov_commit_not_above. Qed.
Print Assumptions c07_provider_commit_not_above.

(* stop + start with offsets_op continue: every job that had offsets and whose file is still there is back with exactly
   its offsets and EOF time, no new job holds anything else, and the file is the snapshot stop() took *)
Theorem c07_provider_restart_restores :
  forall cfg st,
    pc_op0 cfg = 0 -> NoDup (map pj_id (p_jobs st)) ->
    let st' := snd (pstep cfg st (PRestart false)) in
    (forall j f, In j (p_jobs st) -> nonempty (pj_offs j) = true ->
                 In f (p_files st) -> pf_id f = pj_id j -> pf_disk f = true ->
                 exists j', In j' (p_jobs st') /\ pj_id j' = pj_id j /\ pj_offs j' = pj_offs j /\ pj_ts j' = pj_ts j) /\
    (forall j', In j' (p_jobs st') ->
                pj_offs j' = [] \/
                exists j, In j (p_jobs st) /\ pj_id j = pj_id j' /\ pj_offs j' = pj_offs j /\ pj_ts j' = pj_ts j) /\
    p_file st' = snap (p_jobs st).
Proof. exact prov_restart_restores. Qed.
Print Assumptions c07_provider_restart_restores.

Theorem c07_provider_restart_without_continue :
  forall cfg st crash,
    pc_op0 cfg <> 0 ->
    forall j', In j' (p_jobs (snd (pstep cfg st (PRestart crash)))) -> pj_offs j' = [].
Proof. exact prov_restart_without_continue. Qed.
Print Assumptions c07_provider_restart_without_continue.

(* ---- non-vacuity ------------------------------------------------------------------------------------ *)
(* a table with the stream names "", ":", "a: 5", "- file: x", "  streams:", a non-ASCII one, offsets 0 and
   2^63-1, a negative timestamp, a file name with blanks and ':' — it is well-formed and round-trips *)
Definition c07_sample : list job :=
  [ {| jfile := [47; 118; 32; 58; 32; 120]%N; jinode := 18446744073709551615%N; jsid := 7%N; jts := (-5)%Z;
       jstreams := [([]%N, 9223372036854775807%Z); ([58]%N, 0%Z); ([97; 58; 32; 53]%N, 12%Z);
                    ([45; 32; 102; 105; 108; 101; 58; 32; 120]%N, 1%Z);
                    ([32; 32; 115; 116; 114; 101; 97; 109; 115; 58]%N, 2%Z); ([208; 182]%N, 3%Z)] |};
    {| jfile := [98]%N; jinode := 1%N; jsid := 8%N; jts := 0%Z; jstreams := [] |};
    {| jfile := [99]%N; jinode := 2%N; jsid := 0%N; jts := 9223372036854775807%Z; jstreams := [([115]%N, 5%Z)] |} ].

Example c07_format_nonvacuous :
  table_wf c07_sample /\
  parse (print_jobs c07_sample) = Ok (map view (filter has_streams c07_sample)) /\
  length (filter has_streams c07_sample) = 2%nat.
Proof.
  split; [|split; vm_compute; reflexivity].
  split.
  - repeat constructor; unfold noNL, NL; cbn; try lia; try (intuition discriminate).
  - cbn. repeat constructor; cbn; intuition discriminate.
Qed.

(* the generated protocols are accepted; a device failing the write, a device failing the fsync *)
Example c07_protocol_nonvacuous :
  protocol_safe filed_save_protocol = true /\ protocol_safe generic_save_protocol = true /\
  protocol_safe legacy_filed_protocol = false /\ protocol_safe legacy_generic_protocol = false /\
  protocol_safe rename_before_sync_protocol = false /\
  reader_sees [9%N] (fs_run [1%N] fs0 (run_proto [1%N] filed_save_protocol [] fs0)) = [1%N] /\
  reader_sees [9%N] (fs_run [1%N] fs0 (run_proto [1%N] filed_save_protocol [None; Some 0%nat] fs0)) = [9%N] /\
  reader_sees [9%N] (fs_run [1%N] fs0 (run_proto [1%N] generic_save_protocol [None; None; Some 0%nat] fs0)) = [9%N].
Proof. vm_compute. repeat split; reflexivity. Qed.

(* a commit lands between "save begins" and "save locks the job", another one after it: the file holds the
   offset of the lock instant (9), below the committed 12; a second save waits for the first one's rename *)
Example c07_snapshot_nonvacuous :
  save_holds_mu_until_rename = true /\
  (exists c, run_lts true cst0 [LAddJob 1; LCommit 1 [97%N] 5; LSaveBegin 1; LCommit 1 [97%N] 9; LSaveJob 1;
                                LSaveBuilt 1; LCommit 1 [97%N] 12; LSaveWrite 1; LSaveRename 1;
                                LSaveBegin 2; LSaveJob 2; LSaveBuilt 2] = Some c /\
             file c = [(1%N, [([97%N], 9)])] /\ tget (live c) 1%N = Some [([97%N], 12)] /\
             buf c = [(1%N, [([97%N], 12)])]) /\
  run_lts true cst0 [LAddJob 1; LSaveBegin 1; LSaveBegin 2] = None.
Proof. split; [reflexivity|]. split; [eexists; vm_compute; repeat split; reflexivity | reflexivity]. Qed.

(* recovery: the first save (no offsets file yet) of the generated generic protocol killed after 1 of 2 bytes
   leaves no offsets file and a torn temp file, the loader yields the empty state; killed before the rename it
   leaves the complete temp file, still the empty state; after the save the new snapshot; with an old file the
   old one *)
Example c07_recovery_nonvacuous :
  kill_dir None (crash_state generic_save_protocol [1%N; 2%N] (CWrite 1)) = {| dcur := None; dtmp := Some [1%N] |} /\
  kill_dir None (crash_state generic_save_protocol [1%N; 2%N] CBeforeRename) = {| dcur := None; dtmp := Some [1%N; 2%N] |} /\
  kill_dir None (crash_state generic_save_protocol [1%N; 2%N] CDone) = {| dcur := Some [1%N; 2%N]; dtmp := None |} /\
  kill_dir (Some [9%N]) (crash_state filed_save_protocol [1%N; 2%N] (CWrite 0)) = {| dcur := Some [9%N]; dtmp := Some [] |} /\
  kill_dir (Some [9%N]) (crash_state filed_save_protocol [1%N; 2%N] CBeforeRename) = {| dcur := Some [9%N]; dtmp := Some [1%N; 2%N] |} /\
  load_dir (@Some bytes) None {| dcur := None; dtmp := Some [1%N] |} = None /\
  load_dir_fallback (@Some bytes) None {| dcur := None; dtmp := Some [1%N] |} = Some [1%N].
Proof. vm_compute. repeat split; reflexivity. Qed.

(* a provider history: a commit, two that do not count (timeout kind, unknown source), one at the stored offset
   (panic), a save; the worker reads on, the file is cut below its position -> offsets 0, the event numbered at the
   mark is ignored, the next one counts; stop + start restores exactly the saved table *)
Example c07_provider_nonvacuous :
  let cfg := {| pc_sync := false; pc_op0 := 0 |} in
  let fs := [{| pf_id := 0%N; pf_name := [97%N]; pf_size := 100; pf_disk := true |}] in
  let ops := [PCommit 0 0 1 [115%N] 50; PCommit 0 2 2 [115%N] 60; PCommit 7 0 3 [115%N] 70; PCommit 0 0 4 [115%N] 50; PSave;
              PProgress 0 80 5; PTrunc 0 20; PCommit 0 0 5 [115%N] 5; PCommit 0 0 6 [115%N] 7; PRestart false] in
  map fst (prun cfg (pinit cfg fs) ops) = [0; 0; 0; 7; 0; 0; 0; 0; 0; 0] /\
  map (fun zs => map estreams (p_file (snd zs))) (prun cfg (pinit cfg fs) ops) =
    [[]; []; []; []; [[([115%N], 50)]]; [[([115%N], 50)]]; [[([115%N], 50)]]; [[([115%N], 50)]]; [[([115%N], 50)]]; [[([115%N], 7)]]] /\
  map (fun zs => map pj_offs (p_jobs (snd zs))) (prun cfg (pinit cfg fs) ops) =
    [[[([115%N], 50)]]; [[([115%N], 50)]]; [[([115%N], 50)]]; [[([115%N], 50)]]; [[([115%N], 50)]]; [[([115%N], 50)]];
     [[([115%N], 0)]]; [[([115%N], 0)]]; [[([115%N], 7)]]; [[([115%N], 7)]]].
Proof. vm_compute. repeat split; reflexivity. Qed.
