(* C05 — in-flight events never exceed capacity; none leaks or is handed out twice. Statements only.
   Pipeline part: an event returns to the pool exactly once, when the output commits it or an action
   drops it; the batcher commits every added event exactly once (below). Pool part: Proofs/PoolTheorems.v. *)
From Verif Require Import Base.Sx Model.Batcher Proofs.Batcher.

Theorem c05_output_finalizes_each_event_once :
  forall c ls s, (retriable c = false \/ deadq c = false) -> run c (init c) ls = Some s ->
    flight s = [] -> cur_list s = [] -> rev (committed s) = rev (added s).
Proof. exact exactly_once_at_quiescence. Qed.
Print Assumptions c05_output_finalizes_each_event_once.
