(* C17 — Mask hides every matched secret and touches nothing else.
   Only statements, each closed by [exact]; proofs live in Proofs/Mask.v.
   The regexp engine is an oracle: [idxs] / [oracle] stand for what Regexp.FindAllSubmatchIndex returns;
   the hypothesis on it is [re_wf] (matches ascending and disjoint inside the value, every group inside its
   match or -1, groups pairwise nested or disjoint), checked on every run against Go's regexp.
   The model is the REPAIRED code (fixes/C17-mask-groups.patch, fixes/C17-mask-cut-recopy.patch).       *)
From Verif Require Import Base.Sx Base.GoSem Base.Json Model.Mask Proofs.Mask.
From Coq Require Import Lia.

(* ---- cfg.VerifyGroupNumbers: what Start lets through is a list of existing groups ----------------- *)
Theorem c17_verify_groups_range :
  forall gs total out, verify_groups gs total = Ok out -> groups_ok total out.
Proof. exact verify_groups_range. Qed.
Print Assumptions c17_verify_groups_range.

(* ---- maskValue ------------------------------------------------------------------------------------ *)
(* never a run-time panic: for every value, every well-formed result of the regexp engine, every list of
   existing groups (any subset, any order, nested, optional ones that did not take part) and every mode *)
Theorem c17_mask_value_total :
  forall value nsub idxs groups mode,
    re_wf (len value) nsub idxs -> groups_ok nsub groups ->
    is_panic (mask_value value idxs groups mode) = false.
Proof. exact mask_value_total. Qed.
Print Assumptions c17_mask_value_total.

(* the masked value: the value is cut into segments; the kept ones are copied byte for byte and in
   order, every hidden one is replaced ([repl]: asterisks / the replace word / nothing); the hidden
   segments are ranges of selected groups that took part in a match, and EVERY such range lies inside a
   hidden segment (an inner selected group is hidden as part of the outer one) *)
Theorem c17_mask_value_spec :
  forall value nsub idxs groups mode,
    re_wf (len value) nsub idxs -> groups_ok nsub groups -> idxs <> [] ->
    exists segs,
      mask_value value idxs groups mode = Ok (Some (masked mode segs)) /\
      orig segs = value /\
      (forall r, In r (hidden_ranges 0 segs) -> selected idxs groups r) /\
      (forall r, selected idxs groups r -> exists c, In c (hidden_ranges 0 segs) /\ covers c r).
Proof. exact mask_value_spec. Qed.
Print Assumptions c17_mask_value_spec.

(* no match: the caller keeps the value (and sets no mark for this mask) *)
Theorem c17_mask_value_nomatch :
  forall value groups mode, mask_value value [] groups mode = Ok None.
Proof. exact mask_value_nomatch. Qed.
Print Assumptions c17_mask_value_nomatch.

(* asterisk mode: a hidden section becomes asterisks only - one per rune (as utf8.RuneCount counts),
   at most max_count when that is positive, and at least one for a non-empty secret *)
Theorem c17_asterisks :
  forall mc secret, exists n,
    repl (MMask mc) secret = repeat STAR n /\
    (secret <> [] -> (1 <= n)%nat) /\ Z.of_nat n <= rune_count secret /\
    (mc <= 0 -> Z.of_nat n = rune_count secret) /\ (0 < mc -> Z.of_nat n = Z.min (rune_count secret) mc).
Proof. exact repl_mask_stars. Qed.
Print Assumptions c17_asterisks.

Theorem c17_rune_count_bounds :
  forall l, 0 <= rune_count l <= len l /\ (l <> [] -> 1 <= rune_count l) /\
            (Forall (fun c => (c < 128)%N) l -> rune_count l = len l).
Proof.
  exact (fun l => conj (rune_count_bounds l) (conj (rune_count_pos l) (rune_count_ascii l))).
Qed.
Print Assumptions c17_rune_count_bounds.

(* ---- match rules (cfg/matchrule) ------------------------------------------------------------------- *)
(* Match of a prepared rule never panics and decides exactly "some value is a prefix / infix / suffix of
   the data" (lower-cased when case-insensitive), negated when inverted *)
Theorem c17_rule_match_spec :
  forall r raw, r_values r <> [] -> rule_match (prepare r) raw = Ok (rule_spec r raw).
Proof. exact rule_match_spec. Qed.
Print Assumptions c17_rule_match_spec.

(* ---- the whole plugin: Start, then Do on every event ---------------------------------------------- *)
(* never a panic, for every configuration (accepted or refused by Start), every event and every answer of
   the regexp engine (answers that are not well formed stop the model with an error, never a panic) *)
Theorem c17_plugin_total :
  forall inh cfg oracle evs,
    (forall i b, is_panic (oracle i b) = false) -> is_panic (run_plugin inh cfg oracle evs) = false.
Proof. exact run_plugin_total. Qed.
Print Assumptions c17_plugin_total.

(* frame: every event keeps its skeleton - keys and their order, array lengths, null and bool values; a
   string or number is itself or has become a string. The only other change of the root object: the
   configured mark fields (mask_applied_field, the masks' applied_field) are set to strings / appended *)
Theorem c17_mask_tree_frame :
  forall inh cfg oracle evs evs' n cs,
    run_plugin inh cfg oracle evs = Ok (evs', n, cs) ->
    exists ks, compile_masks (c_masks cfg) = Ok ks /\
               Forall2 (event_frame (mark_names ks cfg)) evs evs'.
Proof. exact run_plugin_frame. Qed.
Print Assumptions c17_mask_tree_frame.

Theorem c17_frame_without_marks :
  forall root root', event_frame [] root root' -> same_shape root root'.
Proof. exact event_frame_no_marks. Qed.
Print Assumptions c17_frame_without_marks.

(* a sub-tree under a node for which no mask is in force (ignored / not processed for every mask, no
   longer list entry below) is returned unchanged and fires nothing *)
Theorem c17_ignored_unchanged :
  forall inh masks fl oracle v fm,
    should_check fm = false ->
    (forall i k, nth_error masks i = Some k -> applicable fl k i fm = false) ->
    traverse inh masks fl oracle fm v = Ok (v, false, []).
Proof. exact (fun inh masks fl oracle v fm H1 H2 => traverse_dead inh masks fl oracle v fm (conj H1 H2)). Qed.
Print Assumptions c17_ignored_unchanged.

(* ---- process / ignore field lists ------------------------------------------------------------------ *)
(* the node carried to the JSON path p is [fm_at] (one [next_fm] per path element) *)
Theorem c17_fields_node_at_path :
  forall inh n k p q, next_fm inh (Some n) k = Some (fm_at inh n [k]) /\
                      fm_at inh n (p ++ q) = fm_at inh (fm_at inh n p) q.
Proof. exact (fun inh n k p q => conj (next_fm_is_fm_at inh n k) (fm_at_app inh p q n)). Qed.
Print Assumptions c17_fields_node_at_path.

(* what the code does: a list entry q is in force at p iff q is a prefix of p and q = p or no entry of ANY
   list lies strictly below q *)
Theorem c17_fields_code :
  forall p n t,
    In ([], t) (fm_at false n p) <->
    exists q, In (q, t) n /\ is_prefix q p /\ (q = p \/ ~ exists e, In e n /\ strict_prefix q (fst e)).
Proof. exact fm_at_code. Qed.
Print Assumptions c17_fields_code.

(* what the README promises ("all nested fields will be processed / ignored"): plain prefix *)
Theorem c17_fields_readme :
  forall p n t, In ([], t) (fm_at true n p) <-> exists q, In (q, t) n /\ is_prefix q p.
Proof. exact fm_at_inherit. Qed.
Print Assumptions c17_fields_readme.

(* the two differ: mask 0 processes "a", mask 1 processes "a.b"; below "a" the code applies mask 0
   nowhere, so the secret "s" of a.c and a.b survives (KNOWN FINDING C17-fields-overlap-not-inherited) *)
Definition c17_ov_mask (proc : list path) : mask :=
  {| m_re := true; m_nsub := 1; m_groups := [1]; m_mode := MMask 0; m_rules := [];
     m_afield := []; m_avalue := []; m_metric := false; m_ign := []; m_proc := proc |}.
Definition c17_ov_cfg : config :=
  {| c_masks := [c17_ov_mask [[[97%N]]]; c17_ov_mask [[[97%N]; [98%N]]]];
     c_afield := []; c_avalue := []; c_metric := true; c_ign := []; c_proc := [] |}.
Definition c17_ov_table : table :=   (* (s) and (t) on "st", (t) on "*t" *)
  [(0%nat, [115; 116]%N, [[0; 1; 0; 1]]); (1%nat, [115; 116]%N, [[1; 2; 1; 2]]); (1%nat, [42; 116]%N, [[1; 2; 1; 2]])].
Definition c17_ov_event (c b : bytes) : json :=
  JObj [([97%N], JObj [([99%N], JStr c); ([98%N], JStr b)])].

Theorem c17_fields_prefix_refuted :
  run_plugin false c17_ov_cfg (lookup c17_ov_table) [c17_ov_event [115; 116]%N [115; 116]%N]
    = Ok ([c17_ov_event [115; 116]%N [115; 42]%N], 1, [0; 0]) /\
  run_plugin true c17_ov_cfg (lookup c17_ov_table) [c17_ov_event [115; 116]%N [115; 116]%N]
    = Ok ([c17_ov_event [42; 116]%N [42; 42]%N], 1, [0; 0]) /\
  ~ prefix_free (all_entries c17_ov_cfg).
Proof.
  split; [vm_compute; reflexivity|]. split; [vm_compute; reflexivity|].
  intros H. apply (H ([[97%N]], TProc 0) ([[97%N]; [98%N]], TProc 1)); cbn; auto.
  split; [cbn; auto | cbn; lia].
Qed.
Print Assumptions c17_fields_prefix_refuted.

(* the strongest true restriction: when no entry of a list lies strictly above an entry of the same or
   another list, the code computes exactly what the README semantics prescribes, on every event *)
Theorem c17_fields_prefix_partial :
  forall cfg oracle evs,
    prefix_free (all_entries cfg) -> run_plugin false cfg oracle evs = run_plugin true cfg oracle evs.
Proof. exact run_plugin_partial. Qed.
Print Assumptions c17_fields_prefix_partial.

(* the link between the levels: one mask in force on one non-empty value = one maskValue on the regexp's
   answer for that value (with several masks, mask i+1 sees what mask i left: pm_loop, by definition) *)
Theorem c17_leaf_single_mask :
  forall k fl oracle fm s idxs,
    s <> [] -> applicable fl k 0 fm = true -> check_match_rules (k_rules k) s = Ok true ->
    k_apply k = true -> oracle 0%nat s = Ok idxs -> re_wf (len s) (k_nsub k) idxs ->
    process_mask [k] fl oracle fm s =
      (mv <- mask_value s idxs (k_groups k) (k_mode k) ;;
       Ok (match mv with Some out => (out, true, [0%nat]) | None => (s, false, []) end)).
Proof. exact process_mask_single. Qed.
Print Assumptions c17_leaf_single_mask.

(* ---- the applied marks and counters: exactly when some mask fired ---------------------------------- *)
(* processMask on one string / number value: mask j is reported ([fired] feeds applied_field, the
   per-mask counter and maskApplied) only if it is in force at the node, its match rules accept the
   node's value and - when it has a regexp with groups - that regexp matched; the value is rewritten iff
   a fired mask has a regexp with groups; nothing fired = value untouched *)
Theorem c17_applied_iff :
  forall masks fl oracle fm s out upd fired,
    process_mask masks fl oracle fm s = Ok (out, upd, fired) ->
    (forall j, In j fired ->
       exists k, nth_error masks j = Some k /\ applicable fl k j fm = true /\
                 check_match_rules (k_rules k) s = Ok true /\
                 (k_apply k = true -> exists src idxs, oracle j src = Ok idxs /\ idxs <> [])) /\
    (upd = true <-> exists j k, In j fired /\ nth_error masks j = Some k /\ k_apply k = true) /\
    (fired = [] -> out = s /\ upd = false).
Proof. exact process_mask_fired. Qed.
Print Assumptions c17_applied_iff.

(* one mask application reports "applied" iff the regexp matched (also when every selected group of the
   match was an optional group that did not take part: the value is unchanged, the mark is set) *)
Theorem c17_applied_iff_matched :
  forall value nsub idxs groups mode r,
    re_wf (len value) nsub idxs -> groups_ok nsub groups ->
    mask_value value idxs groups mode = Ok r -> (r <> None <-> idxs <> []).
Proof. exact mask_value_applied_iff. Qed.
Print Assumptions c17_applied_iff_matched.

(* Do on one event: no mask fired = the event is returned as it came; some mask fired = the root object
   carries mask_applied_field = mask_applied_value (when configured) *)
Theorem c17_event_mark_iff :
  forall inh masks fl oracle cfg root root' fired,
    ~ In [] (c_proc cfg) ->
    do_event inh masks fl oracle cfg root = Ok (root', fired) ->
    (fired = [] -> root' = root) /\
    (fired <> [] -> c_afield cfg <> [] -> forall fs, root = JObj fs ->
       exists fs', root' = JObj fs' /\ field_get fs' (c_afield cfg) = Some (JStr (c_avalue cfg))).
Proof. exact do_event_mark. Qed.
Print Assumptions c17_event_mark_iff.

(* ---- per-mask do_if and metric labels (sub-model which = 2) ----------------------------------------- *)
(* pipeline/doif is an oracle (C14): [bits] are DoIfChecker.Check's answers for one event, one per mask.
   A mask whose answer is "no" is applied to no value of that event: it rewrites nothing, sets no
   applied_field, counts nothing *)
Theorem c17_doif_off_never_fires :
  forall masks bits fl oracle fm s out upd fired j,
    nth_error bits j = Some false ->
    process_mask (gate_all masks bits) fl oracle fm s = Ok (out, upd, fired) -> ~ In j fired.
Proof. exact gated_off_never_fires. Qed.
Print Assumptions c17_doif_off_never_fires.

(* a mask whose answer is "yes" (or that has no do_if) is the compiled mask itself, so everything above
   (c17_applied_iff, c17_leaf_single_mask, ...) speaks about it; all answers "yes" = the plain mask list *)
Theorem c17_doif_on_is_mask :
  forall ks bits, 
    (forall j k, nth_error ks j = Some k -> nth_error bits j <> Some false -> nth_error (gate_all ks bits) j = Some k) /\
    ((forall b, In b bits -> b = true) -> gate_all ks bits = ks).
Proof. exact (fun ks bits => conj (gate_all_nth_used ks bits) (gate_all_used ks bits)). Qed.
Print Assumptions c17_doif_on_is_mask.

(* the extended run without do_if answers and labels yields the events of the plain run *)
Theorem c17_ext_conservative :
  forall inh cfg oracle evs,
    res_map fst (run_plugin_ext inh cfg oracle [] (map (fun _ => mext0) (c_masks cfg)) (map (fun e => (e, [])) evs)) =
    res_map (fun x => fst (fst x)) (run_plugin inh cfg oracle evs).
Proof. exact run_plugin_ext_plain. Qed.
Print Assumptions c17_ext_conservative.

Theorem c17_ext_total :
  forall inh cfg oracle pl xs evs,
    (forall i b, is_panic (oracle i b) = false) -> is_panic (run_plugin_ext inh cfg oracle pl xs evs) = false.
Proof. exact run_plugin_ext_total. Qed.
Print Assumptions c17_ext_total.

(* the frame holds whatever the do_if answers and the labels are (labels are only read) *)
Theorem c17_ext_frame :
  forall inh cfg oracle pl xs evs evs' ms,
    run_plugin_ext inh cfg oracle pl xs evs = Ok (evs', ms) ->
    exists ks, compile_masks (c_masks cfg) = Ok ks /\ Forall2 (event_frame (mark_names ks cfg)) (map fst evs) evs'.
Proof. exact run_plugin_ext_frame. Qed.
Print Assumptions c17_ext_frame.

(* the counters of one event: the plugin's is touched exactly when some mask fired (by 1, with the label
   values read from the event as Do leaves it: after masking and the marks); mask n's exactly when it fired,
   has a metric name and that name is not the plugin's, by the number of values it fired on *)
Theorem c17_metrics_iff_fired :
  forall ks cfg pl xs root fired,
    exists pm rest, event_metrics ks cfg pl xs root fired = pm :: rest /\
      (pm = None <-> fired = [] \/ c_metric cfg = false) /\
      (pm <> None -> pm = Some (1, map (label_val root) pl)) /\
      forall n m, nth_error rest n = Some m ->
        exists k, nth_error ks n = Some k /\
          (m = None <-> ~ (k_metric k = true /\ x_clash (nth n xs mext0) = false /\ In n fired)) /\
          (m <> None -> m = Some (count_fired fired n, map (label_val root) (x_labels (nth n xs mext0)))).
Proof. exact event_metrics_spec. Qed.
Print Assumptions c17_metrics_iff_fired.

(* ---- non-vacuity ------------------------------------------------------------------------------------ *)
(* a(b)? with group 1 on "ab a" (second match: the group did not take part), asterisks;
   (a(b)) with groups [2,1] (out of order, nested) on "xaby", replace word "X" *)
Example c17_mask_value_nonvacuous :
  re_wf 4 1 [[0; 2; 1; 2]; [3; 4; -1; -1]] /\ groups_ok 1 [1] /\
  mask_value [97; 98; 32; 97]%N [[0; 2; 1; 2]; [3; 4; -1; -1]] [1] (MMask 0) = Ok (Some [97; 42; 32; 97]%N) /\
  re_wf 4 2 [[1; 3; 1; 3; 2; 3]] /\ groups_ok 2 [2; 1] /\
  mask_value [120; 97; 98; 121]%N [[1; 3; 1; 3; 2; 3]] [2; 1] (MReplace [88%N]) = Ok (Some [120; 88; 121]%N).
Proof.
  split; [vm_compute; reflexivity|]. split; [intros g [<-|[]]; lia|]. split; [vm_compute; reflexivity|].
  split; [vm_compute; reflexivity|]. split; [intros g [<-|[<-|[]]]; lia|]. vm_compute; reflexivity.
Qed.

(* non-overlapping lists: mask (s) processes "a" only; {"a":{"c":"st"},"b":"st"} -> {"a":{"c":"*t"},"b":"st"},
   the plugin counter counts one event *)
Example c17_plugin_nonvacuous :
  let cfg := {| c_masks := [c17_ov_mask [[[97%N]]]]; c_afield := []; c_avalue := []; c_metric := true; c_ign := []; c_proc := [] |} in
  prefix_free (all_entries cfg) /\
  run_plugin false cfg (lookup c17_ov_table)
    [JObj [([97%N], JObj [([99%N], JStr [115; 116]%N)]); ([98%N], JStr [115; 116]%N)]]
  = Ok ([JObj [([97%N], JObj [([99%N], JStr [42; 116]%N)]); ([98%N], JStr [115; 116]%N)]], 1, [0]).
Proof.
  split; [|vm_compute; reflexivity].
  intros e1 e2 [<-|[]] [<-|[]] [_ H]. cbn in H. lia.
Qed.

(* do_if and labels: mask (s) with metric label "b", plugin label "b"; event 1 is gated off (do_if said no):
   untouched, no counter; event 2: {"b":"st"} -> {"b":"*t"}, both counters carry the MASKED label value *)
Example c17_ext_nonvacuous :
  let cfg := {| c_masks := [{| m_re := true; m_nsub := 1; m_groups := [1]; m_mode := MMask 0; m_rules := [];
                               m_afield := []; m_avalue := []; m_metric := true; m_ign := []; m_proc := [] |}];
                c_afield := []; c_avalue := []; c_metric := true; c_ign := []; c_proc := [] |} in
  let ev := JObj [([98%N], JStr [115; 116]%N)] in
  run_plugin_ext false cfg (lookup c17_ov_table) [[98%N]] [{| x_labels := [[98%N]]; x_clash := false |}]
    [(ev, [false]); (ev, [true])]
  = Ok ([ev; JObj [([98%N], JStr [42; 116]%N)]],
        [[None; None]; [Some (1, [[42; 116]%N]); Some (1, [[42; 116]%N])]]).
Proof. vm_compute. reflexivity. Qed.

