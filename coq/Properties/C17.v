(* C17 — placeholder while the proofs are being written *)
From Verif Require Import Base.Sx Base.GoSem Model.Mask.
Theorem c17_placeholder : mask_value [] [] [] MCut = Ok None.
Proof. reflexivity. Qed.
Print Assumptions c17_placeholder.
