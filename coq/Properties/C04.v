(* C04 — no wedge. Statements only. (stream / pool / batcher theorems are added as their proofs land) *)
From Verif Require Import Base.Sx Model.Batcher Proofs.Batcher.
Theorem c04_batcher_reachable_invariant :
  forall (c : cfg) (P : st -> Prop),
    (forall s l s', P s -> step c s l = Some s' -> P s') ->
    forall ls s s', P s -> run c s ls = Some s' -> P s'.
Proof. exact run_invariant. Qed.
Print Assumptions c04_batcher_reachable_invariant.
