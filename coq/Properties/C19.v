(* C19 — output payloads carry every deliverable event of a batch exactly once, well-formed.
   Only statements, each closed by [exact]; proofs live in Proofs/Payload.v.
   Modelled sinks: elasticsearch (repaired: index values escaped), file, http (json and raw encoder,
   repaired: a missing field keeps the buffer), kafka, splunk (incl. copy_fields: the envelope of one
   event as a function of that event and the configuration), gelf (framing; the GELF rewrite of the
   event is an oracle).  loki: the envelope around oracle pieces. *)
From Verif Require Import Base.Sx Base.GoSem Model.Payload Proofs.Payload.
Local Open Scope Z_scope.

(* Batch.ForEach visits exactly the non-parent events, in batch order *)
Theorem c19_foreach_skips_parents :
  forall (A : Type) (b : list ev) (cb : A -> ev -> A) (acc : A),
    for_each b cb acc = fold_left cb (deliverable b) acc
    /\ (forall e, In e (deliverable b) <-> In e b /\ is_parent e = false)
    /\ (forall b1 b2, b = b1 ++ b2 -> deliverable b = deliverable b1 ++ deliverable b2).
Proof. exact foreach_skips_parents. Qed.
Print Assumptions c19_foreach_skips_parents.

(* ES: the frame of an event is  action line, newline, document, newline *)
Theorem c19_es_frame_shape :
  forall c e, es_cfg_ok c ->
    es_header c e = Ok (es_header_of c e)
    /\ es_frame_of c e = es_header_of c e ++ [NL] ++ enc e ++ [NL].
Proof. exact es_frame_shape. Qed.
Print Assumptions c19_es_frame_shape.

(* ES: for every previous buffer content and every script of answers, out() builds the concatenation,
   in batch order, of one frame per deliverable event; without split_batch that is the one request;
   with it every request carries the frames of a range, and when the exchange ends without error the
   successfully answered ranges tile [0,n) from left to right and their bodies add up to the payload *)
Theorem c19_es_frames :
  forall c batch prev script, es_cfg_ok c ->
  let fs := map (es_frame_of c) (deliverable batch) in
  exists a, es_out c batch prev script = Ok a
    /\ at_buf a = concat fs
    /\ (es_split c = false -> at_reqs a = [mkReq 0 (len fs) (concat fs) (fst (next_status script))])
    /\ Forall (fun q => 0 <= rq_l q /\ rq_r q <= len fs /\ rq_body q = frames_range fs (rq_l q) (rq_r q)) (at_reqs a)
    /\ (at_err a = false ->
        chain 0 (len fs) (ok_ranges (at_reqs a)) /\ concat (map rq_body (filter ok_req (at_reqs a))) = concat fs).
Proof. exact es_out_spec. Qed.
Print Assumptions c19_es_frames.

Theorem c19_http_frames :
  forall raw split batch prev script,
  let fs := map (frame_http raw) (deliverable batch) in
  exists a, http_out raw split batch prev script = Ok a
    /\ at_buf a = concat fs
    /\ (split = false -> at_reqs a = [mkReq 0 (len fs) (concat fs) (fst (next_status script))])
    /\ Forall (fun q => 0 <= rq_l q /\ rq_r q <= len fs /\ rq_body q = frames_range fs (rq_l q) (rq_r q)) (at_reqs a)
    /\ (at_err a = false ->
        chain 0 (len fs) (ok_ranges (at_reqs a)) /\ concat (map rq_body (filter ok_req (at_reqs a))) = concat fs).
Proof. exact http_out_spec. Qed.
Print Assumptions c19_http_frames.

Theorem c19_file_frames :
  forall batch prev script,
  exists a, file_out batch prev script = Ok a
    /\ at_buf a = concat (map frame_file (deliverable batch))
    /\ map rq_body (at_reqs a) = [concat (map frame_file (deliverable batch))].
Proof. exact file_out_spec. Qed.
Print Assumptions c19_file_frames.

(* splunk without copy_fields: a row of {"event":<the event>} objects *)
Theorem c19_splunk_frames :
  forall batch prev script,
  exists a, splunk_out [] batch prev script = Ok a
    /\ at_buf a = concat (map frame_splunk (deliverable batch))
    /\ map rq_body (at_reqs a) = [concat (map frame_splunk (deliverable batch))].
Proof. exact splunk_out_nocopy_spec. Qed.
Print Assumptions c19_splunk_frames.

(* splunk with any copy_fields configuration: for every previous buffer content and every answer the
   one request carries, in batch order, one envelope per deliverable event *)
Theorem c19_splunk_envelopes :
  forall cfg batch prev script,
  exists a, splunk_out cfg batch prev script = Ok a
    /\ at_buf a = concat (map (envelope cfg) (deliverable batch))
    /\ map rq_body (at_reqs a) = [concat (map (envelope cfg) (deliverable batch))].
Proof. exact splunk_out_spec. Qed.
Print Assumptions c19_splunk_envelopes.

(* envelope independence: inside the request of ANY batch that contains the deliverable event e — any
   events before it, any after it, any buffer history, any answers — the bytes at e's place are
   [envelope cfg e], a function of e and the configuration alone *)
Theorem c19_splunk_envelope_independent :
  forall cfg e pre post prev script,
  is_parent e = false ->
  exists a, splunk_out cfg (pre ++ e :: post) prev script = Ok a
    /\ map rq_body (at_reqs a) = [at_buf a]
    /\ at_buf a = splunk_payload cfg pre ++ envelope cfg e ++ splunk_payload cfg post
    /\ slice (at_buf a) (len (splunk_payload cfg pre)) (len (splunk_payload cfg pre) + len (envelope cfg e))
       = Ok (envelope cfg e).
Proof. exact splunk_envelope_independent. Qed.
Print Assumptions c19_splunk_envelope_independent.

(* no cross-event leakage: permuting, replacing or removing the OTHER events of the batch (and changing
   the buffer history or the answers) does not change the bytes sent for e *)
Theorem c19_splunk_no_cross_event_leak :
  forall cfg e pre1 post1 pre2 post2 p1 s1 p2 s2,
  is_parent e = false ->
  exists a1 a2,
    splunk_out cfg (pre1 ++ e :: post1) p1 s1 = Ok a1 /\ splunk_out cfg (pre2 ++ e :: post2) p2 s2 = Ok a2
    /\ slice (at_buf a1) (len (splunk_payload cfg pre1)) (len (splunk_payload cfg pre1) + len (envelope cfg e))
       = slice (at_buf a2) (len (splunk_payload cfg pre2)) (len (splunk_payload cfg pre2) + len (envelope cfg e))
    /\ slice (at_buf a1) (len (splunk_payload cfg pre1)) (len (splunk_payload cfg pre1) + len (envelope cfg e))
       = Ok (envelope cfg e).
Proof. exact splunk_no_cross_event_leak. Qed.
Print Assumptions c19_splunk_no_cross_event_leak.

(* the envelope reads nothing of an event but its encoding and the values of its own source fields *)
Theorem c19_splunk_envelope_local :
  forall cfg e1 e2, enc e1 = enc e2 -> ev_copy e1 = ev_copy e2 -> envelope cfg e1 = envelope cfg e2.
Proof. exact envelope_local. Qed.
Print Assumptions c19_splunk_envelope_local.

(* an event without any of the configured source fields gets the bare {"event":...} envelope,
   whatever the configuration and whatever its neighbours carry *)
Theorem c19_splunk_envelope_no_sources :
  forall cfg e, Forall (fun v => v = None) (ev_copy e) -> envelope cfg e = frame_splunk e.
Proof. exact envelope_no_sources. Qed.
Print Assumptions c19_splunk_envelope_no_sources.

(* every configuration the exchange glue accepts is as Start() leaves it (cp_ok), and then every
   envelope begins with {"event":<the event's encoding>, followed by the closing brace or by a comma
   and the copied fields: copy_fields never displaces or rewrites the event *)
Theorem c19_splunk_envelope_carries_event :
  (forall s c, cp_entry_of_sx s = Some c -> cp_ok c)
  /\ forall cfg e, Forall cp_ok cfg ->
     exists tail, envelope cfg e = SPLUNK_PRE ++ enc e ++ tail
       /\ (tail = [125]%N \/ exists t, tail = 44%N :: t).
Proof. exact (conj cp_entry_of_sx_ok envelope_carries_event). Qed.
Print Assumptions c19_splunk_envelope_carries_event.

Theorem c19_gelf_frames :
  forall batch prev script,
  exists a, gelf_out batch prev script = Ok a
    /\ at_buf a = concat (map frame_gelf (deliverable batch))
    /\ map rq_body (at_reqs a) = [concat (map frame_gelf (deliverable batch))].
Proof. exact gelf_out_spec. Qed.
Print Assumptions c19_gelf_frames.

(* kafka: record i's value is the encoding of the i-th deliverable event, its topic the event's
   topic field or the default; the value slices tile the shared buffer (pairwise disjoint, in order) *)
Theorem c19_kafka_one_record_per_event :
  forall c batch prev, len (deliverable batch) <= k_batch_size c ->
  exists data recs,
    kafka_build c batch prev = Ok (data, recs)
    /\ Forall2 (fun r e => k_value data r = Ok (enc e) /\ kr_topic r = k_topic c e) recs (deliverable batch)
    /\ chain 0 (len data) (map (fun r => (kr_start r, kr_end r)) recs).
Proof. exact kafka_records. Qed.
Print Assumptions c19_kafka_one_record_per_event.

(* sendSplit over the begin table of any frames, for EVERY pattern of answers: never panics, never
   runs out of fuel; every request carries exactly the frames of its range; whenever it returns OK the
   successfully sent ranges are non-empty, partition [0,n) in order, and their bodies are the payload *)
Theorem c19_split_covers_once :
  forall (fs : list bytes) (script : list Z),
  let n := len fs in
  exists log script' st err,
    send_split (Z.to_nat n) script 0 n (offsets 0 fs) (concat fs) = Ok (log, script', st, err)
    /\ Forall (req_ok fs 0 n) log
    /\ (err = false ->
        chain 0 n (ok_ranges log)
        /\ Forall (fun ab => fst ab < snd ab) (ok_ranges log)
        /\ concat (map rq_body (filter (fun q => is_ok_status (rq_status q)) log)) = concat fs).
Proof. exact split_covers_once. Qed.
Print Assumptions c19_split_covers_once.

(* the ES action line of the repaired code, for every event whatever its values: one valid JSON
   document on one line, whose index string literal closes exactly at the template's quote *)
Theorem c19_es_header_valid :
  forall c e hdr,
  es_cfg_ok c -> es_cfg_plain c -> esc_safe e ->
  es_header c e = Ok hdr ->
  json_valid hdr = true /\ has_nl hdr = false
  /\ exists name, hdr = es_prefix (es_op c) ++ name ++ es_suffix /\ str_body_ok name = true
                  /\ scan_str (name ++ es_suffix) = Some [125; 125]%N.
Proof. exact es_header_valid. Qed.
Print Assumptions c19_es_header_valid.

(* ... and string-safety of the spliced text is exactly what is needed: the literal closes at the
   intended quote iff the text is JSON-string-safe *)
Theorem c19_es_header_string_iff :
  forall s rest, scan_str (s ++ QUOTE :: rest) = Some rest <-> str_body_ok s = true.
Proof. exact scan_str_exact. Qed.
Print Assumptions c19_es_header_string_iff.

(* the template with an unescaped quote / newline (the code before the repair) is not a JSON line *)
Theorem c19_es_header_needs_escape :
  json_valid (es_prefix [105]%N ++ [97; 34; 98]%N ++ es_suffix) = false
  /\ has_nl (es_prefix [105]%N ++ [97; 10; 98]%N ++ es_suffix) = true
  /\ json_valid (es_prefix [105]%N ++ [97; 10; 98]%N ++ es_suffix) = false.
Proof. exact es_header_needs_escape. Qed.
Print Assumptions c19_es_header_needs_escape.

(* well-formedness of the splunk envelope: under the oracle hypotheses (the event's encoding and every
   copied value are JSON documents, the key literals are JSON string literals — checked on every run)
   the envelope of every event is one valid JSON document, an object, whatever copy_fields puts where
   (nested targets, targets written twice, targets below or above earlier ones) *)
Theorem c19_splunk_envelope_valid :
  forall cfg e,
  Forall cp_lits_ok cfg -> json_valid (enc e) = true -> Forall opt_wf (ev_copy e) ->
  json_valid (envelope cfg e) = true /\ exists rest, envelope cfg e = 123%N :: rest.
Proof. exact envelope_valid. Qed.
Print Assumptions c19_splunk_envelope_valid.

(* ... and the request body of a batch is cut by the predicate's own cutter (docs_of_body: the JSON
   automaton back at depth 0) into exactly the envelopes of the deliverable events — one document per
   event, in batch order, nothing else — each a valid JSON document *)
Theorem c19_splunk_payload_docs :
  forall cfg batch prev script,
  Forall cp_lits_ok cfg -> Forall ev_copy_ok (deliverable batch) ->
  exists a, splunk_out cfg batch prev script = Ok a
    /\ (forall cfgsx, splunk_cfg_of_sx cfgsx = Some cfg ->
        Forall (fun q => docs_of_body 4 cfgsx (rq_body q) = Some (expected_docs 4 cfgsx batch)) (at_reqs a))
    /\ Forall (fun d => json_valid d = true) (map (envelope cfg) (deliverable batch)).
Proof. exact splunk_payload_docs. Qed.
Print Assumptions c19_splunk_payload_docs.

(* buffer reuse across successive batches and retries: the payload does not depend on what the
   worker's buffer held nor on earlier answers *)
Theorem c19_payload_independent_of_prev_buf :
  forall batch,
  (forall c, es_cfg_ok c -> forall p1 s1 p2 s2 a1 a2,
      es_out c batch p1 s1 = Ok a1 -> es_out c batch p2 s2 = Ok a2 -> at_buf a1 = at_buf a2)
  /\ (forall raw sp p1 s1 p2 s2 a1 a2,
      http_out raw sp batch p1 s1 = Ok a1 -> http_out raw sp batch p2 s2 = Ok a2 -> at_buf a1 = at_buf a2)
  /\ (forall p1 s1 p2 s2 a1 a2,
      file_out batch p1 s1 = Ok a1 -> file_out batch p2 s2 = Ok a2 -> at_buf a1 = at_buf a2)
  /\ (forall cfg p1 s1 p2 s2 a1 a2,
      splunk_out cfg batch p1 s1 = Ok a1 -> splunk_out cfg batch p2 s2 = Ok a2 -> at_buf a1 = at_buf a2)
  /\ (forall p1 s1 p2 s2 a1 a2,
      gelf_out batch p1 s1 = Ok a1 -> gelf_out batch p2 s2 = Ok a2 -> at_buf a1 = at_buf a2)
  /\ (forall c p1 p2, len (deliverable batch) <= k_batch_size c -> kafka_build c batch p1 = kafka_build c batch p2).
Proof. exact payload_independent. Qed.
Print Assumptions c19_payload_independent_of_prev_buf.

(* under the oracle hypotheses on Event.Encode and on the escaper, the ES bulk body splits into exactly
   2n lines — action line, document, ... — each a valid JSON document *)
Theorem c19_es_payload_lines :
  forall c batch prev,
  es_cfg_ok c -> es_cfg_plain c ->
  Forall esc_safe (deliverable batch) -> Forall enc_line_safe (deliverable batch) -> Forall enc_valid (deliverable batch) ->
  exists data begin n,
    es_build c batch prev = Ok (data, begin, n)
    /\ lines_tail data = (flat_map (fun e => [es_header_of c e; enc e]) (deliverable batch), [])
    /\ Forall (fun l => json_valid l = true) (flat_map (fun e => [es_header_of c e; enc e]) (deliverable batch)).
Proof. exact es_payload_lines. Qed.
Print Assumptions c19_es_payload_lines.

(* file / http (json): the lines of the payload are exactly the documents of the deliverable events *)
Theorem c19_ndjson_payload_lines :
  forall batch prev,
  Forall enc_line_safe (deliverable batch) ->
  lines_tail (build_frames frame_file batch prev) = (map enc (deliverable batch), []).
Proof. exact ndjson_payload_lines. Qed.
Print Assumptions c19_ndjson_payload_lines.

(* the answers: 200..202 with the plain body or with a body the sink's response reader accepts (the odd
   kinds of the table answer_ok) are the successes; a 2xx answer whose body the reader rejects (the even
   kinds: ES reportESErrors / splunk parseSplunkError returning an error) is a failed request like 413, 400,
   204, 199 — c19_split_covers_once and the *_frames theorems are stated over is_ok_status, so they cover
   these answers — and it makes out() return the error: the batch is offered again *)
Theorem c19_answer_kinds :
  (forall st, is_ok_status st = true <->
     exists k s, st = 1000 * k + s /\ 200 <= s <= 202 /\ (k = 0 \/ k = 1 \/ k = 3 \/ k = 5 \/ k = 7))
  /\ (forall k s, 200 <= s <= 202 -> (k = 2 \/ k = 4 \/ k = 6) -> is_ok_status (1000 * k + s) = false)
  /\ is_ok_status 413 = false /\ is_ok_status 400 = false /\ is_ok_status 204 = false /\ is_ok_status 199 = false.
Proof. exact answer_kinds. Qed.
Print Assumptions c19_answer_kinds.

Theorem c19_rejected_answer_is_retried :
  forall k s, 200 <= s <= 202 -> (k = 2 \/ k = 4 \/ k = 6) ->
  out_ret_es (1000 * k + s) true = 1 /\ out_ret_splunk (1000 * k + s) true = 1.
Proof. exact rejected_answer_is_retried. Qed.
Print Assumptions c19_rejected_answer_is_retried.

(* a batch that the retrying batcher offers again (any number of calls, any buffer history, any answers):
   the exchange never breaks off, every call of out() makes exactly one request and its body is the payload
   of the batch — one frame per deliverable event, in batch order — and the worker's buffer holds that
   payload afterwards; ES and http without split_batch, file, splunk with any copy_fields, gelf *)
Theorem c19_retried_batch_same_payload :
  forall tries batch prev script,
  (forall c, es_cfg_ok c -> es_split c = false ->
     let '(atts, p, s, ok) := attempts (es_out c) tries batch prev script in
     ok = true
     /\ Forall (fun r => exists a, r = Ok a /\ map rq_body (at_reqs a) = [concat (map (es_frame_of c) (deliverable batch))]) atts
     /\ (tries <> O -> atts <> [] /\ p = concat (map (es_frame_of c) (deliverable batch)))
     /\ (length atts <= tries)%nat)
  /\ (forall raw, retried (http_out raw false) (fun b => concat (map (frame_http raw) (deliverable b))) tries batch prev script)
  /\ retried file_out (fun b => concat (map frame_file (deliverable b))) tries batch prev script
  /\ (forall cfg, retried (splunk_out cfg) (fun b => concat (map (envelope cfg) (deliverable b))) tries batch prev script)
  /\ retried gelf_out (fun b => concat (map frame_gelf (deliverable b))) tries batch prev script.
Proof. exact retried_batch_same_payload. Qed.
Print Assumptions c19_retried_batch_same_payload.

(* the plugin behind its own batcher (Start / Out): a batch without a deliverable event never reaches out()
   — no request, buffer and answers untouched —, every other batch is offered exactly as in the direct
   drive, every attempt carrying the payload *)
Theorem c19_via_batcher :
  forall out payload, sends_whole out payload ->
  forall tries batch prev script,
  (deliverable batch = [] -> tries <> O ->
     attempts (via_out out) tries batch prev script = ([Ok (mkAtt [] false 0 prev script)], prev, script, true))
  /\ (deliverable batch <> [] ->
      attempts (via_out out) tries batch prev script = attempts out tries batch prev script
      /\ retried out payload tries batch prev script).
Proof. exact via_batcher. Qed.
Print Assumptions c19_via_batcher.

(* Start(): an empty index_values list stands for ["@time"]; the configuration then is well formed iff the
   format has at most one placeholder, and the action line is the same for every event *)
Theorem c19_es_default_index_value :
  forall op fmt time sp,
  let c := mkEs op fmt (es_default_vals []) time sp in
  es_vals c = [ITime]
  /\ ((count_pct fmt <= 1)%nat <-> es_cfg_ok c)
  /\ forall e1 e2, es_header c e1 = es_header c e2.
Proof. exact es_default_index_value. Qed.
Print Assumptions c19_es_default_index_value.

(* non-vacuity: a batch [regular with svc = a, quote, b ; parent ; regular without svc] through ES with split_batch and
   the answers 413, 200, 413(single event: gives up) — and the same batch answered 413, 200, 200 *)
Example c19_nonvacuous :
  (es_cfg_ok ex_cfg /\ es_cfg_plain ex_cfg /\ esc_safe ex_e1)
  /\ es_header ex_cfg ex_e1 = Ok [123; 34; 105; 34; 58; 123; 34; 95; 105; 110; 100; 101; 120; 34; 58; 34; 120; 45; 97; 92; 34; 98; 34; 125; 125]%N
  /\ deliverable [ex_e1; ex_e2; ex_e3] = [ex_e1; ex_e3]
  /\ (match es_out ex_cfg [ex_e1; ex_e2; ex_e3] [1; 2; 3]%N [413; 200; 200] with
      | Ok a => (map (fun q => (rq_l q, rq_r q, rq_status q)) (at_reqs a), at_err a)
      | _ => ([], true) end) = ([(0, 2, 413); (0, 1, 200); (1, 2, 200)], false)
  /\ (match es_out ex_cfg [ex_e1; ex_e2; ex_e3] [] [413; 200; 413] with
      | Ok a => (map (fun q => (rq_l q, rq_r q, rq_status q)) (at_reqs a), at_err a, at_ret a)
      | _ => ([], true, 9) end) = ([(0, 2, 413); (0, 1, 200); (1, 2, 413)], true, 0).
Proof. split; [exact ex_hyps_ok|repeat split; vm_compute; reflexivity]. Qed.

(* non-vacuity of the coverage-round theorems: splunk offered [first; parent; third] three times with the
   answers 2200 (a 2xx answer whose body parseSplunkError rejects), 500, 1200 (accepted): three attempts
   with the same body, the last one ends the exchange; the all-parent batch through the batcher makes no
   request; the default index value *)
Example c19_retry_nonvacuous :
  is_ok_status 2200 = false /\ is_ok_status 1200 = true
  /\ (let '(atts, p, s, ok) := attempts (splunk_out []) 3 [ex_e1; ex_e2; ex_e3] [9]%N [2200; 500; 1200] in
      (map (fun r => match r with Ok a => (map rq_status (at_reqs a), at_ret a) | _ => ([], 9) end) atts,
       list_bytes_eqb (map (fun r => match r with Ok a => concat (map rq_body (at_reqs a)) | _ => [] end) atts)
                      [p; p; p], s, ok))
     = ([([2200], 1); ([500], 1); ([1200], 0)], true, [], true)
  /\ attempts (via_out (splunk_out [])) 3 [ex_e2] [9]%N [500] = ([Ok (mkAtt [] false 0 [9]%N [500])], [9]%N, [500], true)
  /\ es_header (mkEs [105]%N [116; 45; 37]%N (es_default_vals []) [116; 116]%N false) ex_e1
     = Ok (es_prefix [105]%N ++ [116; 45; 116; 116]%N ++ es_suffix).
Proof. repeat split; vm_compute; reflexivity. Qed.

(* non-vacuity of the splunk theorems: the documented configuration ts -> time, service -> fields.service_name
   (plus an entry to event.x, which Start() drops) on the batch [first with ts and service; second
   without either; third with service only]: the second envelope is bare although its neighbours carry
   the copied fields *)
Example c19_splunk_nonvacuous :
  Forall cp_ok ex_scfg
  /\ (Forall cp_lits_ok ex_scfg /\ Forall ev_copy_ok [ex_s1; ex_s2; ex_s3])
  /\ envelope ex_scfg ex_s1 = [123; 34; 101; 118; 101; 110; 116; 34; 58; 123; 34; 109; 115; 103; 34; 58; 34; 102; 105; 114; 115; 116; 34; 44; 34; 116; 115; 34; 58; 34; 49; 55; 34; 44; 34; 115; 101; 114; 118; 105; 99; 101; 34; 58; 34; 97; 34; 125; 44; 34; 116; 105; 109; 101; 34; 58; 34; 49; 55; 34; 44; 34; 102; 105; 101; 108; 100; 115; 34; 58; 123; 34; 115; 101; 114; 118; 105; 99; 101; 95; 110; 97; 109; 101; 34; 58; 34; 97; 34; 125; 125]%N
  /\ envelope ex_scfg ex_s2 = [123; 34; 101; 118; 101; 110; 116; 34; 58; 123; 34; 109; 115; 103; 34; 58; 34; 115; 101; 99; 111; 110; 100; 34; 125; 125]%N
  /\ envelope ex_scfg ex_s3 = [123; 34; 101; 118; 101; 110; 116; 34; 58; 123; 34; 109; 115; 103; 34; 58; 34; 116; 104; 105; 114; 100; 34; 44; 34; 115; 101; 114; 118; 105; 99; 101; 34; 58; 34; 99; 34; 125; 44; 34; 102; 105; 101; 108; 100; 115; 34; 58; 123; 34; 115; 101; 114; 118; 105; 99; 101; 95; 110; 97; 109; 101; 34; 58; 34; 99; 34; 125; 125]%N
  /\ (match splunk_out ex_scfg [ex_s1; ex_s2; ex_s3] [1; 2; 3]%N [500] with
      | Ok a => (map rq_body (at_reqs a), at_ret a) | _ => ([], 9) end)
     = ([envelope ex_scfg ex_s1 ++ envelope ex_scfg ex_s2 ++ envelope ex_scfg ex_s3], 1).
Proof. split; [exact ex_scfg_ok|split; [exact ex_scopy_ok|repeat split; vm_compute; reflexivity]]. Qed.

(* ---- round 5 (seed C19-r5-kafka-stale-topic): routing -------------------------------------------
   The predicate's routing clause (route_pred): every carried document travels with the routing value of
   its own event.  kafka: the topic of a record is the event's own topic_field value when use_topic_field
   is set and that value is a non-empty string, default_topic otherwise *)
Theorem c19_kafka_topic_of_event :
  forall c e,
  (k_use_field c = true -> ev_topic e <> [] -> k_topic c e = ev_topic e)
  /\ (k_use_field c = false \/ ev_topic e = [] -> k_topic c e = k_default c)
  /\ (forall e2, ev_topic e2 = ev_topic e -> k_topic c e2 = k_topic c e).
Proof. exact k_topic_spec. Qed.
Print Assumptions c19_kafka_topic_of_event.

(* one call of out(), any previous content of the worker's buffer / records, any answer: the producer is
   handed, per deliverable event of THIS batch and in batch order, one record with that event's topic
   (observed with status -1) and that event's encoding (observed with the answer) — nothing else *)
Theorem c19_kafka_out_routing :
  forall c batch prev script, len (deliverable batch) <= k_batch_size c ->
  exists a, kafka_out c batch prev script = Ok a
    /\ map req_obs (at_reqs a)
       = flat_map (fun e => [(k_topic c e, -1); (enc e, fst (next_status script))]) (deliverable batch)
    /\ at_buf a = concat (map enc (deliverable batch)).
Proof. exact kafka_out_routing. Qed.
Print Assumptions c19_kafka_out_routing.

(* topic independence: inside ANY batch that contains the deliverable event e the record at e's place
   carries k_topic c e and enc e — functions of e and the configuration alone *)
Theorem c19_kafka_topic_independent :
  forall c e pre post prev script,
  is_parent e = false -> len (deliverable (pre ++ e :: post)) <= k_batch_size c ->
  exists a, kafka_out c (pre ++ e :: post) prev script = Ok a
    /\ map req_obs (at_reqs a)
       = k_obs c (fst (next_status script)) (deliverable pre)
         ++ [(k_topic c e, -1); (enc e, fst (next_status script))]
         ++ k_obs c (fst (next_status script)) (deliverable post).
Proof. exact kafka_topic_independent. Qed.
Print Assumptions c19_kafka_topic_independent.

(* no cross-event leakage: permuting, replacing or removing the OTHER events of the batch (and changing
   the buffer history or the answers) changes neither the topic nor the value of e's record *)
Theorem c19_kafka_no_cross_event_leak :
  forall c e pre1 post1 pre2 post2 p1 s1 p2 s2,
  is_parent e = false ->
  len (deliverable (pre1 ++ e :: post1)) <= k_batch_size c ->
  len (deliverable (pre2 ++ e :: post2)) <= k_batch_size c ->
  exists a1 a2,
    kafka_out c (pre1 ++ e :: post1) p1 s1 = Ok a1 /\ kafka_out c (pre2 ++ e :: post2) p2 s2 = Ok a2
    /\ nth_error (map rq_body (at_reqs a1)) (2 * length (deliverable pre1)) = Some (k_topic c e)
    /\ nth_error (map rq_body (at_reqs a2)) (2 * length (deliverable pre2)) = Some (k_topic c e)
    /\ nth_error (map rq_body (at_reqs a1)) (S (2 * length (deliverable pre1))) = Some (enc e)
    /\ nth_error (map rq_body (at_reqs a2)) (S (2 * length (deliverable pre2))) = Some (enc e).
Proof. exact kafka_no_cross_event_leak. Qed.
Print Assumptions c19_kafka_no_cross_event_leak.

(* no cross-batch leakage: through ANY history of batches on one worker (records and buffer reused, failed
   attempts offered again, any answers) every call of out() hands the producer exactly the (topic, value)
   records of the batch it was called with, and every batch of the history is offered *)
Theorem c19_kafka_history_routing :
  forall c batches prev script,
  Forall (fun b => len (deliverable b) <= k_batch_size c) batches ->
  Forall (fun ba => exists a st, snd ba = Ok a
                    /\ map req_obs (at_reqs a)
                       = flat_map (fun e => [(k_topic c e, -1); (enc e, st)]) (deliverable (fst ba)))
         (run_batches (kafka_out c) batches prev script)
  /\ (forall b, In b batches -> In b (map fst (run_batches (kafka_out c) batches prev script))).
Proof. exact kafka_history_routing. Qed.
Print Assumptions c19_kafka_history_routing.

(* the executable routing clause, on ANY observation of a kafka attempt, says exactly this: the observed
   records are, in order, (k_topic c e, enc e) for the deliverable events of the batch *)
Theorem c19_kafka_route_pred_iff :
  forall cfgsx c batch m reqs ret,
  kafka_of_sx cfgsx = Some c ->
  (route_pred 3 cfgsx batch m (SL [SZ 0; SL reqs; SZ ret]) = true
   <-> kafka_pairs reqs = Some (map (fun e => (k_topic c e, enc e)) (deliverable batch))).
Proof. exact kafka_route_pred_iff. Qed.
Print Assumptions c19_kafka_route_pred_iff.

(* ... and the model satisfies it for every buffer history and every answer *)
Theorem c19_kafka_model_routes :
  forall cfgsx c batch prev script,
  kafka_of_sx cfgsx = Some c -> len (deliverable batch) <= k_batch_size c -> fst (next_status script) <> -1 ->
  route_pred 3 cfgsx batch (kafka_out c batch prev script) (sx_flat (kafka_out c batch prev script)) = true.
Proof. exact kafka_model_routes. Qed.
Print Assumptions c19_kafka_model_routes.

(* elasticsearch: the action line (index name) reads nothing of an event but its own index values *)
Theorem c19_es_action_line_local :
  forall c e1 e2, ev_raw e1 = ev_raw e2 -> ev_esc e1 = ev_esc e2 -> es_header_of c e1 = es_header_of c e2.
Proof. exact es_header_local. Qed.
Print Assumptions c19_es_action_line_local.

(* action-line independence: in the payload of ANY batch that contains the deliverable event e, whatever
   the other events, the buffer history and the answers are, e's place holds its own action line followed
   by its own document *)
Theorem c19_es_action_line_independent :
  forall c e pre post prev script,
  es_cfg_ok c -> is_parent e = false ->
  exists a, es_out c (pre ++ e :: post) prev script = Ok a
    /\ at_buf a = es_payload c pre ++ (es_header_of c e ++ [NL] ++ enc e ++ [NL]) ++ es_payload c post
    /\ slice (at_buf a) (len (es_payload c pre)) (len (es_payload c pre) + len (es_header_of c e))
       = Ok (es_header_of c e).
Proof. exact es_action_line_independent. Qed.
Print Assumptions c19_es_action_line_independent.

(* the routing clause's cutter reads from the frames of any events exactly their (action line, document)
   pairs (hypotheses = the oracle checks), and the model's observation satisfies the clause *)
Theorem c19_es_route_pairs :
  forall c evs,
  es_cfg_ok c -> es_cfg_plain c -> Forall esc_safe evs -> Forall enc_line_safe evs ->
  es_pairs (concat (map (es_frame_of c) evs)) = Some (map (fun e => (es_route c e, enc e)) evs)
  /\ forall e, es_route c e = es_header_of c e.
Proof. exact (fun c evs Hc Hp He Hl => conj (es_pairs_frames c evs Hc Hp He Hl) (fun e => es_route_ok c e Hc)). Qed.
Print Assumptions c19_es_route_pairs.

Theorem c19_es_model_routes :
  forall cfgsx c pr batch prev script,
  es_of_sx cfgsx = Some (c, pr) -> es_cfg_ok c -> es_cfg_plain c -> es_split c = false ->
  Forall esc_safe (deliverable batch) -> Forall enc_line_safe (deliverable batch) ->
  route_pred 0 cfgsx batch (es_out c batch prev script) (sx_flat (es_out c batch prev script)) = true.
Proof. exact es_model_routes. Qed.
Print Assumptions c19_es_model_routes.

(* with or without split_batch, for every buffer history and every script of answers: every request out()
   makes — also one answered 413 / 5xx / with a rejected body — consists, in order, of (action line,
   document) pairs of the batch's deliverable events, each action line the event's own (the third
   conjunct of the routing clause) *)
Theorem c19_es_requests_routed :
  forall c batch prev script,
  es_cfg_ok c -> es_cfg_plain c ->
  Forall esc_safe (deliverable batch) -> Forall enc_line_safe (deliverable batch) ->
  exists a, es_out c batch prev script = Ok a
    /\ es_all_routed (map (fun e => (es_route c e, enc e)) (deliverable batch)) (map sx_of_req (at_reqs a)) = true.
Proof. exact es_requests_routed. Qed.
Print Assumptions c19_es_requests_routed.

(* non-vacuity: kafka with use_topic_field, default "d", on one worker first [topic a; parent (topic x); no
   topic], then [no topic; topic b] after a failed produce of the first batch: the records are
   a, d | a, d (offered again) | d, b — and an observation in which the second batch's first record kept the
   topic "a" of the slot's earlier occupant is rejected by the routing clause *)
Example c19_routing_nonvacuous :
  map (fun ba => match snd ba with Ok a => map rq_body (filter (fun q => rq_status q =? -1) (at_reqs a)) | _ => [] end)
      (run_batches (kafka_out ex_kcfg) [[ex_k1; ex_k2; ex_k3]; [ex_k3; ex_k4]] [] [500])
    = [[[97]; [100]]; [[97]; [100]]; [[100]; [98]]]%N
  /\ route_pred 3 (SL [SB [100]%N; SZ 1; SZ 4]) [ex_k3; ex_k4] (kafka_out ex_kcfg [ex_k3; ex_k4] [] [])
       (SL [SZ 0; SL [SL [SB [100]%N; SZ (-1)]; SL [SB (enc ex_k3); SZ 200]; SL [SB [98]%N; SZ (-1)]; SL [SB (enc ex_k4); SZ 200]]; SZ 0]) = true
  /\ route_pred 3 (SL [SB [100]%N; SZ 1; SZ 4]) [ex_k3; ex_k4] (kafka_out ex_kcfg [ex_k3; ex_k4] [] [])
       (SL [SZ 0; SL [SL [SB [97]%N; SZ (-1)]; SL [SB (enc ex_k3); SZ 200]; SL [SB [98]%N; SZ (-1)]; SL [SB (enc ex_k4); SZ 200]]; SZ 0]) = false
  /\ att_docs_pred 3 (SL [SB [100]%N; SZ 1; SZ 4]) [ex_k3; ex_k4] (kafka_out ex_kcfg [ex_k3; ex_k4] [] [])
       (SL [SZ 0; SL [SL [SB [97]%N; SZ (-1)]; SL [SB (enc ex_k3); SZ 200]; SL [SB [98]%N; SZ (-1)]; SL [SB (enc ex_k4); SZ 200]]; SZ 0]) = true.
Proof. repeat split; vm_compute; reflexivity. Qed.
