(* C20 — admission control drops only what the settings say, and only that.
   Only statements, each closed by [exact]; proofs live in Proofs/Admission.v, Proofs/Antispam.v and Proofs/AntispamCov.v. *)
From Verif Require Import Base.Sx Base.GoSem Model.Admission Model.Antispam Proofs.Admission Proofs.Antispam Proofs.AntispamCov.

(* ---- checkInputBytes ------------------------------------------------------------------------ *)

(* a record is refused by the size check exactly when it is empty / a lone newline, or longer than a
   non-zero max_event_size while cutting is disabled (every limit, every record) *)
Theorem c20_admit_refuse_iff :
  forall b max cutoff,
    (exists w, admit_bytes b max cutoff = Ok (Refuse w)) <->
    (empty_record b \/ (max <> 0 /\ max < len b /\ cutoff = false)).
Proof. exact admit_refuse_iff. Qed.
Print Assumptions c20_admit_refuse_iff.

(* cutting: exactly the first max bytes, plus the newline iff the record ended with one *)
Theorem c20_admit_cut_exact :
  forall b max, 0 < max -> max < len b ->
    admit_bytes b max true = Ok (Cut (firstn (Z.to_nat max) b ++ (if ends_nl b then [NL] else []))).
Proof. exact admit_cut_exact. Qed.
Print Assumptions c20_admit_cut_exact.

(* records within the limit are never altered *)
Theorem c20_admit_identity_within_limit :
  forall b max cutoff, ~ empty_record b -> (max = 0 \/ len b <= max) ->
    admit_bytes b max cutoff = Ok (Keep b).
Proof. exact admit_identity_within_limit. Qed.
Print Assumptions c20_admit_identity_within_limit.

(* the slice bytes[:max] is in range for every non-negative limit; a negative max_event_size with
   cutting enabled panics on every non-empty record (the settings are not validated) *)
Theorem c20_admit_no_panic :
  forall b max cutoff, 0 <= max -> is_panic (admit_bytes b max cutoff) = false.
Proof. exact admit_no_panic. Qed.
Print Assumptions c20_admit_no_panic.

Theorem c20_admit_negative_max_panics :
  forall b max, max < 0 -> ~ empty_record b -> is_panic (admit_bytes b max true) = true.
Proof. exact admit_negative_max_panics. Qed.
Print Assumptions c20_admit_negative_max_panics.

(* ---- the refusal chain of Pipeline.In, for every CRI parser, decoder and antispam verdict ------
   (the code after repair a380cb6: "recognised by its input as already committed" refuses CRI rows only,
   and only inside the antispam-enabled, non-partial branch) *)
Theorem c20_in_refuse_iff :
  forall c cri decode_ok spam cur soff b, 0 <= max_size c ->
    ((exists w, pipeline_in c cri decode_ok spam cur soff b = Refused w) <->
     (empty_record b \/ (oversize c b /\ cut_on c = false) \/
      (let b' := seen_bytes c b in
       cri b' = None \/
       (cri b' = Some false /\ 0 <= as_thr c /\ ((is_cri c = true /\ 0 < soff /\ cur < soff) \/ spam b' = true)) \/
       decode_ok b' = false))).
Proof. exact in_refuse_iff. Qed.
Print Assumptions c20_in_refuse_iff.

(* delivered = the record itself within the limit, else its cut form; still accepted by the decoder;
   marked iff it was cut and a mark field is configured *)
Theorem c20_in_delivered_spec :
  forall c cri decode_ok spam cur soff b d mark, 0 <= max_size c ->
    pipeline_in c cri decode_ok spam cur soff b = Delivered d mark ->
    d = seen_bytes c b /\ decode_ok d = true /\
    mark = (negb (max_size c =? 0) && (max_size c <? len b)) && mark_on c.
Proof. exact in_delivered_spec. Qed.
Print Assumptions c20_in_delivered_spec.

(* antispam threshold < 0 at the pipeline: neither IsSpam nor the committed-offset test matters *)
Theorem c20_in_disabled_antispam_never :
  forall c cri decode_ok spam1 spam2 cur1 soff1 cur2 soff2 b, as_thr c < 0 ->
    pipeline_in c cri decode_ok spam1 cur1 soff1 b = pipeline_in c cri decode_ok spam2 cur2 soff2 b.
Proof. exact in_disabled_antispam_never. Qed.
Print Assumptions c20_in_disabled_antispam_never.

(* ---- Antispammer ------------------------------------------------------------------------------ *)

(* threshold -1 and no rules: IsSpam is false and leaves every state alone, whatever the exceptions *)
Theorem c20_antispam_disabled_never :
  forall MI U s exc isNew t, astep MI U s (Ev (resolve (-1) None exc) isNew t) = (s, false).
Proof. exact antispam_disabled_never. Qed.
Print Assumptions c20_antispam_disabled_never.

(* a matching exception: never flagged, never counted, for every threshold (0 = "discard all" included) *)
Theorem c20_antispam_exception_never :
  forall T MI U s exc isNew t, existsb (fun m => m) exc = true ->
    astep MI U s (Ev (resolve T None exc) isNew t) = (s, false).
Proof. exact antispam_exception_never. Qed.
Print Assumptions c20_antispam_exception_never.

Theorem c20_antispam_rule_unlimited_never :
  forall T MI U s rs exc isNew t, first_rule rs = Some (-1) ->
    astep MI U s (Ev (resolve T (Some rs) exc) isNew t) = (s, false).
Proof. exact antispam_rule_unlimited_never. Qed.
Print Assumptions c20_antispam_rule_unlimited_never.

(* Ban onset, the true statement: after ANY history that ends with a Maintenance round leaving the
   source not banned, a call is flagged only if the counter r that round left behind plus the number of
   quick calls (gap to the source's previous event < MI) since the round, this call included, reaches T. *)
Theorem c20_ban_onset_partial :
  forall MI U T ops0 seg i, 0 < T -> 0 <= U ->
    forallb (uniform_op T) ops0 = true -> forallb (is_count_ev T) seg = true ->
    let s := fst (arun MI U None (ops0 ++ [Maint])) in
    banned T s = false ->
    nth_error (snd (arun MI U s seg)) i = Some true ->
    T <= counter_of s + quick_count MI (ts_of s) (firstn (S i) seg).
Proof. exact ban_onset_reachable. Qed.
Print Assumptions c20_ban_onset_partial.

(* the property's wording holds whenever that round left nothing behind ... *)
Theorem c20_ban_onset_needs_T :
  forall MI U T ops0 seg i, 0 < T -> 0 <= U ->
    forallb (uniform_op T) ops0 = true -> forallb (is_count_ev T) seg = true ->
    let s := fst (arun MI U None (ops0 ++ [Maint])) in
    counter_of s = 0 ->
    nth_error (snd (arun MI U s seg)) i = Some true ->
    T <= quick_count MI (ts_of s) (firstn (S i) seg).
Proof. exact ban_onset_needs_T. Qed.
Print Assumptions c20_ban_onset_needs_T.

(* ... which is the case for every source that was not banned before the round ... *)
Theorem c20_unbanned_round_leaves_zero :
  forall U T s, 0 < T -> 0 <= U -> wf T s -> banned T s = false -> counter_of (maint_step U s) = 0.
Proof. exact maint_unbanned_leaves_zero. Qed.
Print Assumptions c20_unbanned_round_leaves_zero.

(* ... but a ban that ends with the round leaves x - T behind ... *)
Theorem c20_unban_round_leaves_residual :
  forall U T x, 0 < T -> 1 <= U -> sthr x = T -> T <= counter x < 2 * T ->
    maint_step U (Some x) = Some {| counter := counter x - T; ts := ts x; sthr := T |}.
Proof. exact maint_residual. Qed.
Print Assumptions c20_unban_round_leaves_residual.

(* ... so the property's wording is FALSE of the code: T = 10, U = 4: 15 quick events (banned at the
   10th, counter 40, then 45), 4 rounds (35, 25, 15, 5: unbanned, residual 5), and the 5th event after
   that is flagged although only 5 < 10 events arrived since the previous round. *)
Theorem c20_ban_onset_residual_refuted :
  exists T MI U ops0 seg i,
    0 < T /\ 0 <= U /\
    forallb (uniform_op T) ops0 = true /\ forallb (is_count_ev T) seg = true /\
    let s := fst (arun MI U None (ops0 ++ [Maint])) in
    banned T s = false /\
    nth_error (snd (arun MI U s seg)) i = Some true /\
    quick_count MI (ts_of s) (firstn (S i) seg) < T.
Proof. exact ban_onset_residual_refuted. Qed.
Print Assumptions c20_ban_onset_residual_refuted.

(* a flagged call leaves the source banned; a banned source is flagged; Maintenance never bans *)
Theorem c20_flagged_iff_banned_after :
  forall MI U T s t, 0 < T -> 1 <= U ->
    snd (count_step MI U T s false t) = banned T (fst (count_step MI U T s false t)).
Proof. exact flagged_iff_banned_after. Qed.
Print Assumptions c20_flagged_iff_banned_after.

Theorem c20_maint_never_bans :
  forall U T s, 0 < T -> 0 <= U -> wf T s -> banned T s = false -> banned T (maint_step U s) = false.
Proof. exact maint_never_bans. Qed.
Print Assumptions c20_maint_never_bans.

(* from any reachable state, U+1 rounds without an IsSpam call leave the source unbanned with counter 0,
   and the next round deletes its entry *)
Theorem c20_unban_within_U_plus_1 :
  forall MI U T ops, 0 < T -> 0 <= U -> forallb (uniform_op T) ops = true ->
    let s := fst (arun MI U None ops) in
    let s' := fst (arun MI U s (repeat Maint (Z.to_nat (U + 1)))) in
    banned T s' = false /\ counter_of s' = 0 /\ fst (arun MI U s' [Maint]) = None.
Proof. exact unban_within_U_plus_1. Qed.
Print Assumptions c20_unban_within_U_plus_1.

(* sources do not influence each other: in a table of sources, source id evolves as if it saw only
   its own IsSpam calls and the Maintenance rounds *)
Theorem c20_sources_independent :
  forall MI U ops ms id s, nth_error ms id = Some s ->
    nth_error (fst (mrun MI U ms ops)) id = Some (fst (arun MI U s (flat_map (proj id) ops))).
Proof. exact sources_independent. Qed.
Print Assumptions c20_sources_independent.

(* ---- the last stage of In: the input's PassEvent ("recognised by its input as already committed") ---- *)

(* the input refuses an event exactly when the rest of In let it through (c20_in_refuse_iff says when that is), streams
   are enabled and PassEvent answered false *)
Theorem c20_in_refused_by_input_iff :
  forall c cri decode_ok spam cur soff b streams_on pass,
    pipeline_in3 c cri decode_ok spam cur soff b streams_on pass = RefusedByInput <->
    ((exists d mark, pipeline_in c cri decode_ok spam cur soff b = Delivered d mark) /\ streams_on = true /\ pass = false).
Proof. exact in3_refused_by_input_iff. Qed.
Print Assumptions c20_in_refused_by_input_iff.

(* with DisableStreams, or an input that passes the event, nothing is added to the chain of c20_in_refuse_iff *)
Theorem c20_in_input_pass_or_streams_off :
  forall c cri decode_ok spam cur soff b streams_on pass,
    streams_on = false \/ pass = true ->
    pipeline_in3 c cri decode_ok spam cur soff b streams_on pass = R3 (pipeline_in c cri decode_ok spam cur soff b).
Proof. exact in3_pass_is_in. Qed.
Print Assumptions c20_in_input_pass_or_streams_off.

Theorem c20_in_refusal_independent_of_input :
  forall c cri decode_ok spam cur soff b streams_on pass w,
    pipeline_in c cri decode_ok spam cur soff b = Refused w ->
    pipeline_in3 c cri decode_ok spam cur soff b streams_on pass = R3 (Refused w).
Proof. exact in3_refusal_independent_of_input. Qed.
Print Assumptions c20_in_refusal_independent_of_input.

(* the antispam counted the event before the input was asked: its state does not depend on the answer *)
Theorem c20_in_antispam_state_independent_of_input :
  forall pc streams_on meta_on nsrc ms id isNew cur soff hdr b valid pass1 pass2 meta,
    fst (pstep6 pc streams_on meta_on nsrc ms (P6In id isNew cur soff hdr b valid pass1 meta)) =
    fst (pstep6 pc streams_on meta_on nsrc ms (P6In id isNew cur soff hdr b valid pass2 meta)).
Proof. exact pstep6_state_independent_of_pass. Qed.
Print Assumptions c20_in_antispam_state_independent_of_input.

(* source_name_meta_field: events that carry the field share the entry of the meta value, whatever their source id, and
   are never the "first event of a new source"; the others keep the entry of their source id *)
Theorem c20_source_key_meta :
  forall nsrc id1 id2 isNew1 isNew2 meta,
    0 <= meta -> source_key true nsrc id1 isNew1 meta = source_key true nsrc id2 isNew2 meta /\
                 snd (source_key true nsrc id1 isNew1 meta) = false /\
                 (nsrc <= fst (source_key true nsrc id1 isNew1 meta))%nat.
Proof. exact source_key_meta. Qed.
Print Assumptions c20_source_key_meta.

Theorem c20_source_key_plain :
  forall meta_on nsrc id isNew meta,
    meta_on = false \/ meta < 0 -> source_key meta_on nsrc id isNew meta = (id, isNew).
Proof. exact source_key_plain. Qed.
Print Assumptions c20_source_key_plain.

(* ---- the counter is an int32 in the code, an unbounded integer in the theorems above --------------------------
   On every run of IsSpam calls (all counted against T) and Maintenance rounds that starts with room for its length
   below MaxInt32, the model with a wrapping Inc and the clamped ban value (clampInt32) computes the same verdicts and
   the same state as the unbounded one; from the empty state: every run of at most 2^31 - 1 - U*T ops. *)
Theorem c20_int32_run_exact :
  forall MI U T ops s,
    0 < T -> 0 <= U -> forallb (uniform_op T) ops = true -> wf T s ->
    Z.max (counter_of s) (U * T) + Z.of_nat (length ops) <= MAX32 ->
    arun32 MI U s ops = arun MI U s ops.
Proof. exact arun32_exact. Qed.
Print Assumptions c20_int32_run_exact.

Theorem c20_int32_run_exact_fresh :
  forall MI U T ops,
    0 < T -> 0 <= U -> forallb (uniform_op T) ops = true ->
    U * T + Z.of_nat (length ops) <= MAX32 ->
    arun32 MI U None ops = arun MI U None ops.
Proof. exact arun32_exact_fresh. Qed.
Print Assumptions c20_int32_run_exact_fresh.

Theorem c20_int32_step_exact :
  forall MI U T s isNew t,
    0 < T -> 0 <= U -> U * T <= MAX32 -> wf T s -> counter_of s < MAX32 ->
    count_step32 MI U T s isNew t = count_step MI U T s isNew t.
Proof. exact count_step32_exact. Qed.
Print Assumptions c20_int32_step_exact.

Theorem c20_int32_round_exact :
  forall U T s, 0 < T -> 0 <= U -> wf T s -> counter_of s <= MAX32 -> maint_step32 U s = maint_step U s.
Proof. exact maint_step32_exact. Qed.
Print Assumptions c20_int32_round_exact.

(* ---- non-vacuity ------------------------------------------------------------------------------ *)
(* cut with and without newline, identity at the limit, refusals *)
Example c20_admit_nonvacuous :
  admit_bytes [97;98;99;100;10]%N 2 true = Ok (Cut [97;98;10]%N) /\
  admit_bytes [97;98;99;100]%N 2 true = Ok (Cut [97;98]%N) /\
  admit_bytes [97;98;10]%N 3 true = Ok (Keep [97;98;10]%N) /\
  admit_bytes [97;98;99]%N 2 false = Ok (Refuse ROversize) /\
  admit_bytes [10]%N 0 false = Ok (Refuse REmpty).
Proof. vm_compute. repeat split. Qed.

(* U+1 is tight: T = 10, U = 4, 20 quick events (counter 50); after U = 4 rounds the source is still
   banned (counter 10), after the 5th it is free, the 6th deletes it *)
Example c20_unban_tight_nonvacuous :
  let s := fst (arun 1 4 None (repeat (Ev (Count 10) false 0) 20)) in
  counter_of s = 50 /\
  banned 10 (fst (arun 1 4 s (repeat Maint 4))) = true /\
  banned 10 (fst (arun 1 4 s (repeat Maint 5))) = false /\
  fst (arun 1 4 s (repeat Maint 6)) = None.
Proof. vm_compute. repeat split. Qed.

(* ban onset with r = 0: the hypotheses are met by a never-banned source and exactly the T-th quick
   event is the first flagged one; slow events (gap >= MI) are not counted *)
Example c20_ban_onset_nonvacuous :
  let ops0 := repeat (Ev (Count 3) false 0) 2 in
  let s := fst (arun 5 4 None (ops0 ++ [Maint])) in
  counter_of s = 0 /\
  snd (arun 5 4 s [Ev (Count 3) false 0; Ev (Count 3) false 1; Ev (Count 3) false 9; Ev (Count 3) false 10])
    = [false; false; false; true].
Proof. vm_compute. repeat split. Qed.

(* exceptions beat threshold 0 ("discard all"); without a match threshold 0 flags everything *)
Example c20_exception_nonvacuous :
  resolve 0 None [false; true] = Pass /\ resolve 0 None [false; false] = Block /\
  resolve 7 (Some [(false, 0); (true, 3)]) [true] = Count 3.
Proof. vm_compute. repeat split. Qed.

(* the input's refusal: a record that everything else lets through is refused iff streams are on and PassEvent says no *)
Example c20_input_refusal_nonvacuous :
  let c := {| max_size := 0; cut_on := false; mark_on := false; as_thr := -1; is_cri := false |} in
  let run := fun streams pass => pipeline_in3 c (fun _ => Some false) (fun _ => true) (fun _ => false) 0 0 [97;10]%N streams pass in
  run true false = RefusedByInput /\ run false false = R3 (Delivered [97;10]%N false) /\
  run true true = R3 (Delivered [97;10]%N false).
Proof. vm_compute. repeat split. Qed.

(* outside the range of c20_int32_run_exact the int32 model (and the code: stream antispam-int32-clamp) leaves the
   unbounded one: T = 3, U = 2^30 - the ban value is clamped to MaxInt32 and the next quick event wraps the counter *)
Example c20_int32_clamp_nonvacuous :
  let U := 1073741824 in
  let ban := repeat (Ev (Count 3) false 0) 3 in
  counter_of (fst (arun32 2 U None ban)) = MAX32 /\
  snd (arun32 2 U None (ban ++ [Ev (Count 3) false 0])) = [false; false; true; false] /\
  snd (arun 2 U None (ban ++ [Ev (Count 3) false 0])) = [false; false; true; true] /\
  arun32 2 4 None (ban ++ [Ev (Count 3) false 0; Maint]) = arun 2 4 None (ban ++ [Ev (Count 3) false 0; Maint]).
Proof. vm_compute. repeat split. Qed.
