(* C15 — multi-line reassembly keeps every byte, in order, within one stream (action level).
   Only statements, each closed by [exact]; proofs live in Proofs/Join.v and Proofs/K8sMultiline.v.
   join / join_template: Model/Join.v (one state machine; the regexps / template checks are oracle
   bits carried by the events).  k8s: Model/K8sMultiline.v (the repaired code; the cut at max_event_size never splits an escape sequence).
   The processor-level clause (a stream stays on its processor while an action is busy; a
   time-out is delivered only to a busy action) is the hypothesis [busy_ok] here and is discharged
   by the pipeline model. *)
From Verif Require Import Base.Sx Base.GoSem Model.Join Model.K8sMultiline Proofs.Join Proofs.K8sMultiline.
From Verif Require Import Model.C15Pipe Proofs.C15Pipe.

(* ---- join ------------------------------------------------------------------------------------- *)
(* for every configuration (max_event_size, negate flags, any number of templates) and every input
   sequence in which time-outs arrive only while the action is busy: no panic, one result per input,
   and what leaves the action is, in order, the decomposition of the input into maximal runs — a run
   start . continue* becomes ONE event (the start event) whose field is the in-order concatenation
   under the exact size rule [limited_cat]; every other event passes untouched; a run is closed by
   the first non-continuing event or by a time-out; a run still open at the end is exactly what
   the action holds *)
Theorem c15_join_runs : forall c evs,
  jwf c evs = true -> busy_ok c evs = true ->
  exists os st, join_run c jstate0 evs = (os, Ok st) /\ length os = length evs /\
    downstream os evs = flat_map (seg_down (jmax c)) (segments (jnegs c) evs) /\
    map (fun o : jstep => fst o) os = flat_map seg_results (segments (jnegs c) evs) /\
    state_pending st = spec_pending (jmax c) (segments (jnegs c) evs).
Proof. exact join_runs. Qed.
Print Assumptions c15_join_runs.

(* [segments] is THE decomposition: it partitions the input (nothing lost, nothing duplicated,
   order kept), its runs are well formed and maximal, and it is the only such decomposition *)
Theorem c15_segments_partition : forall negs evs,
  concat (map seg_inputs (segments negs evs)) = evs /\ segs_ok negs (segments negs evs) = true.
Proof. exact segments_partition_ok. Qed.
Print Assumptions c15_segments_partition.

Theorem c15_segments_unique : forall negs ss,
  segs_ok negs ss = true -> segments negs (concat (map seg_inputs ss)) = ss.
Proof. exact segments_unique. Qed.
Print Assumptions c15_segments_unique.

(* the fuel in the definition of [segments] is irrelevant *)
Theorem c15_segments_fuel : forall negs n evs,
  (length evs <= n)%nat -> segments_fuel n negs evs = segments negs evs.
Proof. exact segments_fuel_enough. Qed.
Print Assumptions c15_segments_fuel.

(* the size rule, exactly: the first k continuation lines are appended, where k is the first
   position at which the buffer has reached max_event_size (so the result may exceed the limit by
   less than one line); max_event_size = 0 appends everything *)
Theorem c15_join_size_rule : forall max vs first,
  exists k, (k <= length vs)%nat /\
    limited_cat max first vs = first ++ concat (firstn k vs) /\
    (forall j, (j < k)%nat -> max = 0 \/ len (first ++ concat (firstn j vs)) < max) /\
    ((k < length vs)%nat -> max <> 0 /\ max <= len (first ++ concat (firstn k vs))).
Proof. exact limited_cat_rule. Qed.
Print Assumptions c15_join_size_rule.

(* conservation: without a limit the bytes carried by the output events and the held run are the
   input's field bytes, in order; with a limit each carries a prefix of that *)
Theorem c15_join_conservation : forall negs evs,
  concat (map (seg_bytes 0) (segments negs evs)) = in_bytes evs.
Proof. exact join_conservation_zero. Qed.
Print Assumptions c15_join_conservation.

Theorem c15_join_cut_is_prefix : forall max s, exists rest, seg_bytes 0 s = seg_bytes max s ++ rest.
Proof. exact seg_bytes_prefix. Qed.
Print Assumptions c15_join_cut_is_prefix.

(* the Panicf branches and the templates[curTemplateIdx] index are unreachable *)
Theorem c15_join_never_panics : forall c evs,
  jwf c evs = true -> busy_ok c evs = true -> is_ok (snd (join_run c jstate0 evs)) = true.
Proof. exact join_never_panics. Qed.
Print Assumptions c15_join_never_panics.

(* the delivery hypothesis is necessary, and "busy" (Hold/Collapse) is exactly "holds an event" *)
Theorem c15_join_timeout_when_idle_panics : forall c st i,
  isJoining st = false -> join_do c st (i, JTimeout) = Panic 3.
Proof. exact join_timeout_when_idle_panics. Qed.
Print Assumptions c15_join_timeout_when_idle_panics.

Theorem c15_join_busy_iff_joining : forall c st e st' o,
  join_do c st e = Ok (st', o) -> is_busy (fst o) = isJoining st'.
Proof. exact join_busy_iff_joining. Qed.
Print Assumptions c15_join_busy_iff_joining.

(* ---- k8s multi-line action (repaired code) ------------------------------------------------------ *)
(* never panics: EVERY max_event_size (0, 1..3 and negative values included: the cut then keeps
   nothing), any split_event_size / cut-off / only_node setting, any sequence of chunks and time-outs,
   every fragment at least the two quotes (empty ones included) *)
Theorem c15_k8s_total : forall c xs, forallb frag_ok xs = true ->
  is_ok (snd (k_run c kstate0 xs)) = true /\ length (fst (k_run c kstate0 xs)) = length xs.
Proof. exact k8s_total. Qed.
Print Assumptions c15_k8s_total.

(* time-out free input: every step is the function k_spec of the chunks of the current line *)
Theorem c15_k8s_steps_are_spec : forall c xs,
  konly c = false -> no_timeout xs = true -> forallb frag_ok xs = true ->
  exists st, k_run c kstate0 xs = (k_spec c [] xs, Ok st).
Proof. exact k8s_steps_are_spec. Qed.
Print Assumptions c15_k8s_steps_are_spec.

(* ... which for a line whose chunks all fit is ONE passed event carrying the in-order
   concatenation of the chunk bodies (an event that found nothing buffered is left untouched) *)
Theorem c15_k8s_concat : forall c fs g,
  first_unfit (kmax c) 1 fs = None ->
  final_step c fs g =
    match bodies fs with
    | [] => (APass, 0, Some g, false)
    | _ :: _ => (APass, 0, Some (QUOTE :: bodies fs ++ body g ++ [QUOTE]), false)
    end.
Proof. exact k8s_concat. Qed.
Print Assumptions c15_k8s_concat.

(* ... and for an oversize line with cut_off_event_by_limit ONE passed event that carries the bodies
   of the chunks p that fitted and then whole tokens of the first chunk u that did not — the prefix
   of u's body chosen by escapedCutKeep for the limit max_event_size - 3 - len(bodies p): a prefix of
   the line (nothing that follows the cut is glued on), never longer than the byte limit the code
   before the repair cut at, and shorter than it by less than one \uXXXX sequence *)
Theorem c15_k8s_cut_event : forall c fs g p u,
  Forall (fun f => 2 <= len f) fs ->
  first_unfit (kmax c) 1 fs = Some (p, u) -> kcut c = true ->
  final_step c fs g =
    (APass, 0, Some (QUOTE :: cut_body (kmax c) p u ++ (if ends_nl g then NLESC else []) ++ [QUOTE]), kfield c) /\
  (exists rest, bodies fs = cut_body (kmax c) p u ++ rest) /\
  len (bodies p) <= len (cut_body (kmax c) p u) <= Z.max (len (bodies p)) (kmax c - 3) /\
  (len (bodies p) <= kmax c - 3 -> kmax c - 3 - len (cut_body (kmax c) p u) < 6).
Proof. exact k8s_cut_event. Qed.
Print Assumptions c15_k8s_cut_event.

(* the cut function escapedCutKeep, for every string and every limit: it is total and keeps at most
   min(limit, len s) bytes (the code before the repair kept exactly that many) ... *)
Theorem c15_k8s_cut_keep_le : forall s limit,
  exists k, escaped_cut_keep s limit = Ok k /\ 0 <= k <= len s /\ (0 <= limit -> k <= Z.min limit (len s)).
Proof. exact k8s_cut_keep_le. Qed.
Print Assumptions c15_k8s_cut_keep_le.

(* ... what it keeps of a valid escaped JSON string is a valid escaped JSON string: no escape
   sequence (backslash + one byte, backslash u + four hexadecimal digits) is split ... *)
Theorem c15_k8s_cut_keep_tokens : forall s limit k,
  escaped_cut_keep s limit = Ok k -> esc_wf s = true -> esc_wf (firstn (Z.to_nat k) s) = true.
Proof. exact k8s_cut_keep_tokens. Qed.
Print Assumptions c15_k8s_cut_keep_tokens.

(* ... and it keeps the LONGEST such prefix: fewer than 6 bytes of the limit stay unused and no
   longer prefix within the limit ends on a token boundary (any s, well tokenised or not) *)
Theorem c15_k8s_cut_keep_maximal : forall s limit k,
  escaped_cut_keep s limit = Ok k -> 0 <= limit <= len s ->
  limit - k < 6 /\ forall j, k < j <= limit -> esc_wf (firstn (Z.to_nat j) s) = false.
Proof. exact k8s_cut_keep_maximal. Qed.
Print Assumptions c15_k8s_cut_keep_maximal.

(* end to end: every configuration, time-outs anywhere, only_node or not — when every fragment is a
   valid escaped JSON string, so is the log field of every event the action passes (joined, cut,
   untouched) *)
Theorem c15_k8s_cut_event_wf : forall c xs,
  forallb frag_ok xs = true -> forallb frag_wf xs = true ->
  forallb step_wf (fst (k_run c kstate0 xs)) = true.
Proof. exact k8s_cut_event_wf. Qed.
Print Assumptions c15_k8s_cut_event_wf.

(* conservation without a limit and without time-outs: bytes out + bytes still buffered = bytes in *)
Theorem c15_k8s_conservation : forall c, kmax c = 0 ->
  forall xs, no_timeout xs = true ->
  k_out_bytes (k_spec c [] xs) ++ bodies (map fst (k_pending c [] xs)) = k_in_bytes xs.
Proof. exact k8s_conservation_top. Qed.
Print Assumptions c15_k8s_conservation.

(* the line-end test reads the JSON string tokens: n after an odd number of backslashes *)
Theorem c15_k8s_line_end : forall f, 2 <= len f -> is_line_end f = Ok (ends_nl f).
Proof. exact is_line_end_spec. Qed.
Print Assumptions c15_k8s_line_end.

Theorem c15_k8s_line_end_tokens : forall P : bytes,
  ends_nl (QUOTE :: (P ++ [CH_n]) ++ [QUOTE]) = par (lead_bs (rev P)).
Proof. exact ends_nl_tokens. Qed.
Print Assumptions c15_k8s_line_end_tokens.

(* ... hence, for any escaper that yields a quoted string whose last token is the pair
   backslash-n exactly when the raw text ends with a newline byte (checked against insane-json on
   every run), a chunk ends the line iff its raw text ends with a newline *)
Theorem c15_k8s_line_end_raw : forall escaped : bytes -> bytes,
  (forall raw, 2 <= len (escaped raw)) ->
  (forall raw, ends_nl (escaped raw) = last_is_nl raw) ->
  forall raw, is_line_end (escaped raw) = Ok (last_is_nl raw).
Proof. exact line_end_raw. Qed.
Print Assumptions c15_k8s_line_end_raw.

(* REFUTED for this action: "a run is flushed when a stream time-out arrives".  The time-out branch
   drops the buffered chunks (bytes ab are lost in the witness) *)
Theorem c15_k8s_timeout_flush_refuted :
  exists c xs, kmax c = 0 /\ forallb frag_ok xs = true /\
    is_ok (snd (k_run c kstate0 xs)) = true /\
    k_out_bytes (fst (k_run c kstate0 xs)) <> k_in_bytes xs /\
    k_in_bytes xs = [97; 98; 99; 92; 110]%N /\ k_out_bytes (fst (k_run c kstate0 xs)) = [99; 92; 110]%N.
Proof. exact k8s_timeout_flush_refuted. Qed.
Print Assumptions c15_k8s_timeout_flush_refuted.

(* the strongest true restriction: a time-out empties the buffer, emits nothing and leaves the initial state (partial;
   since /repo 2e55483 skipNextEvent is cleared as well) *)
Theorem c15_k8s_timeout_flush_partial : forall c tl e s co,
  k_do c {| ebuf := QUOTE :: tl; esize := e; skipNext := s; cutOff := co |} KTimeout
  = Ok ({| ebuf := [QUOTE]; esize := 0; skipNext := false; cutOff := false |}, (ADiscard, 0, None, false)).
Proof. exact k8s_timeout_drops. Qed.
Print Assumptions c15_k8s_timeout_flush_partial.

(* ---- non-vacuity ------------------------------------------------------------------------------ *)
(* join, max_event_size 4, one template: other, START(ab), cont(cd), cont(ef: dropped, buffer full),
   other, START(gh), time-out, no-field, START(ij) still held *)
Definition ex_evs : list jev :=
  number_from 0
    [JField true [120]%N [false] [false];
     JField true [97; 98]%N [true] [false];
     JField true [99; 100]%N [false] [true];
     JField true [101; 102]%N [false] [true];
     JField true [121]%N [false] [false];
     JField true [103; 104]%N [true] [true];
     JTimeout;
     JNoField;
     JField true [105; 106]%N [true] [false]].
Definition ex_cfg : jcfg := {| jmax := 4; jnegs := [false] |}.

Example c15_join_nonvacuous :
  jwf ex_cfg ex_evs = true /\ busy_ok ex_cfg ex_evs = true /\
  downstream (fst (join_run ex_cfg jstate0 ex_evs)) ex_evs =
    [OPassed 0; OJoined 1 [97; 98; 99; 100]%N; OPassed 4; OJoined 5 [103; 104]%N; OPassed 7] /\
  map (fun o : jstep => fst o) (fst (join_run ex_cfg jstate0 ex_evs)) = [0; 3; 1; 1; 0; 3; 2; 0; 3] /\
  spec_pending 4 (segments [false] ex_evs) = Some (8, [105; 106]%N).
Proof. vm_compute. repeat split; reflexivity. Qed.

(* k8s, max_event_size 12 with cut-off: "ab" + "" + "cd\n" joined; then an oversize line cut *)
Definition ex_chunks : list kin :=
  [KChunk [34; 97; 98; 34]%N 10; KChunk [34; 34]%N 8; KChunk [34; 99; 100; 92; 110; 34]%N 12;
   KChunk [34; 49; 50; 51; 52; 53; 54; 34]%N 14; KChunk [34; 55; 56; 57; 48; 34]%N 12;
   KChunk [34; 92; 92; 110; 34]%N 11; KChunk [34; 122; 92; 110; 34]%N 11].
Definition ex_kcfg : kcfg := {| kmax := 12; ksplit := 524288; kcut := true; kfield := true; konly := false |}.

Example c15_k8s_nonvacuous :
  forallb frag_ok ex_chunks = true /\ no_timeout ex_chunks = true /\
  k_run ex_kcfg kstate0 ex_chunks =
    ([(1, 0, None, false); (1, 0, None, false);
      (0, 0, Some [34; 97; 98; 99; 100; 92; 110; 34]%N, false);
      (1, 0, None, false); (1, 1, None, false); (1, 0, None, false);
      (0, 0, Some [34; 49; 50; 51; 52; 53; 54; 55; 56; 57; 92; 110; 34]%N, true)],
     Ok kstate0).
Proof. vm_compute. repeat split; reflexivity. Qed.

(* k8s, max_event_size 12 with cut-off: "abcd" is buffered; the next chunk ef\u0000gh does not fit and
   the byte limit (5 bytes of it) falls inside \u0000: only "ef" is kept (the code before the repair
   kept ef\u0, not a JSON string any more); the chunk "z" that follows is NOT glued on; then the
   same with max_event_size 6, where nothing of \u0000xyz fits: an empty, flagged cut event *)
Definition ex_cut_chunks : list kin :=
  [KChunk [34; 97; 98; 99; 100; 34]%N 46;
   KChunk [34; 101; 102; 92; 117; 48; 48; 48; 48; 103; 104; 34]%N 45;
   KChunk [34; 122; 34]%N 41; KChunk [34; 119; 92; 110; 34]%N 42].
Definition ex_cut_chunks2 : list kin :=
  [KChunk [34; 92; 117; 48; 48; 48; 48; 120; 121; 122; 34]%N 44; KChunk [34; 122; 34]%N 41;
   KChunk [34; 101; 110; 100; 92; 110; 34]%N 44].

Example c15_k8s_cut_nonvacuous :
  forallb frag_ok ex_cut_chunks = true /\ forallb frag_wf ex_cut_chunks = true /\
  escaped_cut_keep [101; 102; 92; 117; 48; 48; 48; 48; 103; 104]%N 5 = Ok 2 /\
  esc_wf [101; 102; 92; 117; 48]%N = false /\
  k_run ex_kcfg kstate0 ex_cut_chunks =
    ([(1, 0, None, false); (1, 1, None, false); (1, 0, None, false);
      (0, 0, Some [34; 97; 98; 99; 100; 101; 102; 92; 110; 34]%N, true)], Ok kstate0) /\
  k_run {| kmax := 6; ksplit := 524288; kcut := true; kfield := true; konly := false |} kstate0 ex_cut_chunks2 =
    ([(1, 1, None, false); (1, 0, None, false); (0, 0, Some [34; 92; 110; 34]%N, true)], Ok kstate0).
Proof. vm_compute. repeat split; reflexivity. Qed.

(* ---- k8s: after a time-out the action is as good as new (sub-model 9, k_spec_t) -------------------- *)
(* A time-out ends the action's claim on the stream (it is not busy any more: the processor may serve any other
   stream next), so the steps that follow must be those of a fresh action: k_spec_t.  For EVERY configuration
   (every max_event_size, cut-off on or off, every split size) and EVERY placement of time-outs, every step of the
   model is k_spec_t.  (Before /repo 2e55483 skipNextEvent survived the time-out and this held only for
   max_event_size = 0: former finding C15-k8s-timeout-keeps-skip, now repaired; family k8s-timeout-keeps-skip.) *)
Theorem c15_k8s_timeout_fresh : forall c xs,
  konly c = false -> forallb frag_ok xs = true ->
  exists st, k_run c kstate0 xs = (k_spec_t c [] xs, Ok st).
Proof. exact k8s_timeout_fresh. Qed.
Print Assumptions c15_k8s_timeout_fresh.

(* what k_spec_t says: up to the first time-out the line specification k_spec; the time-out itself is a Discard that
   emits nothing; what follows is specified exactly like the input of an action that has just been started (history
   []: nothing of the line that timed out - buffered bytes, "skip the rest", "was cut" - survives) *)
Theorem c15_k8s_spec_t_restart : forall c hist xs ys,
  no_timeout xs = true ->
  k_spec_t c hist (xs ++ KTimeout :: ys) = k_spec c hist xs ++ (ADiscard, 0, None, false) :: k_spec_t c [] ys.
Proof. exact k_spec_t_restart. Qed.
Print Assumptions c15_k8s_spec_t_restart.

(* non-vacuity, and the behaviour BEFORE the repair excluded: max_event_size 9, "0123456789" (does not fit, the rest of
   its line is to be skipped), time-out, the complete lines "ok" and "next".  The old code answered Collapse, Discard,
   DISCARD, Pass (the line "ok", possibly of another stream, was lost); the model - and k_spec_t - pass both lines *)
Example c15_k8s_timeout_fresh_nonvacuous :
  konly k8s_fresh_cfg = false /\ forallb frag_ok k8s_fresh_witness = true /\
  k_run k8s_fresh_cfg kstate0 k8s_fresh_witness = (k_spec_t k8s_fresh_cfg [] k8s_fresh_witness, Ok kstate0) /\
  fst (k_run k8s_fresh_cfg kstate0 k8s_fresh_witness) =
    [(ACollapse, 1, None, false); (ADiscard, 0, None, false);
     (APass, 0, Some [34; 111; 107; 92; 110; 34]%N, false);
     (APass, 0, Some [34; 110; 101; 120; 116; 92; 110; 34]%N, false)] /\
  map (fun o : kstep => fst (fst (fst o))) (fst (k_run k8s_fresh_cfg kstate0 k8s_fresh_witness))
    <> [ACollapse; ADiscard; ADiscard; APass].
Proof. vm_compute. repeat split; try reflexivity. intro H; discriminate H. Qed.

(* ---- the join plugin inside the pipeline (Model/C15Pipe.v, sub-model 6) ------------------------- *)
(* "events of different streams or sources are never merged": the pipeline has one plugin instance per
   processor, not one per stream.  For every configuration and every log of Do calls (instance, stream,
   event) - any interleaving of any number of streams over any number of instances, time-outs included -
   in which the delivery discipline holds (an instance that is busy receives only the stream it holds; a
   stream is never handed to a second instance while one is busy with it: monitor 2 of the harness), the
   per-instance state machines return, call by call, exactly the results and emissions that one state
   machine PER STREAM returns: a stream is joined as if it had the action to itself. *)
Theorem c15_pipe_instances_as_one : forall c log os,
  inst_run c [] log = (os, true) ->
  pj_disc [] (zip_busy log os) = true ->
  stream_run c [] log = (os, true).
Proof. exact pj_instances_as_one. Qed.
Print Assumptions c15_pipe_instances_as_one.

(* what the harness accepts per stream (monitor 3: the Do calls of the stream replayed against the events fed
   to it, a rejected event skipped only by an idle action) is a panic-free run of the join state machine with
   the observed ActionResults, one input per Do call, and it satisfies [busy_ok]: the delivery hypothesis of
   c15_join_runs / c15_join_never_panics is discharged on every accepted trace of the real pipeline *)
Theorem c15_pipe_gate_sound : forall c stop fed dos outs,
  gate_run c stop jstate0 fed dos outs = true ->
  exists evs os st',
    join_run c jstate0 evs = (os, Ok st') /\
    map (fun o : jstep => fst o) os = map pd_res dos /\
    length evs = length dos /\
    busy_ok c evs = true.
Proof. exact pj_gate_sound. Qed.
Print Assumptions c15_pipe_gate_sound.

(* a run still open when the observation ends is accepted only for a stopped pipeline, and nothing of it has
   reached the output *)
Theorem c15_pipe_open_run_only_when_stopped : forall c stop st fed outs,
  isJoining st = true -> gate_run c stop st fed [] outs = true -> stop = true /\ outs = [].
Proof. exact pj_gate_open_run. Qed.
Print Assumptions c15_pipe_open_run_only_when_stopped.

(* two streams over two instances: stream 7 starts a run on instance 0, stream 8 is served by instance 1
   meanwhile (its continuation-looking line passes: nothing is open THERE), stream 7 continues on instance 0,
   a time-out flushes it; then stream 8 starts a run on instance 0.  The discipline holds, both replays agree;
   and the log in which instance 0, busy with stream 7, receives stream 8's line breaks the discipline - the
   two replays then differ (the line is swallowed by stream 7's run) *)
Definition ex_pj_cfg : jcfg := {| jmax := 0; jnegs := [false] |}.
Definition ex_S (id : Z) : jev := (id, JField true [83]%N [true] [false]).
Definition ex_C (id : Z) : jev := (id, JField true [67]%N [false] [true]).
Definition ex_pj_log : list pjcall :=
  [(0, 7, ex_S 0); (1, 8, ex_C 1); (0, 7, ex_C 2); (0, 7, (-1, JTimeout)); (0, 8, ex_S 3)].
Definition ex_pj_bad : list pjcall := [(0, 7, ex_S 0); (0, 8, ex_C 1)].

Example c15_pipe_nonvacuous :
  inst_run ex_pj_cfg [] ex_pj_log =
    ([(AHold, []); (APass, []); (ACollapse, []); (ADiscard, [(0, [83; 67]%N)]); (AHold, [])], true) /\
  pj_disc [] (zip_busy ex_pj_log (fst (inst_run ex_pj_cfg [] ex_pj_log))) = true /\
  stream_run ex_pj_cfg [] ex_pj_log = inst_run ex_pj_cfg [] ex_pj_log /\
  pj_disc [] (zip_busy ex_pj_bad (fst (inst_run ex_pj_cfg [] ex_pj_bad))) = false /\
  inst_run ex_pj_cfg [] ex_pj_bad = ([(AHold, []); (ACollapse, [])], true) /\
  stream_run ex_pj_cfg [] ex_pj_bad = ([(AHold, []); (APass, [])], true).
Proof. vm_compute. repeat split; reflexivity. Qed.

(* monitor 3 on a stream of four events: S (rejected by the selector, the action is idle: skipped, passes),
   S (accepted: Hold), C (rejected, but the action is busy: delivered, Collapse), time-out (flush "SC") *)
Definition ex_fed : list (Z * pjev) :=
  [(0, {| pe_stream := 0; pe_match := false; pe_in := snd (ex_S 0) |});
   (1, {| pe_stream := 0; pe_match := true; pe_in := snd (ex_S 1) |});
   (2, {| pe_stream := 0; pe_match := false; pe_in := snd (ex_C 2) |})].
Definition ex_dos : list pjdo :=
  [{| pd_inst := 0; pd_stream := 0; pd_timeout := false; pd_id := 1; pd_res := AHold |};
   {| pd_inst := 0; pd_stream := 0; pd_timeout := false; pd_id := 2; pd_res := ACollapse |};
   {| pd_inst := 0; pd_stream := 0; pd_timeout := true; pd_id := -1; pd_res := ADiscard |}].

Example c15_pipe_gate_nonvacuous :
  gate_run ex_pj_cfg false jstate0 ex_fed ex_dos [(0, true, [83]%N); (1, true, [83; 67]%N)] = true /\
  gate_run ex_pj_cfg false jstate0 ex_fed ex_dos [(0, true, [83]%N); (1, true, [83]%N)] = false /\
  gate_run ex_pj_cfg false jstate0 ex_fed (firstn 2 ex_dos) [(0, true, [83]%N)] = false /\
  gate_run ex_pj_cfg true jstate0 ex_fed (firstn 2 ex_dos) [(0, true, [83]%N)] = true.
Proof. vm_compute. repeat split; reflexivity. Qed.
