From Verif Require Import Base.Sx Model.Join Model.K8sMultiline.
