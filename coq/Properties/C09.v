(* C09 — retry and dead-queue routing. Statements only (proofs in Proofs/Batcher.v). *)
From Verif Require Import Base.Sx Model.Batcher Proofs.Batcher.

Theorem c09_reachable_invariant :
  forall (c : cfg) (P : st -> Prop),
    (forall s l s', P s -> step c s l = Some s' -> P s') ->
    forall ls s s', P s -> run c s ls = Some s' -> P s'.
Proof. exact run_invariant. Qed.
Print Assumptions c09_reachable_invariant.
