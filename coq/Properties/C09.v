(* C09 — retry and dead-queue routing (the retriable frame of the batcher LTS, Model/Batcher.v).
   Statements only; proofs in Proofs/Batcher.v.  Every theorem holds for every configuration and
   every label sequence the LTS admits.
   failed_hist s : (seq, numTries, backoff-said-Stop, events) of every onRetryError call, newest first
   result_hist s : (seq, numTries, ok) of every return of outFn inside the retry loop, newest first
   fseq f        : the sequence number of a failed_hist entry *)
From Verif Require Import Base.Sx Model.Batcher Proofs.Batcher Proofs.BatcherStatus Gen.BatcherGen.
From Verif Require Model.C09Route Proofs.C09Route.
From Coq Require Import List ZArith.
Import ListNotations.
Local Open Scope Z_scope.

(* the induction principle every theorem below instantiates *)
Theorem c09_reachable_invariant :
  forall (c : cfg) (P : st -> Prop),
    (forall s l s', P s -> step c s l = Some s' -> P s') ->
    forall ls s s', P s -> run c s ls = Some s' -> P s'.
Proof. exact run_invariant. Qed.
Print Assumptions c09_reachable_invariant.

(* ---- A. give-up (without backoff.Stop) only when 0 <= AttemptNum < numTries, and after the calls
        numbered 0..numTries have all failed: at least AttemptNum + 2 failed calls ----------------- *)
Theorem c09_retries_at_least :
  forall c ls s, run c (init c) ls = Some s ->
    forall q t evs, In (q, t, false, evs) (failed_hist s) ->
      0 <= retry c /\ retry c < t /\
      forall k, 0 <= k <= t -> In (q, k, false) (result_hist s).
Proof. exact retries_at_least. Qed.
Print Assumptions c09_retries_at_least.

Theorem c09_retry_forever_when_negative :
  forall c ls s, retry c < 0 -> run c (init c) ls = Some s ->
    forall q t stopbo evs, In (q, t, stopbo, evs) (failed_hist s) -> stopbo = true.
Proof. exact never_given_up_when_retry_negative. Qed.
Print Assumptions c09_retry_forever_when_negative.

(* ---- B. a batch with an iterable event enters its commit section only when its retry loop is over:
        some call succeeded, or it was given up ---------------------------------------------------- *)
Theorem c09_no_commit_while_retrying :
  forall c ls s, retriable c = true -> run c (init c) ls = Some s ->
    forall q evs, In q (commit_batches s) ->
      nth_error (rev (sealed_hist s)) (Z.to_nat q) = Some evs -> has_iter evs = true ->
      (exists t, In (q, t, true) (result_hist s)) \/ In q (map fseq (failed_hist s)).
Proof. exact no_commit_while_retrying. Qed.
Print Assumptions c09_no_commit_while_retrying.

(* ---- C. a batch is given up at most once --------------------------------------------------------- *)
Theorem c09_giveup_once :
  forall c ls s, run c (init c) ls = Some s -> NoDup (map fseq (failed_hist s)).
Proof. exact giveup_once. Qed.
Print Assumptions c09_giveup_once.

Theorem c09_giveup_once_entries :
  forall c ls s, run c (init c) ls = Some s ->
    forall f1 f2, In f1 (failed_hist s) -> In f2 (failed_hist s) -> fseq f1 = fseq f2 -> f1 = f2.
Proof. exact giveup_once_entries. Qed.
Print Assumptions c09_giveup_once_entries.

(* ---- D. what this batcher commits -------------------------------------------------------------- *)
(* emptied c s q  := deadq c && (q is the sequence number of some failed_hist entry)
   eff_concat em i [b_i; b_i+1; ...] := concatenation of the b_k with em k = false
   lo_seq s       := number of batches whose commit section is over (Properties/C08.v, c08_lo_seq_cases)
   General form of c08_committed_shape: whole batches in sequence order, a given-up batch contributing
   nothing when there is a dead queue, then a prefix of the batch inside its commit section. *)
Theorem c09_committed_shape :
  forall c ls s, run c (init c) ls = Some s ->
    exists j,
      rev (committed s) =
        eff_concat (emptied c s) 0 (firstn (Z.to_nat (lo_seq s)) (rev (sealed_hist s))) ++
        firstn j (if emptied c s (lo_seq s) then [] else nth (Z.to_nat (lo_seq s)) (rev (sealed_hist s)) []).
Proof. exact committed_shape. Qed.
Print Assumptions c09_committed_shape.

(* dead queue: the commit section of a given-up batch announces 0 events and commits none *)
Theorem c09_deadqueue_commit_section_announces_zero :
  forall c ls s q n s', deadq c = true -> run c (init c) ls = Some s ->
    step c s (LCommitBegin q n) = Some s' -> In q (map fseq (failed_hist s)) -> n = 0.
Proof. exact deadqueue_commit_begin_zero. Qed.
Print Assumptions c09_deadqueue_commit_section_announces_zero.

Theorem c09_deadqueue_main_commits_none :
  forall c ls s e s', deadq c = true -> run c (init c) ls = Some s ->
    step c s (LCommitEv e) = Some s' ->
    exists b, committing_bat (flight s) = Some b /\ ~ In (bseq b) (map fseq (failed_hist s)).
Proof. exact deadqueue_no_commit_event. Qed.
Print Assumptions c09_deadqueue_main_commits_none.

(* no dead queue: given-up batches are committed like any other, every event once, in order *)
Theorem c09_no_deadqueue_commits_all :
  forall c ls s, (retriable c = false \/ deadq c = false) -> run c (init c) ls = Some s ->
    exists j,
      rev (committed s) =
        concat (firstn (Z.to_nat (lo_seq s)) (rev (sealed_hist s))) ++
        firstn j (nth (Z.to_nat (lo_seq s)) (rev (sealed_hist s)) []).
Proof. exact committed_shape_plain. Qed.
Print Assumptions c09_no_deadqueue_commits_all.

(* the status InDeadQueue (3) is read back from commitBatch only for a batch the retry frame gave up WITH a dead queue (its
   events were emptied: the main batcher commits nothing of it); every other batch reads back the status it was sealed with *)
Theorem c09_dead_queue_status_only_after_give_up :
  forall c ls s seq s',
    run c (init c) ls = Some s -> step c s (LCommitEnd seq 3) = Some s' ->
    exists b, find_bat (flight s) seq = Some b /\ bemptied b = true.
Proof. exact commit_status_dead_queue_only. Qed.
Print Assumptions c09_dead_queue_status_only_after_give_up.

(* ---- non-vacuity: AttemptNum = 1, three failed calls, then give-up into the dead queue ---------- *)
Definition nv_cfg : cfg :=
  {| workers := 1; maxCount := 1; maxBytes := 0; retriable := true; retry := 1; deadq := true;
     atomic_push := batcher_atomic_push |}.
Definition nv_e1 : ev := {| eid := 1; esrc := 0; esize := 5; ekind := 0 |}.
Definition nv_two_failures : list label :=
  [LFree; LAdd nv_e1; LSeal 0 1 1 5; LPush 0; LTake 0; LOutBegin 0 1;
   LRetryCall 0 0; LOutSaw 0 [1]; LRetryResult 0 0 false;
   LRetryCall 0 1; LOutSaw 0 [1]; LRetryResult 0 1 false].
Definition nv_rest : list label :=
  [LRetryCall 0 2; LOutSaw 0 [1]; LRetryResult 0 2 false; LRetryGiveUp 0 2 1 true false;
   LOutEnd 0 0 3; LCommitBegin 0 0; LCommitEnd 0 3].

Example c09_nonvacuous :
  (* after two failed calls (numTries = 1 = AttemptNum) giving up is not enabled, nor is committing *)
  run nv_cfg (init nv_cfg) (nv_two_failures ++ [LRetryGiveUp 0 1 1 true false]) = None /\
  run nv_cfg (init nv_cfg) (nv_two_failures ++ [LCommitBegin 0 1]) = None /\
  exists s, run nv_cfg (init nv_cfg) (nv_two_failures ++ nv_rest) = Some s /\
            failed_hist s = [(0, 2, false, [nv_e1])] /\
            rev (result_hist s) = [(0, 0, false); (0, 1, false); (0, 2, false)] /\
            commit_batches s = [0] /\ committed s = [] /\ rev (added s) = [nv_e1] /\ flight s = [].
Proof.
  split; [vm_compute; reflexivity|]. split; [vm_compute; reflexivity|].
  eexists. vm_compute. repeat split; reflexivity.
Qed.

(* ==== E. the real output plugins behind a Router (sub-model which = 2, Model/C09Route.v) =========================
   Specification of WHICH way a batch goes as a function of (plugin kind, dead queue?, retry count, fatal / strict /
   split_batch flags, answer history of the far end); harness/c09/route.go runs the real elasticsearch, http, splunk,
   loki, socket, clickhouse and gelf outputs against scripted far ends and the extracted specification judges, per event,
   (commits by the main output, times handed to the dead queue, commits by the dead queue).
   batches nb c s 0 = Some (ws, reqs): the nb batches of the case go the ways ws (way, numTries at the end).
   ev_obs w = (m, h, d): what every event of a batch that goes way w shows. *)
Module Route.
Import Verif.Model.C09Route Verif.Proofs.C09Route.

(* every event is committed exactly once and by exactly one path; it is handed to the dead queue iff the dead queue
   commits it, and only when a dead queue is configured *)
Theorem c09_route_each_event_exactly_once :
  forall c s ws reqs,
    batches (nbatch c) c s 0 = Some (ws, reqs) ->
    length ws = nbatch c /\
    Forall (fun wt => let '(m, h, d) := ev_obs (fst wt) in
                      m + d = 1 /\ (m = 0 \/ d = 0) /\ h = d /\ (d = 1 -> dq c = true)) ws.
Proof. exact route_each_event_exactly_once. Qed.
Print Assumptions c09_route_each_event_exactly_once.

(* a batch is given up only with a non-negative retry count and after exactly retry + 2 failed calls of out()
   (numTries = retry + 1 at the give-up); it goes to the dead queue iff one is configured *)
Theorem c09_route_given_up_only_after_retries :
  forall c s ws reqs w t,
    batches (nbatch c) c s 0 = Some (ws, reqs) -> In (w, t) ws -> w = WDead \/ w = WErr ->
    0 <= retry c /\ Z.of_nat t = retry c + 1 /\ (w = WDead <-> dq c = true).
Proof. exact route_given_up_only_after_retries. Qed.
Print Assumptions c09_route_given_up_only_after_retries.

(* with a dead queue (and without `strict`) no Fatal-level entry is logged *)
Theorem c09_route_no_fatal_with_dead_queue :
  forall c s ws reqs,
    batches (nbatch c) c s 0 = Some (ws, reqs) -> dq c = true -> strict_on c = false ->
    sumZ (map (fun wt : way * nat => fatal_of c (fst wt)) ws) = 0.
Proof. exact route_no_fatal_with_dead_queue. Qed.
Print Assumptions c09_route_no_fatal_with_dead_queue.

(* the specification's observable satisfies the executable predicate whose failure is the Violates verdict *)
Theorem c09_route_model_one_way :
  forall c s o, route_model c s = Some o -> one_way_ok c o = true.
Proof. exact route_model_one_way. Qed.
Print Assumptions c09_route_model_one_way.

(* the judge says Agree only about an observable in which every event went exactly one way *)
Theorem c09_route_agree_means_one_way :
  forall case obs c s,
    rcase_of_sx case = Some (c, s) -> c09_route_run case obs = Agree -> one_way_ok c obs = true.
Proof. exact route_agree_means_one_way. Qed.
Print Assumptions c09_route_agree_means_one_way.

(* non-vacuity: elasticsearch, dead queue, retry 1, two batches of two events; answers 500 500 500 (given up into the dead
   queue after 3 calls), then 400 (dropped, committed by the main output).  And the observable of the seeded regression
   (400 answered, events handed to the dead queue AND committed by the main output) is rejected. *)
Definition nv_rcfg : rcfg :=
  {| kind := 0; dq := true; retry := 1; fatal := false; strict := false; split := false; bsize := 2; nbatch := 2; presp := false |}.
Example c09_route_nonvacuous :
  batches 2 nv_rcfg {| pre := [500; 500; 500; 400]; tail := 200 |} 0 = Some ([(WDead, 2%nat); (WDrop, 0%nat)], 4%nat) /\
  route_model nv_rcfg {| pre := [500; 500; 500; 400]; tail := 200 |} =
    Some (SL [SZ 4; SZ 0; SL [SL [SZ 0; SZ 1; SZ 1]; SL [SZ 0; SZ 1; SZ 1]; SL [SZ 1; SZ 0; SZ 0]; SL [SZ 1; SZ 0; SZ 0]]]) /\
  one_way_ok nv_rcfg (SL [SZ 1; SZ 0; SL [SL [SZ 1; SZ 1; SZ 1]; SL [SZ 1; SZ 1; SZ 1]; SL [SZ 1; SZ 0; SZ 0]; SL [SZ 1; SZ 0; SZ 0]]]) = false /\
  batches 1 {| kind := 0; dq := false; retry := -1; fatal := true; strict := false; split := true; bsize := 3; nbatch := 1; presp := false |}
          {| pre := [503; 413; 200; 413; 413]; tail := 200 |} 0 = Some ([(WDrop, 1%nat)], 5%nat).
Proof. vm_compute. repeat split; reflexivity. Qed.

(* ---- the acknowledgement's body (elasticsearch process_response / reportESErrors, splunk parseSplunkError) ----------
   an answer a = status + 1000 * body class.  A 2xx answer whose body the plugin's response function rejects is a FAILED
   attempt: out() returns the error, the retry loop goes on — it is never a delivery and never a drop *)
Theorem c09_route_unreadable_ack_is_failure :
  forall c s a s',
    split_on c = false -> next s = (a, s') ->
    ok2xx (a_status a) = true -> body_ok (kind c) (presp c) (a_body a) = false ->
    attempt c s = Some (ARetry, seen (kind c) (a_status a), s').
Proof. exact route_unreadable_ack_is_failure. Qed.
Print Assumptions c09_route_unreadable_ack_is_failure.

(* without process_response elasticsearch never looks at the body: the status alone decides *)
Theorem c09_route_body_ignored_without_process_response :
  forall a, classify 0 false a = classify 0 false (a_status a).
Proof. exact route_body_ignored_without_process_response. Qed.
Print Assumptions c09_route_body_ignored_without_process_response.

(* a far end whose every answer is a failed attempt: with retry >= 0 the batch is given up after exactly retry + 2 calls of
   out() (numTries = retry + 1), into the dead queue iff there is one; the far end saw retry + 2 requests (none if refused) *)
Theorem c09_route_always_failing_given_up :
  forall c a r,
    split_on c = false -> classify (kind c) (presp c) a = ARetry -> 0 <= retry c ->
    batch_loop (batch_fuel c (const_src a)) c 0 (const_src a) r =
      Some (if dq c then WDead else WErr, Z.to_nat (retry c + 1),
            (r + Z.to_nat (retry c + 2) * seen (kind c) (a_status a))%nat, const_src a).
Proof. exact route_always_failing_given_up. Qed.
Print Assumptions c09_route_always_failing_given_up.

(* ... in particular a far end that always acknowledges with a body the plugin cannot read *)
Theorem c09_route_always_unreadable_given_up :
  forall c a r,
    split_on c = false -> ok2xx (a_status a) = true -> body_ok (kind c) (presp c) (a_body a) = false -> 0 <= retry c ->
    exists n, batch_loop (batch_fuel c (const_src a)) c 0 (const_src a) r =
      Some (if dq c then WDead else WErr, Z.to_nat (retry c + 1), n, const_src a).
Proof. exact route_always_unreadable_given_up. Qed.
Print Assumptions c09_route_always_unreadable_given_up.

(* non-vacuity: elasticsearch with process_response, dead queue, retry 1: 200 with an unreadable body three times -> given
   up into the dead queue after 3 requests; the same answers WITHOUT process_response are a delivery at the first request;
   200 with "errors":true and per-item errors (class 2) is a delivery under process_response; splunk rejects every body
   but {"code":0} *)
Definition nv_presp : rcfg :=
  {| kind := 0; dq := true; retry := 1; fatal := false; strict := false; split := false; bsize := 2; nbatch := 1; presp := true |}.
Example c09_route_ack_body_nonvacuous :
  batches 1 nv_presp (const_src 1200) 0 = Some ([(WDead, 2%nat)], 3%nat) /\
  batches 1 {| kind := 0; dq := true; retry := 1; fatal := false; strict := false; split := false; bsize := 2; nbatch := 1; presp := false |}
          (const_src 1200) 0 = Some ([(WMain, 0%nat)], 1%nat) /\
  batches 1 nv_presp (const_src 2200) 0 = Some ([(WMain, 0%nat)], 1%nat) /\
  classify 2 false 6200 = ARetry /\ classify 2 false 200 = AOk /\ classify 1 false 1200 = AOk.
Proof. vm_compute. repeat split; reflexivity. Qed.
End Route.
