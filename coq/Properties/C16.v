(* C16 — throttle (in-memory backend) never passes more than the limit per key and time bucket.
   Only statements, each closed by [exact]; proofs live in Proofs/Throttle.v.

   Vocabulary (Model/Throttle.v):
     lrun c (lim0 c) ops    the model of inMemoryLimiter.isAllowed run over a history of one limiter
                            (ring of buckets, minID/maxID, rotation + reset), result (decisions, final state)
     s_run / hist_of c ops  the reference semantics: one counter per (bucket id, slot) that is NEVER reset,
                            kept as the list of all charges (id, slot, value, passed?), newest first
     eids_from c None ops   closed form of the bucket id each event is charged to: its own id when inside
                            [hi-count+1, hi], hi = largest clock bucket seen so far; otherwise hi
     well_timed c ops       every clock reading is >= count * interval (so minID = 0 means "not set") and
                            every distribution index is in range; clocks need not be monotone, event times
                            are arbitrary                                                                *)
From Verif Require Import Base.Sx Base.GoSem Model.Throttle Proofs.Throttle Proofs.ThrottleRedis Proofs.ThrottleRules.
From Coq Require Import Lia.

(* the ring with its rotations and resets computes exactly the never-reset per-id counters: never panics,
   same decisions, and index i of the ring holds the total of bucket id minID + i *)
Theorem c16_ring_refines_map :
  forall c ops, wf_cfg c = true -> well_timed c ops = true ->
  exists l, lrun c (lim0 c) ops = (snd (s_run c spec0 ops), Ok l) /\
            refines c l (fst (s_run c spec0 ops)).
Proof. exact ring_refines_map. Qed.
Print Assumptions c16_ring_refines_map.

(* the window is [hi-count+1, hi] with hi the largest clock bucket seen — also for clocks that step back *)
Theorem c16_window_closed_form :
  forall c o ops, wf_cfg c = true -> well_timed c (o :: ops) = true -> 0 <= limit c ->
  exists ds l, lrun c (lim0 c) (o :: ops) = (ds, Ok l) /\
    maxID l = max_cur c (time_to_id c (o_now o)) ops /\ minID l = maxID l - count c + 1.
Proof. exact window_closed_form. Qed.
Print Assumptions c16_window_closed_form.

(* every event is charged to its own bucket id when that is inside the window, else to the newest *)
Theorem c16_effective_bucket :
  forall c ops, 0 <= limit c ->
  map c_id (rev (hist_of c ops)) = eids_from c None ops.
Proof. exact effective_bucket. Qed.
Print Assumptions c16_effective_bucket.

(* every decision, exactly: pass <-> the cell's total (rejected events included, this event included)
   is within the cell's limit — "add, then compare" *)
Theorem c16_decisions_exact :
  forall c ops, hist_exact c (hist_of c ops).
Proof. exact decisions_exact. Qed.
Print Assumptions c16_decisions_exact.

(* count kind, no distribution, stated on the model's own outputs: per effective bucket the number of
   passes is min(arrivals, limit) — never more than the limit, and nothing rejected below it *)
Theorem c16_count_limit :
  forall c ops, wf_cfg c = true -> well_timed c ops = true ->
  size_kind c = false -> shares c = [] -> 0 <= limit c ->
  exists ds l, lrun c (lim0 c) ops = (ds, Ok l) /\ length ds = length ops /\
    forall id, passes_at (eids_from c None ops) ds id = Z.min (arrivals_at (eids_from c None ops) id) (limit c).
Proof. exact count_limit_plain. Qed.
Print Assumptions c16_count_limit.

(* count kind in general (with or without distribution): per bucket id and slot *)
Theorem c16_count_limit_cells :
  forall c ops, wf_cfg c = true -> well_timed c ops = true -> size_kind c = false -> 0 <= limit c ->
  exists l, lrun c (lim0 c) ops = (map c_pass (rev (hist_of c ops)), Ok l) /\
    map c_id (rev (hist_of c ops)) = eids_from c None ops /\
    forall id slot,
      passes (hist_of c ops) id slot = Z.max 0 (Z.min (arrivals (hist_of c ops) id slot) (cell_limit c slot)).
Proof. exact count_limit. Qed.
Print Assumptions c16_count_limit_cells.

(* size kind, as coded: the decision is "total of all arrivals (this one included) <= limit"; hence what
   got through is within the limit; rejected events are charged as well (see c16_size_rejected_are_charged) *)
Theorem c16_size_limit :
  forall c ops, wf_cfg c = true -> well_timed c ops = true -> 0 <= limit c ->
  Forall (fun o => 0 <= o_size o) ops ->
  exists l, lrun c (lim0 c) ops = (map c_pass (rev (hist_of c ops)), Ok l) /\
    map c_id (rev (hist_of c ops)) = eids_from c None ops /\
    hist_exact c (hist_of c ops) /\
    forall id slot, passed_size (hist_of c ops) id slot <= Z.max 0 (cell_limit c slot).
Proof. exact size_limit. Qed.
Print Assumptions c16_size_limit.

Theorem c16_size_rejected_are_charged :
  exists c ops, wf_cfg c = true /\ well_timed c ops = true /\
    fst (lrun c (lim0 c) ops) = [false; false] /\
    passed_size (hist_of c ops) 2 0 = 0 /\ 0 + 1 <= limit c.
Proof. exact size_rejected_are_charged. Qed.
Print Assumptions c16_size_rejected_are_charged.

(* distribution: every slot stays within its share (stolen events included), the bucket's total within
   default share + sum of shares; a listed value is charged to its own slot; an unlisted value is
   rejected only when no share at all has room for it, and stealing never fills a slot beyond its share *)
Theorem c16_distr_shares :
  forall c ops, wf_cfg c = true -> well_timed c ops = true -> 0 <= limit c -> shares c <> [] ->
  Forall (fun o => 0 <= o_size o) ops ->
  (forall id slot, passed_size (hist_of c ops) id slot <= Z.max 0 (cell_limit c slot)) /\
  (forall id, passed_size_id (hist_of c ops) id <= Z.max 0 (deflimit c) + sumZ (map (Z.max 0) (shares c))) /\
  hist_attr c (rev ops) (hist_of c ops).
Proof. exact distr_shares. Qed.
Print Assumptions c16_distr_shares.

(* keys never share a budget: in a whole-plugin trace (first matching rule, limiter key = rule byte ':'
   throttle key, limiters map) the decisions of one key are those of a limiter that sees that key's events
   only, created with the limit of the first matching rule *)
Theorem c16_keys_independent :
  forall p es ds m' k, prun p [] es = (ds, Ok m') ->
  match key_cfg p k es with
  | Some c => pick (for_key p k) es ds = fst (lrun c (lim0 c) (ops_for p k es))
  | None => pick (for_key p k) es ds = []
  end.
Proof. exact keys_independent. Qed.
Print Assumptions c16_keys_independent.

(* distinct (rule, throttle key) pairs get distinct limiter keys as long as byte('a'+ruleNum) cannot
   collide, i.e. at most 256 rules (the default rule included) *)
Theorem c16_limiter_key_injective :
  forall n n' k k', 0 <= n < 256 -> 0 <= n' < 256 -> lim_key n k = lim_key n' k' -> n = n' /\ k = k'.
Proof. exact lim_key_inj. Qed.
Print Assumptions c16_limiter_key_injective.

(* limiter expiry: dropping a limiter that has not been used for a whole window is invisible ... *)
Theorem c16_expiry_transparent :
  forall c l now ts, wf_cfg c = true ->
  length (ring l) = Z.to_nat (count c) /\ Forall (fun row => length row = nslots c) (ring l) ->
  0 < minID l -> maxID l = minID l + count c - 1 ->
  maxID l + count c <= time_to_id c now ->
  rebuild c now ts l = rebuild c now ts (lim0 c).
Proof. exact expiry_transparent. Qed.
Print Assumptions c16_expiry_transparent.

(* ... but not one dropped earlier (limiter_expiration < buckets_count * bucket_interval, which Start accepts
   and which is the case for the documented defaults 30m < 60 * 1m): bucket 2 passes 2 events, limit 1 *)
Theorem c16_short_expiry_refuted :
  exists c l o, lrun c (lim0 c) [mk 20 20 1] = ([true], Ok l) /\
    time_to_id c (o_now o) < maxID l + count c /\
    fst (lrun c l [o]) = [false] /\ fst (lrun c (lim0 c) [o]) = [true].
Proof. exact short_expiry_refuted. Qed.
Print Assumptions c16_short_expiry_refuted.

(* the clock hypothesis is needed: inside the first window after the epoch the minID = 0 sentinel misfires *)
Theorem c16_sentinel_refuted :
  exists c ops, wf_cfg c = true /\ well_timed c ops = false /\
    fst (lrun c (lim0 c) ops) = [true; false] /\ snd (s_run c spec0 ops) = [true; true].
Proof. exact sentinel_refuted. Qed.
Print Assumptions c16_sentinel_refuted.

(* the REDIS backend (a second caller of the same limiter; sub-model which = 9 of the check): one limiter without
   distribution in ONE process, its syncs between events, its limit key never set, a clock that does not step back
   (rtimed: also past the first window and below the real clock, sizes >= 0).  The pair (increment limiter, total
   limiter) over the redis counters never panics and takes exactly the decisions of the reference semantics of the
   in-memory backend — hence every bound above (c16_count_limit, c16_size_limit) holds for it too.
   rrun = rl_allow (redisLimiter.isAllowed) and sync_one (redisLimiter.sync) as run by c16_run9. *)
Theorem c16_redis_single_process :
  forall c k its, wf_cfg c = true -> shares c = [] -> 0 <= limit c -> rtimed c 0 its = true ->
  rrun (rl_fresh c k) [] its = Ok (snd (s_run c spec0 (r_events its))).
Proof. exact redis_single_process. Qed.
Print Assumptions c16_redis_single_process.

(* ... and the restriction to limiters without distribution is needed: limit 10 = default share 9 + listed share 1,
   one bucket (id 2), 9 unlisted events, sync, unlisted event (stolen slot in the total ring only), sync, listed
   event: 11 passes (the in-memory backend passes 10: c16_distr_shares) *)
Theorem c16_redis_distribution_refuted :
  let its := repeat (ev_rd None) 9 ++ [RSync 25; ev_rd None; RSync 25; ev_rd (Some 0)] in
  rtimed c_rd 0 its = true /\ rrun r_rd [] its = Ok (repeat true 11) /\
  eids_from c_rd None (r_events its) = repeat 2 11 /\ deflimit c_rd + sumZ (shares c_rd) = 10.
Proof. exact redis_distribution_refuted. Qed.
Print Assumptions c16_redis_distribution_refuted.

Example c16_redis_nonvacuous :
  let c := {| count := 2; interval := 10; size_kind := false; limit := 2; deflimit := 0; shares := [] |} in
  let e := fun n t => REv {| o_now := n; o_ts := t; o_size := 1; o_dv := None |} in
  let its := [e 20 20; e 21 21; RSync 22; e 23 23; e 31 31; RSync 35; e 36 25; e 36 36] in
  wf_cfg c = true /\ rtimed c 0 its = true /\
  rrun (rl_fresh c []) [] its = Ok [true; true; false; true; false; true].
Proof. exact redis_single_process_nonvacuous. Qed.

(* RULES WITH THEIR OWN limit_distribution (sub-model which = 11 of the check: drun = Plugin.isAllowed + getOrAdd over
   rules that each carry a limit and a distribution; the last rule is the default rule with default_limit and the
   plugin-level distribution).  spec_cfg p r gs is the SPECIFIED configuration of a limiter created for rule r:
   limit = the rule's own limit, share(value) = round(ratio x THAT limit), default share = round((1 - sum) x THAT limit)
   — default_limit does not occur in it unless r is the default rule.
   Keys never share a budget, and the limiter of a key is the one of the rule its first event matched: *)
Theorem c16_rule_keys_independent :
  forall p es ds m' k, drun p [] es = (ds, Ok m') ->
  match dkey_rule p k es with
  | Some (r, gs) => pick (dfor_key p k) es ds =
                    fst (lrun (spec_cfg p r gs) (lim0 (spec_cfg p r gs)) (dops_for p k gs es))
  | None => pick (dfor_key p k) es ds = []
  end.
Proof. exact rule_keys_independent. Qed.
Print Assumptions c16_rule_keys_independent.

(* hence the decisions of every key are those of the reference semantics (never-reset counter per bucket id and slot)
   run on that key's events alone with the limit and the specified shares of the matching rule — this equation is the
   predicate c16_pred11 that the check evaluates on what the real Plugin decided *)
Theorem c16_rule_key_decisions :
  forall p es ds m' k r gs,
  drun p [] es = (ds, Ok m') -> dkey_rule p k es = Some (r, gs) ->
  1 <= w_count p -> 1 <= w_interval p -> forallb (d_timed p) es = true ->
  pick (dfor_key p k) es ds = snd (s_run (spec_cfg p r gs) spec0 (dops_for p k gs es)).
Proof. exact rule_key_decisions. Qed.
Print Assumptions c16_rule_key_decisions.

(* what the reference semantics lets through under a rule with its own distribution, per bucket id: every slot within
   the specified share of THAT rule; the total within the sum of the shares, which is the rule's limit up to the rounding
   of the shares (half up, so at most 1/2 event per share: 100 * total <= 100 * limit + 50 * (ratios + 1)), and within
   the rule's limit itself when no product ratio x limit is rounded; unlisted values are rejected only when no share
   has room (hist_attr).  groups_ok: ratios within 0..100 %, values not empty and not listed twice, sum <= 100 %. *)
Theorem c16_rule_distr_shares :
  forall p r gs, 0 <= r_limit r -> groups_ok gs = true -> gs <> [] ->
  forall ops, 1 <= w_count p -> 1 <= w_interval p -> well_timed (spec_cfg p r gs) ops = true ->
  Forall (fun o => 0 <= o_size o) ops ->
  (forall id slot, passed_size (hist_of (spec_cfg p r gs) ops) id slot <= cell_limit (spec_cfg p r gs) slot) /\
  (forall id, passed_size_id (hist_of (spec_cfg p r gs) ops) id <=
              deflimit (spec_cfg p r gs) + sumZ (shares (spec_cfg p r gs))) /\
  (forall id, 100 * passed_size_id (hist_of (spec_cfg p r gs) ops) id <= 100 * r_limit r + 50 * (len gs + 1)) /\
  (Forall (fun q => (q * r_limit r) mod 100 = 0) (100 - gsum gs :: map fst gs) ->
   forall id, passed_size_id (hist_of (spec_cfg p r gs) ops) id <= r_limit r) /\
  hist_attr (spec_cfg p r gs) (rev ops) (hist_of (spec_cfg p r gs) ops).
Proof. exact rule_distr_shares. Qed.
Print Assumptions c16_rule_distr_shares.

(* "never more than the rule's limit" at full strength is refuted by the rounding of the LISTED shares: limit 1 split
   50 % / 50 % gives shares 1 + 1 (0.5 rounds half up; default share 0), and one key passes 2 events in bucket 2.
   (Not the rounding of the default ratio to a whole percent, finding C16-default-share-rounding, which needs ratios
   finer than a percent: here every ratio is a whole percent.) *)
Theorem c16_rule_shares_limit_refuted :
  let c := spec_cfg p_round r_round gs_round in
  let ops := [ {| o_now := 20; o_ts := 20; o_size := 1; o_dv := Some 0 |};
               {| o_now := 20; o_ts := 20; o_size := 1; o_dv := Some 1 |} ] in
  groups_ok gs_round = true /\ wf_cfg c = true /\ well_timed c ops = true /\
  deflimit c :: shares c = [0; 1; 1] /\
  snd (s_run c spec0 ops) = [true; true] /\ passed_size_id (hist_of c ops) 2 = 2 /\ r_limit r_round = 1.
Proof. exact rule_shares_limit_refuted. Qed.
Print Assumptions c16_rule_shares_limit_refuted.

(* non-vacuity: rule (a = x) with limit 10 split 40 % / 30 % (default 30 %) next to default_limit 5000; one key sends
   5 + 4 + 5 events in one bucket: 4 + 3 + 3 pass, whatever default_limit is; the predicate holds of the model's run *)
Example c16_rule_distr_nonvacuous :
  let es := repeat (ev10 (Some 0)) 5 ++ repeat (ev10 (Some 1)) 4 ++ repeat (ev10 None) 5 in
  deflimit (spec_cfg p10 ru10 gs10) :: shares (spec_cfg p10 ru10 gs10) = [3; 4; 3] /\
  forallb (d_timed p10) es = true /\
  fst (drun p10 [] es) = repeat true 4 ++ [false] ++ repeat true 3 ++ [false] ++ repeat true 3 ++ [false; false] /\
  c16_pred11 p10 es (sx_of_drun (drun p10 [] es)) = true.
Proof. exact rule_distr_nonvacuous. Qed.

(* non-vacuity: 3 buckets of 10ns, limit 2, shares (1) + default 1; the clock jumps over a window and steps
   back, event times in the past / future / out of order; the hypotheses hold and decisions are mixed *)
Example c16_nonvacuous :
  let c := {| count := 3; interval := 10; size_kind := false; limit := 2; deflimit := 1; shares := [1] |} in
  let ops := [ {| o_now := 30; o_ts := 30; o_size := 1; o_dv := None |};
               {| o_now := 31; o_ts := 12; o_size := 1; o_dv := Some 0 |};
               {| o_now := 35; o_ts := 39; o_size := 1; o_dv := None |};
               {| o_now := 39; o_ts := 30; o_size := 1; o_dv := None |};
               {| o_now := 95; o_ts := 30; o_size := 1; o_dv := Some 0 |};
               {| o_now := 40; o_ts := 99; o_size := 1; o_dv := Some 0 |};
               {| o_now := 99; o_ts := 500; o_size := 1; o_dv := None |} ] in
  wf_cfg c = true /\ well_timed c ops = true /\
  fst (lrun c (lim0 c) ops) = [true; true; true; false; true; false; true] /\
  eids_from c None ops = [3; 1; 3; 3; 9; 9; 9].
Proof. vm_compute. repeat split. Qed.
