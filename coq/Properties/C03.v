(* C03 — the file input loses no line across kill and restart.
   Only statements, each closed by [exact]; proofs live in Proofs/FileResume.v. The transition system
   (Model/FileResume.v) quantifies over: every append history (AAppend: complete lines + an unterminated fragment),
   every reader progress (ARead / AReadEOF), every delivery and commit order the pipeline interface allows
   (ADeliver any event in flight; ACommit an event the output has received, the oldest of its stream — C01/C02),
   every save instant (ASave anywhere: async; after each commit: sync — the saved file is the live offsets, C07),
   every kill instant and any number of kill/restart cycles (ACrash anywhere), and truncations (ATruncate).     *)
From Verif Require Import Base.Sx Model.FileResume Proofs.FileResume.

(* Safety invariant, any number of streams. At every instant of every admissible history every complete line of the
   file is: delivered to the output (in some run), or in flight in the running process, or still ahead of the reader
   and accepted by PassEvent — or it is in [gone], the lines a restart skipped undelivered (the multi-stream defect). *)
Theorem c03_no_line_lost_invariant :
  forall acts st, run_adm init acts = Some st ->
  forall l, In l (content st) ->
    In l (ever st) \/ In l (gone st) \/ In l (map e_line (live (flight st))) \/
    (pos st < l_end l /\ pass_event (cur st) l = true).
Proof. exact no_line_lost_invariant. Qed.
Print Assumptions c03_no_line_lost_invariant.

(* One stream per file, no truncation: whatever the history and the kill instant [st], every complete line was
   delivered before the kill or is handed to the pipeline again by the process started with the persisted offsets. *)
Theorem c03_resume_no_loss_single_stream :
  forall s0 acts st,
    no_truncate acts = true -> acts_single s0 acts = true -> run init acts = Some st ->
    no_loss_b (content st) (ever st) (resume_delivered (content st) (disk st)) = true.
Proof. exact resume_no_loss_single_stream. Qed.
Print Assumptions c03_resume_no_loss_single_stream.

(* the same with truncations in the history (admissible ones; with one stream every truncation is:
   c03_single_stream_truncations_admissible), provided a save happened since the last truncation *)
Theorem c03_resume_no_loss_single_stream_after_truncations :
  forall s0 acts st,
    acts_single s0 acts = true -> run_adm init acts = Some st -> fresh st = true ->
    no_loss_b (content st) (ever st) (resume_delivered (content st) (disk st)) = true.
Proof. exact resume_no_loss_single_stream_adm. Qed.
Print Assumptions c03_resume_no_loss_single_stream_after_truncations.

(* the restart step of the transition system hands over exactly [resume_delivered] (seek to the minimum saved
   offset, then PassEvent against the loaded offsets) *)
Theorem c03_restart_reads_resume_set :
  forall st st', step st ACrash = Some st' ->
    content st' = content st /\ flight st' = [] /\ ever st' = ever st /\
    filter (fun l => (pos st' <? l_end l) && pass_event (cur st') l) (content st') =
    resume_delivered (content st) (disk st).
Proof. exact restart_reads_resume_set. Qed.
Print Assumptions c03_restart_reads_resume_set.

(* CONFIRMED DEFECT (several streams in one file). One line of stream b in flight, three lines of stream a delivered,
   committed and saved: the offsets file holds only a: 178; the restarted process seeks to 178, has nothing to read,
   and the b line (ends at byte 43) is never delivered. *)
Theorem c03_resume_multi_stream_refuted :
  exists acts st st',
    no_truncate acts = true /\ run init acts = Some st /\
    disk st = Some [(sa, 178)] /\ ever st = [wa3; wa2; wa1] /\
    no_loss_b (content st) (ever st) (resume_delivered (content st) (disk st)) = false /\
    step st ACrash = Some st' /\ flight st' = [] /\ step st' ARead = None /\
    mem wb1 (content st') = true /\ mem wb1 (ever st') = false /\ gone st' = [wb1].
Proof. exact resume_multi_stream_refuted. Qed.
Print Assumptions c03_resume_multi_stream_refuted.

(* The exact side condition: as long as no earlier restart skipped a line, a kill at [st] loses no line IFF every
   undelivered line belongs to a stream that has a saved entry or lies after the seek point. *)
Theorem c03_resume_multi_stream_partial :
  forall acts st, run_adm init acts = Some st -> fresh st = true -> gone st = [] ->
    ((forall l, In l (content st) -> ~ In l (ever st) ->
        lookup (l_stream l) (loaded (disk st)) <> None \/ seek_of (disk st) < l_end l)
     <-> no_loss_b (content st) (ever st) (resume_delivered (content st) (disk st)) = true).
Proof. exact resume_multi_stream_partial. Qed.
Print Assumptions c03_resume_multi_stream_partial.

(* and what is lost is exactly that: a line neither delivered nor handed over again (nor skipped earlier) belongs to a
   stream WITHOUT a saved entry and ends at or before the minimum saved offset of the other streams *)
Theorem c03_resume_multi_stream_lost_exactly :
  forall acts st, run_adm init acts = Some st -> fresh st = true ->
  forall l, In l (content st) ->
    In l (ever st) \/ In l (resume_delivered (content st) (disk st)) \/ In l (gone st) \/
    (lookup (l_stream l) (loaded (disk st)) = None /\ disk st <> None /\ l_end l <= seek_of (disk st)).
Proof. exact resume_multi_stream_lost_exactly. Qed.
Print Assumptions c03_resume_multi_stream_lost_exactly.

(* The same resume logic stated directly on what the harness observes — the complete lines of a file, the set [acc] of
   lines delivered so far (plus lines skipped by earlier restarts), the file's entry [d] in the persisted offsets file —
   under the interface hypothesis [snap_sound_b] (an entry (s, o) covers only lines that are in [acc]): every line is
   in [acc], or handed over again, or skipped; a skipped line belongs to a stream without an entry and is never handed
   over; with one stream nothing is skipped. The harness evaluates exactly these functions on every run. *)
Theorem c03_direct_cover :
  forall content acc d, snap_sound_b content acc (loaded d) = true ->
  forall l, In l content -> In l acc \/ In l (skipped content acc d) \/ In l (resume_delivered content d).
Proof. exact direct_cover. Qed.
Print Assumptions c03_direct_cover.

Theorem c03_direct_skipped_unsaved :
  forall content acc d, sorted_from 0 content = true -> snap_sound_b content acc (loaded d) = true ->
  forall l, In l (skipped content acc d) ->
    lookup (l_stream l) (loaded d) = None /\ d <> None /\ l_end l <= seek_of d /\ ~ In l (resume_delivered content d).
Proof. exact direct_skipped_unsaved. Qed.
Print Assumptions c03_direct_skipped_unsaved.

Theorem c03_direct_single_stream :
  forall content acc d s0,
    sorted_from 0 content = true -> (forall l, In l content -> l_stream l = s0) ->
    (forall s v, In (s, v) (loaded d) -> s = s0) -> d <> Some [] ->
    snap_sound_b content acc (loaded d) = true ->
    no_loss_b content acc (resume_delivered content d) = true.
Proof. exact direct_single_stream. Qed.
Print Assumptions c03_direct_single_stream.

(* ... and the interface hypothesis is what the transition system guarantees at every kill instant *)
Theorem c03_reachable_snapshot_sound :
  forall acts st, run_adm init acts = Some st -> fresh st = true ->
    snap_sound_b (content st) (ever st ++ gone st) (loaded (disk st)) = true /\ disk st <> Some [] /\
    sorted_from 0 (content st) = true.
Proof. exact reachable_snap_sound. Qed.
Print Assumptions c03_reachable_snapshot_sound.

(* Truncation (repaired code: truncateJob also drops job.tail). A truncation is detected when the bytes read exceed
   the new size; then the file is read from 0 with an empty tail, every saved offset is 0, every line of the new
   content passes PassEvent, and from then on the safety invariant holds for the new content (with [gone] = [] until
   the next kill): everything written after the truncation is delivered, in flight, or still to be read.
   Side condition [trunc_safe]: every event of the file still in flight at that moment has SeqID <= job.lastEventSeq
   (e.g. nothing is in flight; always true with one stream per file: c03_truncate_inflight_single_stream_partial) —
   see c03_truncate_inflight_refuted for what happens otherwise. [live] = the events in
   flight that were read after the last truncation. *)
Theorem c03_truncate_restart :
  forall acts st ls part st',
    run_adm init acts = Some st -> trunc_safe st = true -> step st (ATruncate ls part) = Some st' ->
    content st' = ls /\ pos st' = 0 /\ tail st' = 0 /\ (forall s v, In (s, v) (cur st') -> v = 0) /\
    filter (fun l => (pos st' <? l_end l) && pass_event (cur st') l) ls = ls /\
    top 0 ls + part < pos st + tail st /\
    forall acts2 st2, run_adm st' acts2 = Some st2 ->
      forall l, In l (content st2) ->
        In l (ever st2) \/ In l (gone st2) \/ In l (map e_line (live (flight st2))) \/
        (pos st2 < l_end l /\ pass_event (cur st2) l = true).
Proof. exact truncate_restart. Qed.
Print Assumptions c03_truncate_restart.

(* ONE stream per file => the side condition holds at every instant of every history, whatever is still in flight and
   whatever the last line handed to the pipeline was (accepted, empty, undecodable, already committed): all SeqIDs of
   the one stream are <= job.lastEventSeq, which the repaired worker (fix dfe641a) only ever sets to the SeqID of an
   ACCEPTED line. (Before the repair this needed the hypothesis last_seq st <> 0.) *)
Theorem c03_truncate_inflight_single_stream_partial :
  forall s0 acts st,
    acts_single s0 acts = true -> run_adm init acts = Some st -> trunc_safe st = true.
Proof. exact truncate_inflight_single_stream. Qed.
Print Assumptions c03_truncate_inflight_single_stream_partial.

(* Hence with one stream per file truncations need no side condition at all. [run_kill] restricts a history by the
   kill window only (no kill between a truncation and the next save); truncations may come at ANY instant. Every such
   single-stream history is admissible, Commit never panics, every complete line of the current content is delivered,
   in flight (read after the last truncation) or still ahead of the reader and accepted by PassEvent, and a kill (once
   a save happened since the last truncation) loses no line. *)
Theorem c03_single_stream_truncations_admissible :
  forall s0 acts st,
    acts_single s0 acts = true -> run_kill init acts = Some st ->
    run_adm init acts = Some st /\ panicked st = false /\
    (forall l, In l (content st) ->
       In l (ever st) \/ In l (map e_line (live (flight st))) \/ (pos st < l_end l /\ pass_event (cur st) l = true)) /\
    (fresh st = true -> no_loss_b (content st) (ever st) (resume_delivered (content st) (disk st)) = true).
Proof. exact single_stream_truncations_admissible. Qed.
Print Assumptions c03_single_stream_truncations_admissible.

(* any number of streams: the side condition holds whenever the SeqID counter of every stream that has an event in
   flight is <= job.lastEventSeq (e.g. the last accepted line belongs to the only stream with events in flight) *)
Theorem c03_truncate_inflight_counters_partial :
  forall acts st,
    run_adm init acts = Some st ->
    (forall e n, In e (flight st) -> lookup (l_stream (e_line e)) (seqs st) = Some n -> n <= last_seq st) ->
    trunc_safe st = true.
Proof. exact truncate_inflight_counters. Qed.
Print Assumptions c03_truncate_inflight_counters_partial.

(* CONFIRMED DEFECT (truncation while events of ANOTHER stream are in flight). Event.SeqID counts per (source, stream
   NAME), but truncateJob takes job.lastEventSeq — the SeqID of the last accepted line, whatever its stream — as the
   boundary ignoreEventsLE for all streams of the file.
   (1) last line of stream b (SeqID 1), four events of stream a in flight (SeqIDs 1..4): three of them are committed
   after the truncation, the first new line (offset 43) then hits Panicf("offset corruption: committing=43,
   current=174") and the process dies; (2) same history, the old commits land before the new line is read: PassEvent
   rejects the new line (43 <= 174), it is never delivered. *)
Theorem c03_truncate_inflight_refuted :
  (exists st, run init witness_trunc_inflight = Some st /\ panicked st = true) /\
  (exists st, run init witness_trunc_inflight_skip = Some st /\ panicked st = false /\
              content st = [ta 5 43] /\ flight st = [] /\ ever st = [] /\ next_line st = None /\
              cur st = [(sa, 174)] /\ pass_event (cur st) (ta 5 43) = false).
Proof. exact truncate_inflight_refuted. Qed.
Print Assumptions c03_truncate_inflight_refuted.

(* REPAIRED DEFECT (fix dfe641a; formerly the third part of c03_truncate_inflight_refuted). ONE stream, the file ends in
   an empty line, four events in flight at the truncation. The worker used to store In's EventSeqIDError (0) in
   job.lastEventSeq, so nothing was ignored and the history ended in the same panic. Now: the history is admissible,
   ignoreEventsLE = 4 covers the four old events, nothing panics, the new line (ends at byte 43) is read, delivered and
   its offset committed (cur = a: 43), nothing is left in flight or unread — whether the old commits land after or
   before the new line is read. *)
Theorem c03_truncate_inflight_blank_line_repaired :
  acts_single sa witness_trunc_inflight_junk = true /\ acts_single sa witness_trunc_inflight_junk_skip = true /\
  (exists st, run init witness_trunc_inflight_junk = Some st /\ run_adm init witness_trunc_inflight_junk = Some st /\
              panicked st = false /\ ign st = 4 /\ content st = [ta 5 43] /\ ever st = [ta 5 43] /\
              out st = [ta 5 43; ta 3 174; ta 2 131; ta 1 88; ta 0 45] /\
              flight st = [] /\ next_line st = None /\ cur st = [(sa, 43)]) /\
  (exists st, run init witness_trunc_inflight_junk_skip = Some st /\ run_adm init witness_trunc_inflight_junk_skip = Some st /\
              panicked st = false /\ ign st = 4 /\ content st = [ta 5 43] /\ ever st = [ta 5 43] /\
              out st = [ta 5 43; ta 3 174; ta 2 131; ta 1 88; ta 0 45] /\
              flight st = [] /\ next_line st = None /\ cur st = [(sa, 43)]).
Proof. exact truncate_inflight_blank_line_repaired. Qed.
Print Assumptions c03_truncate_inflight_blank_line_repaired.

(* in admissible histories Commit never reaches Panicf("offset corruption") *)
Theorem c03_commit_never_panics :
  forall acts st, run_adm init acts = Some st -> panicked st = false.
Proof. exact commit_never_panics. Qed.
Print Assumptions c03_commit_never_panics.

(* non-vacuity: a single-stream history with a fragment, a kill with one line delivered but uncommitted and one
   unread, appends while down, a second kill; and a truncation that is enabled *)
Example c03_nonvacuous :
  (exists st, run init witness_single = Some st /\ no_truncate witness_single = true /\
              acts_single sa witness_single = true /\ disk st = Some [(sa, 10)] /\
              resume_delivered (content st) (disk st) = [wl 1 20; wl 2 30; wl 3 40] /\
              no_loss_b (content st) (ever st) (resume_delivered (content st) (disk st)) = true)
  /\ (exists st st', run_adm init witness_trunc = Some st /\ trunc_safe st = true /\
                     step st (ATruncate [wl 5 8; wl 6 16] 0) = Some st' /\ cur st' = [(sa, 0)] /\ pos st' = 0)
  (* a single-stream [run_kill] history with a truncation while four events are in flight after an empty last line *)
  /\ (exists st, run_kill init witness_trunc_inflight_junk = Some st /\ acts_single sa witness_trunc_inflight_junk = true /\
                 ever st = [ta 5 43] /\ ign st = 4).
Proof.
  split; [|split].
  - destruct (run init witness_single) as [st|] eqn:E; [|vm_compute in E; discriminate].
    exists st. vm_compute in E. injection E as <-. vm_compute. repeat split; reflexivity.
  - destruct (run_adm init witness_trunc) as [st|] eqn:E; [|vm_compute in E; discriminate].
    vm_compute in E. injection E as <-. eexists. eexists. vm_compute. repeat split; reflexivity.
  - destruct (run_kill init witness_trunc_inflight_junk) as [st|] eqn:E; [|vm_compute in E; discriminate].
    exists st. vm_compute in E. injection E as <-. vm_compute. repeat split; reflexivity.
Qed.
