(* C01 — commit frontier safety. Statements only. Batcher part (see Properties/C02.v for the layout):
   a commit notification is issued only inside the commit section of the event's batch, which is
   entered only after the batch's own send returned, and batches are committed in formation order, so
   when an event is committed every event ADDED BEFORE it to the same output has been acknowledged. *)
From Verif Require Import Base.Sx Model.Batcher Proofs.Batcher.

Theorem c01_commit_only_after_own_send_returned :
  forall c ls s, run c (init c) ls = Some s ->
    forall q evs, In q (commit_batches s) ->
      nth_error (rev (sealed_hist s)) (Z.to_nat q) = Some evs ->
      has_iter evs = true -> In q (sent_hist s).
Proof. exact commit_after_own_send. Qed.
Print Assumptions c01_commit_only_after_own_send_returned.

Theorem c01_batches_commit_in_formation_order :
  forall c ls s, run c (init c) ls = Some s ->
    0 <= commitSeq s /\
    rev (commit_batches s) = map Z.of_nat (seq 0 (Z.to_nat (commitSeq s))).
Proof. exact commit_in_seq_order. Qed.
Print Assumptions c01_batches_commit_in_formation_order.

Theorem c01_committed_is_prefix_of_added :
  forall c ls s, (retriable c = false \/ deadq c = false) -> run c (init c) ls = Some s ->
    exists rest, rev (added s) = rev (committed s) ++ rest.
Proof. exact committed_prefix_of_added. Qed.
Print Assumptions c01_committed_is_prefix_of_added.
