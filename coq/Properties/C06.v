(* C06 — file reader emits each complete line once with its end-of-line offset.
   Only statements, each closed by [exact]; proofs live in Proofs/Worker.v.

   Vocabulary (Model/Worker.v):
     rounds c st rs   the worker model run for successive job passes; [rs : list (list bytes)] gives,
                      for every pass, the byte strings returned by its successive Read calls — ANY
                      split (any sizes, empty reads included) of what was appended since the last pass;
     flat rs          all those bytes in order = the file content from the start offset on;
     split_lines b    (complete lines of b, each with its newline; unterminated remainder);
     with_off o ls    each line paired with the offset just after its newline, o = offset of ls's first byte;
     st_at o sk       job state {curOffset = o; tail = []; shouldSkip = sk};
     nolimit          max_event_size = 0.                                                              *)
From Verif Require Import Base.Sx Base.GoSem Model.Worker Proofs.Worker Proofs.WorkerMaint Proofs.WorkerStreams.

(* --- the specification functions mean what their names say --------------------------------- *)
Theorem c06_split_lines_is_the_line_split :
  forall b, b = concat (fst (split_lines b)) ++ snd (split_lines b)
            /\ Forall is_line (fst (split_lines b)) /\ noNL (snd (split_lines b)).
Proof. exact split_lines_spec. Qed.
Print Assumptions c06_split_lines_is_the_line_split.

Theorem c06_line_split_unique :
  forall ls t, Forall is_line ls -> noNL t -> split_lines (concat ls ++ t) = (ls, t).
Proof. exact split_lines_of_lines. Qed.
Print Assumptions c06_line_split_unique.

Theorem c06_offset_is_end_of_line :
  forall ls base o l, In (o, l) (with_off base ls) ->
    exists before after, ls = before ++ l :: after /\ o = base + len (concat before) + len l.
Proof. exact with_off_sound. Qed.
Print Assumptions c06_offset_is_end_of_line.

(* --- no size limit: for every content, every append schedule, every split into reads, every
   start offset: exactly the complete lines, in order, once, each with its end offset; the saved
   tail is the unterminated remainder; curOffset = bytes consumed ------------------------------ *)
Theorem c06_worker_offsets_exact :
  forall o rs, let b := flat rs in
  rounds nolimit (st_at o false) rs =
  (with_off o (fst (split_lines b)), {| cur := o + len b; tail := snd (split_lines b); skip := false |}).
Proof. exact worker_offsets_exact. Qed.
Print Assumptions c06_worker_offsets_exact.

(* --- resume: a reader started at a line boundary [len pre] of the file pre ++ b delivers exactly
   the rest of the whole-file list (same data, same offsets) ------------------------------------ *)
Theorem c06_worker_resume :
  forall pre rs, snd (split_lines pre) = [] ->
  let b := flat rs in
  with_off 0 (fst (split_lines (pre ++ b))) =
  with_off 0 (fst (split_lines pre)) ++ fst (rounds nolimit (st_at (len pre) false) rs).
Proof. exact worker_resume. Qed.
Print Assumptions c06_worker_resume.

(* --- an unterminated tail is held back (not in E1, kept in job.tail) until later passes complete it *)
Theorem c06_worker_tail_held_back_until_completed :
  forall o rs1 rs2,
  let b1 := flat rs1 in let b2 := flat rs2 in
  let t1 := snd (split_lines b1) in
  let '(E1, st1) := rounds nolimit (st_at o false) rs1 in
  E1 = with_off o (fst (split_lines b1)) /\ tail st1 = t1 /\
  fst (rounds nolimit st1 rs2) = with_off (o + len b1 - len t1) (fst (split_lines (t1 ++ b2))) /\
  fst (rounds nolimit (st_at o false) (rs1 ++ rs2)) = E1 ++ fst (rounds nolimit st1 rs2).
Proof. exact worker_tail_completed. Qed.
Print Assumptions c06_worker_tail_held_back_until_completed.

(* --- max_event_size > 0, cut_off = false: exactly the lines whose length (newline included) exceeds
   max are missing; all others keep data and offsets. The saved tail is the true remainder or, once
   over the limit, a frozen prefix-length stand-in (it can only lead to the skip of that line) ------ *)
Theorem c06_worker_size_skip :
  forall c o rs, 0 < wmax c -> wcut c = false ->
  let b := flat rs in
  let '(E, st') := rounds c (st_at o false) rs in
  E = filter (fun e => len (snd e) <=? wmax c) (with_off o (fst (split_lines b)))
  /\ cur st' = o + len b /\ skip st' = false
  /\ (tail st' = snd (split_lines b)
      \/ (wmax c < len (tail st') /\ len (tail st') <= len (snd (split_lines b)))).
Proof. exact worker_size_skip. Qed.
Print Assumptions c06_worker_size_skip.

(* --- cut_off = true, worker composed with Pipeline.checkInputBytes: every line is admitted with its
   own offset exactly as checkInputBytes admits the true line (see c06_check_input_line: a line longer
   than max becomes its first max bytes + newline, flagged) --------------------------------------- *)
Theorem c06_worker_size_cut :
  forall c o rs, 0 < wmax c -> wcut c = true ->
  let b := flat rs in
  let '(E, st') := rounds c (st_at o false) rs in
  checked c E = checked c (with_off o (fst (split_lines b)))
  /\ Forall2 (emitR c) E (with_off o (fst (split_lines b)))
  /\ cur st' = o + len b /\ skip st' = false.
Proof. exact worker_size_cut. Qed.
Print Assumptions c06_worker_size_cut.

Theorem c06_check_input_line :
  forall c l0, 0 <= wmax c ->
  check_input c (l0 ++ [NL]) =
  match l0 with
  | [] => ([NL], false, false)
  | _ :: _ =>
      if check_max c && (len l0 + 1 >? wmax c) then
        if wcut c then (firstn (M c) (l0 ++ [NL]) ++ [NL], true, true)
        else (l0 ++ [NL], false, false)
      else (l0 ++ [NL], false, true)
  end.
Proof. exact check_input_line. Qed.
Print Assumptions c06_check_input_line.

(* --- tail mode (job.shouldSkip): exactly the first line is dropped ------------------------------ *)
Theorem c06_worker_skip_first :
  forall o rs, let b := flat rs in
  rounds nolimit (st_at o true) rs =
  (tl (with_off o (fst (split_lines b))),
   {| cur := o + len b; tail := snd (split_lines b); skip := negb (has_line b) |}).
Proof. exact worker_skip_first. Qed.
Print Assumptions c06_worker_skip_first.

(* offsets_op = tail on an existing file pre ++ [x] (the reader re-reads the last byte x and skips one
   line): if x is a newline every line appended afterwards is delivered with its file offset *)
Theorem c06_worker_tail_mode :
  forall pre x rs, let b := flat rs in
  let '(E, _) := match rs with
                 | [] => rounds nolimit (st_at (len (pre ++ [x]) - 1) true) []
                 | r :: rs' => rounds nolimit (st_at (len (pre ++ [x]) - 1) true) (([x] :: r) :: rs')
                 end in
  E = if N.eqb x NL then with_off (len (pre ++ [x])) (fst (split_lines b))
      else tl (with_off (len (pre ++ [x]) - 1) (fst (split_lines (x :: b)))).
Proof. exact worker_tail_mode. Qed.
Print Assumptions c06_worker_tail_mode.

(* --- all configurations at once (size rule, cut-off, first-line skip, any start offset) ---------- *)
Theorem c06_worker_general :
  forall c o sk0 rs, 0 <= wmax c ->
  let b := flat rs in
  let '(E, st') := rounds c (st_at o sk0) rs in
  Forall2 (emitR c) E (spec_emits c sk0 o b)
  /\ cur st' = o + len b
  /\ skip st' = sk0 && negb (has_line b)
  /\ accR c (snd (split_lines b)) (tail st').
Proof. exact worker_general. Qed.
Print Assumptions c06_worker_general.

(* the executable predicate evaluated by the correspondence check is true of every model run *)
Theorem c06_pred_holds_on_model :
  forall c o sk0 rs, 0 <= wmax c ->
  let b := flat rs in
  let '(E, st') := rounds c (st_at o sk0) rs in
  forall2b (emit_okb c) (map (fun e => (e, None)) E) (spec_emits c sk0 o b) = true
  /\ tail_relb c (tail st') (snd (split_lines b)) = true.
Proof. exact worker_pred_holds. Qed.
Print Assumptions c06_pred_holds_on_model.

(* ============ histories with the job maintenance (provider.go maintenanceJob), Model/Worker.v h_step / h_run ============
   Vocabulary:
     hop                 HAppend a (writer appends) | HPass n (notification + worker pass, read buffer n) | HMaint n
                         (maintenance tick; a job it resumes is worked on with read buffer n) | HTrunc k | HMove (renamed
                         away / rotated);
     h_run c rd hs ops   everything handed to In during the history + the final state {h_job; h_done; h_deleted; h_moved;
                         h_file}; [rd n avail] = the pieces in which a pass reads the bytes behind the position — ANY
                         function whose pieces concatenate to its input (rd_sound), os.File's [chunks] is one
                         (c06_chunks_are_a_read_split);
     h_start o sk fc d   a job at offset o with empty tail, shouldSkip = sk, on a file with content fc, done flag d;
     appended ops        everything the writer appended during ops;  no_trunc ops: no HTrunc in ops;
     drop o b / take k b b[o:] / b[:k].                                                                                *)
Theorem c06_chunks_are_a_read_split :
  forall n b, (0 < n)%nat -> concat (chunks n b) = b.
Proof. exact chunks_concat. Qed.
Print Assumptions c06_chunks_are_a_read_split.

(* --- the maintenance tick of an idle job on an unchanged file that is still in place (close, re-open, seek to the
   saved position) hands nothing to In and leaves curOffset, the held-back tail and shouldSkip exactly as they were --- *)
Theorem c06_idle_maintenance_changes_nothing :
  forall c rd hs n,
  h_done hs = true -> h_deleted hs = false -> h_moved hs = false -> len (h_file hs) = cur (h_job hs) ->
  h_step c rd (HMaint n) hs = (Some 4, [], hs).
Proof. exact maint_idle_changes_nothing. Qed.
Print Assumptions c06_idle_maintenance_changes_nothing.

(* --- after ANY history of appends, passes, ticks and renames (any number of ticks at any position, in particular
   between the append that leaves an unterminated tail and the one that completes it), every configuration, every
   read shape: what was delivered is the specification of the bytes consumed so far, curOffset = bytes consumed, the
   saved tail stands for their unterminated remainder ------------------------------------------------------------ *)
Theorem c06_history_with_maintenance :
  forall c rd, 0 <= wmax c -> rd_sound rd ->
  forall o sk0 fc0 d0 ops, 0 <= o <= len fc0 -> no_trunc ops ->
  let '(E, hs) := h_run c rd (h_start o sk0 fc0 d0) ops in
  let b := take (cur (h_job hs) - o) (drop o (h_file hs)) in
  h_file hs = fc0 ++ appended ops
  /\ o <= cur (h_job hs) <= len (h_file hs)
  /\ Forall2 (emitR c) E (spec_emits c sk0 o b)
  /\ skip (h_job hs) = sk0 && negb (has_line b)
  /\ accR c (snd (split_lines b)) (tail (h_job hs)).
Proof. exact hist_general. Qed.
Print Assumptions c06_history_with_maintenance.

(* --- a history that ends with a worker pass has delivered every line written at any time: once, whole, in order,
   with its end offset (emitR: equal, or in cut-off mode the stand-in checkInputBytes treats alike) ---------------- *)
Theorem c06_history_every_line_once :
  forall c rd, 0 <= wmax c -> rd_sound rd ->
  forall o sk0 fc0 d0 ops n, 0 <= o <= len fc0 -> no_trunc ops ->
  let '(E, hs) := h_run c rd (h_start o sk0 fc0 d0) (ops ++ [HPass n]) in
  h_deleted hs = false ->
  let b := drop o (fc0 ++ appended ops) in
  h_file hs = fc0 ++ appended ops
  /\ cur (h_job hs) = len (fc0 ++ appended ops)
  /\ Forall2 (emitR c) E (spec_emits c sk0 o b)
  /\ skip (h_job hs) = sk0 && negb (has_line b)
  /\ accR c (snd (split_lines b)) (tail (h_job hs)).
Proof. exact hist_every_line_once. Qed.
Print Assumptions c06_history_every_line_once.

(* --- the same when the last reader is a tick on an idle job: a grown file is resumed and read to its end --------- *)
Theorem c06_history_tick_reads_all :
  forall c rd, 0 <= wmax c -> rd_sound rd ->
  forall o sk0 fc0 d0 ops n, 0 <= o <= len fc0 -> no_trunc ops ->
  h_done (snd (h_run c rd (h_start o sk0 fc0 d0) ops)) = true ->
  let '(E, hs) := h_run c rd (h_start o sk0 fc0 d0) (ops ++ [HMaint n]) in
  h_deleted hs = false ->
  let b := drop o (fc0 ++ appended ops) in
  h_file hs = fc0 ++ appended ops
  /\ cur (h_job hs) = len (fc0 ++ appended ops)
  /\ Forall2 (emitR c) E (spec_emits c sk0 o b)
  /\ skip (h_job hs) = sk0 && negb (has_line b)
  /\ accR c (snd (split_lines b)) (tail (h_job hs)).
Proof. exact hist_tick_reads_all. Qed.
Print Assumptions c06_history_tick_reads_all.

(* --- no size limit: exact equality, whatever ticks and renames are interleaved ---------------------------------- *)
Theorem c06_history_offsets_exact :
  forall rd o fc0 d0 ops n, rd_sound rd -> 0 <= o <= len fc0 -> no_trunc ops ->
  let '(E, hs) := h_run nolimit rd (h_start o false fc0 d0) (ops ++ [HPass n]) in
  h_deleted hs = false ->
  let b := drop o (fc0 ++ appended ops) in
  E = with_off o (fst (split_lines b))
  /\ h_job hs = {| cur := len (fc0 ++ appended ops); tail := snd (split_lines b); skip := false |}.
Proof. exact hist_offsets_exact. Qed.
Print Assumptions c06_history_offsets_exact.

(* --- truncation below the read position: the next pass — by notification or by a tick — delivers nothing and
   restarts the job at offset 0 with an EMPTY tail (the unterminated line of the old content no longer exists);
   from there c06_history_with_maintenance applies again (h_start 0 sk file true) -------------------------------- *)
Theorem c06_truncation_restarts_without_tail :
  forall c rd, 0 <= wmax c -> rd_sound rd ->
  forall hs n, h_deleted hs = false -> len (h_file hs) < cur (h_job hs) ->
  let hs' := {| h_job := st_at 0 (skip (h_job hs)); h_done := true; h_deleted := false; h_moved := h_moved hs;
                h_file := h_file hs |} in
  h_step c rd (HPass n) hs = (None, [], hs')
  /\ (h_done hs = true -> h_step c rd (HMaint n) hs = (Some 2, [], hs')).
Proof. exact hist_truncation_restarts. Qed.
Print Assumptions c06_truncation_restarts_without_tail.

(* --- the boolean relations evaluated by the history predicate of the correspondence check hold of every model run --- *)
Theorem c06_history_pred_holds_on_model :
  forall c rd o sk0 fc0 d0 ops, 0 <= wmax c -> rd_sound rd -> 0 <= o <= len fc0 -> no_trunc ops ->
  let '(E, hs) := h_run c rd (h_start o sk0 fc0 d0) ops in
  let b := take (cur (h_job hs) - o) (drop o (h_file hs)) in
  forall2b (emit_okb c) (map (fun e => (e, None)) E) (spec_emits c sk0 o b) = true
  /\ tail_relb c (tail (h_job hs)) (snd (split_lines b)) = true
  /\ cur (h_job hs) = o + len b.
Proof. exact hist_pred_holds. Qed.
Print Assumptions c06_history_pred_holds_on_model.

(* non-vacuity of the history theorems: "abc\ndef" | pass | tick (idle: re-open) | tick | "ghi\n" | tick (resumes and
   reads) | "x" | pass | truncate to 2 | tick (detects, restarts at 0) | tick (reads "ab" again into the tail);
   the second line arrives whole ("defghi\n"@11) although two ticks re-opened the file while "def" was held back *)
Example c06_history_nonvacuous :
  let ops := [HAppend [97;98;99;10;100;101;102]%N; HPass 2; HMaint 2; HMaint 2; HAppend [103;104;105;10]%N; HMaint 3;
              HAppend [120]%N; HPass 1] in
  h_run nolimit chunks (h_start 0 false [] false) ops
    = ([(4, [97;98;99;10]%N); (11, [100;101;102;103;104;105;10]%N)],
       {| h_job := {| cur := 12; tail := [120]%N; skip := false |}; h_done := true; h_deleted := false; h_moved := false;
          h_file := [97;98;99;10;100;101;102;103;104;105;10;120]%N |})
  /\ no_trunc ops
  /\ snd (h_run nolimit chunks (h_start 0 false [] false) (ops ++ [HTrunc 2; HMaint 1; HMaint 1]))
    = {| h_job := {| cur := 2; tail := [97;98]%N; skip := false |}; h_done := true; h_deleted := false; h_moved := false;
         h_file := [97;98]%N |}.
Proof. split; [vm_compute; reflexivity|]. split; [repeat constructor|vm_compute; reflexivity]. Qed.

(* ===================== round 5 (coverage): write notification, remove_after, compressed jobs =====================
   The op alphabet of the histories (hop) now also has HNotify n = the REAL write notification of the watcher
   (processNotification -> refreshFile -> checkFileWasTruncated -> tryResumeJobAndUnlock, then the pass) and HMaintExp n =
   the maintenance tick with remove_after expired; no_trunc ops allows both, so every c06_history_* theorem above holds
   for histories that contain them at any position. *)

(* --- a write notification on a file that was not truncated below the read position is exactly a worker pass ------ *)
Theorem c06_write_notification_is_a_pass :
  forall c rd hs n, cur (h_job hs) <= len (h_file hs) ->
  h_step c rd (HNotify n) hs = h_step c rd (HPass n) hs.
Proof. exact notify_is_pass. Qed.
Print Assumptions c06_write_notification_is_a_pass.

(* --- truncation below the read position seen by the write notification: the job restarts at 0 WITHOUT the old tail
   and the same pass delivers the whole new content: every line once, whole, in order, with its offset; curOffset = the
   new size; the tail stands for the new unterminated remainder ---------------------------------------------------- *)
Theorem c06_truncation_notify_rereads :
  forall c rd hs n, 0 <= wmax c -> rd_sound rd ->
  h_deleted hs = false -> len (h_file hs) < cur (h_job hs) ->
  let '(r, E, hs') := h_step c rd (HNotify n) hs in
  let sk := skip (h_job hs) in
  r = None /\ h_file hs' = h_file hs /\ h_done hs' = true
  /\ cur (h_job hs') = len (h_file hs)
  /\ Forall2 (emitR c) E (spec_emits c sk 0 (h_file hs))
  /\ skip (h_job hs') = sk && negb (has_line (h_file hs))
  /\ accR c (snd (split_lines (h_file hs))) (tail (h_job hs')).
Proof. exact hist_truncation_notify_rereads. Qed.
Print Assumptions c06_truncation_notify_rereads.

(* --- remove_after expired: the tick hands nothing to In and deletes an idle job (its file is removed) whether or not
   an unterminated tail is held back; a job that is not done or whose file changed size is handled as by the ordinary
   tick (left alone / read first) ---------------------------------------------------------------------------------- *)
Theorem c06_remove_after_tick_deletes_idle :
  forall c rd hs n,
  h_done hs = true -> h_deleted hs = false -> len (h_file hs) = cur (h_job hs) ->
  h_step c rd (HMaintExp n) hs =
  (Some 3, [], {| h_job := h_job hs; h_done := true; h_deleted := true; h_moved := h_moved hs; h_file := h_file hs |}).
Proof. exact maint_exp_removes_idle. Qed.
Print Assumptions c06_remove_after_tick_deletes_idle.

Theorem c06_remove_after_tick_reads_first :
  forall c rd hs n,
  h_deleted hs = false -> (h_done hs = false \/ len (h_file hs) <> cur (h_job hs)) ->
  h_step c rd (HMaintExp n) hs = h_step c rd (HMaint n) hs.
Proof. exact maint_exp_reads_first. Qed.
Print Assumptions c06_remove_after_tick_reads_first.

(* --- compressed (lz4) jobs: the skip loop of a resumed job stops at a position that is not behind the minimum saved
   offset m and leaves exactly the rest of the content to the pass (m inside the content; lz4_skip is called with
   L = 0 = len [] and the whole content) ---------------------------------------------------------------------------- *)
Theorem c06_lz4_skip_stops_before_offset :
  forall n m, 1 <= n -> forall fuel pre rest,
  (length rest < fuel)%nat -> len pre <= Z.max 0 m -> m <= len pre + len rest ->
  exists pre' rest', lz4_skip fuel n m (len pre) rest = (len pre', rest')
                     /\ pre ++ rest = pre' ++ rest' /\ len pre' <= Z.max 0 m.
Proof. exact lz4_skip_spec. Qed.
Print Assumptions c06_lz4_skip_stops_before_offset.

(* --- resume of a compressed job from ANY position L = len pre1 not behind the saved offset m = len (pre1 ++ pre2), m a
   line end of the file, every split of the rest into reads: what is handed over with an offset behind m is exactly
   the list of the lines of the whole file that end behind m, each with its offset in the decompressed stream; with
   the lines up to m (delivered before the restart) this is the line list of the whole file ----------------------- *)
Theorem c06_lz4_resume_exact :
  forall pre1 pre2 b reads,
  snd (split_lines (pre1 ++ pre2)) = [] -> concat reads = pre2 ++ b ->
  let m := len (pre1 ++ pre2) in
  let E := fst (round nolimit (st_at (len pre1) false) reads) in
  filter (fun e : emit => m <? fst e) E = with_off m (fst (split_lines b))
  /\ with_off 0 (fst (split_lines (pre1 ++ pre2 ++ b)))
     = with_off 0 (fst (split_lines (pre1 ++ pre2))) ++ with_off m (fst (split_lines b)).
Proof. exact lz4_resume_exact. Qed.
Print Assumptions c06_lz4_resume_exact.

(* --- the model of the whole compressed pass (skip loop + reads of the buffer size), every content, every buffer size,
   every list of saved stream offsets whose minimum m is a line end inside the content --------------------------- *)
Theorem c06_lz4_pass_exact :
  forall n content offs (o : Z),
  (0 < n)%nat -> let m := min_list o offs in
  0 <= m <= len content -> snd (split_lines (take m content)) = [] ->
  let k := {| z_cfg := nolimit; z_offs := o :: offs; z_frames := [content]; z_n := n |} in
  let '(L, es, st) := z_pass k in
  0 <= L <= m
  /\ filter (fun e : emit => m <? fst e) es = with_off m (fst (split_lines (drop m content)))
  /\ with_off 0 (fst (split_lines content))
     = with_off 0 (fst (split_lines (take m content))) ++ with_off m (fst (split_lines (drop m content))).
Proof. exact lz4_pass_exact. Qed.
Print Assumptions c06_lz4_pass_exact.

(* --- end to end (which 8: the real Pipeline.In behind the worker): what reaches the OUTPUT are exactly the accepted
   complete lines of the content, every configuration, start offset, pass and read structure; events_of = what
   checkInputBytes + the raw decoder make of a delivered (offset, data): (offset, accepted bytes without the newline,
   cut flag), nothing for a rejected line ------------------------------------------------------------------------ *)
Theorem c06_events_do_not_depend_on_the_stand_in :
  forall c E E', 0 <= wmax c -> Forall2 (emitR c) E E' -> events_of c E = events_of c E'.
Proof. exact events_of_emitR. Qed.
Print Assumptions c06_events_do_not_depend_on_the_stand_in.

Theorem c06_worker_events :
  forall c o sk0 rs, 0 <= wmax c ->
  events_of c (fst (rounds c (st_at o sk0) rs)) = events_of c (spec_emits c sk0 o (flat rs)).
Proof. exact worker_events. Qed.
Print Assumptions c06_worker_events.

Theorem c06_event_of_a_line :
  forall c o l0, 0 <= wmax c -> noNL l0 ->
  events_of c [(o, l0 ++ [NL])] =
  match l0 with
  | [] => []
  | _ :: _ =>
      if check_max c && (len l0 + 1 >? wmax c)
      then (if wcut c then [(o, firstn (Z.to_nat (wmax c)) l0, true)] else [])
      else [(o, l0, false)]
  end.
Proof. exact events_of_line. Qed.
Print Assumptions c06_event_of_a_line.

(* --- streams (which 9 | 10: the real file Plugin as the pipeline's input, a job resumed from the saved offsets of several
   streams). dc = ANY decoder function (accepted bytes -> stream name, payload, partial flag; None = undecodable), sv = ANY
   table of saved stream offsets, sc = the CRI short-cut of Pipeline.In on / off.
     pass_event sv s off   Plugin.PassEvent: above (saved_get sv s) off, i.e. no saved offset for s, or saved(s) < off
     sdecoded dc c es      the (offset, stream, payload) of the accepted, decodable ones among the (offset, data) pairs es
     sdeliver dc sc sv c es  what reaches the output: short-cut, then PassEvent, on every accepted decoded line
     passed sv e           pass_event sv (stream of e) (offset of e);   of_stream s e   e belongs to stream s ------------- *)
(* the line that ends exactly AT the saved offset of its stream - the last one committed before the restart - is not
   delivered again; exactly the offsets above it are *)
Theorem c06_line_at_the_saved_offset_is_not_delivered_again :
  forall sv s o, saved_get sv s = Some o ->
  pass_event sv s o = false /\ (forall off, pass_event sv s off = true <-> o < off).
Proof. exact pass_event_at_saved_offset. Qed.
Print Assumptions c06_line_at_the_saved_offset_is_not_delivered_again.

Theorem c06_delivered_is_the_pass_event_filter :
  forall dc sc sv c es, sdeliver dc sc sv c es = filter (passed sv) (sdecoded dc c es).
Proof. exact sdeliver_filter. Qed.
Print Assumptions c06_delivered_is_the_pass_event_filter.

Theorem c06_in_shortcut_is_never_a_decision :
  forall dc sc sc' sv c es, sdeliver dc sc sv c es = sdeliver dc sc' sv c es.
Proof. exact sdeliver_shortcut_irrelevant. Qed.
Print Assumptions c06_in_shortcut_is_never_a_decision.

(* every configuration, start offset, pass and read structure, decoder, table of saved offsets: the events of stream s that
   reach the output = the complete lines of s in the content (accepted, decodable) that end ABOVE saved(s) - all of them
   when s has no saved offset -, in order *)
Theorem c06_stream_gets_exactly_its_lines_above_the_saved_offset :
  forall dc sc sv c o sk0 rs s, 0 <= wmax c ->
  filter (of_stream s) (sdeliver dc sc sv c (fst (rounds c (st_at o sk0) rs)))
  = filter (fun e => above (saved_get sv s) (ev_off e))
           (filter (of_stream s) (sdecoded dc c (spec_emits c sk0 o (flat rs)))).
Proof. exact worker_stream_events. Qed.
Print Assumptions c06_stream_gets_exactly_its_lines_above_the_saved_offset.

Theorem c06_worker_stream_events :
  forall dc sc sv c o sk0 rs, 0 <= wmax c ->
  sdeliver dc sc sv c (fst (rounds c (st_at o sk0) rs)) = filter (passed sv) (sdecoded dc c (spec_emits c sk0 o (flat rs))).
Proof. exact worker_events_filtered. Qed.
Print Assumptions c06_worker_stream_events.

(* once: the offsets of the delivered events increase strictly (asc o l: every element of l is above its predecessor, the
   first above o) *)
Theorem c06_delivered_offsets_increase :
  forall dc sc sv c o sk0 rs, 0 <= wmax c ->
  asc o (map ev_off (sdeliver dc sc sv c (fst (rounds c (st_at o sk0) rs)))).
Proof. exact delivered_offsets_increase. Qed.
Print Assumptions c06_delivered_offsets_increase.

(* whatever is handed over (a compressed job re-reads from in front of the smallest saved offset): nothing that ends at or
   below the saved offset of its stream reaches the output *)
Theorem c06_nothing_committed_is_delivered_again :
  forall dc sc sv c es, Forall (fun e => passed sv e = true) (sdeliver dc sc sv c es).
Proof. exact sdeliver_all_passed. Qed.
Print Assumptions c06_nothing_committed_is_delivered_again.

(* jobProvider.commit moves the saved offset of a delivered event's stream at some time during the pass: committing every
   event at once (sdeliver_upd) and not at all (sdeliver) give the same events *)
Theorem c06_commit_timing_is_irrelevant :
  forall dc sc sv c o sk0 b,
  sdeliver_upd dc sc sv c (spec_emits c sk0 o b) = sdeliver dc sc sv c (spec_emits c sk0 o b).
Proof. exact commit_timing_irrelevant. Qed.
Print Assumptions c06_commit_timing_is_irrelevant.

(* saved offsets behind the end of the file (truncateJob sets every saved offset to 0): every line passes again *)
Theorem c06_after_truncation_everything_passes :
  forall sv s off, 0 < off -> pass_event (saved_zero sv) s off = true /\ in_shortcut (saved_zero sv) s off = false.
Proof. exact saved_zero_passes. Qed.
Print Assumptions c06_after_truncation_everything_passes.

(* the compressed pass of a job resumed from the saved offsets sv whose minimum m is a line end of the content *)
Theorem c06_lz4_stream_events :
  forall dc sc (sv : saved) n content offs (o : Z),
  (0 < n)%nat -> map snd sv = o :: offs -> let m := min_list o offs in
  0 <= m <= len content -> snd (split_lines (take m content)) = [] ->
  let k := {| z_cfg := nolimit; z_offs := map snd sv; z_frames := [content]; z_n := n |} in
  let '(L, es, st) := z_pass k in
  filter (fun e => m <? ev_off e) (sdeliver dc sc sv nolimit es)
  = filter (passed sv) (sdecoded dc nolimit (with_off m (fst (split_lines (drop m content))))).
Proof. exact lz4_stream_events. Qed.
Print Assumptions c06_lz4_stream_events.

(* the predicate the correspondence check applies to what the implementation did (s_pred: after every pass everything delivered
   so far = the PassEvent-rule filter of the specification's lines behind the start position, position and tail the
   specification's) holds of every run of the model: any decoder, any saved offsets whose minimum lies inside what the file
   holds when the job is added, any appends and read buffer sizes *)
Theorem c06_streams_model_satisfies_the_check_predicate :
  forall dc sc c sv pre rl, 0 <= wmax c ->
  0 <= s_start sv <= len pre -> Forall (fun r : bytes * nat => (0 < snd r)%nat) rl ->
  s_pred dc sc c (s_start sv) sv pre [] rl
         (map sx_of_spass (s_trace dc sc c {| cur := s_start sv; tail := []; skip := false |} sv pre rl)) = true.
Proof. exact streams_model_satisfies_pred. Qed.
Print Assumptions c06_streams_model_satisfies_the_check_predicate.

(* non-vacuity: five json lines of 24 bytes, streams a b a b a; the previous run committed a through line 3 (offset 72) and
   b through line 2 (offset 48): reading restarts at 48, lines 3 4 5 are read, line 3 (a, ends AT 72) is recognised as
   delivered, lines 4 (b) and 5 (a) reach the output; with b unsaved line 3 is still dropped *)
Example c06_streams_nonvacuous :
  let rest := [123;34;115;116;114;101;97;109;34;58;34;97;34;44;34;109;34;58;34;110;50;34;125;10;123;34;115;116;114;101;97;109;34;58;34;98;34;44;34;109;34;58;34;110;51;34;125;10;123;34;115;116;114;101;97;109;34;58;34;97;34;44;34;109;34;58;34;110;52;34;125;10]%N in
  let sv := [([97]%N, 72); ([98]%N, 48)] in
  let E := fst (rounds nolimit (st_at 48 false) [chunks 7 rest]) in
  map ev_off (sdecoded json_decode nolimit E) = [72; 96; 120]
  /\ sdeliver json_decode false sv nolimit E = [(96, [98]%N, [110;51]%N); (120, [97]%N, [110;52]%N)]
  /\ map ev_off (sdeliver json_decode false [([97]%N, 72)] nolimit E) = [96; 120]
  /\ map ev_off (sdeliver json_decode false [([97]%N, 71)] nolimit E) = [72; 96; 120].
Proof. repeat split; vm_compute; reflexivity. Qed.

(* non-vacuity: "ab\ncd" | pass | truncate to 1 | write notification (detects, restarts at 0, reads "a" into the tail in
   the same step) | "\n" | remove_after tick on the grown file (reads "a\n"@2 first) | remove_after tick (idle: deleted);
   compressed: content "ab\ncd\nef\ngh", saved offsets (6 9), buffer 2: skipping stops at 4, "d\n"@6 is handed over again
   (dropped by its offset), "ef\n"@9 follows, curOffset counts the 7 bytes read after the skipping *)
Example c06_round5_nonvacuous :
  h_run nolimit chunks (h_start 0 false [] false)
    [HAppend [97;98;10;99;100]%N; HPass 2; HTrunc 1; HNotify 3; HAppend [10]%N; HMaintExp 2; HMaintExp 2]
    = ([(3, [97;98;10]%N); (2, [97;10]%N)],
       {| h_job := {| cur := 2; tail := []; skip := false |}; h_done := true; h_deleted := true; h_moved := false;
          h_file := [97;10]%N |})
  /\ z_pass {| z_cfg := nolimit; z_offs := [6; 9]; z_frames := [[97;98;10;99]%N; [100;10;101;102;10;103;104]%N]; z_n := 2%nat |}
    = (4, [(6, [100;10]%N); (9, [101;102;10]%N)], {| cur := 11; tail := [103;104]%N; skip := false |}).
Proof. split; vm_compute; reflexivity. Qed.

(* non-vacuity: content "ab\n\ncdefg\nh" read from offset 100 in two passes, reads of odd sizes, a line
   split over three reads and two passes; with max = 3: skip mode drops "cdefg\n", cut mode + admission
   delivers "cde\n" flagged, the empty line is delivered by the worker and dropped by checkInputBytes *)
Example c06_nonvacuous :
  let rs := [[[97;98;10;10;99]; [100]]; [[101;102]; []; [103;10;104]]]%N in
  rounds nolimit (st_at 100 false) rs
    = ([(103, [97;98;10]%N); (104, [10]%N); (110, [99;100;101;102;103;10]%N)],
       {| cur := 111; tail := [104]%N; skip := false |})
  /\ fst (rounds {| wmax := 3; wcut := false |} (st_at 100 false) rs)
    = [(103, [97;98;10]%N); (104, [10]%N)]
  /\ checked {| wmax := 3; wcut := true |} (fst (rounds {| wmax := 3; wcut := true |} (st_at 100 false) rs))
    = [(103, ([97;98;10]%N, false, true)); (104, ([10]%N, false, false)); (110, ([99;100;101;10]%N, true, true))]
  /\ fst (rounds nolimit (st_at 100 true) rs) = [(104, [10]%N); (110, [99;100;101;102;103;10]%N)].
Proof. repeat split; vm_compute; reflexivity. Qed.
