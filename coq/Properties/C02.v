(* C02 — per-stream commits in read order, once per event. Statements only (in progress). *)
From Verif Require Import Base.Sx Model.Batcher Proofs.Batcher.
Theorem c02_batcher_commits_in_formation_order :
  forall c ls s, run c (init c) ls = Some s ->
    rev (commit_batches s) = map Z.of_nat (seq 0 (Z.to_nat (commitSeq s))) /\ 0 <= commitSeq s.
Proof. exact commit_in_seq_order. Qed.
Print Assumptions c02_batcher_commits_in_formation_order.
