(* C02 — per-stream commits arrive in read order, once per event; conservation at quiescence.
   Statements only.  The property is decided by three component transition systems, each validated
   against every real pipeline trace on every run (Model/Stream.v, Model/Proc.v, Model/Batcher.v, replayed
   by Model/PipeGlue.v), plus the raw-trace monitors c02_mon.  This file holds the batcher part; the
   stream part is in the section "stream" and the processor part in the section "processor" below
   (added as their proofs are completed — see DESIGN.md §5 C01/C02 for the composition argument). *)
From Verif Require Import Base.Sx Model.Batcher Proofs.Batcher.

(* the output commits batches in the order it formed them, each batch once … *)
Theorem c02_batcher_commits_in_formation_order :
  forall c ls s, run c (init c) ls = Some s ->
    0 <= commitSeq s /\
    rev (commit_batches s) = map Z.of_nat (seq 0 (Z.to_nat (commitSeq s))).
Proof. exact commit_in_seq_order. Qed.
Print Assumptions c02_batcher_commits_in_formation_order.

(* … so the events it commits are a prefix of the events added to it, in the order they were added:
   no event is committed twice or out of order (for every interleaving of adders, workers, heartbeat
   and Stop; without a dead queue) … *)
Theorem c02_batcher_commits_in_add_order :
  forall c ls s, (retriable c = false \/ deadq c = false) -> run c (init c) ls = Some s ->
    exists rest, rev (added s) = rev (committed s) ++ rest.
Proof. exact committed_prefix_of_added. Qed.
Print Assumptions c02_batcher_commits_in_add_order.

(* … and once it is idle every added event has been committed exactly once *)
Theorem c02_batcher_exactly_once_when_idle :
  forall c ls s, (retriable c = false \/ deadq c = false) -> run c (init c) ls = Some s ->
    flight s = [] -> cur_list s = [] -> rev (committed s) = rev (added s).
Proof. exact exactly_once_at_quiescence. Qed.
Print Assumptions c02_batcher_exactly_once_when_idle.
