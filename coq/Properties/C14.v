(* C14 — action selection follows the documented boolean semantics.
   Only statements, each closed by [exact]; proofs live in Proofs/DoIf.v, Proofs/DoIfData.v,
   Proofs/DoIfChain.v and Proofs/MatchFields.v.
   External behaviour is universally quantified: [lower] (bytes.ToLower), [re_match] (Go regexp),
   [any] (bytes.ContainsAny), [ptime] (xtime.ParseTime), [aint] (insane-json AsInt), [re_ok]
   (regexp.Compile succeeds). The c14_config_* theorems are about fd/util.go extractConditions (a value of the
   match_fields map as a JSON tree -> the condition handed to isMatch). *)
From Verif Require Import Base.Sx Base.GoSem Base.Json Model.DoIf Model.MatchFields Proofs.DoIf Proofs.MatchFields
  Proofs.DoIfData Proofs.DoIfChain.
From Coq Require Import Permutation.

(* do_if: for every rule tree the constructors accept (any depth, any width, every operator) and
   every event, the decision computed WITH the code's short-cuts (length buckets, minimum-length
   exit, truncation to maxValLen before lower-casing, de-duplicated type lists, short-circuit
   and/or, byte-size arithmetic) is the documented one — provided lower-casing keeps byte lengths
   and commutes with the truncation on the strings of this rule and event, and no array/object
   field is accepted through the placeholder byte eventData.Get substitutes for it. *)
Theorem c14_check_eq_eval :
  forall lower re_match any ptime aint re_ok n e now,
    wfb re_ok n = true ->
    lower_hyp lower n e = true ->
    cont_ok lower re_match any n e = true ->
    check lower re_match any ptime aint n e now = eval lower re_match any ptime aint n e now.
Proof. exact check_eq_eval. Qed.
Print Assumptions c14_check_eq_eval.

(* the lower-casing side condition holds for every rule and event when lower-casing is byte-wise *)
Theorem c14_check_eq_eval_bytewise_lower :
  forall lower re_match any ptime aint re_ok,
    (forall x, length (lower x) = length x) ->
    (forall k x, lower (firstn k x) = firstn k (lower x)) ->
    (forall k x, lower (skipn k x) = skipn k (lower x)) ->
    forall n e now,
      wfb re_ok n = true -> cont_ok lower re_match any n e = true ->
      check lower re_match any ptime aint n e now = eval lower re_match any ptime aint n e now.
Proof. exact check_eq_eval_global. Qed.
Print Assumptions c14_check_eq_eval_bytewise_lower.

(* ... in particular for ASCII lower-casing (what bytes.ToLower does on ASCII text) *)
Theorem c14_check_eq_eval_ascii :
  forall re_match any ptime aint re_ok n e now,
    wfb re_ok n = true -> cont_ok ascii_lower re_match any n e = true ->
    check ascii_lower re_match any ptime aint n e now = eval ascii_lower re_match any ptime aint n e now.
Proof. exact check_eq_eval_ascii. Qed.
Print Assumptions c14_check_eq_eval_ascii.

(* the Unicode clause is FALSE of the faithful model: with a lower-casing that, like
   bytes.ToLower, maps KELVIN SIGN (3 bytes) to "k" (1 byte), case-insensitive [equal] value K
   does not match field "k" (minValLen is taken before lower-casing) ... *)
Theorem c14_doif_unicode_refuted :
  exists lower n e,
    wfb all_ok n = true /\ cont_ok lower no_re no_re n e = true
    /\ check lower no_re no_re no_time no_int n e 0 = false
    /\ eval lower no_re no_re no_time no_int n e 0 = true.
Proof. exists fold_lower. eexists. eexists. exact unicode_refuted_equal_value. Qed.
Print Assumptions c14_doif_unicode_refuted.

(* ... nor value "k" the field K (the length bucket is chosen before lower-casing) ... *)
Theorem c14_doif_unicode_refuted_field :
  exists lower n e,
    wfb all_ok n = true /\ cont_ok lower no_re no_re n e = true
    /\ check lower no_re no_re no_time no_int n e 0 = false
    /\ eval lower no_re no_re no_time no_int n e 0 = true.
Proof. exists fold_lower. eexists. eexists. exact unicode_refuted_equal_field. Qed.
Print Assumptions c14_doif_unicode_refuted_field.

(* ... and [suffix] value "İ" (lower-cased to 3 bytes) is not found at the end of "xi̇" because only
   the last maxValLen = 2 bytes of the field are looked at *)
Theorem c14_doif_unicode_refuted_suffix :
  exists lower n e,
    wfb all_ok n = true /\ cont_ok lower no_re no_re n e = true
    /\ check lower no_re no_re no_time no_int n e 0 = false
    /\ eval lower no_re no_re no_time no_int n e 0 = true.
Proof. exists fold_lower. eexists. eexists. exact unicode_refuted_suffix. Qed.
Print Assumptions c14_doif_unicode_refuted_suffix.

(* "array and object values are considered as not matched" is FALSE of the faithful model: an object
   is matched by [contains] with an empty value (the placeholder byte contains the empty needle) *)
Theorem c14_doif_container_refuted :
  exists n e,
    wfb all_ok n = true /\ lower_hyp ascii_lower n e = true
    /\ check ascii_lower no_re no_re no_time no_int n e 0 = true
    /\ eval ascii_lower no_re no_re no_time no_int n e 0 = false.
Proof. eexists. eexists. exact container_refuted. Qed.
Print Assumptions c14_doif_container_refuted.

(* byte_len_cmp on an array/object (as repaired): the computed size is the length of the compact
   JSON text, for every value (strings and keys without escape sequences) *)
Theorem c14_byte_size_spec : forall j, byte_size j = len (encode j).
Proof. exact byte_size_spec. Qed.
Print Assumptions c14_byte_size_spec.

(* the decision does not depend on the order of operands ... *)
Theorem c14_and_operand_order :
  forall lower re_match any ptime aint ops ops' e now,
    Permutation ops ops' ->
    check lower re_match any ptime aint (NAnd ops) e now = check lower re_match any ptime aint (NAnd ops') e now.
Proof. exact check_and_perm. Qed.
Print Assumptions c14_and_operand_order.

Theorem c14_or_operand_order :
  forall lower re_match any ptime aint ops ops' e now,
    Permutation ops ops' ->
    check lower re_match any ptime aint (NOr ops) e now = check lower re_match any ptime aint (NOr ops') e now.
Proof. exact check_or_perm. Qed.
Print Assumptions c14_or_operand_order.

(* ... nor on the order of the values of a field operation (buckets, minValLen, maxValLen) *)
Theorem c14_value_order :
  forall lower re_match any ptime aint op path cs v0 vr w0 wr e now,
    op <> FContainsAny -> Permutation (v0 :: vr) (w0 :: wr) ->
    check lower re_match any ptime aint (NField op path cs v0 vr) e now
    = check lower re_match any ptime aint (NField op path cs w0 wr) e now.
Proof. exact check_values_perm. Qed.
Print Assumptions c14_value_order.

(* ... nor on the events checked before or after (the clock of ts_cmp "now" is an explicit input) *)
Theorem c14_check_pure :
  forall lower re_match any ptime aint n pre post e now,
    nth_error (decisions lower re_match any ptime aint n (pre ++ (e, now) :: post)) (length pre)
    = Some (check lower re_match any ptime aint n e now).
Proof. exact check_pure. Qed.
Print Assumptions c14_check_pure.

(* match_fields (isMatchAnd as repaired): and / or / and_prefix / or_prefix over exact, prefix and
   regexp conditions with optional inversion, for every condition list and event *)
Theorem c14_match_fields_spec :
  forall re_match mode invert conds e,
    is_match re_match mode invert conds e = match_spec re_match mode invert conds e.
Proof. exact match_fields_spec. Qed.
Print Assumptions c14_match_fields_spec.

(* extractConditions ranges over a Go map: any order of the conditions gives the same decision *)
Theorem c14_match_fields_order :
  forall re_match mode invert conds conds' e,
    Permutation conds conds' ->
    is_match re_match mode invert conds e = is_match re_match mode invert conds' e.
Proof. exact match_fields_perm. Qed.
Print Assumptions c14_match_fields_order.

(* ---- one rule shared by all processors of a pipeline (Pipeline.newProc: one *ActionPluginStaticInfo) --------- *)
(* evaluating a selector reads the rule: after any sequence of evaluations - any interleaving of the evaluations of
   any number of processors is such a sequence - the rule is the configured one (values in order, regexps) *)
Theorem c14_shared_rule_unchanged :
  forall re_match mode invert rule es,
    snd (shared_run re_match mode invert rule es) = rule.
Proof. exact shared_rule_unchanged. Qed.
Print Assumptions c14_shared_rule_unchanged.

(* history independence, the theorem the concurrent family of the harness relies on: the decision for an event is
   the documented one for (rule as configured, event), whatever was evaluated before or after it *)
Theorem c14_shared_history_independent :
  forall re_match mode invert rule pre e post,
    nth_error (fst (shared_run re_match mode invert rule (pre ++ e :: post))) (length pre)
    = Some (match_spec re_match mode invert rule e).
Proof. exact shared_history_independent. Qed.
Print Assumptions c14_shared_history_independent.

(* the predicate an observed run over a shared rule is judged by holds of the model's run ... *)
Theorem c14_shared_run_ok :
  forall re_match mode invert rule es,
    shared_ok re_match mode invert rule es (fst (shared_run re_match mode invert rule es))
              (snd (shared_run re_match mode invert rule es)) = true.
Proof. exact shared_run_ok. Qed.
Print Assumptions c14_shared_run_ok.

(* ... and says: the rule read back is the configured one and every decision is the documented one *)
Theorem c14_shared_ok_sound :
  forall re_match mode invert rule es decisions rule_after,
    shared_ok re_match mode invert rule es decisions rule_after = true ->
    rule_after = rule /\ decisions = map (match_spec re_match mode invert rule) es.
Proof. exact shared_ok_sound. Qed.
Print Assumptions c14_shared_ok_sound.

(* ---- match_fields as written in a configuration: fd/util.go extractConditions ----------------- *)
(* a value of the match_fields map is a JSON tree; [re_ok] = regexp.Compile succeeds. The translation as coded
   (first byte a slash -> cfg.CompileRegex, else one exact value; list -> its strings; anything else refused) is
   the documented kind of test for EVERY value *)
Theorem c14_config_value_documented :
  forall re_ok v, extract_value re_ok v = doc_kind re_ok v.
Proof. exact extract_value_documented. Qed.
Print Assumptions c14_config_value_documented.

(* a list is ALWAYS the list of its strings taken as exact values (prefixes in the *_prefix modes), whatever its
   length (0, 1, 2, ...) and whatever the strings look like ("/x/", "/var/log/", ".*") ... *)
Theorem c14_config_list_exact :
  forall re_ok vs, extract_value re_ok (JArr (map JStr vs)) = CExact vs.
Proof. exact extract_list_exact. Qed.
Print Assumptions c14_config_list_exact.

(* ... and never a regular expression *)
Theorem c14_config_list_never_regexp :
  forall re_ok l p, extract_value re_ok (JArr l) <> CRegexp p.
Proof. exact extract_list_never_regexp. Qed.
Print Assumptions c14_config_list_never_regexp.

(* ONLY a scalar string delimited by slashes whose inner part compiles is a regular expression (of that inner part) *)
Theorem c14_config_regexp_iff :
  forall re_ok v p,
    extract_value re_ok v = CRegexp p <-> v = JStr (47%N :: p ++ [47%N]) /\ re_ok p = true.
Proof. exact extract_regexp_iff. Qed.
Print Assumptions c14_config_regexp_iff.

(* every scalar string that does not start with a slash is one exact value, itself (blanks, dots, stars and all) *)
Theorem c14_config_scalar_plain :
  forall re_ok s, starts_with_slash s = false -> extract_value re_ok (JStr s) = CExact [s].
Proof. exact extract_scalar_plain. Qed.
Print Assumptions c14_config_scalar_plain.

(* refused: exactly what is neither a list of strings, nor a string without a leading slash, nor a /regexp/ that
   compiles (numbers, booleans, null, objects, nested lists, "/unterminated", "/", "/(/") *)
Theorem c14_config_refused_iff :
  forall re_ok v, extract_value re_ok v = CRefused <-> cfg_accepted re_ok v = false.
Proof. exact extract_refused_iff. Qed.
Print Assumptions c14_config_refused_iff.

(* END TO END: whenever the reader accepts a match_fields map, the decision processor.isMatch takes with the
   conditions the reader built is the documented meaning of the map AS WRITTEN (cfg_spec reads the JSON values
   directly: list = exact values / prefixes, /.../ = regexp, other string = itself; all / one of the fields;
   inversion), for every map, mode, inversion and event *)
Theorem c14_config_match_spec :
  forall re_match re_ok mode invert cfg conds e,
    extract_conds re_ok cfg = Some conds ->
    is_match re_match mode invert conds e = cfg_spec re_match mode invert cfg e.
Proof. exact config_match_spec. Qed.
Print Assumptions c14_config_match_spec.

(* a map whose values are all lists is decided without the regexp engine, whatever the strings inside look like *)
Theorem c14_config_lists_ignore_regexp :
  forall re1 re2 re_ok mode invert cfg conds e,
    (forall pv, In pv cfg -> exists l, snd pv = JArr l) ->
    extract_conds re_ok cfg = Some conds ->
    is_match re1 mode invert conds e = is_match re2 mode invert conds e.
Proof. exact config_lists_ignore_regexp. Qed.
Print Assumptions c14_config_lists_ignore_regexp.

(* ---- the second caller of a checker: antispam rules (pipeline/antispam) ----------------------- *)
(* the data is (record bytes, source name, meta map); field operations over  event | source_name |
   meta.<key>  and and / or / not are supported, every other path is absent and the length /
   timestamp / type leaves never hold (antispam/README.md). For every rule tree the constructors
   accept and every datum the decision computed with the short-cuts is the documented one. *)
Theorem c14_antispam_check_eq_eval :
  forall lower re_match any re_ok n d,
    wfb re_ok n = true ->
    lower_hyp_as lower n d = true ->
    check_as lower re_match any n d = eval_as lower re_match any n d.
Proof. exact check_as_eq_eval_as. Qed.
Print Assumptions c14_antispam_check_eq_eval.

(* a rule built of field operations over the three documented paths decides an antispam datum exactly
   as it decides the event  {"event": ..., "source_name": ..., "meta": {...}} : one semantics, two callers *)
Theorem c14_antispam_is_check_on_tree :
  forall lower re_match any ptime aint n d now,
    documented_paths n = true ->
    check_as lower re_match any n d = check lower re_match any ptime aint n (as_tree d) now.
Proof. exact check_as_is_check_on_tree. Qed.
Print Assumptions c14_antispam_is_check_on_tree.

(* ---- action chains: processor.doActions over the actions of a pipeline ------------------------ *)
(* which actions every event of a stream enters and which events reach the output — through pass /
   break / discard / collapse results and busy actions — is the same whether every selector is
   computed with the code's short-cuts or read as documented *)
Theorem c14_chain_check_eq_eval :
  forall lower re_match any ptime aint re_ok acts sts (evs : list (json * Z)),
    (forall e, In e evs -> chain_ok lower re_match any re_ok acts (fst e)) ->
    chain_run (fun e n => check lower re_match any ptime aint n (fst e) (snd e)) acts sts evs
    = chain_run (fun e n => eval lower re_match any ptime aint n (fst e) (snd e)) acts sts evs.
Proof. exact chain_check_eq_eval. Qed.
Print Assumptions c14_chain_check_eq_eval.

(* whether action i is applied to an event is exactly: the event got as far as action i (every earlier
   action it entered passed it on) and the selector of action i holds — for every chain, every
   position and every decision function, whenever no action is in the middle of a sequence *)
Theorem c14_chain_entered_exact :
  forall dec acts sts i a s,
    length sts = length acts ->
    forallb (fun s => negb (cs_busy s)) sts = true ->
    nth_error acts i = Some a -> nth_error sts i = Some s ->
    nth_error (fst (fst (chain_step dec acts sts))) i
    = Some (sel_dec dec a && forallb (gets_past dec) (firstn i (combine acts (results_of acts sts)))).
Proof. exact chain_entered_exact. Qed.
Print Assumptions c14_chain_entered_exact.

(* the one exception, as coded (the join protocol): an action that answered `collapse` is entered by
   the next event of the stream that reaches it whatever its selector says *)
Theorem c14_chain_busy_entered :
  forall dec a ar s sr,
    cs_busy s = true -> hd_error (fst (fst (chain_step dec (a :: ar) (s :: sr)))) = Some true.
Proof. exact chain_busy_entered. Qed.
Print Assumptions c14_chain_busy_entered.

(* non-vacuity: a depth-3 tree over a nested event meets wfb / lower_hyp / cont_ok and is decided
   "true" through a truncated case-insensitive prefix, a length bucket, a de-duplicated type list and
   the size of a nested object; the README example of match_mode "and" with a regexp is discarded *)
Definition ex_tree : node :=
  NAnd [ NOr [ NField FEqual [[97]%N] true (Some [120; 121]%N) [Some [122]%N; None];
               NField FPrefix [[98]%N; [99]%N] false (Some [72; 69]%N) [Some [119; 111; 114]%N] ];
         NNot (NType [[97]%N] [TObj; TArr; TObj]);
         NLen LByte [[98]%N] CEq 13 ].
Definition ex_event : json :=
  JObj [([97]%N, JStr [113]%N); ([98]%N, JObj [([99]%N, JStr [104; 101; 108; 108; 111]%N)])].
Example c14_check_eq_eval_nonvacuous :
  wfb all_ok ex_tree = true /\ lower_hyp ascii_lower ex_tree ex_event = true
  /\ cont_ok ascii_lower no_re no_re ex_tree ex_event = true
  /\ check ascii_lower no_re no_re no_time no_int ex_tree ex_event 0 = true
  /\ eval ascii_lower no_re no_re no_time no_int ex_tree ex_event 0 = true.
Proof. vm_compute. repeat split. Qed.

Definition ex_re (p s : bytes) : bool := has_prefix s p.      (* stands for /^payment-api.*/ *)
Definition ex_conds : list cond :=
  [ {| c_field := [[110]%N]; c_values := [[112]%N; [116]%N]; c_regexp := None |};
    {| c_field := [[112]%N]; c_values := []; c_regexp := Some [112; 45]%N |} ].
Definition ex_legacy_event : json := JObj [([110]%N, JStr [112]%N); ([112]%N, JStr [112; 45; 97]%N)].
Example c14_match_fields_nonvacuous :
  is_match ex_re MAnd false ex_conds ex_legacy_event = true
  /\ is_match ex_re MAndPrefix true ex_conds ex_legacy_event = false
  /\ is_match ex_re MOr false ex_conds (JObj [([110]%N, JStr [120]%N)]) = false.
Proof. vm_compute. repeat split. Qed.

(* a shared rule over events that match different non-first values: all selected, rule unchanged; a run that lost a
   value of the rule is rejected by the predicate *)
Example c14_shared_nonvacuous :
  shared_run ex_re MOr false ex_conds
             [JObj [([110]%N, JStr [116]%N)]; JObj [([110]%N, JStr [112]%N)]; JObj [([110]%N, JStr [120]%N)]]
  = ([true; true; false], ex_conds)
  /\ shared_ok ex_re MOr false ex_conds [JObj [([110]%N, JStr [116]%N)]] [true]
               [ {| c_field := [[110]%N]; c_values := [[116]%N; [116]%N]; c_regexp := None |};
                 {| c_field := [[112]%N]; c_values := []; c_regexp := Some [112; 45]%N |} ] = false.
Proof. vm_compute. split; reflexivity. Qed.

(* the README rule `custom_threshold` (pipeline/README.md, Antispam) on a matching and a non-matching datum;
   a length leaf never holds on antispam data *)
Definition ex_as_rule : node :=
  NAnd [ NField FContains [b_meta; [115]%N] true (Some [116; 115]%N) [];
         NField FPrefix [b_event] false (Some [123; 34; 76]%N) [] ].
Definition ex_as_datum (ev : bytes) : asdata :=
  {| as_event := ev; as_source := [120]%N; as_meta := [([115]%N, [109; 116; 115]%N)] |}.
Example c14_antispam_nonvacuous :
  wfb all_ok ex_as_rule = true /\ documented_paths ex_as_rule = true
  /\ lower_hyp_as ascii_lower ex_as_rule (ex_as_datum [123; 34; 108; 34]%N) = true
  /\ check_as ascii_lower no_re no_re ex_as_rule (ex_as_datum [123; 34; 108; 34]%N) = true
  /\ eval_as ascii_lower no_re no_re ex_as_rule (ex_as_datum [123; 34; 108; 34]%N) = true
  /\ check_as ascii_lower no_re no_re ex_as_rule (ex_as_datum [123; 120]%N) = false
  /\ check_as ascii_lower no_re no_re (NLen LByte [b_event] CGe 0) (ex_as_datum [123]%N) = false.
Proof. vm_compute. repeat split. Qed.

(* a join-like chain: action 0 is selected by the first line only and collapses it and the next line it
   is handed while busy; action 1 has no selector; the second event does not satisfy the selector of
   action 0 and is entered all the same *)
Definition ex_first : node := NField FEqual [[108]%N] true (Some [101]%N) [].
Definition ex_chain : list cact :=
  [ {| ca_sel := Some ex_first; ca_script := [RCollapse; RCollapse; RPass] |}; {| ca_sel := None; ca_script := [RPass] |} ].
Definition ex_line (l : bytes) : json := JObj [([108]%N, JStr l)].
Example c14_chain_nonvacuous :
  chain_run (fun e n => check ascii_lower no_re no_re no_time no_int n e 0) ex_chain (cst_init ex_chain)
            [ex_line [105]%N; ex_line [101]%N; ex_line []; ex_line [105]%N; ex_line [105]%N]
  = [([false; true], true); ([true; false], false); ([true; false], false); ([true; true], true); ([false; true], true)].
Proof. vm_compute. reflexivity. Qed.

(* match_fields as written: `p: ["/x/"]` (a list of ONE string between slashes) is the exact value "/x/" and not the
   regexp x; `p: /x/` is the regexp; `p: ["/var"]` is accepted, `p: /var` and `p: 5` are refused *)
Definition ex_sl_x : bytes := [47; 120; 47]%N.
Definition ex_re_contains (p s : bytes) : bool := contains s p.          (* stands for an unanchored literal pattern *)
Definition ex_cfg (v : json) : list (list bytes * json) := [([[112]%N], v)].
Definition ex_cfg_event (s : bytes) : json := JObj [([112]%N, JStr s)].
Example c14_config_nonvacuous :
  extract_conds all_ok (ex_cfg (JArr [JStr ex_sl_x]))
  = Some [ {| c_field := [[112]%N]; c_values := [ex_sl_x]; c_regexp := None |} ]
  /\ extract_conds all_ok (ex_cfg (JStr ex_sl_x))
     = Some [ {| c_field := [[112]%N]; c_values := []; c_regexp := Some [120]%N |} ]
  /\ cfg_spec ex_re_contains MAnd false (ex_cfg (JArr [JStr ex_sl_x])) (ex_cfg_event [97; 120; 98]%N) = false
  /\ cfg_spec ex_re_contains MAnd false (ex_cfg (JArr [JStr ex_sl_x])) (ex_cfg_event ex_sl_x) = true
  /\ cfg_spec ex_re_contains MAnd false (ex_cfg (JStr ex_sl_x)) (ex_cfg_event [97; 120; 98]%N) = true
  /\ cfg_spec ex_re_contains MOrPrefix true (ex_cfg (JArr [JStr ex_sl_x])) (ex_cfg_event [47; 120; 47; 121]%N) = false
  /\ isSome (extract_conds all_ok (ex_cfg (JArr [JStr [47; 118]%N]))) = true
  /\ extract_conds all_ok (ex_cfg (JStr [47; 118]%N)) = None
  /\ extract_conds all_ok (ex_cfg (JNum [53]%N)) = None
  /\ extract_conds all_ok (ex_cfg (JArr [JArr [JStr [97]%N]])) = None.
Proof. vm_compute. repeat split. Qed.
