(* C10 — Kafka input never acknowledges a record that is not finished: PACKING AND MARKS.
   Only statements, each closed by [exact]; proofs live in Proofs/Kafka.v.
   assemble_* / disassemble_* / the data flow of Commit are the definitions of Gen/KafkaGen.v,
   regenerated from /repo/plugin/input/kafka/kafka.go on every check. *)
From Verif Require Import Base.Sx Base.GoSem Model.KafkaInt Gen.KafkaGen Model.Kafka Proofs.Kafka Model.KafkaGroup Proofs.KafkaGroup Model.PipeGlue Model.C10Entry Proofs.C10Entry.

(* Inside the stated ranges (topic index < 2^48 — wider than any topics list —, partitions 0..65535,
   offsets 0..2^47-1, leader epochs 0..65535) unpacking a packed value returns exactly the topic
   index, the partition and the epoch, and the offset to mark is offset + 1. Go's wrap-around is
   explicit: SourceID is the uint64 (index*2^16 + partition) mod 2^64, the event offset does not wrap. *)
Theorem c10_pack_roundtrip :
  forall index partition offset epoch,
    0 <= index < 2 ^ 48 -> 0 <= partition < 2 ^ 16 -> 0 <= offset < 2 ^ 47 -> 0 <= epoch < 2 ^ 16 ->
    disassemble_source_id (assemble_source_id index partition) = (index, partition) /\
    disassemble_offset (assemble_offset offset epoch) = (offset + 1, epoch) /\
    assemble_source_id index partition = (index * 2 ^ 16 + partition) mod 2 ^ 64 /\
    assemble_offset offset epoch = offset * 2 ^ 16 + epoch.
Proof. exact pack_roundtrip. Qed.
Print Assumptions c10_pack_roundtrip.

(* what the packing computes for EVERY value of the Go types (int, int32, int64, int32) *)
Theorem c10_pack_wraps :
  forall index partition offset epoch,
    go_fits I64 index = true -> go_fits I32 partition = true ->
    go_fits I64 offset = true -> go_fits I32 epoch = true ->
    assemble_source_id index partition = (index * 2 ^ 16 + partition) mod 2 ^ 64 /\
    assemble_offset offset epoch = (offset * 2 ^ 16 + epoch + 2 ^ 63) mod 2 ^ 64 - 2 ^ 63.
Proof. exact pack_wraps. Qed.
Print Assumptions c10_pack_wraps.

Theorem c10_pack_injective :
  forall i1 p1 o1 e1 i2 p2 o2 e2,
    0 <= i1 < 2 ^ 48 -> 0 <= p1 < 2 ^ 16 -> 0 <= o1 < 2 ^ 47 -> 0 <= e1 < 2 ^ 16 ->
    0 <= i2 < 2 ^ 48 -> 0 <= p2 < 2 ^ 16 -> 0 <= o2 < 2 ^ 47 -> 0 <= e2 < 2 ^ 16 ->
    (assemble_source_id i1 p1 = assemble_source_id i2 p2 -> i1 = i2 /\ p1 = p2) /\
    (assemble_offset o1 e1 = assemble_offset o2 e2 -> o1 = o2 /\ e1 = e2).
Proof. exact pack_injective. Qed.
Print Assumptions c10_pack_injective.

(* Commit of the event that the consumer built for an in-range record marks (offset + 1, epoch)
   under the record's own topic name and partition, and Topics[index] does not panic *)
Theorem c10_commit_marks_own_partition :
  forall topics m r,
    len topics <= 2 ^ 48 -> rec_in_range topics r ->
    commit topics m (event_of topics r) =
    Ok (mark_update m (k_topic r, k_part r) (k_off r + 1, k_epoch r)).
Proof. exact commit_of_record. Qed.
Print Assumptions c10_commit_marks_own_partition.

(* For every topics list and every sequence of Commit calls for consumed in-range records (any
   completion order, repetitions, any subset — every prefix is such a sequence, so this speaks of
   the marks after each Commit): no Commit panics, and the mark of every (topic, partition) is
   offset + 1 and the epoch of a committed record OF THAT topic and partition; hence it is at most
   one past the largest consumed offset of the partition. *)
Theorem c10_mark_at_most_one_past_consumed :
  forall topics rs,
    len topics <= 2 ^ 48 -> Forall (rec_in_range topics) rs ->
    exists m, commit_records topics [] rs = Ok m /\
      forall name p o e, lookup m (name, p) = Some (o, e) ->
        (exists r, In r rs /\ k_topic r = name /\ k_part r = p /\ o = k_off r + 1 /\ e = k_epoch r) /\
        (forall B, (forall r, In r rs -> k_topic r = name -> k_part r = p -> k_off r <= B) -> o <= B + 1).
Proof. exact mark_at_most_one_past_consumed. Qed.
Print Assumptions c10_mark_at_most_one_past_consumed.

(* The head of a partition never moves backwards in kgo's order (epoch first, then offset), over any
   run of Commit calls on ANY events (no range hypothesis), and a marked partition stays marked *)
Theorem c10_mark_monotone :
  forall topics evs m m' k h,
    commit_all topics m evs = Ok m' -> lookup m k = Some h ->
    exists h', lookup m' k = Some h' /\ (h' = h \/ eo_less h h' = true) /\ eo_less h' h = false.
Proof. exact mark_monotone. Qed.
Print Assumptions c10_mark_monotone.

Theorem c10_kgo_order_strict :
  (forall a, eo_less a a = false) /\
  (forall a b c, eo_less a b = true -> eo_less b c = true -> eo_less a c = true).
Proof. exact kgo_order_strict. Qed.
Print Assumptions c10_kgo_order_strict.

(* When leader epochs do not decrease along the offsets of a partition (true of every Kafka log)
   kgo's epoch-first order agrees with the offset order: after the Commit calls the mark of each
   partition is exactly 1 + the largest committed offset of that partition *)
Theorem c10_mark_is_one_past_max :
  forall topics rs,
    len topics <= 2 ^ 48 -> Forall (rec_in_range topics) rs -> epochs_follow_offsets rs ->
    exists m, commit_records topics [] rs = Ok m /\
      forall r, In r rs ->
        exists o e, lookup m (key_of r) = Some (o, e) /\ k_off r + 1 <= o /\
          exists r', In r' rs /\ key_of r' = key_of r /\ o = k_off r' + 1 /\ e = k_epoch r'.
Proof. exact mark_is_one_past_max. Qed.
Print Assumptions c10_mark_is_one_past_max.

(* the executable predicate the harness evaluates on the marks observed in the real kgo client
   (marks_pred) holds of every trace of the model, for every choice of Commit calls *)
Theorem c10_model_trace_satisfies_pred :
  forall topics rs ks calls,
    len topics <= 2 ^ 48 -> Forall (rec_in_range topics) rs ->
    pick (map (event_of topics) rs) ks = Some calls ->
    exists tr, commit_trace topics [] calls = (tr, 0) /\ length tr = length ks /\
               marks_pred topics rs tr = true.
Proof. exact model_trace_satisfies_pred. Qed.
Print Assumptions c10_model_trace_satisfies_pred.

(* the boolean range test of the harness is the range hypothesis of the theorems *)
Theorem c10_range_test_is_range :
  forall topics r, rec_in_range_b topics r = true <-> rec_in_range topics r.
Proof. exact rec_in_range_b_spec. Qed.
Print Assumptions c10_range_test_is_range.

(* NOTE, outside the stated range (reported, not repaired): a record whose LeaderEpoch is -1
   ("unknown": kgo sets it for the pre-0.11 message formats) is marked with epoch 65535 and with
   its OWN offset instead of offset + 1 — the borrow of the -1 propagates into the offset bits. *)
Theorem c10_note_epoch_unknown_marks_offset_itself :
  forall offset, 0 <= offset < 2 ^ 47 ->
    disassemble_offset (assemble_offset offset (-1)) = (offset, 65535).
Proof. exact epoch_unknown_marks_offset_itself. Qed.
Print Assumptions c10_note_epoch_unknown_marks_offset_itself.

(* ties read off the source by the translator: NewClient passes kgo.AutoCommitMarks() — without it
   MarkCommitOffsets is a no-op and kgo commits whatever was polled *)
Theorem c10_client_commits_only_marks : gen_autocommit_marks = true.
Proof. reflexivity. Qed.
Print Assumptions c10_client_commits_only_marks.

(* ======================= RESTART OF THE CONSUMER GROUP (Model/KafkaGroup.v) ======================
   "A restart of the consumer group from the committed offsets therefore redelivers everything unfinished."
   [redelivered b oldest log] is what a member that joins with the group's committed offsets b is handed of a
   partition log: the executable model of which = 5 uses it for every Start and every eager rebalance of the REAL
   plugin on an in-process broker (c10_begin_filter_is_redelivered), and the harness evaluates its consequence on
   what the real kgo client delivered after each restart (redelivery_pred). *)
Theorem c10_redelivered_spec :
  forall b oldest log r,
    In r (redelivered b oldest log) <->
    In r log /\ match lookup b (key_of r) with Some h => fst h <= k_off r | None => oldest = true end.
Proof. exact redelivered_spec. Qed.
Print Assumptions c10_redelivered_spec.

Theorem c10_begin_filter_is_redelivered :
  forall b oldest (rs : list grec),
    map fst (filter (fun x : grec => from_commit b oldest (fst x)) rs) = redelivered b oldest (map fst rs).
Proof. exact begin_filter_is_redelivered. Qed.
Print Assumptions c10_begin_filter_is_redelivered.

(* Whatever Commit calls were made (any completion order, repetitions, any subset of the consumed records), a
   record of the log that lies above every committed record of its partition is handed over again by the restart *)
Theorem c10_restart_redelivers_above_commits :
  forall topics rs log oldest m r,
    len topics <= 2 ^ 48 -> Forall (rec_in_range topics) rs ->
    commit_records topics [] rs = Ok m ->
    In r log ->
    (forall r', In r' rs -> key_of r' = key_of r -> k_off r' < k_off r) ->
    (oldest = true \/ lookup m (key_of r) <> None) ->
    In r (redelivered m oldest log).
Proof. exact restart_redelivers_above_commits. Qed.
Print Assumptions c10_restart_redelivers_above_commits.

(* the only records a restart skips are those at or below a committed record of their own partition (or the
   partition has no commit and the group starts at the end, offset: newest) *)
Theorem c10_restart_skips_only_passed :
  forall topics rs log oldest m r,
    len topics <= 2 ^ 48 -> Forall (rec_in_range topics) rs ->
    commit_records topics [] rs = Ok m ->
    In r log -> ~ In r (redelivered m oldest log) ->
    (lookup m (key_of r) = None /\ oldest = false) \/
    (exists r', In r' rs /\ key_of r' = key_of r /\ k_off r <= k_off r').
Proof. exact restart_skips_only_passed. Qed.
Print Assumptions c10_restart_skips_only_passed.

(* the property's last sentence, CONDITIONAL on its frontier clause (4th hypothesis: no record at or below a
   committed record of its partition is unfinished — not given by spread routing, known finding): every
   unfinished record is redelivered *)
Theorem c10_restart_redelivers_everything_unfinished :
  forall topics rs log oldest m,
    len topics <= 2 ^ 48 -> Forall (rec_in_range topics) rs ->
    commit_records topics [] rs = Ok m ->
    (forall r r', In r log -> In r' rs -> key_of r' = key_of r -> k_off r <= k_off r' -> In r rs) ->
    forall r, In r log -> ~ In r rs ->
              (oldest = true \/ lookup m (key_of r) <> None) ->
              In r (redelivered m oldest log).
Proof. exact restart_redelivers_everything_unfinished. Qed.
Print Assumptions c10_restart_redelivers_everything_unfinished.

Theorem c10_committed_partition_has_head :
  forall topics rs m r0,
    len topics <= 2 ^ 48 -> Forall (rec_in_range topics) rs -> epochs_follow_offsets rs ->
    commit_records topics [] rs = Ok m -> In r0 rs -> lookup m (key_of r0) <> None.
Proof. exact committed_partition_has_head. Qed.
Print Assumptions c10_committed_partition_has_head.

(* CommitMarkedOffsets (the auto-commit tick and Plugin.Stop): an offset the group has committed afterwards was
   committed before or is one of the heads kgo holds (c10_mark_at_most_one_past_consumed says what those are) *)
Theorem c10_tick_commits_only_marks :
  forall m b c k h,
    lookup (fst (tick_marks m (b, c))) k = Some h -> lookup b k = Some h \/ In (k, h) m.
Proof. exact tick_commits_only_marks. Qed.
Print Assumptions c10_tick_commits_only_marks.

(* non-vacuity of the group model: three lifetimes of the real plugin on topics a (2 partitions) and b (1), balancer
   range. Lifetime 1: Commit of b/0 offset 7 and a/0 offset 1, an eager rebalance (the marks are discarded, everything
   is delivered again), Commit of a/0 offset 1, commit tick (Kafka holds a/0 -> 2), another rebalance (a/0 is read
   from offset 3 on), Stop. Lifetime 2: Commit of a/0 offset 3, but the final commit is refused (a crash as far as
   Kafka can tell). Lifetime 3 is handed a/0 from offset 3 again. The observation is what the real code produced. *)
Example c10_group_nonvacuous :
  c10_group_run
    (SL [SL [SB [97]%N; SB [98]%N]; SL [SZ 2; SZ 1]; SL [SZ 1; SZ 1; SZ 0; SZ 2; SZ 2; SZ 1; SZ 0; SZ 0; SZ 0; SZ 0; SZ 0]; SL [SL [SZ 0; SZ 0; SL [SZ 0; SZ 0; SZ 0]; SL [SZ 1; SZ 0; SZ 0]; SL [SZ 3; SZ 1; SZ 0]]; SL [SZ 0; SZ 1; SL [SZ 5; SZ 2; SZ 0]]; SL [SZ 1; SZ 0; SL [SZ 7; SZ 0; SZ 0]; SL [SZ 8; SZ 0; SZ 0]]]; SL [SL [SL [SL [SZ 0; SL [SZ 0; SZ 0; SL [SZ 4; SZ 1; SZ 0]; SL [SZ 5; SZ 1; SZ 0]]]; SL [SZ 1; SZ 6; SZ 1]; SL [SZ 3]; SL [SZ 1; SZ 1]; SL [SZ 2]; SL [SZ 3]]; SZ 0]; SL [SL [SL [SZ 1; SZ 0]]; SZ 1]; SL [SL []; SZ 0]]])
    (SL [SZ 0; SL [SL [SL [SL [SL [SB [98]%N; SZ 0; SZ 8; SZ 0]]; SL [SL [SB [97]%N; SZ 0; SZ 2; SZ 0]; SL [SB [98]%N; SZ 0; SZ 8; SZ 0]]; SL [SL [SB [97]%N; SZ 0; SZ 2; SZ 0]]; SL [SL [SB [97]%N; SZ 0; SZ 2; SZ 0]]]; SL [SL [SZ 0; SL [SZ 0; SZ 65536; SZ 196609; SZ 262145; SZ 327681; SZ 0; SZ 65536; SZ 196609; SZ 262145; SZ 327681; SZ 196609; SZ 262145; SZ 327681]]; SL [SZ 1; SL [SZ 327682; SZ 327682; SZ 327682]]; SL [SZ 65536; SL [SZ 458752; SZ 524288; SZ 458752; SZ 524288; SZ 458752; SZ 524288]]]; SL [SL [SB [97]%N; SZ 0; SZ 2; SZ 0]]]; SL [SL [SL [SL [SB [97]%N; SZ 0; SZ 4; SZ 1]]]; SL [SL [SZ 0; SL [SZ 196609; SZ 262145; SZ 327681]]; SL [SZ 1; SL [SZ 327682]]; SL [SZ 65536; SL [SZ 458752; SZ 524288]]]; SL [SL [SB [97]%N; SZ 0; SZ 2; SZ 0]]]; SL [SL []; SL [SL [SZ 0; SL [SZ 196609; SZ 262145; SZ 327681]]; SL [SZ 1; SL [SZ 327682]]; SL [SZ 65536; SL [SZ 458752; SZ 524288]]]; SL [SL [SB [97]%N; SZ 0; SZ 2; SZ 0]]]]]) = Agree.
Proof. vm_compute. reflexivity. Qed.

(* ======================= THE TOPICS LIST: index <-> name, and marks only for acknowledged records =======================
   Start keeps for every configured name its (last) position in config.Topics, the consumer packs that index into the
   source id, Commit reads config.Topics[index]. [index_of_topic] / [topic_of_index] are the two directions as
   functions of the CONFIGURED list. For every list — a name listed several times, any order, names that are prefixes
   of one another — the round trip gives the name back, without a panic, and the index is the last position of the
   name; a position of the list resolves to a configured name whose index resolves to that name again. *)
Theorem c10_topic_resolution_roundtrip :
  forall topics,
    (forall name, In name topics ->
       topic_of_index topics (index_of_topic topics name) = Ok name /\
       0 <= index_of_topic topics name < len topics /\
       (forall j, topic_of_index topics j = Ok name -> j <= index_of_topic topics name)) /\
    (forall i name, topic_of_index topics i = Ok name ->
       In name topics /\ topic_of_index topics (index_of_topic topics name) = Ok name) /\
    topics_resolve_b topics = true.
Proof. exact topic_resolution_roundtrip. Qed.
Print Assumptions c10_topic_resolution_roundtrip.

(* ... and it takes the SAME list at both ends: the in-place compaction of [a; a; b] leaves [a; b; b] in the slice,
   where the index Start took for a names b *)
Theorem c10_topic_resolution_needs_the_same_list :
  let a := [97]%N in let b := [98]%N in
  topic_of_index [a; b; b] (index_of_topic [a; a; b] a) = Ok b.
Proof. exact topic_resolution_needs_the_same_list. Qed.
Print Assumptions c10_topic_resolution_needs_the_same_list.

(* For every topics list and every choice ks of Commit calls among the consumed in-range records rs (any completion
   order, repetitions, any subset): no Commit panics, and after EACH call every head kgo holds is (offset + 1, epoch) of
   a record acknowledged BY THEN, under that record's own topic name and partition — the executable predicate of
   sub-models 2 and 4 (acked_marks_pred) holds of the model's trace. A mark for (topic, partition, offset + 1, epoch)
   exists only for an acknowledged record of exactly that topic and partition. *)
Theorem c10_model_trace_marks_only_acked :
  forall topics rs ks cs,
    len topics <= 2 ^ 48 -> Forall (rec_in_range topics) rs ->
    pick rs ks = Some cs ->
    exists tr, commit_trace topics [] (map (event_of topics) cs) = (tr, 0) /\ length tr = length ks /\
               acks_pred (snaps_of [] cs) tr = true /\
               acked_marks_pred topics rs ks tr = true /\
               forall m k h, In m tr -> In (k, h) m -> exists r, In r cs /\ key_of r = k /\ h = head_of r.
Proof. exact model_trace_marks_only_acked. Qed.
Print Assumptions c10_model_trace_marks_only_acked.

(* The same clause for the consumer group (sub-model 5), as an invariant of the three maps of Model/KafkaGroup.v —
   B what Kafka holds, M kgo's heads, C what the member knows to be committed — under every operation the model applies:
   it holds at the start; a member that joins (Start, eager rebalance) keeps it; Commit of the event of an in-range
   record does not panic and keeps it with that record acknowledged; the commit tick / Stop keeps it. Under it every
   head MarkedOffsets shows (the heads of M that differ from C) and every offset Kafka holds passes the harness' test
   against the acknowledged records, and every offset in Kafka is offset + 1 with the epoch of an acknowledged record
   of that topic and partition. *)
Theorem c10_group_marks_only_acked :
  ginv [] [] [] [] /\
  (forall c acked B M C, ginv acked B M C -> ginv acked B (map (fetched_head c) B) (map (fetched_head c) B)) /\
  (forall topics acked B M C r,
     len topics <= 2 ^ 48 -> rec_in_range topics r -> ginv acked B M C ->
     exists M', commit topics M (event_of topics r) = Ok M' /\ ginv (r :: acked) B M' C) /\
  (forall acked B M C, ginv acked B M C -> ginv acked (fst (tick_marks M (B, C))) M (snd (tick_marks M (B, C)))) /\
  (forall acked B M C, ginv acked B M C ->
     forallb (head_of_some_record acked) (filter (live C) M) = true /\
     forallb (head_of_some_record acked) B = true /\
     (forall k h, In (k, h) B -> exists r, In r acked /\ key_of r = k /\ h = head_of r)).
Proof. exact group_marks_only_acked. Qed.
Print Assumptions c10_group_marks_only_acked.

(* non-vacuity of the topics-list clause on the real plugin: topics [a; a; b] (a listed twice, b behind the repeat), one
   partition each, a/0 holds offset 5 (epoch 2), b/0 offset 20 (epoch 9); lifetime 1 acknowledges both and ticks, Stop;
   lifetime 2 finds nothing left. First observation: what the real plugin produced (a/0 -> 6, b/0 -> 21): Agree.
   Second observation: what a plugin produced whose NewClient compacted config.Topics in place (the acknowledgement of
   a/0 offset 5 lands on b/0 as offset 6, a partition whose offset 5 was never consumed): the predicate rejects it. *)
Example c10_group_topics_nonvacuous :
  let case := SL [SL [SB [97]%N; SB [97]%N; SB [98]%N]; SL [SZ 1; SZ 1; SZ 1]; SL [SZ 1; SZ 0; SZ 0; SZ 256; SZ 5; SZ 1; SZ 0; SZ 0; SZ 0; SZ 0; SZ 0]; SL [SL [SZ 0; SZ 0; SL [SZ 5; SZ 2; SZ 0]]; SL [SZ 2; SZ 0; SL [SZ 20; SZ 9; SZ 0]]]; SL [SL [SL [SL [SZ 1; SZ 0; SZ 1]; SL [SZ 2]]; SZ 0]; SL [SL []; SZ 0]]] in
  c10_group_run case (SL [SZ 0; SL [SL [SL [SL [SL [SB [97]%N; SZ 0; SZ 6; SZ 2]]; SL [SL [SB [97]%N; SZ 0; SZ 6; SZ 2]; SL [SB [98]%N; SZ 0; SZ 21; SZ 9]]; SL [SL [SB [97]%N; SZ 0; SZ 6; SZ 2]; SL [SB [98]%N; SZ 0; SZ 21; SZ 9]]]; SL [SL [SZ 65536; SL [SZ 327682]]; SL [SZ 131072; SL [SZ 1310729]]]; SL [SL [SB [97]%N; SZ 0; SZ 6; SZ 2]; SL [SB [98]%N; SZ 0; SZ 21; SZ 9]]]; SL [SL []; SL []; SL [SL [SB [97]%N; SZ 0; SZ 6; SZ 2]; SL [SB [98]%N; SZ 0; SZ 21; SZ 9]]]]]) = Agree /\
  match c10_group_run case (SL [SZ 0; SL [SL [SL [SL [SL [SB [98]%N; SZ 0; SZ 6; SZ 2]]; SL [SL [SB [98]%N; SZ 0; SZ 21; SZ 9]]; SL [SL [SB [98]%N; SZ 0; SZ 21; SZ 9]]]; SL [SL [SZ 65536; SL [SZ 327682]]; SL [SZ 131072; SL [SZ 1310729]]]; SL [SL [SB [98]%N; SZ 0; SZ 21; SZ 9]]]; SL [SL []; SL [SL [SZ 65536; SL [SZ 327682]]]; SL [SL [SB [98]%N; SZ 0; SZ 21; SZ 9]]]]]) with Violates _ => True | _ => False end.
Proof. vm_compute. split; [reflexivity | exact I]. Qed.

(* ======================= FRONTIER CLAUSE — PLACEHOLDER, NOT CLAIMED HERE ======================
   "... and never passes a record of that partition that has been neither acknowledged by the
   output nor deliberately dropped."
   Nothing in this file states or implies that clause. It is a confirmed known finding of the
   current design: Start calls UseSpread() + DisableStreams() (gen_use_spread = true below), so the
   records of one partition are spread over all processors and Commit calls arrive in completion
   order; by c10_mark_at_most_one_past_consumed / c10_mark_is_one_past_max the mark then is
   1 + the LARGEST committed offset, whatever smaller offsets are still in flight (see the
   non-vacuity example: offset 10 committed while 5 is not yet). The clause is handled at pipeline
   level by the coordinator (frontier_refuted / frontier_safe_single_stream_partial of DESIGN.md
   §5 C10, known_findings.json); the theorems for it belong in a separate section here:
       c10_frontier_refuted, c10_frontier_safe_single_stream_partial   (to be added by the coordinator)
   ============================================================================================== *)
Theorem c10_spread_routing_is_on : gen_use_spread = true.
Proof. reflexivity. Qed.
Print Assumptions c10_spread_routing_is_on.

(* Frontier clause on pipeline traces, commit notifications outside the output path (monitor 18 of the pipeline-level
   cases, Model/C10Entry.v).  A record an action discards / collapses is FINISHED (label 4 33 with notify = 0, back = 1 puts
   it into `fin`), but a commit notification (label 4 38) for a record that was never handed to the output (no label 3 32
   for its (stream, seq)) is no evidence for earlier records: when the monitor accepts a trace, at every such notification
   every accepted record of the same source with a smaller offset is already finished. *)
Theorem c10_direct_commit_frontier :
  forall e r fin accepted key_of outs,
    is_k 4 38 e = true ->
    m_direct_frontier (e :: r) fin accepted key_of outs = true ->
    (mem_key (pa e, pb e) outs = true \/
     forall k, In k accepted -> fst k = pd e -> snd k < pc e -> mem_key k fin = true) /\
    m_direct_frontier r ((pd e, pc e) :: fin) accepted key_of outs = true.
Proof. exact direct_frontier_commit. Qed.
Print Assumptions c10_direct_commit_frontier.

(* monitor 18 asks no more than the frontier clause itself (monitor 8): whatever trace satisfies the per-source frontier
   for all notifications satisfies it for the notifications outside the output path *)
Theorem c10_direct_frontier_weaker_than_frontier :
  forall es fin accepted key_of outs,
    m_source_frontier es fin accepted key_of = true -> m_direct_frontier es fin accepted key_of outs = true.
Proof. exact direct_frontier_weaker. Qed.
Print Assumptions c10_direct_frontier_weaker_than_frontier.

(* non-vacuity: the values of kafka_test.go; two topics, a later offset committed before an
   earlier one of the same partition, a leader change; the ranges hold; and the epoch -1 note *)
Example c10_nonvacuous :
  let a := [97]%N in let b := [98]%N in
  let topics := [a; b] in
  let rs := [ {| k_topic := b; k_part := 3; k_off := 10; k_epoch := 2 |};
              {| k_topic := b; k_part := 3; k_off := 5;  k_epoch := 2 |};
              {| k_topic := a; k_part := 65535; k_off := 2 ^ 47 - 1; k_epoch := 65535 |};
              {| k_topic := b; k_part := 3; k_off := 11; k_epoch := 3 |} ] in
  disassemble_source_id (assemble_source_id 123456789 123) = (123456789, 123)
  /\ disassemble_offset (assemble_offset 237582035700 27) = (237582035701, 27)
  /\ forallb (rec_in_range_b topics) rs = true
  /\ commit_records topics [] (firstn 2 rs) = Ok [((b, 3), (11, 2))]
  /\ commit_records topics [] rs = Ok [((b, 3), (12, 3)); ((a, 65535), (2 ^ 47, 65535))]
  /\ disassemble_offset (assemble_offset 5 (-1)) = (5, 65535).
Proof. vm_compute. repeat split; reflexivity. Qed.
