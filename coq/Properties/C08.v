(* C08 — Batcher: bounded size, bounded staleness, in-order commit. Statements only; proofs in
   Proofs/Batcher.v.  Every theorem quantifies over every configuration [c] (with the hypotheses
   written in the statement) and every label sequence [ls] the LTS of Model/Batcher.v admits from
   [init c], i.e. over every interleaving of adders, heartbeat, workers and Stop.
   History variables are stored newest-first, hence the [rev]s. *)
From Verif Require Import Base.Sx Model.Batcher Model.BatcherGlue Model.BatcherAge Proofs.Batcher Proofs.BatcherStatus Proofs.BatcherAge Gen.BatcherGen.
From Coq Require Import List ZArith.
Import ListNotations.
Local Open Scope Z_scope.

(* the induction principle every theorem below instantiates: an invariant of [step] holds after any
   label sequence the batcher LTS admits, i.e. for every interleaving *)
Theorem c08_reachable_invariant :
  forall (c : cfg) (P : st -> Prop),
    (forall s l s', P s -> step c s l = Some s' -> P s') ->
    forall ls s s', P s -> run c s ls = Some s' -> P s'.
Proof. exact run_invariant. Qed.
Print Assumptions c08_reachable_invariant.

(* ---- 1. size bounds ------------------------------------------------------------------------ *)
(* not_size_ready c l := (maxCount c = 0 \/ |l| < maxCount c) /\ (maxBytes c = 0 \/ bytes_of l < maxBytes c)
   batch_ok c b       := b <> [] /\ (not_size_ready c b \/ exists b0 e, b = b0 ++ [e] /\ not_size_ready c b0)
   Negative limits are excluded: with maxCount c < 0 updateStatus reports every batch ready. *)
Theorem c08_batch_bounds :
  forall c ls s, 0 <= maxCount c -> 0 <= maxBytes c -> run c (init c) ls = Some s ->
    forall b, In b (sealed_hist s) ->
      b <> [] /\
      (not_size_ready c b \/ exists b0 e, b = b0 ++ [e] /\ not_size_ready c b0).
Proof. exact batch_bounds. Qed.
Print Assumptions c08_batch_bounds.

Theorem c08_batch_count_le :
  forall c ls s, 0 < maxCount c -> 0 <= maxBytes c -> run c (init c) ls = Some s ->
    forall b, In b (sealed_hist s) -> 0 < Z.of_nat (length b) <= maxCount c.
Proof. exact batch_bounds_count. Qed.
Print Assumptions c08_batch_count_le.

(* the byte limit is exceeded by at most the last event *)
Theorem c08_batch_bytes_lt_plus_last :
  forall c ls s, 0 <= maxCount c -> 0 < maxBytes c -> run c (init c) ls = Some s ->
    forall b, In b (sealed_hist s) ->
      bytes_of b < maxBytes c \/ exists b0 e, b = b0 ++ [e] /\ bytes_of b0 < maxBytes c.
Proof. exact batch_bounds_bytes. Qed.
Print Assumptions c08_batch_bytes_lt_plus_last.

(* ---- 2. commit sections are entered in formation order, each sequence number once ----------- *)
Theorem c08_commit_in_seq_order :
  forall c ls s, run c (init c) ls = Some s ->
    0 <= commitSeq s /\
    rev (commit_batches s) = map Z.of_nat (seq 0 (Z.to_nat (commitSeq s))).
Proof. exact commit_in_seq_order. Qed.
Print Assumptions c08_commit_in_seq_order.

Theorem c08_commit_each_once :
  forall c ls s, run c (init c) ls = Some s -> NoDup (commit_batches s).
Proof. exact commit_each_once. Qed.
Print Assumptions c08_commit_each_once.

(* ---- 3. a batch with an iterable event is committed only after its own OutFn returned ------- *)
Theorem c08_commit_after_own_send :
  forall c ls s, run c (init c) ls = Some s ->
    forall q evs, In q (commit_batches s) ->
      nth_error (rev (sealed_hist s)) (Z.to_nat q) = Some evs ->
      has_iter evs = true -> In q (sent_hist s).
Proof. exact commit_after_own_send. Qed.
Print Assumptions c08_commit_after_own_send.

(* the hypothesis of the previous theorem is never vacuous for a committed sequence number *)
Theorem c08_commit_batches_are_sealed :
  forall c ls s, run c (init c) ls = Some s ->
    forall q, In q (commit_batches s) -> exists evs, nth_error (rev (sealed_hist s)) (Z.to_nat q) = Some evs.
Proof. exact commit_batches_sealed. Qed.
Print Assumptions c08_commit_batches_are_sealed.

(* ---- 4. conservation on the input side ------------------------------------------------------ *)
(* cur_list s = the current batch (newest first), [] when there is none *)
Theorem c08_added_is_sealed_plus_current :
  forall c ls s, run c (init c) ls = Some s ->
    rev (added s) = concat (rev (sealed_hist s)) ++ rev (cur_list s).
Proof. exact added_is_sealed_plus_current. Qed.
Print Assumptions c08_added_is_sealed_plus_current.

(* ---- 5. conservation on the output side (no batch is ever emptied: plain OutFn, or no dead queue) *)
(* lo_seq s = commitSeq s, or commitSeq s - 1 while a batch is inside its commit section
   (see c08_lo_seq_cases): the number of batches whose commit section is over *)
Theorem c08_committed_shape :
  forall c ls s, (retriable c = false \/ deadq c = false) -> run c (init c) ls = Some s ->
    exists j,
      rev (committed s) =
        concat (firstn (Z.to_nat (lo_seq s)) (rev (sealed_hist s))) ++
        firstn j (nth (Z.to_nat (lo_seq s)) (rev (sealed_hist s)) []).
Proof. exact committed_shape_plain. Qed.
Print Assumptions c08_committed_shape.

Theorem c08_committed_prefix_of_added :
  forall c ls s, (retriable c = false \/ deadq c = false) -> run c (init c) ls = Some s ->
    exists rest, rev (added s) = rev (committed s) ++ rest.
Proof. exact committed_prefix_of_added. Qed.
Print Assumptions c08_committed_prefix_of_added.

Theorem c08_exactly_once_at_quiescence :
  forall c ls s, (retriable c = false \/ deadq c = false) -> run c (init c) ls = Some s ->
    flight s = [] -> cur_list s = [] -> rev (committed s) = rev (added s).
Proof. exact exactly_once_at_quiescence. Qed.
Print Assumptions c08_exactly_once_at_quiescence.

(* ---- 6. the batches in flight are exactly the interval [lo_seq, outSeq) ---------------------- *)
Theorem c08_lo_seq_cases :
  forall s,
    (committing_bat (flight s) = None /\ lo_seq s = commitSeq s) \/
    (exists b, committing_bat (flight s) = Some b /\ lo_seq s = commitSeq s - 1).
Proof. exact lo_seq_cases. Qed.
Print Assumptions c08_lo_seq_cases.

(* zrange lo n = [lo; lo+1; ...; lo+n-1];  cur_count s = 1 if a current batch exists, else 0 *)
Theorem c08_in_flight_is_interval :
  forall c ls s, run c (init c) ls = Some s ->
    0 <= lo_seq s <= outSeq s /\
    map bseq (flight s) = zrange (lo_seq s) (Z.to_nat (outSeq s - lo_seq s)) /\
    NoDup (map bseq (flight s)) /\
    free s + Z.of_nat (length (flight s)) + cur_count s = workers c.
Proof. exact in_flight_is_interval. Qed.
Print Assumptions c08_in_flight_is_interval.

(* the batch every waiting worker waits for exists and is not yet in its commit section *)
Theorem c08_no_commit_deadlock :
  forall c ls s, run c (init c) ls = Some s -> commitSeq s < outSeq s ->
    exists b, find_bat (flight s) (commitSeq s) = Some b /\ In b (flight s) /\ committing b = false.
Proof. exact no_commit_deadlock. Qed.
Print Assumptions c08_no_commit_deadlock.

(* ---- 7. Stop never panics -------------------------------------------------------------------- *)
(* [batcher_atomic_push] is regenerated from the Go AST on every run: this theorem stops compiling
   when the channel send is moved back outside the critical section *)
Theorem c08_stop_never_panics :
  forall c ls s, atomic_push c = batcher_atomic_push -> run c (init c) ls = Some s -> crashed s = false.
Proof. exact stop_never_panics. Qed.
Print Assumptions c08_stop_never_panics.

(* the unrepaired code: Seal, Unlock, Stop closes the channel, send on the closed channel *)
Theorem c08_stop_panics_without_atomic_push_refuted :
  exists c ls s, atomic_push c = false /\ run c (init c) ls = Some s /\ crashed s = true.
Proof. exact stop_panics_without_atomic_push. Qed.
Print Assumptions c08_stop_panics_without_atomic_push_refuted.

Theorem c08_stop_no_unsent_commit :
  forall c ls s, run c (init c) ls = Some s -> stopped s = true ->
    forall q evs, In q (commit_batches s) ->
      nth_error (rev (sealed_hist s)) (Z.to_nat q) = Some evs ->
      has_iter evs = true -> In q (sent_hist s).
Proof. exact stop_no_unsent_commit. Qed.
Print Assumptions c08_stop_no_unsent_commit.

(* ---- 8. bounded staleness in ticks ----------------------------------------------------------- *)
(* a decision (Add or heartbeat tick) that sees a non-empty batch older than the flush timeout cannot
   answer NotReady: the batch is sealed by the first tick after its age exceeds the timeout *)
Theorem c08_idle_flush_decision :
  forall c s n b el tmo s', step c s (LNotReady n b el tmo) = Some s' -> n <> 0 -> el <= tmo.
Proof. exact idle_flush_decision. Qed.
Print Assumptions c08_idle_flush_decision.

(* ---- the status a worker reads back from commitBatch --------------------------------------------------------------
   work() switches on it: MaxSizeExceeded (1), TimeoutExceeded (2), InDeadQueue (3), `default: logger.Panic("unreachable")`.
   In every reachable state the CommitEnd label carries 1, 2 or 3: the panic arm is never taken, whatever the interleaving *)
Theorem c08_commit_status_known :
  forall c ls s seq status s',
    run c (init c) ls = Some s -> step c s (LCommitEnd seq status) = Some s' ->
    status = 1 \/ status = 2 \/ status = 3.
Proof. exact commit_status_known. Qed.
Print Assumptions c08_commit_status_known.

(* every sealed batch in flight carries the status it was sealed with: by size (1) or by time-out (2) *)
Theorem c08_in_flight_status :
  forall c ls s b, run c (init c) ls = Some s -> In b (flight s) -> bstatus b = 1 \/ bstatus b = 2.
Proof. intros c ls s b H. exact (inv_status_reach c ls s H b). Qed.
Print Assumptions c08_in_flight_status.

(* ---- 9. bounded staleness with the clock: the age of the OLDEST event bounds the time to seal ---------------------
   Timed layer Model/BatcherAge.v: every label carries the time at which the driver logged it; the model keeps
   born = time of the FIRST Add into the empty current batch (never moved by a later Add, a tick or a NotReady decision,
   whatever the sizes of the events), seen = time of the latest decision that left the non-empty batch in place.  Guards:
   G1 NotReady on a non-empty batch at t: t - born <= flushT + lag;  G2 a decision on a non-empty batch at t: t - seen <=
   period + lag;  G3 OutBegin at t: t - (its Seal) <= lag.  tstep c tc s t l = the untimed step + these guards; trun = its
   iteration over a list of (time, label).  Every clocked trace of the real Batcher is replayed through it (Differ when
   refused) and the raw monitor M6 m_handoff measures Add -> OutBegin for every event (Violates). *)

(* a timed run is a run of the LTS: all the theorems above hold of its base state *)
Theorem c08_timed_run_is_a_run :
  forall c tc tls s s', trun c tc s tls = Some s' -> run c (base s) (map snd tls) = Some (base s').
Proof. exact trun_is_run. Qed.
Print Assumptions c08_timed_run_is_a_run.

(* "batch start" is the first Add into the empty batch: in every reachable timed state the timed batch mirrors the LTS's
   current batch; its clock is off exactly when that batch is empty; otherwise born is the add time of its OLDEST event
   (last element of the newest-first list) and no event of the batch is older *)
Theorem c08_batch_start_is_first_add :
  forall c tc tls s, 0 <= flushT tc + lag tc -> 0 <= lag tc -> trun c tc (tinit c) tls = Some s ->
    map fst (tcur s) = cur_list (base s) /\
    (cur_list (base s) = [] -> born s = None) /\
    (cur_list (base s) <> [] ->
       exists a e l0, born s = Some a /\ tcur s = l0 ++ [(e, a)] /\ forall p, In p (tcur s) -> a <= snd p <= tnow s).
Proof. exact batch_start_is_first_add. Qed.
Print Assumptions c08_batch_start_is_first_add.

(* the model's own measure of the age (not the elapsed value the code reports) decides NotReady *)
Theorem c08_not_ready_means_oldest_event_young :
  forall c tc s t n b el tmo s' a,
    tstep c tc s t (LNotReady n b el tmo) = Some s' -> born s = Some a -> t - a <= flushT tc + lag tc.
Proof. exact not_ready_means_young. Qed.
Print Assumptions c08_not_ready_means_oldest_event_young.

(* tsealed s = (seq, seal time, [(event, its add time) ...]) of every sealed batch: EVERY event of EVERY sealed batch was
   added at most flush time-out + heartbeat period + 2 lag before the Seal, for every arrival pattern and all sizes *)
Theorem c08_oldest_age_bounds_seal :
  forall c tc tls s, 0 <= flushT tc + lag tc -> 0 <= lag tc -> trun c tc (tinit c) tls = Some s ->
    forall q z tevs e a, In (q, z, tevs) (tsealed s) -> In (e, a) tevs ->
      0 <= z - a <= flushT tc + period tc + 2 * lag tc.
Proof. exact oldest_age_bounds_seal. Qed.
Print Assumptions c08_oldest_age_bounds_seal.

(* thanded s = (seq, time of OutBegin, events with add times): what a worker hands to OutFn is a sealed batch, and every
   event in it was added at most flush time-out + heartbeat period + 3 lag before *)
Theorem c08_oldest_age_bounds_handoff :
  forall c tc tls s, 0 <= flushT tc + lag tc -> 0 <= lag tc -> trun c tc (tinit c) tls = Some s ->
    forall q h tevs, In (q, h, tevs) (thanded s) ->
      (exists z, In (q, z, tevs) (tsealed s)) /\
      forall e a, In (e, a) tevs -> 0 <= h - a <= flushT tc + period tc + 3 * lag tc.
Proof. exact oldest_age_bounds_handoff. Qed.
Print Assumptions c08_oldest_age_bounds_handoff.

(* the timed records are exactly the sealed batches of the LTS (sealed_hist), in the same order *)
Theorem c08_timed_sealed_are_the_sealed_batches :
  forall c tc tls s, trun c tc (tinit c) tls = Some s ->
    map (fun r : trec => rev (map fst (snd r))) (tsealed s) = sealed_hist (base s).
Proof. exact tsealed_are_the_sealed_batches. Qed.
Print Assumptions c08_timed_sealed_are_the_sealed_batches.

(* ---- non-vacuity ----------------------------------------------------------------------------- *)
Definition nv_cfg : cfg :=
  {| workers := 2; maxCount := 1; maxBytes := 0; retriable := false; retry := 0; deadq := false;
     atomic_push := batcher_atomic_push |}.
Definition nv_e1 : ev := {| eid := 1; esrc := 0; esize := 5; ekind := 0 |}.
Definition nv_e2 : ev := {| eid := 2; esrc := 0; esize := 7; ekind := 0 |}.
(* two workers, two batches; OutFn of batch 1 returns before OutFn of batch 0 *)
Definition nv_prefix : list label :=
  [LFree; LAdd nv_e1; LSeal 0 1 1 5; LPush 0; LFree; LAdd nv_e2; LSeal 1 1 1 7; LPush 1;
   LTake 0; LTake 1; LOutBegin 0 1; LOutBegin 1 1; LOutSaw 1 [2]; LOutEnd 1 1 1].
Definition nv_rest : list label :=
  [LOutSaw 0 [1]; LOutEnd 0 1 1; LCommitBegin 0 1; LCommitEv nv_e1; LCommitEnd 0 1;
   LCommitBegin 1 1; LCommitEv nv_e2; LCommitEnd 1 1; LStop].

Example c08_nonvacuous :
  (* batch 1 is sent but must wait: its commit section is not enabled *)
  run nv_cfg (init nv_cfg) (nv_prefix ++ [LCommitBegin 1 1]) = None /\
  exists s, run nv_cfg (init nv_cfg) (nv_prefix ++ nv_rest) = Some s /\
            rev (sent_hist s) = [1; 0] /\ rev (commit_batches s) = [0; 1] /\
            rev (committed s) = [nv_e1; nv_e2] /\ rev (added s) = [nv_e1; nv_e2] /\
            flight s = [] /\ free s = 2 /\ crashed s = false.
Proof. split; [vm_compute; reflexivity|]. eexists. vm_compute. repeat split; reflexivity. Qed.

(* three zero-size children 30 ms apart (time-out 150 ms, lag 1 ms): sealed by the tick at 200 ms, handed over 100 us later;
   the regression's trace - an Add at 150 ms restarted the code's timer, the code answers NotReady at 200 ms with a small
   elapsed value - is a run of the untimed LTS and is refused by the timed layer *)
Example c08_age_nonvacuous :
  (exists s, trun age_cfg age_tc (tinit age_cfg) age_good = Some s /\
             tsealed s = [(0, 200001, [(age_e 3, 60010); (age_e 2, 30010); (age_e 1, 10)])] /\
             thanded s = [(0, 200101, [(age_e 3, 60010); (age_e 2, 30010); (age_e 1, 10)])] /\ born s = None) /\
  (exists s, run age_cfg (init age_cfg) (map snd age_bad) = Some s) /\
  trun age_cfg age_tc (tinit age_cfg) age_bad = None.
Proof. exact age_nonvacuous. Qed.
