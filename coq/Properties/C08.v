(* C08 — Batcher: bounded size, bounded staleness, in-order commit. Statements only. *)
From Verif Require Import Base.Sx Model.Batcher Proofs.Batcher Gen.BatcherGen.

(* the induction principle every theorem below instantiates: an invariant of [step] holds after any
   label sequence the batcher LTS admits, i.e. for every interleaving *)
Theorem c08_reachable_invariant :
  forall (c : cfg) (P : st -> Prop),
    (forall s l s', P s -> step c s l = Some s' -> P s') ->
    forall ls s s', P s -> run c s ls = Some s' -> P s'.
Proof. exact run_invariant. Qed.
Print Assumptions c08_reachable_invariant.
