(* Proofs about Model/Pipe.v, the product of the batcher and the per-stream flows.
   1. projections: a product run IS a batcher run and, for every stream, a flow run;
   2. the linking invariant: per stream, (ordered events added to the batcher) = committed ++ added-queue
      of the flow, (ordered events committed by the batcher) = commits of the flow;
   3. F2 is redundant: a commit the batcher allows is never refused by the flow (from
      committed_prefix_of_added);
   4. end to end, for every run of the product: per-stream commits strictly increasing, each event
      once; at every commit the event's batch was acknowledged by the output and every older event
      of the stream is committed or was dropped by an action. *)
From Verif Require Import Base.Sx Model.Batcher Model.Proc Model.StreamFlow Model.Pipe
  Proofs.Batcher Proofs.Proc Proofs.StreamFlow.
From Coq Require Import Lia ZifyBool Bool List ZArith Sorted Permutation.
Import ListNotations.
Local Open Scope Z_scope.

(* ------------------------------------------------------------------------------------------- *)
(* the association list of flows                                                                 *)

Lemma gget_gset l s v s' : gget (gset l s v) s' = if s' =? s then Some v else gget l s'.
Proof.
  induction l as [|[k w] r IH]; cbn [gset gget].
  - destruct (Z.eqb_spec s s'); destruct (Z.eqb_spec s' s); try lia; reflexivity.
  - destruct (Z.eqb_spec k s) as [->|Hks]; cbn [gget].
    + destruct (Z.eqb_spec s s'); destruct (Z.eqb_spec s' s); try lia; reflexivity.
    + destruct (Z.eqb_spec k s') as [->|Hks'].
      * destruct (Z.eqb_spec s' s); [lia|reflexivity].
      * exact IH.
Qed.

Lemma gflow_set n b fs s v s' :
  gflow n {| gb := b; gf := gset fs s v |} s' = if s' =? s then v else gflow n {| gb := b; gf := fs |} s'.
Proof. unfold gflow; cbn [gf]. rewrite gget_gset. destruct (s' =? s); reflexivity. Qed.

Lemma gflow_gb n b b' fs s : gflow n {| gb := b; gf := fs |} s = gflow n {| gb := b'; gf := fs |} s.
Proof. reflexivity. Qed.

Lemma gflow_eta n g s : gflow n g s = gflow n {| gb := gb g; gf := gf g |} s.
Proof. reflexivity. Qed.

(* ------------------------------------------------------------------------------------------- *)
(* generic                                                                                       *)

Lemma grun_invariant c n (P : gst -> Prop) :
  (forall g l g', P g -> gstep c n g l = Some g' -> P g') ->
  forall ls g g', P g -> grun c n g ls = Some g' -> P g'.
Proof.
  intros Hstep ls. induction ls as [|l r IH]; intros g g' Hg Hr; cbn [grun] in Hr.
  - inversion Hr; subst; exact Hg.
  - destruct (gstep c n g l) as [g1|] eqn:E; [|discriminate]. eapply IH; [eapply Hstep; eauto|exact Hr].
Qed.

Lemma grun_app c n g a b : grun c n g (a ++ b) = match grun c n g a with Some g' => grun c n g' b | None => None end.
Proof.
  revert g; induction a as [|l r IH]; intros g; cbn [grun app]; [reflexivity|].
  destruct (gstep c n g l); [apply IH|reflexivity].
Qed.

(* what a product step is, component by component *)
Lemma gstep_GP c n g s pl g' : gstep c n g (GP s pl) = Some g' ->
  exists f', fstep (gflow n g s) (FProc pl) = Some f' /\ g' = {| gb := gb g; gf := gset (gf g) s f' |}.
Proof.
  cbn [gstep]. destruct (fstep (gflow n g s) (FProc pl)) as [f'|]; [|discriminate].
  intros H; inversion H; subst. exists f'. split; reflexivity.
Qed.

Lemma gstep_GB c n g bl g' : gstep c n g (GB bl) = Some g' ->
  step c (gb g) bl = Some (gb g') /\
  match bl with
  | LAdd e => exists f', fstep (gflow n g (esrc e)) (FAdd (pev_of e)) = Some f' /\ gf g' = gset (gf g) (esrc e) f'
  | LCommitEv e =>
      if Model.StreamFlow.ordered (pev_of e)
      then exists f', fstep (gflow n g (esrc e)) (FCommit (pev_of e)) = Some f' /\ gf g' = gset (gf g) (esrc e) f'
      else gf g' = gf g
  | _ => gf g' = gf g
  end.
Proof.
  cbn [gstep]. destruct (step c (gb g) bl) as [b'|]; [|discriminate].
  destruct bl; try (intros H; inversion H; subst; cbn [gb gf]; split; reflexivity).
  - destruct (fstep (gflow n g (esrc e)) (FAdd (pev_of e))) as [f'|]; [|discriminate].
    intros H; inversion H; subst; cbn [gb gf]. split; [reflexivity|]. exists f'. split; reflexivity.
  - destruct (Model.StreamFlow.ordered (pev_of e)).
    + destruct (fstep (gflow n g (esrc e)) (FCommit (pev_of e))) as [f'|]; [|discriminate].
      intros H; inversion H; subst; cbn [gb gf]. split; [reflexivity|]. exists f'. split; reflexivity.
    + intros H; inversion H; subst; cbn [gb gf]. split; reflexivity.
Qed.

(* ------------------------------------------------------------------------------------------- *)
(* 1. projections                                                                                *)

Fixpoint bproj (ls : list glabel) : list label :=
  match ls with
  | [] => []
  | GB l :: r => l :: bproj r
  | GP _ _ :: r => bproj r
  end.

(* the labels stream s sees *)
Definition slabels (s : Z) (l : glabel) : list flabel :=
  match l with
  | GP s' pl => if s' =? s then [FProc pl] else []
  | GB (LAdd e) => if esrc e =? s then [FAdd (pev_of e)] else []
  | GB (LCommitEv e) => if (esrc e =? s) && Model.StreamFlow.ordered (pev_of e) then [FCommit (pev_of e)] else []
  | GB _ => []
  end.
Definition sproj (s : Z) (ls : list glabel) : list flabel := flat_map (slabels s) ls.

Lemma bproj_app a b : bproj (a ++ b) = bproj a ++ bproj b.
Proof. induction a as [|l r IH]; cbn [bproj app]; [reflexivity|]. destruct l; cbn [app]; rewrite IH; reflexivity. Qed.

Lemma sproj_app s a b : sproj s (a ++ b) = sproj s a ++ sproj s b.
Proof. unfold sproj. apply flat_map_app. Qed.

Lemma run_app c s a b : run c s (a ++ b) = match run c s a with Some s' => run c s' b | None => None end.
Proof.
  revert s; induction a as [|l r IH]; intros s; cbn [run app]; [reflexivity|].
  destruct (step c s l); [apply IH|reflexivity].
Qed.

Lemma pipe_proj_batcher_from c n ls : forall g g', grun c n g ls = Some g' -> run c (gb g) (bproj ls) = Some (gb g').
Proof.
  induction ls as [|l r IH]; intros g g' Hr; cbn [grun] in Hr.
  - inversion Hr; subst. reflexivity.
  - destruct (gstep c n g l) as [g1|] eqn:E; [|discriminate]. destruct l as [bl|s pl]; cbn [bproj run].
    + apply gstep_GB in E as [Hs _]. rewrite Hs. exact (IH _ _ Hr).
    + apply gstep_GP in E as [f' [_ ->]]. exact (IH _ _ Hr).
Qed.

Theorem pipe_proj_batcher c n ls g : grun c n (ginit c) ls = Some g -> run c (init c) (bproj ls) = Some (gb g).
Proof. intros H. exact (pipe_proj_batcher_from c n ls _ _ H). Qed.

(* one product step, seen by stream s *)
Lemma gstep_flow c n g l g' s : gstep c n g l = Some g' -> frun (gflow n g s) (slabels s l) = Some (gflow n g' s).
Proof.
  intros H. destruct l as [bl|s' pl].
  - pose proof (gstep_GB _ _ _ _ _ H) as [_ Hf]. destruct g' as [b' fs']. cbn [gf] in Hf.
    destruct bl; cbn [slabels frun]; try (rewrite Hf; reflexivity).
    + destruct Hf as [f' [Hf ->]]. rewrite gflow_set. destruct (Z.eqb_spec (esrc e) s) as [<-|Hne].
      * rewrite Z.eqb_refl. cbn [frun]. rewrite Hf. reflexivity.
      * destruct (Z.eqb_spec s (esrc e)); [lia|]. reflexivity.
    + destruct (Model.StreamFlow.ordered (pev_of e)) eqn:Ho.
      * destruct Hf as [f' [Hf ->]]. rewrite gflow_set. destruct (Z.eqb_spec (esrc e) s) as [<-|Hne]; cbn [andb].
        -- rewrite Z.eqb_refl. cbn [frun]. rewrite Hf. reflexivity.
        -- destruct (Z.eqb_spec s (esrc e)); [lia|]. reflexivity.
      * rewrite andb_false_r. cbn [frun]. rewrite Hf. reflexivity.
  - apply gstep_GP in H as [f' [Hf ->]]. cbn [slabels]. rewrite gflow_set.
    destruct (Z.eqb_spec s' s) as [->|Hne].
    + rewrite Z.eqb_refl. cbn [frun]. rewrite Hf. reflexivity.
    + destruct (Z.eqb_spec s s'); [lia|]. reflexivity.
Qed.

Lemma pipe_proj_flow_from c n s ls : forall g g', grun c n g ls = Some g' -> frun (gflow n g s) (sproj s ls) = Some (gflow n g' s).
Proof.
  induction ls as [|l r IH]; intros g g' Hr; cbn [grun] in Hr.
  - inversion Hr; subst. reflexivity.
  - destruct (gstep c n g l) as [g1|] eqn:E; [|discriminate].
    change (sproj s (l :: r)) with (slabels s l ++ sproj s r). rewrite frun_app.
    rewrite (gstep_flow _ _ _ _ _ s E). exact (IH _ _ Hr).
Qed.

Theorem pipe_proj_flow c n ls g s : grun c n (ginit c) ls = Some g -> frun (finit n false) (sproj s ls) = Some (gflow n g s).
Proof. intros H. exact (pipe_proj_flow_from c n s ls _ _ H). Qed.

(* ------------------------------------------------------------------------------------------- *)
(* 2. the linking invariant                                                                      *)

Definition of_stream (s : Z) (e : Model.Batcher.ev) : bool := (esrc e =? s) && Model.StreamFlow.ordered (pev_of e).
Definition sel (s : Z) (l : list Model.Batcher.ev) : list Z := map eid (filter (of_stream s) l).

Lemma sel_app s a b : sel s (a ++ b) = sel s a ++ sel s b.
Proof. unfold sel. rewrite filter_app, map_app. reflexivity. Qed.

Definition link (n : Z) (g : gst) : Prop :=
  forall s,
    sync_out (gflow n g s) = false /\
    sel s (rev (added (gb g))) = map pseq (rev (commits (gflow n g s)) ++ addq (gflow n g s)) /\
    sel s (rev (committed (gb g))) = map pseq (rev (commits (gflow n g s))).

(* the history variables of the batcher move only on Add and Commit *)
Lemma step_histories c b l b' : step c b l = Some b' ->
  added b' = match l with LAdd e => e :: added b | _ => added b end /\
  committed b' = match l with LCommitEv e => e :: committed b | _ => committed b end.
Proof.
  intros H. destruct l; step_inv H; split; reflexivity.
Qed.

Lemma fstep_FProc_queues f pl f' : fstep f (FProc pl) = Some f' ->
  addq f' = addq f /\ commits f' = commits f /\ sync_out f' = sync_out f.
Proof.
  cbn [fstep]. destruct (pstep (proc f) pl); [|discriminate]. intros H; inversion H; subst; cbn. auto.
Qed.

Lemma fstep_FAdd f e f' : sync_out f = false -> fstep f (FAdd e) = Some f' ->
  sync_out f' = false /\ commits f' = commits f /\
  if Model.StreamFlow.ordered e then exists x, addq f' = addq f ++ [x] /\ pseq x = pseq e else addq f' = addq f.
Proof.
  intros Hs. cbn [fstep]. destruct (Model.StreamFlow.ordered e); cbn [negb].
  - rewrite Hs. destruct (outq f) as [|x r]; [discriminate|]. destruct (Z.eqb_spec (pseq x) (pseq e)); [|discriminate].
    intros H; inversion H; subst; cbn. split; [reflexivity|]. split; [reflexivity|]. exists x. split; [reflexivity|assumption].
  - intros H; inversion H; subst. auto.
Qed.

Lemma fstep_FCommit f e f' : sync_out f = false -> fstep f (FCommit e) = Some f' ->
  sync_out f' = false /\ exists x r, addq f = x :: r /\ pseq x = pseq e /\ addq f' = r /\ commits f' = x :: commits f.
Proof.
  intros Hs. cbn [fstep]. rewrite Hs. destruct (addq f) as [|x r]; [discriminate|].
  destruct (Z.eqb_spec (pseq x) (pseq e)); [|discriminate].
  intros H; inversion H; subst; cbn. split; [reflexivity|]. exists x, r. auto.
Qed.

Lemma fstep_FCommit_enabled f e x r : sync_out f = false -> addq f = x :: r -> pseq x = pseq e ->
  exists f', fstep f (FCommit e) = Some f'.
Proof.
  intros Hs Ha Hx. cbn [fstep]. rewrite Hs, Ha. destruct (Z.eqb_spec (pseq x) (pseq e)); [|contradiction].
  eexists; reflexivity.
Qed.

Lemma link_init c n : link n (ginit c).
Proof. intros s. unfold gflow; cbn. auto. Qed.

Lemma sel_snoc s l e : sel s (l ++ [e]) = sel s l ++ (if of_stream s e then [eid e] else []).
Proof. rewrite sel_app. unfold sel at 2. cbn [filter]. destruct (of_stream s e); reflexivity. Qed.

Lemma link_step c n g l g' : link n g -> gstep c n g l = Some g' -> link n g'.
Proof.
  intros L H s. destruct (L s) as [Ls [La Lc]]. destruct l as [bl|s' pl].
  - pose proof (gstep_GB _ _ _ _ _ H) as [Hb Hf]. pose proof (step_histories _ _ _ _ Hb) as [Had Hcm].
    destruct g' as [b' fs']. cbn [gb gf] in *.
    destruct bl; try (rewrite Had, Hcm; rewrite Hf; split; [exact Ls|split; [exact La|exact Lc]]).
    + (* Add *)
      destruct Hf as [f' [Hf ->]]. rewrite gflow_set, Had, Hcm. cbn [rev]. rewrite sel_snoc.
      destruct (L (esrc e)) as [Ls' _]. pose proof (fstep_FAdd _ _ _ Ls' Hf) as [Hs' [Hc' Hq']].
      unfold of_stream. destruct (Z.eqb_spec s (esrc e)) as [->|Hne].
      * rewrite Z.eqb_refl. cbn [andb]. rewrite Hc'. split; [exact Hs'|]. split; [|exact Lc].
        destruct (Model.StreamFlow.ordered (pev_of e)).
        -- destruct Hq' as [x [-> Hx]]. rewrite La, app_assoc, !map_app. cbn [map]. rewrite Hx. reflexivity.
        -- rewrite Hq', app_nil_r. exact La.
      * destruct (Z.eqb_spec (esrc e) s); [lia|]. cbn [andb]. rewrite app_nil_r.
        split; [exact Ls|split; [exact La|exact Lc]].
    + (* Commit *)
      rewrite Had, Hcm. cbn [rev]. rewrite sel_snoc. unfold of_stream.
      destruct (Model.StreamFlow.ordered (pev_of e)) eqn:Ho.
      * destruct Hf as [f' [Hf ->]]. rewrite gflow_set.
        destruct (L (esrc e)) as [Ls' [La' Lc']]. pose proof (fstep_FCommit _ _ _ Ls' Hf) as [Hs' [x [r [Hq [Hx [Hq' Hc']]]]]].
        destruct (Z.eqb_spec s (esrc e)) as [->|Hne].
        -- rewrite Z.eqb_refl. cbn [andb]. split; [exact Hs'|]. rewrite Hc', Hq'. cbn [rev]. split.
           ++ rewrite La', Hq, <- app_assoc. reflexivity.
           ++ rewrite Lc', map_app. cbn [map]. rewrite Hx. reflexivity.
        -- destruct (Z.eqb_spec (esrc e) s); [lia|]. cbn [andb]. rewrite app_nil_r.
           split; [exact Ls|split; [exact La|exact Lc]].
      * rewrite andb_false_r, app_nil_r, Hf. split; [exact Ls|split; [exact La|exact Lc]].
  - apply gstep_GP in H as [f' [Hf ->]]. cbn [gb]. rewrite gflow_set.
    destruct (Z.eqb_spec s s') as [->|Hne]; [|split; [exact Ls|split; [exact La|exact Lc]]].
    apply fstep_FProc_queues in Hf as [Hq [Hc Hs]]. rewrite Hq, Hc, Hs. split; [exact Ls|split; [exact La|exact Lc]].
Qed.

Theorem pipe_link c n ls g : grun c n (ginit c) ls = Some g -> link n g.
Proof. intros H. exact (grun_invariant c n (link n) (link_step c n) ls _ _ (link_init c n) H). Qed.

(* ------------------------------------------------------------------------------------------- *)
(* 3. F2 is redundant                                                                             *)

Lemma app_prefix_head (a : list Z) x b rest : a ++ [x] ++ rest = a ++ b -> exists r, b = x :: r.
Proof. intros H. apply app_inv_head in H. destruct b as [|y r]; [discriminate|]. inversion H; subst. eexists; reflexivity. Qed.

Theorem pipe_F2_redundant c n ls g e b' :
  (retriable c = false \/ deadq c = false) ->
  grun c n (ginit c) ls = Some g ->
  step c (gb g) (LCommitEv e) = Some b' ->
  exists g', gstep c n g (GB (LCommitEv e)) = Some g'.
Proof.
  intros Hcfg Hrun Hstep. cbn [gstep]. rewrite Hstep.
  destruct (Model.StreamFlow.ordered (pev_of e)) eqn:Ho; [|eexists; reflexivity].
  pose proof (pipe_link _ _ _ _ Hrun (esrc e)) as [Ls [La Lc]].
  (* the batcher after the commit is reachable: its committed list is a prefix of its added list *)
  pose proof (pipe_proj_batcher _ _ _ _ Hrun) as Hb.
  assert (Hb' : run c (init c) (bproj ls ++ [LCommitEv e]) = Some b').
  { rewrite run_app, Hb. cbn [run]. rewrite Hstep. reflexivity. }
  destruct (committed_prefix_of_added c _ _ Hcfg Hb') as [rest Hpre].
  pose proof (step_histories _ _ _ _ Hstep) as [Had Hcm]. cbn beta iota in Had, Hcm. rewrite Had, Hcm in Hpre. cbn [rev] in Hpre.
  apply (f_equal (sel (esrc e))) in Hpre. rewrite sel_app, sel_snoc in Hpre.
  unfold of_stream in Hpre. rewrite Z.eqb_refl, Ho in Hpre. cbn [andb] in Hpre.
  rewrite La, Lc, map_app, <- app_assoc in Hpre. symmetry in Hpre.
  apply app_prefix_head in Hpre as [r Hr].
  destruct (addq (gflow n g (esrc e))) as [|x q] eqn:Hq; [discriminate|]. cbn [map] in Hr. injection Hr as Hx _.
  destruct (fstep_FCommit_enabled (gflow n g (esrc e)) (pev_of e) x q Ls Hq) as [f' Hf]; [cbn [pev_of pseq]; exact Hx|].
  rewrite Hf. eexists; reflexivity.
Qed.

(* ------------------------------------------------------------------------------------------- *)
(* 4. end to end                                                                                  *)

(* C02: the commits of a stream carry strictly increasing sequence numbers, each event once *)
Theorem pipe_commits_increasing c n ls g s : grun c n (ginit c) ls = Some g ->
  StronglySorted Z.lt (map pseq (rev (commits (gflow n g s)))).
Proof. intros H. exact (commits_increasing n false _ _ (pipe_proj_flow c n ls g s H)). Qed.

Theorem pipe_commits_nodup c n ls g s : grun c n (ginit c) ls = Some g ->
  NoDup (map pseq (commits (gflow n g s))).
Proof. intros H. exact (commits_nodup n false _ _ (pipe_proj_flow c n ls g s H)). Qed.

(* ... and they are exactly what the batcher committed for that stream *)
Theorem pipe_commits_are_batcher_commits c n ls g s : grun c n (ginit c) ls = Some g ->
  map eid (filter (of_stream s) (rev (committed (gb g)))) = map pseq (rev (commits (gflow n g s))).
Proof. intros H. exact (proj2 (proj2 (pipe_link c n ls g H s))). Qed.

(* C01, acknowledgement: when the batcher commits an event, the event belongs to the batch inside
   its commit section, and if that batch has anything to deliver its OutFn has returned *)
Theorem pipe_commit_acked c n ls g e g' : grun c n (ginit c) ls = Some g ->
  gstep c n g (GB (LCommitEv e)) = Some g' ->
  exists b, committing_bat (flight (gb g)) = Some b /\ In e (bevs b) /\
            In (bseq b) (commit_batches (gb g)) /\
            (has_iter (bevs b) = true -> In (bseq b) (sent_hist (gb g))).
Proof.
  intros Hrun Hstep. apply gstep_GB in Hstep as [Hs _].
  pose proof (pipe_proj_batcher _ _ _ _ Hrun) as Hb.
  pose proof (wf_reach _ _ _ Hb) as Hwf.
  destruct (run_invariant_wf c inv_sent (inv_sent_step c) (inv_sent_init c) _ _ Hb) as [I1 _].
  unfold step in Hs. destruct (crashed (gb g)); [discriminate|].
  destruct (committing_bat (flight (gb g))) as [b|] eqn:Hcb; [|discriminate].
  destruct (bstage b) eqn:Hst; try discriminate.
  destruct (bemptied b); [discriminate|].
  destruct (nth_error (bevs b) done) as [e'|] eqn:Hn; [|discriminate].
  destruct (ev_eqb e e') eqn:He; [|discriminate]. apply ev_eqb_eq in He; subst e'.
  exists b. split; [reflexivity|]. split; [eapply nth_error_In; exact Hn|].
  apply committing_bat_Some in Hcb as [Hin Hcm]. split.
  - (* the batch entered its commit section: its seq was recorded *)
    pose proof (commit_in_seq_order c _ _ Hb) as [Hge Hrev].
    pose proof (wf_cmt _ _ Hwf b Hin Hcm) as Hlo. unfold lo_seq in Hlo.
    rewrite (existsb_committing_true _ _ Hin Hcm) in Hlo.
    pose proof (wf_lo _ _ Hwf) as Hlo0. unfold lo_seq in Hlo0. rewrite (existsb_committing_true _ _ Hin Hcm) in Hlo0.
    apply in_rev. rewrite Hrev. apply in_map_iff. exists (Z.to_nat (bseq b)). split; [lia|].
    apply in_seq. lia.
  - intros Hi. apply I1; [exact Hin|]. right. split; assumption.
Qed.

(* C01, frontier: when the batcher commits an (ordered) event of stream s, every event of s taken
   from the stream before it — smaller sequence number — is committed or was dropped by an action *)
Theorem pipe_frontier c n ls g e g' : grun c n (ginit c) ls = Some g ->
  gstep c n g (GB (LCommitEv e)) = Some g' -> Model.StreamFlow.ordered (pev_of e) = true ->
  let f' := gflow n g' (esrc e) in
  exists x, commits f' = x :: commits (gflow n g (esrc e)) /\ pseq x = eid e /\
    forall y, In y (ftaken (sproj (esrc e) ls)) -> pseq y < eid e ->
      In y (commits f') \/ In y (dropped (proc f')).
Proof.
  intros Hrun Hstep Ho f'. pose proof (pipe_proj_flow c n ls g (esrc e) Hrun) as Hf.
  pose proof (gstep_GB _ _ _ _ _ Hstep) as [_ Hg]. cbn beta iota in Hg. rewrite Ho in Hg. destruct Hg as [f1 [Hf1 Hgf]].
  assert (Hf' : f' = f1).
  { unfold f', gflow. rewrite Hgf, gget_gset, Z.eqb_refl. reflexivity. }
  destruct (frontier n false _ _ _ _ Hf Hf1) as [x [Hc [Hx Hall]]].
  exists x. rewrite Hf'. split; [exact Hc|]. split; [exact Hx|].
  intros y Hy Hlt. apply Hall; [exact Hy|]. rewrite Hx. exact Hlt.
Qed.

(* ... and none of them is still anywhere in the pipeline *)
Theorem pipe_frontier_not_pending c n ls g e g' : grun c n (ginit c) ls = Some g ->
  gstep c n g (GB (LCommitEv e)) = Some g' -> Model.StreamFlow.ordered (pev_of e) = true ->
  let f' := gflow n g' (esrc e) in
  forall y, In y (ftaken (sproj (esrc e) ls)) -> pseq y < eid e ->
    ~ In y (addq f' ++ outq f' ++ map snd (held (proc f')) ++ map fev (stack (proc f'))).
Proof.
  intros Hrun Hstep Ho f'. pose proof (pipe_proj_flow c n ls g (esrc e) Hrun) as Hf.
  pose proof (gstep_GB _ _ _ _ _ Hstep) as [_ Hg]. cbn beta iota in Hg. rewrite Ho in Hg. destruct Hg as [f1 [Hf1 Hgf]].
  assert (Hf' : f' = f1).
  { unfold f', gflow. rewrite Hgf, gget_gset, Z.eqb_refl. reflexivity. }
  destruct (frontier_not_pending n false _ _ _ _ Hf Hf1) as [x [Hc [Hx Hall]]].
  intros y Hy Hlt. rewrite Hf'. apply Hall; [exact Hy|]. rewrite Hx. exact Hlt.
Qed.

(* C02, conservation per stream *)
Theorem pipe_conservation c n ls g s : grun c n (ginit c) ls = Some g ->
  let f := gflow n g s in
  Permutation
    (filter ordered (commits f ++ addq f ++ outq f ++ dropped (proc f) ++ map snd (held (proc f)) ++ map fev (stack (proc f))))
    (ftaken (sproj s ls)) /\
  NoDup (ftaken (sproj s ls)).
Proof. intros H f. exact (fconservation_perm n false _ _ (pipe_proj_flow c n ls g s H)). Qed.

(* C02, quiescence: nothing in the processor, nothing waiting for the output, and the batcher has
   committed everything it was given — every taken event of the stream was committed once or dropped *)
Theorem pipe_quiescent c n ls g s : grun c n (ginit c) ls = Some g ->
  let f := gflow n g s in
  stack (proc f) = [] -> held (proc f) = [] -> outq f = [] ->
  rev (committed (gb g)) = rev (added (gb g)) ->
  Permutation (commits f ++ filter ordered (dropped (proc f))) (ftaken (sproj s ls)).
Proof.
  intros H f Hst Hh Ho Hb. pose proof (pipe_link c n ls g H s) as [_ [La Lc]]. fold f in La, Lc.
  assert (Hq : addq f = []).
  { rewrite Hb, La, map_app in Lc. destruct (addq f) as [|x r]; [reflexivity|].
    apply (f_equal (@length Z)) in Lc. rewrite app_length in Lc. cbn [map length] in Lc. lia. }
  exact (quiescent_all_accounted n false _ _ (pipe_proj_flow c n ls g s H) Hst Hh Ho Hq).
Qed.

(* the input plugin is notified of a prefix of the flow's commits, in that order (the replay of every real trace checks
   exactly this: the k-th InputPlugin.Commit of a stream carries the k-th commit of its flow): the notifications of a
   stream are strictly increasing and never repeat *)
Theorem pipe_input_commits_increasing c n ls g s ics rest : grun c n (ginit c) ls = Some g ->
  map pseq (rev (commits (gflow n g s))) = ics ++ rest ->
  StronglySorted Z.lt ics /\ NoDup ics.
Proof.
  intros H Hp. pose proof (pipe_commits_increasing c n ls g s H) as Hs. rewrite Hp in Hs.
  apply sorted_app_l in Hs. split; [exact Hs|apply sorted_nodup; exact Hs].
Qed.

(* ------------------------------------------------------------------------------------------- *)
(* non-vacuity: two streams through one batcher (2 workers, batches of 2); stream 0 holds its first
   event and flushes it with the second; the batch holds events of both streams                   *)
Definition nv_c : cfg :=
  {| workers := 2; maxCount := 2; maxBytes := 0; retriable := false; retry := 0; deadq := false; atomic_push := true |}.
Definition bev (id src : Z) : Model.Batcher.ev := {| eid := id; esrc := src; esize := 5; ekind := 0 |}.
Definition nv_run : list glabel :=
  [ GP 0 (PTake (ev 1 0) 0); GP 0 (PDo (ev 1 0) 0 false); GP 0 (PResult (ev 1 0) 0 RHold);
    GP 1 (PTake (ev 1 0) 0); GP 1 (PDo (ev 1 0) 0 false); GP 1 (PResult (ev 1 0) 0 RPass); GP 1 (POut (ev 1 0));
    GB LFree; GB (LAdd (bev 1 1)); GB (LNotReady 1 5 0 100);
    GP 0 (PTake (ev 2 0) 0); GP 0 (PDo (ev 2 0) 0 true); GP 0 (PPropagate (ev 1 0) 1); GP 0 (POut (ev 1 0));
    GB (LAdd (bev 1 0)); GB (LSeal 0 2 1 10); GB (LPush 0);
    GP 0 (PResult (ev 2 0) 0 RPass); GP 0 (POut (ev 2 0));
    GB LFree; GB (LAdd (bev 2 0)); GB (LNotReady 1 5 0 100);
    GB (LTake 0); GB (LOutBegin 0 2); GB (LOutSaw 0 [1; 1]); GB (LOutEnd 0 2 1);
    GB (LCommitBegin 0 2); GB (LCommitEv (bev 1 1)); GB (LCommitEv (bev 1 0)) ].

Example pipe_nonvacuous :
  exists g, grun nv_c 1 (ginit nv_c) nv_run = Some g /\
    rev (committed (gb g)) = [bev 1 1; bev 1 0] /\
    commits (gflow 1 g 0) = [ev 1 0] /\ addq (gflow 1 g 0) = [ev 2 0] /\ commits (gflow 1 g 1) = [ev 1 0] /\
    ftaken (sproj 0 nv_run) = [ev 1 0; ev 2 0] /\
    (* the batcher itself refuses to commit the event of the next batch now *)
    gstep nv_c 1 g (GB (LCommitEv (bev 2 0))) = None.
Proof. eexists. vm_compute. repeat split; reflexivity. Qed.
