(* Event-pool component: the statements that Properties/C05.v (pool clauses) and Properties/C04.v
   (pool clause) reference.  They are stated for the configuration built from Gen/PoolGen.v, i.e. for
   the comparisons and heartbeat conditions that the translator read from pipeline/event.go: if the
   source changes so that a side condition below fails (e.g. the heartbeat condition is inverted
   again), this file stops compiling. *)
From Verif Require Import Base.Sx Model.Pool Model.PoolGlue Gen.PoolGen Proofs.Pool Proofs.PoolLm Proofs.PoolStd Proofs.PoolHb.
From Coq Require Import Lia ZifyBool Bool List ZArith.
Import ListNotations.
Local Open Scope Z_scope.

(* side conditions on the generated definitions *)
Lemma gen_lm_fits_sound n r : fits (lm_cfg n) r (cap (lm_cfg n)) = true -> r <= cap (lm_cfg n).
Proof. cbn [fits cap lm_cfg]. unfold pool_lm_fits. lia. Qed.
Lemma gen_lm_tick_fires n : tickc (lm_cfg n) true true = true.
Proof. reflexivity. Qed.
Lemma gen_std_tick_fires n : tickc (std_cfg n) true true = true.
Proof. reflexivity. Qed.

(* the heartbeat's life cycle as read from the source: get() starts it on every path to Cond.Wait and its loop has no way
   out but the stop guard.  [reflexivity] fails as soon as the translator reports an exit path (pool_*_hb_forever = false)
   or a path to Cond.Wait that does not start the heartbeat (pool_*_hb_starts = false) *)
Lemma gen_lm_hb_starts : hb_starts lm_hcfg = true.
Proof. reflexivity. Qed.
Lemma gen_lm_hb_forever : hb_forever lm_hcfg = true.
Proof. reflexivity. Qed.
Lemma gen_std_hb_starts : hb_starts std_hcfg = true.
Proof. reflexivity. Qed.
Lemma gen_std_hb_forever : hb_forever std_hcfg = true.
Proof. reflexivity. Qed.

(* ---- C05 ----------------------------------------------------------------------------------------- *)
(* low-memory pool: for every interleaving (label sequence) of any number of getters, backers and the
   heartbeat, the number of events handed out and not yet returned is at most the capacity
   (the counter inUseEvents itself may overshoot transiently) *)
Lemma pool_held_le_capacity_lowmem :
  forall (n : Z) (ls : list llabel) (s : lst),
    1 <= n -> lrun (lm_cfg n) linit ls = Some s -> len (l_holders s) <= n.
Proof.
  intros n ls s Hn H. apply (lm_held_le_capacity (lm_cfg n)) with (ls := ls); [cbn; lia|apply gen_lm_fits_sound|exact H].
Qed.

(* standard pool: event objects held + objects inside back() that are not yet in a slot *)
Lemma pool_held_le_capacity_std :
  forall (n : Z) (ls : list slabel) (s : sst),
    1 <= n -> srun (std_cfg n) (sinit (std_cfg n)) ls = Some s ->
    len (s_holders s) + fcnt transit (s_bthr s) <= n.
Proof.
  intros n ls s Hn H. apply (std_held_le_capacity (std_cfg n)); [cbn; lia|]. exact (sinv_reach _ _ _ H).
Qed.

(* standard pool: a slot marked free holds an object; an object is in at most one slot, never both in a
   slot and with a holder, and no two holders have the same object *)
Lemma pool_slot_unique_std :
  forall (n : Z) (ls : list slabel) (s : sst),
    1 <= n -> srun (std_cfg n) (sinit (std_cfg n)) ls = Some s ->
    (forall x, f1 (slot_of s x) = true -> sev (slot_of s x) <> None) /\
    (forall x x' e, sev (slot_of s x) = Some e -> sev (slot_of s x') = Some e -> x = x') /\
    (forall x e, sev (slot_of s x) = Some e -> ~ In e (s_holders s)) /\
    NoDup (s_holders s).
Proof.
  intros n ls s Hn H. destruct (sinv_reach _ _ _ H) as (HA & HB & _). repeat split.
  - intros x Hx. exact (proj2 (a_f1 s HA x Hx)).
  - exact (b_u1 _ s HB).
  - intros x e Hx. exact (proj1 (b_u2 _ s HB x e Hx)).
  - exact (b_nd _ s HB).
Qed.

(* standard pool: per object, "taken out of a slot" and "back() begun" strictly alternate, starting
   with a take: no object is handed out twice without a return in between, none is returned twice
   (the environment assumption "back only what is held" is the guard of SBClaim) *)
Lemma pool_no_double_back :
  forall (n : Z) (ls : list slabel) (s : sst) (e : Z),
    1 <= n -> srun (std_cfg n) (sinit (std_cfg n)) ls = Some s -> alt e false ls = true.
Proof.
  intros n ls s e Hn H. exact (std_alternation (std_cfg n) e ls _ s (sinv_init _) H).
Qed.

(* both pools: when no get()/back() is in progress and nothing is held, the counters are zero *)
Lemma pool_quiescent_inuse_zero :
  forall (n : Z), 1 <= n ->
    (forall ls s, lrun (lm_cfg n) linit ls = Some s -> lquiescent s -> l_inuse s = 0 /\ l_waiters s = 0) /\
    (forall ls s, srun (std_cfg n) (sinit (std_cfg n)) ls = Some s -> squiescent s -> s_inuse s = 0 /\ s_waiters s = 0).
Proof.
  intros n Hn. split.
  - intros ls s H Hq. apply (lm_quiescent_zero (lm_cfg n)) with (ls := ls); [cbn; lia|apply gen_lm_fits_sound|exact H|exact Hq].
  - intros ls s H Hq. exact (std_quiescent_zero _ s (sinv_reach _ _ _ H) Hq).
Qed.

(* ---- C04 (pool clause) ----------------------------------------------------------------------------- *)
(* low-memory pool: in every reachable state with a getter asleep on the condition variable and free
   capacity (eventsAvailable), there is a sequence of non-environment steps containing at most one
   heartbeat start (LmTickW) after which the getter is no longer asleep: bounded resumption = one
   heartbeat period *)
Lemma pool_no_stuck_waiter_lowmem :
  forall (n : Z) (ls : list llabel) (s : lst) (g : Z),
    1 <= n -> lrun (lm_cfg n) linit ls = Some s ->
    lpc_of s g = LSleep -> pool_lm_avail (l_inuse s) n = true ->
    exists ls' s', l_nonenv ls' /\ (l_ticks ls' <= 1)%nat /\ lrun (lm_cfg n) s ls' = Some s' /\ lpc_of s' g <> LSleep.
Proof.
  intros n ls s g Hn H Hg Ha.
  assert (Hinv : linv (lm_cfg n) s) by (apply (linv_run (lm_cfg n)) with (ls := ls) (s := linit); [apply gen_lm_fits_sound|apply linv_init; cbn; lia|exact H]).
  apply (lm_no_stuck_waiter (lm_cfg n) (gen_lm_tick_fires n)); [exact Hg| |exact Ha].
  exact (lm_sleeper_counted (lm_cfg n) s g Hinv Hg).
Qed.

Lemma pool_no_stuck_waiter_std :
  forall (n : Z) (ls : list slabel) (s : sst) (g x : Z),
    1 <= n -> srun (std_cfg n) (sinit (std_cfg n)) ls = Some s ->
    gpc_of s g = GSleep x -> pool_std_avail (s_inuse s) n = true ->
    exists ls' s', s_nonenv ls' /\ (s_ticks ls' <= 1)%nat /\ srun (std_cfg n) s ls' = Some s' /\ gpc_of s' g = GWoken x.
Proof.
  intros n ls s g x Hn H Hg Ha.
  apply (std_no_stuck_waiter (std_cfg n) (gen_std_tick_fires n)); [exact Hg| |exact Ha].
  exact (std_sleeper_counted _ s g x (sinv_reach _ _ _ H) Hg).
Qed.

(* the heartbeat condition the code had before fixes/C04-lowmem-wakeup.patch (`waiters > 0 &&
   !eventsAvailable`): a reachable state (capacity 1; the holder's back() falls between the getter's
   availability check and its Wait) in which getter 2 sleeps, the pool is empty, and NO sequence of
   non-environment steps - any number of heartbeats - ever wakes it *)
Definition lost_wakeup_trace : list llabel :=
  [LmInc 1 1; LmEnter 1; LmInc 2 2; LmDec 2; LmWInc 2; LmLock 2; LmCheck 2 false; LmBDec 1; LmBBc 1; LmReg 2].

Lemma pool_stuck_waiter_inverted_refuted :
  exists (ls : list llabel) (s : lst),
    lrun (lm_cfg_inverted 1) linit ls = Some s /\ lpc_of s 2 = LSleep /\ pool_lm_avail (l_inuse s) 1 = true /\
    forall ls' s', l_nonenv ls' -> lrun (lm_cfg_inverted 1) s ls' = Some s' -> lpc_of s' 2 = LSleep.
Proof.
  exists lost_wakeup_trace.
  destruct (lrun (lm_cfg_inverted 1) linit lost_wakeup_trace) as [s|] eqn:E; [|vm_compute in E; discriminate].
  exists s. vm_compute in E. inversion E; subst; clear E. repeat split.
  intros ls' s' Hne Hr.
  apply (stuck_run (lm_cfg_inverted 1)) with (g := 2) (ls := ls') (s := {| l_inuse := 0; l_waiters := 1; l_lock := false;
        l_thr := [(2, LSleep); (1, LIdle)]; l_holders := []; l_bpend := []; l_tick := TIdle |}); try assumption.
  - intros w. destruct w; reflexivity.
  - reflexivity.
  - unfold stuck_inv. repeat split; try reflexivity.
    intros g' Hg'. unfold lpc_of. cbn [l_thr fget]. destruct (g' =? 2) eqn:E2; [lia|]. destruct (g' =? 1); reflexivity.
Qed.

(* the same trace under the generated (repaired) condition: the next heartbeat wakes getter 2 *)
Example pool_no_stuck_waiter_lowmem_nonvacuous :
  exists s, lrun (lm_cfg 1) linit lost_wakeup_trace = Some s /\ lpc_of s 2 = LSleep /\ pool_lm_avail (l_inuse s) 1 = true /\
            exists s', lrun (lm_cfg 1) s [LmTickW 1; LmTickA true; LmTickFire] = Some s' /\ lpc_of s' 2 = LWoken.
Proof. vm_compute. eexists. repeat split. eexists. split; reflexivity. Qed.

Example pool_std_nonvacuous :
  exists s, srun (std_cfg 1) (sinit (std_cfg 1))
              [SClaim 1 0; SCas 1 0 true; STake 1 0 0; SF2 1; SInc 1; SClaim 2 0; SCas 2 0 false; SWInc 2; SLock 2;
               SBClaim 0 0; SBCas 0 0 true; SBPut 0; SBF1 0; SBDec 0; SBBc 0; SReg 2] = Some s /\
            gpc_of s 2 = GSleep 0 /\ pool_std_avail (s_inuse s) 1 = true /\ f1 (slot_of s 0) = true.
Proof. vm_compute. eexists. repeat split. Qed.

(* ---- C04 (pool clause): the heartbeat's life cycle -------------------------------------------------- *)
(* The two theorems above let the heartbeat tick whenever it likes; they say nothing about a heartbeat goroutine that is
   not there.  In the layered system (Model/Pool.v: the goroutine is started once, by the slow path of get(), and may be
   gone for good when its loop has a way out) with the two facts regenerated from the Go AST: in every reachable state with
   a getter asleep on the condition variable and free capacity the heartbeat goroutine is RUNNING, and non-environment steps
   of the layered system containing at most one heartbeat start wake the getter *)
Lemma pool_no_stuck_waiter_hb_lowmem :
  forall (n : Z) (ls : list (hlab llabel)) (s : hst lst) (g : Z),
    1 <= n -> lhrun (lm_cfg n) lm_hcfg lhinit ls = Some s ->
    lpc_of (h_s s) g = LSleep -> pool_lm_avail (l_inuse (h_s s)) n = true ->
    h_hb s = HbRun /\
    exists ls' s', l_nonenv ls' /\ (l_ticks ls' <= 1)%nat /\ lhrun (lm_cfg n) lm_hcfg s (map HL ls') = Some s' /\ lpc_of (h_s s') g <> LSleep.
Proof.
  intros n ls s g Hn H Hg Ha.
  apply (lm_hb_no_stuck_waiter (lm_cfg n) lm_hcfg ls s g); try assumption;
    [cbn; lia|apply gen_lm_fits_sound|apply gen_lm_tick_fires|apply gen_lm_hb_starts|apply gen_lm_hb_forever].
Qed.

Lemma pool_no_stuck_waiter_hb_std :
  forall (n : Z) (ls : list (hlab slabel)) (s : hst sst) (g x : Z),
    1 <= n -> shrun (std_cfg n) std_hcfg (shinit (std_cfg n)) ls = Some s ->
    gpc_of (h_s s) g = GSleep x -> pool_std_avail (s_inuse (h_s s)) n = true ->
    h_hb s = HbRun /\
    exists ls' s', s_nonenv ls' /\ (s_ticks ls' <= 1)%nat /\ shrun (std_cfg n) std_hcfg s (map HL ls') = Some s' /\ gpc_of (h_s s') g = GWoken x.
Proof.
  intros n ls s g x Hn H Hg Ha.
  apply (std_hb_no_stuck_waiter (std_cfg n) std_hcfg ls s g x); try assumption;
    [apply gen_std_tick_fires|apply gen_std_hb_starts|apply gen_std_hb_forever].
Qed.

(* LIVENESS UNDER HEARTBEAT FAIRNESS.  The assumption the bounded-resumption claim rests on, stated explicitly: the running
   heartbeat ticks again and again (infinitely many iterations: scheduler fairness and wall-clock time are outside the
   model).  For EVERY schedule - steps of the environment included: new get() and back() calls, any interleaving - a getter
   does not stay inside Cond.Wait() across more than two heartbeat iterations that find capacity free (the first of them
   may have loaded the waiter count before the getter registered): a run during which it stays asleep contains at most two
   of them.  Hence: infinitely many ticks + capacity that stays free => the getter is woken *)
Lemma pool_fair_heartbeat_wakes_lowmem :
  forall (n : Z) (ls : list llabel) (s : lst) (g : Z) (ls' : list llabel) (s' : lst),
    1 <= n -> lrun (lm_cfg n) linit ls = Some s -> lpc_of s g = LSleep ->
    lrun_asleep (lm_cfg n) g s ls' = Some s' -> (l_avail_ticks ls' <= 2)%nat.
Proof.
  intros n ls s g ls' s' Hn H Hg Ha.
  apply (lm_fair_heartbeat_wakes (lm_cfg n)) with (g := g) (ls := ls) (s := s) (s' := s'); try assumption;
    [cbn; lia|apply gen_lm_fits_sound|apply gen_lm_tick_fires].
Qed.

Lemma pool_fair_heartbeat_wakes_std :
  forall (n : Z) (ls : list slabel) (s : sst) (g x : Z) (ls' : list slabel) (s' : sst),
    1 <= n -> srun (std_cfg n) (sinit (std_cfg n)) ls = Some s -> gpc_of s g = GSleep x ->
    srun_asleep (std_cfg n) g s ls' = Some s' -> (s_avail_ticks ls' <= 2)%nat.
Proof.
  intros n ls s g x ls' s' Hn H Hg Ha.
  apply (std_fair_heartbeat_wakes (std_cfg n) (gen_std_tick_fires n)) with (g := g) (x := x) (ls := ls) (s := s) (s' := s'); assumption.
Qed.

(* WITHOUT the fact "the heartbeat's loop has no way out" (hcfg_exiting: the goroutine may return; the Once never starts it
   again): one ordinary episode of back-pressure starts the heartbeat, the pool falls idle, the heartbeat loads waiters = 0
   and returns; then the lost wake-up (capacity 1: the holder's back() falls between the getter's availability check and
   its Wait).  The state reached has getter 2 asleep, the pool empty, the heartbeat gone - and NO step other than one of the
   environment is enabled: every non-environment run from it is empty.  The getter sleeps for ever *)
Definition hb_exit_trace : list (hlab llabel) :=
  map HL [LmInc 1 1; LmEnter 1; LmInc 2 2; LmDec 2; LmWInc 2; LmLock 2; LmCheck 2 false; LmReg 2; LmBDec 1; LmBBc 1;
          LmWake 2; LmUnlock 2; LmWDec 2; LmInc 2 1; LmEnter 2; LmBDec 2; LmBBc 2; LmTickW 0]
  ++ [HExit]
  ++ map HL lost_wakeup_trace.

Lemma pool_heartbeat_exit_refuted :
  exists (ls : list (hlab llabel)) (s : hst lst),
    lhrun (lm_cfg 1) hcfg_exiting lhinit ls = Some s /\ lpc_of (h_s s) 2 = LSleep /\ pool_lm_avail (l_inuse (h_s s)) 1 = true /\
    h_hb s = HbGone /\
    forall ls' s', lh_nonenv ls' -> lhrun (lm_cfg 1) hcfg_exiting s ls' = Some s' -> ls' = [] /\ s' = s.
Proof.
  exists hb_exit_trace.
  destruct (lhrun (lm_cfg 1) hcfg_exiting lhinit hb_exit_trace) as [s|] eqn:E; [|vm_compute in E; discriminate].
  exists s. vm_compute in E. inversion E; subst; clear E. repeat split.
  - destruct ls' as [|l r]; [reflexivity|]. exfalso.
    unfold lh_nonenv in H. cbn [forallb] in H. apply andb_true_iff in H. destruct H as [Hl _]. apply negb_true_iff in Hl.
    unfold lhrun in H0. cbn [hrun] in H0.
    match type of H0 with context [hstep _ _ _ _ ?s0 l] =>
      assert (Hn : lhstep (lm_cfg 1) hcfg_exiting s0 l = None) end.
    { apply (lm_gone_no_step (lm_cfg 1) hcfg_exiting 2); [|exact Hl]. unfold lm_gone_inv. repeat split.
      intros g' Hg'. unfold lpc_of. cbn [h_s l_thr fget]. destruct (g' =? 2) eqn:E2; [lia|]. destruct (g' =? 1); reflexivity. }
    unfold lhstep in Hn. rewrite Hn in H0. discriminate.
  - apply (lm_gone_stuck (lm_cfg 1) hcfg_exiting 2 ls'); [|exact H|exact H0]. unfold lm_gone_inv. repeat split.
    intros g' Hg'. unfold lpc_of. cbn [h_s l_thr fget]. destruct (g' =? 2) eqn:E2; [lia|]. destruct (g' =? 1); reflexivity.
Qed.

(* non-vacuity: (1) with the generated facts the same trace is NOT a run (the heartbeat's return is not a step), and without
   the return it reaches the sleeping state with the heartbeat running; (2) fairness: from the lost wake-up one heartbeat
   iteration that finds capacity free leaves only the waking Broadcast to the heartbeat (both continuations that keep
   the getter asleep are impossible); (3) the bound 2 is reached when the heartbeat loaded the waiter count before the
   getter registered *)
Example pool_heartbeat_lifecycle_nonvacuous :
  lhrun (lm_cfg 1) lm_hcfg lhinit hb_exit_trace = None /\
  (exists s, lhrun (lm_cfg 1) lm_hcfg lhinit (filter (fun l => match l with HExit => false | _ => true end) hb_exit_trace) = Some s /\
             lpc_of (h_s s) 2 = LSleep /\ h_hb s = HbRun /\ pool_lm_avail (l_inuse (h_s s)) 1 = true) /\
  (exists s, lrun (lm_cfg 1) linit lost_wakeup_trace = Some s /\ lpc_of s 2 = LSleep /\
             lrun_asleep (lm_cfg 1) 2 s [LmTickW 1; LmTickA true] <> None /\
             lrun_asleep (lm_cfg 1) 2 s [LmTickW 1; LmTickA true; LmTickFire] = None /\
             lrun_asleep (lm_cfg 1) 2 s [LmTickW 1; LmTickA true; LmTickEnd] = None) /\
  (exists s, lrun (lm_cfg 1) linit [LmInc 1 1; LmEnter 1; LmInc 2 2; LmDec 2; LmTickW 0; LmWInc 2; LmLock 2; LmCheck 2 false;
                                    LmBDec 1; LmBBc 1; LmReg 2] = Some s /\ lpc_of s 2 = LSleep /\
             lrun_asleep (lm_cfg 1) 2 s [LmTickA true; LmTickEnd; LmTickW 1; LmTickA true] <> None).
Proof.
  vm_compute. repeat split; try (eexists; repeat split; try reflexivity; discriminate).
Qed.
