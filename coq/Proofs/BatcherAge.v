(* Proofs about the timed layer of the batcher (Model/BatcherAge.v): in every timed run the age of the OLDEST event of the
   current batch - counted from the first Add into the empty batch - bounds the time to the Seal and to the hand-over to the
   output, for every event of the batch, whatever arrives later and whatever the sizes are. *)
From Verif Require Import Base.Sx Model.Batcher Model.BatcherGlue Model.BatcherAge Proofs.Batcher Gen.BatcherGen.
From Coq Require Import Lia ZifyBool Bool List ZArith.
Import ListNotations.
Local Open Scope Z_scope.

Ltac tproj :=
  cbn [base tnow born seen tcur tsealed thanded tset fst snd] in *.

(* inversion of one timed step: the time does not go back, the untimed LTS takes the same label *)
Lemma tstep_base c tc s t l s' :
  tstep c tc s t l = Some s' -> tnow s <= t /\ step c (base s) l = Some (base s') /\ tnow s' = t.
Proof.
  unfold tstep. intros H.
  destruct (t <? tnow s) eqn:Et; [discriminate|]. apply Z.ltb_ge in Et.
  destruct (step c (base s) l) as [b|] eqn:Es; [|discriminate].
  destruct l; try (injection H as H; subst s'; tproj; auto).
  - (* Add *) destruct (tcur s); injection H as H; subst s'; tproj; auto.
  - (* NotReady *) destruct (born s).
    + destruct (_ && _); [|discriminate]. injection H as H; subst s'; tproj; auto.
    + injection H as H; subst s'; tproj; auto.
  - (* Seal *) destruct (_ <=? _); [|discriminate]. injection H as H; subst s'; tproj; auto.
  - (* OutBegin *) destruct (find_sealed (tsealed s) seq) as [[[q0 z] tevs]|].
    + destruct (_ <=? _); [|discriminate]. injection H as H; subst s'; tproj; auto.
    + injection H as H; subst s'; tproj; auto.
Qed.

(* a timed run is a run of the untimed LTS: every theorem of Properties/C08.v holds of its base state *)
Lemma trun_is_run c tc : forall tls s s',
  trun c tc s tls = Some s' -> run c (base s) (map snd tls) = Some (base s').
Proof.
  induction tls as [|[t l] r IH]; intros s s' H; cbn [trun map snd run] in *.
  - injection H as H; subst; reflexivity.
  - destruct (tstep c tc s t l) as [s1|] eqn:E; [|discriminate].
    apply tstep_base in E. destruct E as (_ & E & _). rewrite E. apply IH. exact H.
Qed.

Lemma trun_invariant c tc (P : tst -> Prop) :
  (forall s t l s', P s -> tstep c tc s t l = Some s' -> P s') ->
  forall tls s s', P s -> trun c tc s tls = Some s' -> P s'.
Proof.
  intros Hstep tls. induction tls as [|[t l] r IH]; intros s s' Hs Hr; cbn [trun] in Hr.
  - injection Hr as Hr; subst; exact Hs.
  - destruct (tstep c tc s t l) as [s1|] eqn:E; [|discriminate]. eapply IH; [eapply Hstep; eauto|exact Hr].
Qed.

(* ---- 1. the timed history mirrors the LTS: tcur = the current batch, tsealed = the sealed batches ------------------ *)
Definition tmirror (s : tst) : Prop :=
  map fst (tcur s) = cur_list (base s) /\
  map (fun r : trec => rev (map fst (snd r))) (tsealed s) = sealed_hist (base s).

Lemma tmirror_step c tc s t l s' : tmirror s -> tstep c tc s t l = Some s' -> tmirror s'.
Proof.
  unfold tmirror, tstep, cur_list. intros [H1 H2] H.
  destruct (t <? tnow s); [discriminate|].
  destruct (step c (base s) l) as [b|] eqn:Es; [|discriminate].
  destruct l.
  all: try (injection H as H; subst s'; tproj; step_inv Es; auto; fail).
  - (* Add *)
    destruct (tcur s) as [|p r] eqn:Ec; injection H as H; subst s'; tproj; step_inv Es; cbn [map fst] in *; auto.
  - (* NotReady *)
    destruct (born s).
    + destruct (_ && _); [|discriminate]. injection H as H; subst s'; tproj. step_inv Es. auto.
    + injection H as H; subst s'; tproj. step_inv Es. auto.
  - (* Seal *)
    destruct (_ <=? _); [|discriminate]. injection H as H; subst s'; tproj. step_inv Es.
    split; [reflexivity|]. cbn [map snd]. rewrite H2, rev_append_rev, app_nil_r. reflexivity.
  - (* OutBegin *)
    destruct (find_sealed (tsealed s) seq) as [[[q0 z] tevs]|].
    + destruct (_ <=? _); [|discriminate]. injection H as H; subst s'; tproj. step_inv Es. auto.
    + injection H as H; subst s'; tproj. step_inv Es. auto.
Qed.

Lemma tmirror_reach c tc tls s : trun c tc (tinit c) tls = Some s -> tmirror s.
Proof.
  intros Hr. assert (Hi : tmirror (tinit c)) by (split; reflexivity).
  exact (trun_invariant c tc tmirror (tmirror_step c tc) tls _ _ Hi Hr).
Qed.

(* ---- 2. the timing invariant ------------------------------------------------------------------------------------ *)
Definition oldest_is (l : list (ev * Z)) (a : Z) : Prop := exists e l0, l = l0 ++ [(e, a)].

Definition tinv (tc : tcfg) (s : tst) : Prop :=
  (* the batch is non-empty exactly when its clock runs; born = add time of the oldest event; no event is older *)
  (tcur s = [] -> born s = None) /\
  (tcur s <> [] -> exists a, born s = Some a /\ oldest_is (tcur s) a /\ forall p, In p (tcur s) -> a <= snd p <= tnow s) /\
  (* the latest decision found the oldest event not older than the time-out *)
  (forall a, born s = Some a -> a <= seen s <= tnow s /\ seen s - a <= flushT tc + lag tc) /\
  (* sealed: every event within seal_bound of its own Add *)
  (forall q z tevs, In (q, z, tevs) (tsealed s) -> z <= tnow s /\ forall p, In p tevs -> 0 <= z - snd p <= seal_bound tc) /\
  (* handed to the output: the batch is a sealed one, every event within handoff_bound of its own Add *)
  (forall q h tevs, In (q, h, tevs) (thanded s) ->
     (exists z, In (q, z, tevs) (tsealed s)) /\ forall p, In p tevs -> 0 <= h - snd p <= handoff_bound tc).

Lemma tinv_init c tc : tinv tc (tinit c).
Proof.
  unfold tinv, tinit; tproj. repeat split; try (intros; discriminate); try contradiction; intros; contradiction.
Qed.

Lemma tinv_tset tc s b t : tnow s <= t -> tinv tc s -> tinv tc (tset s b t).
Proof.
  intros Ht (I1 & I2 & I3 & I4 & I5). unfold tinv; tproj. repeat split; auto.
  - intros Hne. destruct (I2 Hne) as (a & Ha & Ho & Hall). exists a. repeat split; auto.
    + apply Hall; assumption.
    + specialize (Hall p H). lia.
  - apply I3; assumption.
  - specialize (I3 a H). lia.
  - apply I3; assumption.
  - destruct (I4 q z tevs H) as [Hz _]. lia.
  - apply (I4 q z tevs H); assumption.
  - apply (I4 q z tevs H); assumption.
  - apply (I5 q h tevs H).
  - apply (I5 q h tevs H); assumption.
  - apply (I5 q h tevs H); assumption.
Qed.

Lemma find_sealed_In l q r : find_sealed l q = Some r -> In r l /\ fst (fst r) = q.
Proof.
  unfold find_sealed. intros H. apply find_some in H. destruct H as [H1 H2]. apply Z.eqb_eq in H2. auto.
Qed.

Lemma tinv_step c tc s t l s' :
  0 <= flushT tc + lag tc -> 0 <= lag tc ->
  tinv tc s -> tstep c tc s t l = Some s' -> tinv tc s'.
Proof.
  intros HT Hlag Hinv H.
  assert (Hb := tstep_base _ _ _ _ _ _ H). destruct Hb as (Ht & _ & _).
  unfold tstep in H.
  destruct (t <? tnow s); [discriminate|].
  destruct (step c (base s) l) as [b|]; [|discriminate].
  destruct l; try (injection H as H; subst s'; apply tinv_tset; assumption).
  - (* Add *)
    destruct Hinv as (I1 & I2 & I3 & I4 & I5).
    destruct (tcur s) as [|p0 r0] eqn:Ec; injection H as H; subst s'; unfold tinv; tproj.
    + (* first Add into the empty batch: the clock of the batch starts *)
      repeat split; try (intros; discriminate).
      * intros _. exists t. repeat split.
        -- exists e, []. reflexivity.
        -- destruct H as [H|[]]; subst p; cbn; lia.
        -- destruct H as [H|[]]; subst p; cbn; lia.
      * injection H as H; subst a; lia.
      * injection H as H; subst a; lia.
      * injection H as H; subst a; lia.
      * destruct (I4 q z tevs H) as [Hz _]. lia.
      * apply (I4 q z tevs H); assumption.
      * apply (I4 q z tevs H); assumption.
      * apply (I5 q h tevs H).
      * apply (I5 q h tevs H); assumption.
      * apply (I5 q h tevs H); assumption.
    + (* a later Add leaves born and seen alone *)
      assert (Hne : p0 :: r0 <> []) by discriminate.
      destruct (I2 Hne) as (a & Ha & (e0 & l0 & Ho) & Hall).
      repeat split; try (intros; discriminate).
      * intros _. exists a. repeat split; auto.
        -- exists e0, ((e, t) :: l0). rewrite Ho. reflexivity.
        -- destruct H as [H|H]; [subst p; cbn; specialize (Hall p0 (or_introl eq_refl)); lia|apply Hall; assumption].
        -- destruct H as [H|H]; [subst p; cbn; lia|specialize (Hall p H); lia].
      * apply I3; assumption.
      * specialize (I3 a0 H). lia.
      * apply I3; assumption.
      * destruct (I4 q z tevs H) as [Hz _]. lia.
      * apply (I4 q z tevs H); assumption.
      * apply (I4 q z tevs H); assumption.
      * apply (I5 q h tevs H).
      * apply (I5 q h tevs H); assumption.
      * apply (I5 q h tevs H); assumption.
  - (* NotReady *)
    destruct (born s) as [a|] eqn:Eb.
    + destruct ((t - a <=? flushT tc + lag tc) && (t - seen s <=? period tc + lag tc)) eqn:G; [|discriminate].
      apply andb_true_iff in G. destruct G as [G1 G2]. apply Z.leb_le in G1. apply Z.leb_le in G2.
      injection H as H; subst s'. destruct Hinv as (I1 & I2 & I3 & I4 & I5). unfold tinv; tproj.
      rewrite Eb in *. repeat split; auto.
      * intros Hne. destruct (I2 Hne) as (a' & Ha & Ho & Hall). exists a'. repeat split; auto.
        -- apply Hall; assumption.
        -- specialize (Hall p H). lia.
      * injection H as H; subst a0. specialize (I3 a eq_refl). lia.
      * lia.
      * injection H as H; subst a0. lia.
      * destruct (I4 q z tevs H) as [Hz _]. lia.
      * apply (I4 q z tevs H); assumption.
      * apply (I4 q z tevs H); assumption.
      * apply (I5 q h tevs H).
      * apply (I5 q h tevs H); assumption.
      * apply (I5 q h tevs H); assumption.
    + injection H as H; subst s'. apply tinv_tset; assumption.
  - (* Seal *)
    destruct (t - seen s <=? period tc + lag tc) eqn:G; [|discriminate]. apply Z.leb_le in G.
    injection H as H; subst s'. destruct Hinv as (I1 & I2 & I3 & I4 & I5). unfold tinv; tproj.
    repeat split; try (intros; discriminate); try (intros Hc; contradiction Hc; reflexivity).
    + destruct H as [H|H]; [injection H as _ Hz _; lia|destruct (I4 q z tevs H) as [Hz _]; lia].
    + destruct H as [H|H]; [|apply (I4 q z tevs H); assumption].
      injection H as Hq Hz Hev; subst z tevs.
      assert (Hne : tcur s <> []) by (intros Hc; rewrite Hc in H0; contradiction).
      destruct (I2 Hne) as (a & Ha & _ & Hall). specialize (Hall p H0). lia.
    + destruct H as [H|H]; [|apply (I4 q z tevs H); assumption].
      injection H as Hq Hz Hev; subst z tevs.
      assert (Hne : tcur s <> []) by (intros Hc; rewrite Hc in H0; contradiction).
      destruct (I2 Hne) as (a & Ha & _ & Hall). specialize (Hall p H0). specialize (I3 a Ha).
      unfold seal_bound. lia.
    + destruct (I5 q h tevs H) as [[z Hz] _]. exists z. right. exact Hz.
    + apply (I5 q h tevs H); assumption.
    + apply (I5 q h tevs H); assumption.
  - (* OutBegin *)
    destruct (find_sealed (tsealed s) seq) as [[[q0 z] tevs]|] eqn:Ef.
    + destruct (t - z <=? lag tc) eqn:G; [|discriminate]. apply Z.leb_le in G.
      injection H as H; subst s'. apply find_sealed_In in Ef. destruct Ef as [Ein Eq]. cbn [fst] in Eq. subst q0.
      destruct Hinv as (I1 & I2 & I3 & I4 & I5). unfold tinv; tproj.
      repeat split; auto.
      * intros Hne. destruct (I2 Hne) as (a' & Ha & Ho & Hall). exists a'. repeat split; auto.
        -- apply Hall; assumption.
        -- specialize (Hall p H). lia.
      * apply I3; assumption.
      * specialize (I3 a H). lia.
      * apply I3; assumption.
      * destruct (I4 q z0 tevs0 H) as [Hz _]. lia.
      * apply (I4 q z0 tevs0 H); assumption.
      * apply (I4 q z0 tevs0 H); assumption.
      * destruct H as [H|H]; [injection H as Hq Hh Hev; subst q h tevs0; exists z; exact Ein|apply (I5 q h tevs0 H)].
      * destruct H as [H|H]; [|apply (I5 q h tevs0 H); assumption].
        injection H as Hq Hh Hev; subst q h tevs0.
        destruct (I4 seq z tevs Ein) as [Hz Hall]. specialize (Hall p H0). lia.
      * destruct H as [H|H]; [|apply (I5 q h tevs0 H); assumption].
        injection H as Hq Hh Hev; subst q h tevs0.
        destruct (I4 seq z tevs Ein) as [Hz Hall]. specialize (Hall p H0). unfold handoff_bound, seal_bound in *. lia.
    + injection H as H; subst s'. apply tinv_tset; assumption.
Qed.

Lemma tinv_reach c tc tls s :
  0 <= flushT tc + lag tc -> 0 <= lag tc -> trun c tc (tinit c) tls = Some s -> tinv tc s.
Proof.
  intros HT Hlag Hr.
  exact (trun_invariant c tc (tinv tc) (fun s t l s' => tinv_step c tc s t l s' HT Hlag) tls _ _ (tinv_init c tc) Hr).
Qed.

(* ---- 3. the theorems -------------------------------------------------------------------------------------------- *)

(* "batch start" = the first Add into the empty batch: in every reachable timed state the clock of the batch runs exactly
   when the LTS's current batch is non-empty, and it shows the add time of the OLDEST event of that batch (the last element
   of the newest-first list), which no event of the batch precedes *)
Lemma batch_start_is_first_add c tc tls s :
  0 <= flushT tc + lag tc -> 0 <= lag tc -> trun c tc (tinit c) tls = Some s ->
  map fst (tcur s) = cur_list (base s) /\
  (cur_list (base s) = [] -> born s = None) /\
  (cur_list (base s) <> [] ->
     exists a e l0, born s = Some a /\ tcur s = l0 ++ [(e, a)] /\ forall p, In p (tcur s) -> a <= snd p <= tnow s).
Proof.
  intros HT Hlag Hr. destruct (tmirror_reach c tc tls s Hr) as [Hm _].
  destruct (tinv_reach c tc tls s HT Hlag Hr) as (I1 & I2 & _).
  split; [exact Hm|]. split.
  - intros Hc. apply I1. rewrite Hc in Hm. destruct (tcur s); [reflexivity|discriminate].
  - intros Hc. assert (Hne : tcur s <> []) by (intros Hx; rewrite Hx in Hm; cbn in Hm; congruence).
    destruct (I2 Hne) as (a & Ha & (e & l0 & Ho) & Hall). exists a, e, l0. auto.
Qed.

(* a NotReady decision on a non-empty batch is enabled only while its oldest event is not older than the time-out
   (timed counterpart of c08_idle_flush_decision: the age is measured by the model, not reported by the code) *)
Lemma not_ready_means_young c tc s t n b el tmo s' a :
  tstep c tc s t (LNotReady n b el tmo) = Some s' -> born s = Some a -> t - a <= flushT tc + lag tc.
Proof.
  unfold tstep. intros H Hb.
  destruct (t <? tnow s); [discriminate|].
  destruct (step c (base s) (LNotReady n b el tmo)); [|discriminate].
  rewrite Hb in H. destruct (t - a <=? flushT tc + lag tc) eqn:G; [apply Z.leb_le in G; exact G|discriminate].
Qed.

(* THE AGE OF THE OLDEST EVENT BOUNDS THE TIME TO SEAL: every event of every sealed batch was added at most
   FlushTimeout + period + 2 lag before the Seal - whatever was added after it, whatever the sizes *)
Lemma oldest_age_bounds_seal c tc tls s :
  0 <= flushT tc + lag tc -> 0 <= lag tc -> trun c tc (tinit c) tls = Some s ->
  forall q z tevs e a, In (q, z, tevs) (tsealed s) -> In (e, a) tevs ->
    0 <= z - a <= flushT tc + period tc + 2 * lag tc.
Proof.
  intros HT Hlag Hr q z tevs e a Hin He.
  destruct (tinv_reach c tc tls s HT Hlag Hr) as (_ & _ & _ & I4 & _).
  destruct (I4 q z tevs Hin) as [_ Hall]. exact (Hall (e, a) He).
Qed.

(* ... and the time to the hand-over: every event a worker hands to OutFn was added at most FlushTimeout + period + 3 lag
   before; the batch handed over is a sealed batch *)
Lemma oldest_age_bounds_handoff c tc tls s :
  0 <= flushT tc + lag tc -> 0 <= lag tc -> trun c tc (tinit c) tls = Some s ->
  forall q h tevs, In (q, h, tevs) (thanded s) ->
    (exists z, In (q, z, tevs) (tsealed s)) /\
    forall e a, In (e, a) tevs -> 0 <= h - a <= flushT tc + period tc + 3 * lag tc.
Proof.
  intros HT Hlag Hr q h tevs Hin.
  destruct (tinv_reach c tc tls s HT Hlag Hr) as (_ & _ & _ & _ & I5).
  destruct (I5 q h tevs Hin) as [Hz Hall]. split; [exact Hz|]. intros e a He. exact (Hall (e, a) He).
Qed.

(* the timed records are the sealed batches of the LTS, in the same order *)
Lemma tsealed_are_the_sealed_batches c tc tls s :
  trun c tc (tinit c) tls = Some s ->
  map (fun r : trec => rev (map fst (snd r))) (tsealed s) = sealed_hist (base s).
Proof. intros Hr. exact (proj2 (tmirror_reach c tc tls s Hr)). Qed.

(* ---- 4. witnesses ------------------------------------------------------------------------------------------------ *)
Definition age_cfg : cfg :=
  {| workers := 1; maxCount := 1000; maxBytes := 0; retriable := false; retry := 0; deadq := false;
     atomic_push := batcher_atomic_push |}.
Definition age_tc : tcfg := {| flushT := 150000; period := 100000; lag := 1000 |}.
Definition age_e (i : Z) : ev := {| eid := i; esrc := 0; esize := 0; ekind := 1 |}.   (* zero-size children *)
(* three zero-size events 30 ms apart; ticks at 100 ms and 200 ms; the second one seals by time-out *)
Definition age_good : list (Z * label) :=
  [(0, LFree); (10, LAdd (age_e 1)); (11, LNotReady 1 0 11 150000);
   (30010, LAdd (age_e 2)); (30011, LNotReady 2 0 30 150000);
   (60010, LAdd (age_e 3)); (60011, LNotReady 3 0 60 150000);
   (100000, LTick); (100001, LNotReady 3 0 100 150000);
   (200000, LTick); (200001, LSeal 0 3 2 0); (200001, LPush 0); (200100, LTake 0); (200101, LOutBegin 0 3)].
(* the regression: every Add into the batch of zero-size events restarted the code's timer, so the code reports a small
   elapsed value and answers NotReady at 300 ms although the oldest event is 300 ms old *)
Definition age_bad : list (Z * label) :=
  [(0, LFree); (10, LAdd (age_e 1)); (11, LNotReady 1 0 11 150000);
   (100000, LTick); (100001, LNotReady 1 0 100 150000);
   (150000, LAdd (age_e 2)); (150001, LNotReady 2 0 1 150000);
   (200000, LTick); (200001, LNotReady 2 0 50 150000)].

Lemma age_nonvacuous :
  (exists s, trun age_cfg age_tc (tinit age_cfg) age_good = Some s /\
             tsealed s = [(0, 200001, [(age_e 3, 60010); (age_e 2, 30010); (age_e 1, 10)])] /\
             thanded s = [(0, 200101, [(age_e 3, 60010); (age_e 2, 30010); (age_e 1, 10)])] /\ born s = None) /\
  (* the untimed LTS accepts the regression's trace (the code's own elapsed values are small), the timed layer refuses it *)
  (exists s, run age_cfg (init age_cfg) (map snd age_bad) = Some s) /\
  trun age_cfg age_tc (tinit age_cfg) age_bad = None.
Proof.
  split; [eexists; vm_compute; repeat split; reflexivity|].
  split; [eexists; vm_compute; reflexivity|vm_compute; reflexivity].
Qed.
