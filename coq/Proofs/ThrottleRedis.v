(* Proofs about the redis composite of Model/Throttle.v (rl_allow, sync_one, rrun): for a limiter without
   distribution in ONE process whose syncs fall between events, under a clock that does not step back, the pair
   (increment limiter, total limiter) over the redis counters takes exactly the decisions of the reference semantics
   of the in-memory backend (never-reset counter per bucket id).  Built on the refinement relation R of
   Proofs/Throttle.v: a sync is a [drop] of a bucket id in the increment limiter's history and a [put] in the total
   limiter's.                                                                                                   *)
From Verif Require Import Base.Sx Base.GoSem Model.Throttle Proofs.Throttle.
From Coq Require Import Lia ZifyBool.

(* ---- histories: dropping a bucket id, putting a value ---------------------------------------------------------- *)
Definition h_drop (id : Z) (h : list charge) : list charge := filter (fun x => negb (c_id x =? id)) h.
Definition s_drop (id : Z) (s : spec) : spec := {| s_hi := s_hi s; s_hist := h_drop id (s_hist s) |}.
Definition s_put (id v : Z) (s : spec) : spec :=
  {| s_hi := s_hi s; s_hist := {| c_id := id; c_slot := 0; c_val := v; c_pass := true |} :: h_drop id (s_hist s) |}.

Lemma ctr_drop h id id' slot : ctr (h_drop id h) id' slot = if id' =? id then 0 else ctr h id' slot.
Proof.
  induction h as [|x r IH]; cbn [h_drop filter ctr].
  - destruct (id' =? id); reflexivity.
  - fold (h_drop id r). destruct (Z.eqb_spec (c_id x) id) as [E|E]; cbn [negb].
    + rewrite IH. unfold in_cell. destruct (Z.eqb_spec id' id) as [E'|E'].
      * reflexivity.
      * replace (c_id x =? id') with false by lia. reflexivity.
    + cbn [ctr]. rewrite IH. unfold in_cell. destruct (Z.eqb_spec id' id) as [E'|E'].
      * replace (c_id x =? id') with false by lia. reflexivity.
      * reflexivity.
Qed.

Lemma hist_bounded_drop c hi id h : hist_bounded c hi h -> hist_bounded c hi (h_drop id h).
Proof. intros Hb x Hx. apply filter_In in Hx. apply Hb. tauto. Qed.

(* ---- ring rows ------------------------------------------------------------------------------------------------- *)
Lemma reset_row_ok n m l i :
  wf_ring n m (ring l) -> 0 <= i < Z.of_nat n ->
  exists l', reset_row l i = Ok l' /\ minID l' = minID l /\ maxID l' = maxID l /\ wf_ring n m (ring l') /\
    (forall i' j', 0 <= i' -> 0 <= j' -> cellr (ring l') i' j' = if i' =? i then 0 else cellr (ring l) i' j') /\
    (forall k, k <> Z.to_nat i -> nth k (ring l') [] = nth k (ring l) []).
Proof.
  intros Hwf Hi. pose proof Hwf as [Hn Hf]. unfold reset_row.
  rewrite (idx_ok (ring l) i []) by (unfold len; lia). cbn [bind].
  rewrite upd_ok by (unfold len; lia). cbn [bind].
  eexists. split; [reflexivity|]. unfold with_ring. cbn [minID maxID ring].
  split; [reflexivity|]. split; [reflexivity|]. split; [|split].
  - split.
    + rewrite upd_list_length; lia.
    + apply upd_list_Forall; [exact Hf|]. rewrite map_length. apply (wf_ring_row n m); [exact Hwf|lia].
  - intros i' j' Hi' Hj'. unfold cellr. rewrite upd_list_nth by lia.
    destruct (Nat.eqb_spec (Z.to_nat i') (Z.to_nat i)) as [E|E].
    + replace (i' =? i) with true by lia. apply nth_zero_row.
    + replace (i' =? i) with false by lia. reflexivity.
  - intros k Hk. rewrite upd_list_nth by lia.
    destruct (Nat.eqb_spec k (Z.to_nat i)); [lia|reflexivity].
Qed.

(* set_row of a one-slot row *)
Lemma set_row1_ok n b i v :
  wf_ring n 1 b -> 0 <= i < Z.of_nat n ->
  exists b', set_row b i 0 [v] = Ok b' /\ wf_ring n 1 b' /\
    (forall i' j', 0 <= i' -> 0 <= j' -> cellr b' i' j' = if (i' =? i) && (j' =? 0) then v else cellr b i' j').
Proof.
  intros Hwf Hi. pose proof Hwf as [Hn Hf].
  assert (Hrow : length (nth (Z.to_nat i) b []) = 1%nat) by (apply (wf_ring_row n 1); auto; lia).
  cbn [set_row].
  rewrite (idx_ok b i []) by (unfold len; lia). cbn [bind].
  rewrite upd_ok by (unfold len; lia). cbn [bind].
  rewrite upd_ok by (unfold len; lia). cbn [bind].
  eexists. split; [reflexivity|]. split.
  - split.
    + rewrite upd_list_length; lia.
    + apply upd_list_Forall; [exact Hf|]. rewrite upd_list_length; lia.
  - intros i' j' Hi' Hj'. unfold cellr. rewrite (upd_list_nth b) by lia.
    destruct (Nat.eqb_spec (Z.to_nat i') (Z.to_nat i)) as [E|E].
    + replace (i' =? i) with true by lia. cbn [andb].
      rewrite upd_list_nth by lia. cbn [Z.to_nat].
      destruct (Nat.eqb_spec (Z.to_nat j') 0) as [E'|E'].
      * replace (j' =? 0) with true by lia. reflexivity.
      * replace (j' =? 0) with false by lia. rewrite E. reflexivity.
    + replace (i' =? i) with false by lia. reflexivity.
Qed.

Lemma row1 (row : list Z) : length row = 1%nat -> row = [nth 0 row 0].
Proof. destruct row as [|x [|y r]]; cbn; intros H; try discriminate; reflexivity. Qed.

(* ---- the redis counters ---------------------------------------------------------------------------------------- *)
Fixpoint c_get (cs : ctrs) (k : ckey) : Z :=
  match cs with [] => 0 | (k', v) :: r => if ckey_eqb k' k then v else c_get r k end.

Lemma ckey_eqb_refl k : ckey_eqb k k = true.
Proof. destruct k as [[b i] d]. unfold ckey_eqb. rewrite bytes_eqb_refl. lia. Qed.

Lemma ckey_eqb_id k i i' d : ckey_eqb (k, i, d) (k, i', d) = (i =? i').
Proof. unfold ckey_eqb. rewrite bytes_eqb_refl. lia. Qed.

Lemma ckey_eqb_sym a b : ckey_eqb a b = ckey_eqb b a.
Proof.
  destruct a as [[k i] d], b as [[k' i'] d']. unfold ckey_eqb.
  assert (H : bytes_eqb k k' = bytes_eqb k' k).
  { destruct (bytes_eqb k k') eqn:E1, (bytes_eqb k' k) eqn:E2; try reflexivity.
    - apply bytes_eqb_eq in E1. subst. rewrite bytes_eqb_refl in E2. discriminate.
    - apply bytes_eqb_eq in E2. subst. rewrite bytes_eqb_refl in E1. discriminate. }
  rewrite H. lia.
Qed.

Lemma ckey_eqb_trans a b c : ckey_eqb a b = true -> ckey_eqb a c = ckey_eqb b c.
Proof.
  destruct a as [[k i] d], b as [[k' i'] d'], c as [[k'' i''] d'']. unfold ckey_eqb. intros H.
  apply andb_prop in H. destruct H as [H Hd]. apply andb_prop in H. destruct H as [Hk Hi].
  apply bytes_eqb_eq in Hk. subst k'. replace i' with i by lia. replace d' with d by lia. reflexivity.
Qed.

Lemma ctr_add_spec cs k x :
  snd (ctr_add cs k x) = c_get cs k + x /\
  forall k', c_get (fst (ctr_add cs k x)) k' = if ckey_eqb k k' then c_get cs k + x else c_get cs k'.
Proof.
  induction cs as [|[k0 v0] r IH]; cbn [ctr_add c_get].
  - cbn [fst snd c_get]. split; [lia|]. intros k'. destruct (ckey_eqb k k'); lia.
  - destruct (ckey_eqb k0 k) eqn:E.
    + cbn [fst snd c_get]. split; [reflexivity|]. intros k'.
      rewrite <- (ckey_eqb_trans k0 k k' E). destruct (ckey_eqb k0 k'); reflexivity.
    + destruct (ctr_add r k x) as [r' n] eqn:Er. cbn [fst snd] in *. destruct IH as [IH1 IH2].
      split; [exact IH1|]. intros k'. cbn [c_get]. rewrite IH2.
      destruct (ckey_eqb k0 k') eqn:E0; [|reflexivity].
      destruct (ckey_eqb k k') eqn:E1; [|reflexivity].
      exfalso. rewrite (ckey_eqb_trans k0 k' k E0) in E. rewrite ckey_eqb_sym in E. congruence.
Qed.

(* ---- R under drop / put ---------------------------------------------------------------------------------------- *)
Lemma R_live_inv c l s hi :
  R c l s -> s_hi s = Some hi ->
  maxID l = hi /\ minID l = hi - count c + 1 /\ 0 < minID l /\ wf_lim c l /\
  (forall id slot, minID l <= id <= hi -> 0 <= slot < Z.of_nat (nslots c) -> cell l id slot = ctr (s_hist s) id slot) /\
  hist_bounded c hi (s_hist s).
Proof.
  intros [Hhi _ _|hi' Hhi Hmax Hmin Hpos Hwf Hcell Hb] E; rewrite Hhi in E; [discriminate|].
  injection E as E. rewrite <- E. split; [exact Hmax|]. split; [exact Hmin|]. split; [exact Hpos|]. split; [exact Hwf|].
  split; [exact Hcell|exact Hb].
Qed.

Lemma R_drop c l s hi id :
  R c l s -> s_hi s = Some hi -> minID l <= id <= hi ->
  exists l', reset_row l (id - minID l) = Ok l' /\ R c l' (s_drop id s) /\
    (forall k, k <> Z.to_nat (id - minID l) -> nth k (ring l') [] = nth k (ring l) []).
Proof.
  intros HR Hhi Hid.
  destruct (R_live_inv c l s hi HR Hhi) as [Hmax [Hmin [Hpos [Hwf [Hcell Hb]]]]].
  destruct (reset_row_ok (Z.to_nat (count c)) (nslots c) l (id - minID l) Hwf) as [l' [Hr [Hmn [Hmx [Hwf' [Hcells Hnth]]]]]]; [lia|].
  exists l'. split; [exact Hr|]. split; [|exact Hnth].
  apply (R_live _ _ _ hi); cbn [s_drop s_hi s_hist]; try lia; auto.
  - intros id' slot Hid' Hslot. rewrite cell_cellr, Hmn, Hcells by lia. rewrite ctr_drop.
    destruct (Z.eqb_spec id' id) as [->|Hne].
    + replace (id - minID l =? id - minID l) with true by lia. reflexivity.
    + replace (id' - minID l =? id - minID l) with false by lia. rewrite <- cell_cellr. apply Hcell; lia.
  - apply hist_bounded_drop. exact Hb.
Qed.

Lemma R_put c l s hi id v :
  nslots c = 1%nat -> R c l s -> s_hi s = Some hi -> minID l <= id <= hi ->
  exists b, set_row (ring l) (id - minID l) 0 [v] = Ok b /\ R c (with_ring l b) (s_put id v s).
Proof.
  intros Hn1 HR Hhi Hid.
  destruct (R_live_inv c l s hi HR Hhi) as [Hmax [Hmin [Hpos [Hwf [Hcell Hb]]]]].
  unfold wf_lim in Hwf. rewrite Hn1 in Hwf.
  destruct (set_row1_ok (Z.to_nat (count c)) (ring l) (id - minID l) v Hwf) as [b [Hset [Hwf' Hcells]]]; [lia|].
  exists b. split; [exact Hset|].
  apply (R_live _ _ _ hi); unfold with_ring; cbn [s_put s_hi s_hist minID maxID ring]; try lia; auto.
  - unfold wf_lim. cbn [ring]. rewrite Hn1. exact Hwf'.
  - intros id' slot Hid' Hslot. rewrite Hn1 in Hslot. assert (slot = 0) by lia. subst slot.
    rewrite cell_cellr. cbn [ring minID]. rewrite Hcells by lia. cbn [ctr]. unfold in_cell. cbn [c_id c_slot c_val].
    rewrite ctr_drop.
    destruct (Z.eqb_spec id' id) as [->|Hne].
    + replace (id - minID l =? id - minID l) with true by lia. replace (id =? id) with true by lia. cbn [andb Z.eqb]. lia.
    + replace (id' - minID l =? id - minID l) with false by lia. replace (id =? id') with false by lia. cbn [andb].
      rewrite <- cell_cellr. rewrite Hcell by (rewrite ?Hn1; lia). lia.
  - intros x [<-|Hx]; cbn [c_id c_slot].
    + rewrite Hn1. lia.
    + apply (hist_bounded_drop c hi id (s_hist s) Hb x Hx).
Qed.

(* ================================================================================================================ *)
Section Simple.
Variable c : cfg.
Hypothesis Hc : wf_cfg c = true.
Hypothesis Hs : shares c = [].
Hypothesis Hl : 0 <= limit c.

Lemma nslots1 : nslots c = 1%nat.
Proof. unfold nslots. rewrite Hs. reflexivity. Qed.

Definition step_val (o : op) : Z := if size_kind c then o_size o else 1.

Lemma s_step_simple s o :
  s_step c s o =
  let e := s_eid c (s_window c s (o_now o)) (o_ts o) in
  let p := ctr (s_hist s) e 0 + step_val o <=? limit c in
  ({| s_hi := Some (s_window c s (o_now o));
      s_hist := {| c_id := e; c_slot := 0; c_val := step_val o; c_pass := p |} :: s_hist s |}, p).
Proof.
  unfold s_step. replace (limit c <? 0) with false by lia. unfold s_slot, cell_limit. rewrite Hs. reflexivity.
Qed.

Lemma tid_mono n n' : 0 <= n <= n' -> time_to_id c n <= time_to_id c n'.
Proof. intros H. unfold time_to_id. unfold wf_cfg in Hc. apply Z.quot_le_mono; lia. Qed.

Definition hi_le (s : spec) (t : Z) : Prop := match s_hi s with None => True | Some h => h <= t end.

Lemma hi_le_mono s t t' : hi_le s t -> t <= t' -> hi_le s t'.
Proof. unfold hi_le. destruct (s_hi s); [lia|auto]. Qed.

Lemma window_cur s t n : hi_le s t -> t <= time_to_id c n -> s_window c s n = time_to_id c n.
Proof. unfold hi_le, s_window. destruct (s_hi s); [lia|reflexivity]. Qed.

(* the invariant between the two rings, the redis counters of throttle key k and the reference history *)
Definition Inv (k : bytes) (t : Z) (inc tot : lim) (cs : ctrs) (sref : spec) : Prop :=
  exists sinc stot,
    R c inc sinc /\ R c tot stot /\ hi_le sinc t /\ hi_le stot t /\ hi_le sref t /\
    (forall id, ctr (s_hist sref) id 0 = c_get cs (k, id, 0) + ctr (s_hist sinc) id 0) /\
    (forall id, ctr (s_hist sinc) id 0 <= limit c -> ctr (s_hist stot) id 0 = ctr (s_hist sref) id 0) /\
    (forall id, 0 <= c_get cs (k, id, 0) /\ 0 <= ctr (s_hist sinc) id 0).

Lemma group_idx_nil id i : group_idx [] id i = None.
Proof. reflexivity. Qed.

Lemma ev_step k t inc tot cs sref o :
  Inv k t inc tot cs sref -> t <= time_to_id c (o_now o) -> count c * interval c <= o_now o -> 0 <= o_size o ->
  exists inc' tot',
    rl_allow c [] inc tot (o_now o) (o_ts o) (o_size o) (o_dv o) = Ok (inc', tot', snd (s_step c sref o)) /\
    Inv k (time_to_id c (o_now o)) inc' tot' cs (fst (s_step c sref o)).
Proof.
  intros [sinc [stot [HRi [HRt [Hhi [Hht [Hhr [HB [HC HD]]]]]]]]] Ht Hnow Hsz.
  set (o' := {| o_now := o_now o; o_ts := o_ts o; o_size := o_size o; o_dv := None |}).
  assert (Htimed : timed c o' = true) by (unfold timed; cbn [o' o_now]; lia).
  assert (Hdv : dv_ok c o' = true) by reflexivity.
  assert (Hdve : match o_dv o with None => None | Some id => group_idx [] id 0 end = @None Z) by (destruct (o_dv o); reflexivity).
  unfold rl_allow. rewrite Hdve.
  destruct (allow_R c inc sinc o' Hc Htimed Hdv HRi) as [inc' [Hai HRi']].
  cbn [o' o_now o_ts o_size o_dv] in Hai. rewrite Hai. cbn [bind].
  rewrite (s_step_simple sinc o') in *. rewrite (s_step_simple sref o). cbn zeta in *. cbn [fst snd] in *.
  cbn [o' o_now o_ts] in *.
  rewrite (window_cur sinc t (o_now o) Hhi Ht) in *. rewrite (window_cur sref t (o_now o) Hhr Ht).
  set (W := time_to_id c (o_now o)) in *.
  set (E := s_eid c W (o_ts o)) in *.
  assert (HV : step_val o' = step_val o) by reflexivity. rewrite HV in *.
  set (V := step_val o) in *.
  assert (HV0 : 0 <= V) by (unfold V, step_val; destruct (size_kind c); lia).
  destruct (ctr (s_hist sinc) E 0 + V <=? limit c) eqn:P1.
  - (* the increment limiter lets the event through: the total limiter decides, on the reference total *)
    destruct (allow_R c tot stot o' Hc Htimed Hdv HRt) as [tot' [Hat HRt']].
    cbn [o' o_now o_ts o_size o_dv] in Hat. rewrite Hat. cbn [bind].
    rewrite (s_step_simple stot o') in *. cbn zeta in *. cbn [fst snd] in *. cbn [o' o_now o_ts] in *.
    rewrite (window_cur stot t (o_now o) Hht Ht) in *. fold W in HRt' |- *. fold E in HRt' |- *. rewrite HV in *. fold V in HRt' |- *.
    assert (Heq : ctr (s_hist stot) E 0 = ctr (s_hist sref) E 0) by (apply HC; lia).
    exists inc', tot'. split; [rewrite Heq; reflexivity|].
    eexists _, _. split; [exact HRi'|]. split; [exact HRt'|].
    unfold hi_le. cbn [s_hi s_hist]. split; [lia|]. split; [lia|]. split; [lia|].
    split; [|split].
    + intros id. cbn [ctr]. unfold in_cell. cbn [c_id c_slot c_val]. rewrite HB. lia.
    + intros id. cbn [ctr]. unfold in_cell. cbn [c_id c_slot c_val]. intros Hle.
      assert (Hx : ctr (s_hist stot) id 0 = ctr (s_hist sref) id 0).
      { destruct (Z.eqb_spec E id) as [Hid|Hne]; cbn [andb Z.eqb] in Hle.
        - rewrite <- Hid. exact Heq.
        - apply HC. lia. }
      rewrite Hx. reflexivity.
    + intros id. cbn [ctr]. unfold in_cell. cbn [c_id c_slot c_val]. destruct (HD id) as [H1 H2].
      split; [exact H1|]. destruct ((E =? id) && (0 =? 0)); lia.
  - (* rejected by the increment limiter: the reference total is at least the increment total *)
    cbn [bind]. exists inc', tot. split.
    + f_equal. f_equal. symmetry. destruct (HD E) as [H1 _]. rewrite HB. lia.
    + eexists _, stot. split; [exact HRi'|]. split; [exact HRt|].
      unfold hi_le at 1 3. cbn [s_hi s_hist]. split; [lia|]. split; [apply (hi_le_mono stot t); [exact Hht|exact Ht]|]. split; [lia|].
      split; [|split].
      * intros id. cbn [ctr]. unfold in_cell. cbn [c_id c_slot c_val]. rewrite HB. lia.
      * intros id. cbn [ctr]. unfold in_cell. cbn [c_id c_slot c_val]. intros Hle.
        destruct (Z.eqb_spec E id) as [Hid|Hne]; cbn [andb Z.eqb] in Hle |- *.
        -- exfalso. rewrite <- Hid in Hle. lia.
        -- rewrite HC by lia. reflexivity.
      * intros id. cbn [ctr]. unfold in_cell. cbn [c_id c_slot c_val]. destruct (HD id) as [H1 H2].
        split; [exact H1|]. destruct ((E =? id) && (0 =? 0)); lia.
Qed.

(* ---- one sync -------------------------------------------------------------------------------------------------- *)
Definition InvW (k : bytes) (W : Z) (inc tot : lim) (cs : ctrs) (sref : spec) (sinc stot : spec) : Prop :=
  R c inc sinc /\ R c tot stot /\ s_hi sinc = Some W /\ s_hi stot = Some W /\
  (forall id, ctr (s_hist sref) id 0 = c_get cs (k, id, 0) + ctr (s_hist sinc) id 0) /\
  (forall id, ctr (s_hist sinc) id 0 <= limit c -> ctr (s_hist stot) id 0 = ctr (s_hist sref) id 0) /\
  (forall id, 0 <= c_get cs (k, id, 0) /\ 0 <= ctr (s_hist sinc) id 0).

Lemma sync_rows_ok k W sref : forall snap i inc tot cs sinc stot,
  InvW k W inc tot cs sref sinc stot ->
  0 <= i -> Z.of_nat (length snap) = count c - i ->
  (forall j, (j < length snap)%nat -> nth j snap [] = nth (Z.to_nat i + j) (ring inc) []) ->
  exists inc' tot' cs' sinc' stot',
    sync_rows c [] k (W - count c + 1) W i snap inc tot cs None None = Ok (inc', tot', cs', None) /\
    InvW k W inc' tot' cs' sref sinc' stot'.
Proof.
  induction snap as [|row snap IH]; intros i inc tot cs sinc stot HI Hi Hlen Hsnap.
  - cbn [sync_rows]. exists inc, tot, cs, sinc, stot. split; [reflexivity|exact HI].
  - pose proof HI as [HRi [HRt [Hhi [Hht [HB [HC HD]]]]]].
    destruct (R_live_inv c inc sinc W HRi Hhi) as [Hmaxi [Hmini [Hposi [Hwfi [Hcelli Hbi]]]]].
    destruct (R_live_inv c tot stot W HRt Hht) as [Hmaxt [Hmint [Hpost [Hwft [Hcellt Hbt]]]]].
    cbn [length] in Hlen.
    set (id0 := W - count c + 1 + i).
    assert (Hid0 : minID inc <= id0 <= W) by (unfold id0; lia).
    assert (Hrow : row = nth (Z.to_nat i) (ring inc) []).
    { pose proof (Hsnap 0%nat ltac:(cbn [length]; lia)) as H0. cbn [nth] in H0. rewrite H0. f_equal. lia. }
    assert (Hrow1 : row = [ctr (s_hist sinc) id0 0]).
    { rewrite <- (Hcelli id0 0) by (rewrite ?nslots1; lia).
      rewrite cell_cellr. unfold cellr. replace (id0 - minID inc) with i by (unfold id0; lia).
      rewrite <- Hrow. cbn [Z.to_nat]. apply row1. rewrite Hrow.
      unfold wf_lim in Hwfi. rewrite nslots1 in Hwfi. apply (wf_ring_row (Z.to_nat (count c)) 1); [exact Hwfi|lia]. }
    assert (Hsnap' : forall inc1, (forall k0, k0 <> Z.to_nat i -> nth k0 (ring inc1) [] = nth k0 (ring inc) []) ->
              forall j, (j < length snap)%nat -> nth j snap [] = nth (Z.to_nat (i + 1) + j) (ring inc1) []).
    { intros inc1 Hn j Hj. rewrite Hn by lia.
      pose proof (Hsnap (S j) ltac:(cbn [length]; lia)) as HS. cbn [nth] in HS. rewrite HS. f_equal. lia. }
    cbn [sync_rows]. unfold row_empty. rewrite Hs. rewrite Hrow1. cbn [forallb]. rewrite andb_true_r.
    set (x := ctr (s_hist sinc) id0 0) in *.
    destruct (Z.eqb_spec x 0) as [Hx0|Hx0].
    + (* nothing arrived in this bucket since the last sync *)
      apply (IH (i + 1) inc tot cs sinc stot HI); [lia|lia|].
      apply (Hsnap' inc). intros; reflexivity.
    + cbn [push_row]. destruct (ctr_add_spec cs (k, W - count c + 1 + i, 0) x) as [Hv Hget].
      destruct (ctr_add cs (k, W - count c + 1 + i, 0) x) as [cs1 v] eqn:Eadd. cbn [fst snd] in Hv, Hget.
      fold id0 in Hget, Hv.
      cbn [bind]. unfold actualize. rewrite Hmaxi. replace (W =? W) with true by lia. cbv beta iota zeta.
      destruct (R_drop c inc sinc W id0 HRi Hhi Hid0) as [inc1 [Hreset [HRi1 Hnth]]].
      replace (id0 - minID inc) with i in Hreset, Hnth by (unfold id0; lia).
      rewrite Hreset. cbn [bind]. rewrite Hmaxt. replace (W =? W) with true by lia. cbv beta iota zeta.
      destruct (R_put c tot stot W id0 v nslots1 HRt Hht ltac:(lia)) as [b [Hset HRt1]].
      replace (id0 - minID tot) with i in Hset by (unfold id0; lia).
      rewrite Hset. cbn [bind].
      apply (IH (i + 1) inc1 (with_ring tot b) cs1 (s_drop id0 sinc) (s_put id0 v stot)); [|lia|lia|apply (Hsnap' inc1 Hnth)].
      destruct (HD id0) as [HDr HDi].
      split; [exact HRi1|]. split; [exact HRt1|]. split; [exact Hhi|]. split; [exact Hht|].
      cbn [s_drop s_put s_hist]. split; [|split].
      * intros id. rewrite Hget, ckey_eqb_id, ctr_drop. rewrite (HB id).
        destruct (Z.eqb_spec id0 id) as [<-|Hne].
        -- replace (id0 =? id0) with true by lia. fold x. lia.
        -- replace (id =? id0) with false by lia. lia.
      * intros id. rewrite ctr_drop. cbn [ctr]. unfold in_cell. cbn [c_id c_slot c_val]. rewrite ctr_drop.
        destruct (Z.eqb_spec id id0) as [->|Hne].
        -- intros _. replace (id0 =? id0) with true by lia. cbn [andb Z.eqb]. rewrite (HB id0). fold x. lia.
        -- replace (id0 =? id) with false by lia. cbn [andb]. intros Hle. rewrite (HC id Hle). lia.
      * intros id. rewrite Hget, ckey_eqb_id, ctr_drop. destruct (HD id) as [H1 H2].
        destruct (Z.eqb_spec id0 id) as [<-|Hne].
        -- replace (id0 =? id0) with true by lia. lia.
        -- replace (id =? id0) with false by lia. lia.
Qed.

Lemma far_eid W n : 0 <= n <= FAR -> W = time_to_id c n -> s_eid c W FAR = W.
Proof.
  intros Hn ->. pose proof (tid_mono n FAR Hn). unfold s_eid.
  destruct ((time_to_id c n - count c + 1 <=? time_to_id c FAR) && (time_to_id c FAR <=? time_to_id c n)) eqn:E; lia.
Qed.

Lemma sync_step k t r cs sref n :
  rl_c r = c -> rl_gs r = [] -> rl_tkey r = k ->
  Inv k t (rl_inc r) (rl_tot r) cs sref -> t <= time_to_id c n -> count c * interval c <= n -> n <= FAR ->
  exists r' cs' f,
    sync_one false n [] cs r None = Ok (r', cs', f) /\ rl_c r' = c /\ rl_gs r' = [] /\ rl_tkey r' = k /\
    Inv k (time_to_id c n) (rl_inc r') (rl_tot r') cs' sref.
Proof.
  intros Ec Eg Ek [sinc [stot [HRi [HRt [Hhi [Hht [Hhr [HB [HC HD]]]]]]]]] Ht Hnow Hfar.
  assert (Hn0 : 0 <= n) by (unfold wf_cfg in Hc; nia).
  unfold sync_one. rewrite Ec, Eg, Ek.
  destruct (rebuild_R c (rl_inc r) sinc n FAR Hc Hnow HRi) as [inc1 [Hri [Hmaxi [Hmini [Hposi [Hwfi [Hcelli Hbi]]]]]]].
  destruct (rebuild_R c (rl_tot r) stot n FAR Hc Hnow HRt) as [tot1 [Hrt [Hmaxt [Hmint [Hpost [Hwft [Hcellt Hbt]]]]]]].
  rewrite (window_cur sinc t n Hhi Ht) in *. rewrite (window_cur stot t n Hht Ht) in *.
  set (W := time_to_id c n) in *.
  rewrite (far_eid W n) in Hri, Hrt by (auto; lia).
  rewrite Hri. cbn [bind]. rewrite Hrt. cbn [bind].
  set (sinc1 := {| s_hi := Some W; s_hist := s_hist sinc |}).
  set (stot1 := {| s_hi := Some W; s_hist := s_hist stot |}).
  assert (HRi1 : R c inc1 sinc1) by (apply (R_live _ _ _ W); auto).
  assert (HRt1 : R c tot1 stot1) by (apply (R_live _ _ _ W); auto).
  assert (HI : InvW k W inc1 tot1 cs sref sinc1 stot1).
  { split; [exact HRi1|]. split; [exact HRt1|]. split; [reflexivity|]. split; [reflexivity|].
    cbn [sinc1 stot1 s_hist]. split; [exact HB|]. split; [exact HC|exact HD]. }
  rewrite Hmint.
  destruct (sync_rows_ok k W sref (ring inc1) 0 inc1 tot1 cs sinc1 stot1 HI) as [inc2 [tot2 [cs2 [sinc2 [stot2 [Hsync HI2]]]]]]; [lia| | |].
  { destruct Hwfi as [Hn _]. rewrite Hn. unfold wf_cfg in Hc. lia. }
  { intros j _. reflexivity. }
  rewrite Hsync. cbn [bind a_get].
  eexists _, cs2, None. split; [reflexivity|]. cbn [rl_c rl_gs rl_tkey rl_inc rl_tot].
  split; [reflexivity|]. split; [reflexivity|]. split; [reflexivity|].
  destruct HI2 as [HRi2 [HRt2 [Hhi2 [Hht2 [HB2 [HC2 HD2]]]]]].
  exists sinc2, stot2. split; [exact HRi2|]. split; [exact HRt2|].
  unfold hi_le. rewrite Hhi2, Hht2. split; [lia|]. split; [lia|]. split; [apply (hi_le_mono sref t); assumption|].
  split; [exact HB2|]. split; [exact HC2|exact HD2].
Qed.

(* ---- a whole history of events and syncs ----------------------------------------------------------------------- *)
Lemma rrun_ok k : forall its r cs sref last,
  rl_c r = c -> rl_gs r = [] -> rl_tkey r = k ->
  Inv k (time_to_id c last) (rl_inc r) (rl_tot r) cs sref -> 0 <= last -> rtimed c last its = true ->
  rrun r cs its = Ok (snd (s_run c sref (r_events its))).
Proof.
  induction its as [|it its IH]; intros r cs sref last Ec Eg Ek HI Hlast Ht.
  - reflexivity.
  - cbn [rtimed] in Ht. repeat (apply andb_prop in Ht; destruct Ht as [Ht ?]).
    destruct it as [o|n]; cbn [ritem_clock] in *.
    + cbn [rrun r_events s_run]. rewrite Ec, Eg.
      destruct (ev_step k (time_to_id c last) (rl_inc r) (rl_tot r) cs sref o HI) as [inc' [tot' [Hal HI']]];
        [apply tid_mono; lia|lia|lia|].
      rewrite Hal. cbn [bind].
      destruct (s_step c sref o) as [s1 b] eqn:Es. cbn [fst snd] in *.
      rewrite (IH _ cs s1 (o_now o)); cbn [rl_c rl_gs rl_tkey rl_inc rl_tot]; auto; [|lia].
      cbn [bind]. destruct (s_run c s1 (r_events its)) as [s2 bs]. reflexivity.
    + cbn [rrun r_events].
      destruct (sync_step k (time_to_id c last) r cs sref n Ec Eg Ek HI) as [r' [cs' [f [Hsync [Ec' [Eg' [Ek' HI']]]]]]];
        [apply tid_mono; lia|lia|lia|].
      rewrite Hsync. cbn [bind].
      apply (IH r' cs' sref n); auto. lia.
Qed.

End Simple.

(* one redis limiter without distribution, one process, syncs between events, a clock that does not step back:
   never panics, and every decision is the one of the reference semantics of the in-memory backend *)
Theorem redis_single_process c k its :
  wf_cfg c = true -> shares c = [] -> 0 <= limit c -> rtimed c 0 its = true ->
  rrun (rl_fresh c k) [] its = Ok (snd (s_run c spec0 (r_events its))).
Proof.
  intros Hc Hs Hl Ht.
  apply (rrun_ok c Hc Hs Hl k its (rl_fresh c k) [] spec0 0); auto; [|lia].
  exists spec0, spec0. cbn [rl_fresh rl_inc rl_tot].
  split; [apply R_spec0|]. split; [apply R_spec0|].
  unfold hi_le. cbn [spec0 s_hi s_hist ctr c_get]. repeat split; auto; lia.
Qed.

(* the restriction to limiters WITHOUT distribution is needed: the two limiters run getDistrData on their own counters,
   the sync overwrites the total ring with the increment limiter's attribution, and a stolen charge vanishes from the
   listed slot.  Limit 10 = default share 9 + listed share 1, one bucket (id 2): 11 events pass. *)
Definition c_rd : cfg := {| count := 2; interval := 10; size_kind := false; limit := 10; deflimit := 9; shares := [1] |}.
Definition r_rd : rl :=
  {| rl_c := c_rd; rl_gs := [(10, [0])]; rl_tkey := []; rl_lkey := []; rl_inc := lim0 c_rd; rl_tot := lim0 c_rd |}.
Definition ev_rd (dv : option Z) : ritem := REv {| o_now := 25; o_ts := 25; o_size := 1; o_dv := dv |}.
Lemma redis_distribution_refuted :
  let its := repeat (ev_rd None) 9 ++ [RSync 25; ev_rd None; RSync 25; ev_rd (Some 0)] in
  rtimed c_rd 0 its = true /\ rrun r_rd [] its = Ok (repeat true 11) /\
  eids_from c_rd None (r_events its) = repeat 2 11 /\ deflimit c_rd + sumZ (shares c_rd) = 10.
Proof. vm_compute. repeat split. Qed.

(* non-vacuity of redis_single_process: limit 2, two buckets of 10ns; a sync between the second and the third event of
   bucket 2, a later bucket, a late event timed back into the full bucket *)
Lemma redis_single_process_nonvacuous :
  let c := {| count := 2; interval := 10; size_kind := false; limit := 2; deflimit := 0; shares := [] |} in
  let e := fun n t => REv {| o_now := n; o_ts := t; o_size := 1; o_dv := None |} in
  let its := [e 20 20; e 21 21; RSync 22; e 23 23; e 31 31; RSync 35; e 36 25; e 36 36] in
  wf_cfg c = true /\ rtimed c 0 its = true /\
  rrun (rl_fresh c []) [] its = Ok [true; true; false; true; false; true].
Proof. vm_compute. repeat split. Qed.
