(* Proofs for C18, part 2: keep_fields (the trie, traverseFieldsTree and its delete buffers). *)
From Verif Require Import Base.Sx Base.GoSem Base.Json Model.Fields Proofs.Fields.
From Coq Require Import Lia Permutation.

(* ------------------------------------------------------------------------------------------ *)
(* the trie built by Start                                                                     *)
(* ------------------------------------------------------------------------------------------ *)
Fixpoint ins_child (k : bytes) (r : path) (ch : list (bytes * trie)) : list (bytes * trie) :=
  match ch with
  | [] => [(k, trie_insert r (Trie []))]
  | (k', c) :: ch' =>
      if key_eqb k' k then (k', trie_insert r c) :: ch' else (k', c) :: ins_child k r ch'
  end.
Lemma trie_insert_cons k r t : trie_insert (k :: r) t = Trie (ins_child k r (children t)).
Proof.
  cbn [trie_insert]. f_equal. induction (children t) as [|[k' c] ch IH]; [reflexivity|].
  cbn [ins_child]. rewrite <- IH. reflexivity.
Qed.

Definition tdefault (o : option trie) : trie := match o with Some c => c | None => Trie [] end.

Lemma get_ins_child k r ch k2 :
  trie_get (ins_child k r ch) k2 =
  if key_eqb k k2 then Some (trie_insert r (tdefault (trie_get ch k))) else trie_get ch k2.
Proof.
  induction ch as [|[k' c] ch IH]; cbn [ins_child trie_get].
  - destruct (key_eqb k k2); reflexivity.
  - destruct (key_eqb k' k) eqn:E1.
    + apply key_eqb_eq in E1. subst k'. cbn [trie_get tdefault].
      destruct (key_eqb k k2); reflexivity.
    + cbn [trie_get]. rewrite IH. destruct (key_eqb k k2) eqn:E2.
      * apply key_eqb_eq in E2. subst k2. rewrite E1. reflexivity.
      * reflexivity.
Qed.

Definition trie_fold (t : trie) (ps : list path) : trie := fold_left (fun t p => trie_insert p t) ps t.

Lemma trie_fold_get : forall ps t k,
  trie_get (children (trie_fold t ps)) k =
  match trie_get (children t) k, tails k ps with
  | None, [] => None
  | o, ts => Some (trie_fold (tdefault o) ts)
  end.
Proof.
  induction ps as [|p ps IH]; intros t k.
  - cbn. destruct (trie_get (children t) k); reflexivity.
  - unfold trie_fold in *. cbn [fold_left]. rewrite IH. destruct p as [|k' r].
    + cbn [trie_insert tails]. reflexivity.
    + rewrite trie_insert_cons. cbn [children tails]. rewrite get_ins_child.
      destruct (key_eqb k' k) eqn:E.
      * apply key_eqb_eq in E. subst k'. cbn [tdefault fold_left].
        destruct (trie_get (children t) k); reflexivity.
      * reflexivity.
Qed.

Lemma trie_of_get ps k :
  trie_get (children (trie_of ps)) k =
  match tails k ps with [] => None | ts => Some (trie_of ts) end.
Proof.
  unfold trie_of. change (fold_left (fun t p => trie_insert p t) ps (Trie [])) with (trie_fold (Trie []) ps).
  rewrite trie_fold_get. cbn [children trie_get tdefault]. destruct (tails k ps); reflexivity.
Qed.

Lemma trie_fold_leaf : forall ps t, is_leaf (trie_fold t ps) = is_leaf t && forallb is_nil ps.
Proof.
  induction ps as [|p ps IH]; intro t; [cbn; rewrite andb_true_r; reflexivity|].
  unfold trie_fold in *. cbn [fold_left forallb]. rewrite IH. destruct p as [|k r].
  - reflexivity.
  - rewrite trie_insert_cons. cbn [is_nil]. unfold is_leaf at 1. cbn [children].
    destruct (children t) as [|[k' c] ch]; cbn [ins_child]; [|destruct (key_eqb k' k)];
      cbn; rewrite andb_false_r; reflexivity.
Qed.
Lemma trie_of_leaf ps : is_leaf (trie_of ps) = forallb is_nil ps.
Proof. apply (trie_fold_leaf ps (Trie [])). Qed.

(* prefix-free path sets *)
Lemma prefix_free_tails k : forall ps, prefix_free ps -> prefix_free (tails k ps).
Proof.
  induction ps as [|p r IH]; intro PF; [exact I|]. destruct PF as [F PF]. specialize (IH PF).
  destruct p as [|k' t]; cbn [tails]; [exact IH|].
  destruct (key_eqb k' k) eqn:E; [|exact IH]. apply key_eqb_eq in E. subst k'.
  cbn [prefix_free]. split; [|exact IH]. apply Forall_forall. intros q Hq. apply tails_in in Hq.
  rewrite Forall_forall in F. specialize (F _ Hq). cbn [is_prefix] in F. rewrite key_eqb_refl in F. exact F.
Qed.

Lemma prefix_free_nil_only ps : prefix_free ps -> In [] ps -> ps = [[]].
Proof.
  destruct ps as [|p r]; intros PF H; [destruct H|]. destruct PF as [F PF].
  rewrite Forall_forall in F. destruct H as [->|H].
  - destruct r as [|q r]; [reflexivity|]. destruct (F q (or_introl eq_refl)) as [H1 _]. discriminate.
  - destruct (F _ H) as [_ H2]. discriminate.
Qed.

Lemma pf_leaf ts : prefix_free ts -> ts <> [] -> forallb is_nil ts = existsb is_nil ts.
Proof.
  intros PF NE. destruct (existsb is_nil ts) eqn:E.
  - apply existsb_exists in E as ([|] & H & E); [|discriminate].
    rewrite (prefix_free_nil_only ts PF H). reflexivity.
  - destruct ts as [|p r]; [congruence|]. cbn in E. apply orb_false_iff in E as [E _].
    cbn. rewrite E. reflexivity.
Qed.

(* ------------------------------------------------------------------------------------------ *)
(* traverseFieldsTree, one level                                                               *)
(* ------------------------------------------------------------------------------------------ *)
Definition kloop (rec : trie -> json -> bufs_t -> res (bool * json * bufs_t)) (t : trie) (depth : nat) :=
  fix loop (keys : list bytes) (fs : fields) (bufs : bufs_t) (pres : bool) {struct keys}
    : res (fields * bufs_t * bool) :=
    match keys with
    | [] => Ok (fs, bufs, pres)
    | k :: keys' =>
        match trie_get (children t) k with
        | Some c =>
            if is_leaf c then loop keys' fs bufs true
            else
              match field_get fs k with
              | Some v =>
                  r <- rec c v bufs ;;
                  let '(e, v', bufs') := r in
                  let fs' := upd_field k (fun _ => v') fs in
                  if (e : bool) then loop keys' fs' bufs' true
                  else (b2 <- buf_push bufs' depth k ;; loop keys' fs' b2 pres)
              | None => b2 <- buf_push bufs depth k ;; loop keys' fs b2 pres
              end
        | None => b2 <- buf_push bufs depth k ;; loop keys' fs b2 pres
        end
    end.

Lemma trav_unfold f t j depth bufs :
  trav (S f) t j depth bufs =
  if is_leaf t then Ok (true, j, bufs) else
  match j with
  | JObj fs0 =>
      r <- kloop (fun c v b => trav f c v (S depth) b) t depth (map fst fs0) fs0 bufs false ;;
      let '(fs, bufs1, pres) := r in
      b <- idx bufs1 (Z.of_nat depth) ;;
      let fs' := if Nat.eqb depth 0 || pres then del_keys (rev b) fs else fs in
      Ok (pres, JObj fs', set_at bufs1 depth [])
  | _ => Ok (false, j, bufs)
  end.
Proof. reflexivity. Qed.

Definition is_some {A} (o : option A) : bool := match o with Some _ => true | None => false end.

Definition decide (ps : list path) (kv : bytes * json) : bool :=
  existsb is_nil (tails (fst kv) ps) || is_some (proj (tails (fst kv) ps) (snd kv)).
Definition dropped (ps : list path) (fs : fields) : list bytes :=
  map fst (filter (fun kv => negb (decide ps kv)) fs).
Definition frel (ps : list path) (a b : bytes * json) : Prop :=
  fst b = fst a /\
  if existsb is_nil (tails (fst a) ps) then snd b = snd a
  else match proj (tails (fst a) ps) (snd a) with
       | Some x => jperm (snd b) x
       | None => snd b = snd a
       end.

Lemma proj_nil : forall j, proj [] j = None.
Proof.
  induction j as [|x|x|x|l _|fs IH] using json_ind2; try reflexivity.
  rewrite proj_obj.
  assert (E : proj_fields [] fs = []).
  { induction IH as [|[k v] r Hv _ IHr]; [reflexivity|]. cbn [proj_fields tails existsb].
    cbn [snd] in Hv. rewrite Hv. exact IHr. }
  rewrite E. reflexivity.
Qed.

(* buffers *)
Lemma set_at_app {A} (pre : list A) b rest x : set_at (pre ++ b :: rest) (length pre) x = pre ++ x :: rest.
Proof. induction pre as [|y pre IH]; [reflexivity|]. cbn. rewrite IH. reflexivity. Qed.
Lemma idx_bufs (pre : bufs_t) b rest : idx (pre ++ b :: rest) (Z.of_nat (length pre)) = Ok b.
Proof. apply (idx_at _ pre b rest); reflexivity. Qed.
Lemma buf_push_app (pre : bufs_t) b rest k :
  buf_push (pre ++ b :: rest) (length pre) k = Ok (pre ++ (k :: b) :: rest).
Proof. unfold buf_push. rewrite idx_bufs. cbn [bind]. rewrite set_at_app. reflexivity. Qed.

Lemma field_get_app_notin done k v r :
  ~ In k (keys done) -> field_get (done ++ (k, v) :: r) k = Some v.
Proof.
  induction done as [|[k' v'] d IH]; cbn; intro H.
  - rewrite key_eqb_refl. reflexivity.
  - destruct (key_eqb k' k) eqn:E; [apply key_eqb_eq in E; subst; tauto|]. apply IH. tauto.
Qed.
Lemma upd_field_app_notin done k v r f :
  ~ In k (keys done) -> upd_field k f (done ++ (k, v) :: r) = done ++ (k, f v) :: r.
Proof.
  induction done as [|[k' v'] d IH]; cbn; intro H.
  - rewrite key_eqb_refl. reflexivity.
  - destruct (key_eqb k' k) eqn:E; [apply key_eqb_eq in E; subst; tauto|]. rewrite IH by tauto. reflexivity.
Qed.

Section Level.
  Variable rec : trie -> json -> bufs_t -> res (bool * json * bufs_t).
  Variable ps : list path.
  Variable pre : bufs_t.
  Variable m : nat.
  Hypothesis PF : prefix_free ps.
  Hypothesis Hrec : forall k v b,
    tails k ps <> [] -> existsb is_nil (tails k ps) = false -> ouniq v ->
    exists e v',
      rec (trie_of (tails k ps)) v (pre ++ b :: repeat [] m) = Ok (e, v', pre ++ b :: repeat [] m) /\
      e = is_some (proj (tails k ps) v) /\
      (e = true -> exists x, proj (tails k ps) v = Some x /\ jperm v' x) /\
      (e = false -> v' = v).

  Lemma kloop_spec : forall todo done b pres,
    NoDup (keys (done ++ todo)) -> Forall (fun kv => ouniq (snd kv)) todo ->
    exists todo',
      kloop rec (trie_of ps) (length pre) (keys todo) (done ++ todo) (pre ++ b :: repeat [] m) pres
      = Ok (done ++ todo', pre ++ (rev (dropped ps todo) ++ b) :: repeat [] m,
            pres || existsb (decide ps) todo) /\
      Forall2 (frel ps) todo todo'.
  Proof.
    induction todo as [|[k v] r IH]; intros done b pres ND FU.
    - exists []. split; [|constructor]. cbn. rewrite orb_false_r. reflexivity.
    - inversion FU as [|? ? Uv FU']; subst. cbn [snd] in Uv.
      assert (Hk : ~ In k (keys done)).
      { unfold keys in ND. rewrite map_app in ND. cbn in ND. apply NoDup_remove_2 in ND.
        intro H. apply ND. apply in_or_app. left. exact H. }
      assert (ND' : forall v', NoDup (keys ((done ++ [(k, v')]) ++ r))).
      { intro v'. unfold keys in *. rewrite <- app_assoc. rewrite !map_app in *. exact ND. }
      assert (Reassoc : forall v', done ++ (k, v') :: r = (done ++ [(k, v')]) ++ r)
        by (intro; rewrite <- app_assoc; reflexivity).
      cbn [keys map fst kloop]. fold (keys r). rewrite trie_of_get.
      unfold decide at 1. unfold dropped. cbn [existsb filter fst snd].
      fold (decide ps). 
      destruct (tails k ps) as [|t0 ts0] eqn:ET.
      + (* no configured path goes through k *)
        rewrite buf_push_app. cbn [bind]. rewrite (Reassoc v).
        destruct (IH (done ++ [(k, v)]) (k :: b) pres (ND' v) FU') as (todo' & E & F2).
        exists ((k, v) :: todo'). split.
        * rewrite E. unfold decide at 2. cbn [fst snd]. rewrite ET. cbn [existsb]. rewrite proj_nil.
          cbn [is_some orb negb map fst rev]. rewrite <- !app_assoc. reflexivity.
        * constructor; [|exact F2]. split; [reflexivity|]. cbn [fst snd]. rewrite ET. cbn [existsb].
          rewrite proj_nil. reflexivity.
      + rewrite <- ET in *. assert (NE : tails k ps <> []) by (rewrite ET; discriminate).
        destruct (existsb is_nil (tails k ps)) eqn:EN.
        * (* k is a configured leaf: kept whole *)
          replace (match tails k ps with [] => None | _ :: _ => Some (trie_of (tails k ps)) end)
            with (Some (trie_of (tails k ps))) by (rewrite ET; reflexivity).
          cbn beta iota. rewrite trie_of_leaf, pf_leaf, EN by (try apply prefix_free_tails; assumption).
          rewrite (Reassoc v).
          destruct (IH (done ++ [(k, v)]) b true (ND' v) FU') as (todo' & E & F2).
          exists ((k, v) :: todo'). split.
          -- rewrite E. unfold decide at 2. cbn [fst snd]. rewrite EN. cbn [orb negb]. rewrite orb_true_r.
             rewrite <- !app_assoc. reflexivity.
          -- constructor; [|exact F2]. split; [reflexivity|]. cbn [fst snd]. rewrite EN. reflexivity.
        * replace (match tails k ps with [] => None | _ :: _ => Some (trie_of (tails k ps)) end)
            with (Some (trie_of (tails k ps))) by (rewrite ET; reflexivity).
          cbn beta iota. rewrite trie_of_leaf, pf_leaf, EN by (try apply prefix_free_tails; assumption).
          rewrite field_get_app_notin by exact Hk.
          destruct (Hrec k v b NE EN Uv) as (e & v' & ER & Ee & Et & Ef).
          rewrite ER. cbn [bind]. rewrite upd_field_app_notin by exact Hk.
          rewrite (Reassoc v'). destruct e.
          -- destruct (Et eq_refl) as (x & Px & Jx).
             destruct (IH (done ++ [(k, v')]) b true (ND' v') FU') as (todo' & E & F2).
             exists ((k, v') :: todo'). split.
             ++ rewrite E. unfold decide at 2. cbn [fst snd]. rewrite EN, Px. cbn [is_some orb negb].
                rewrite orb_true_r. rewrite <- !app_assoc. reflexivity.
             ++ constructor; [|exact F2]. split; [reflexivity|]. cbn [fst snd]. rewrite EN, Px. exact Jx.
          -- rewrite (Ef eq_refl) in *. rewrite buf_push_app. cbn [bind].
             destruct (IH (done ++ [(k, v)]) (k :: b) pres (ND' v) FU') as (todo' & E & F2).
             exists ((k, v) :: todo'). split.
             ++ rewrite E. unfold decide at 2. cbn [fst snd]. rewrite EN, <- Ee. cbn [orb negb map fst rev].
                rewrite <- !app_assoc. reflexivity.
             ++ constructor; [|exact F2]. split; [reflexivity|]. cbn [fst snd]. rewrite EN.
                destruct (proj (tails k ps) v); [discriminate|reflexivity].
  Qed.
End Level.

(* ------------------------------------------------------------------------------------------ *)
(* the deletions after the loop                                                                *)
(* ------------------------------------------------------------------------------------------ *)
Lemma filter_filter {A} (f g : A -> bool) l : filter f (filter g l) = filter (fun x => g x && f x) l.
Proof.
  induction l as [|x l IH]; [reflexivity|]. cbn [filter]. destruct (g x); cbn [filter andb]; [|exact IH].
  destruct (f x); rewrite IH; reflexivity.
Qed.
Lemma filter_perm {A} (f : A -> bool) l l' : Permutation l l' -> Permutation (filter f l) (filter f l').
Proof.
  induction 1 as [|x l l' _ IH|x y l|l l' l'' _ IH1 _ IH2]; cbn [filter].
  - apply Permutation_refl.
  - destruct (f x); [apply perm_skip|]; exact IH.
  - destruct (f x), (f y); try apply Permutation_refl. apply perm_swap.
  - eapply Permutation_trans; eassumption.
Qed.

Definition not_in_keys (ks : list bytes) (kv : bytes * json) : bool := negb (mem_key (fst kv) ks).

Lemma del_keys_perm : forall ks fs, NoDup (keys fs) ->
  Permutation (del_keys ks fs) (filter (not_in_keys ks) fs).
Proof.
  induction ks as [|k r IH]; intros fs ND.
  - cbn [del_keys]. rewrite (filter_ext _ (fun _ => true)) by reflexivity.
    assert (E : forall (l : fields), filter (fun _ => true) l = l)
      by (induction l as [|x l IHl]; [reflexivity|cbn; rewrite IHl; reflexivity]).
    rewrite E. apply Permutation_refl.
  - cbn [del_keys]. pose proof (del_key_perm k fs ND) as P.
    assert (ND' : NoDup (keys (del_key k fs))).
    { eapply Permutation_NoDup; [apply Permutation_map; apply Permutation_sym; exact P|].
      apply filter_keys_nodup. exact ND. }
    eapply Permutation_trans; [apply IH; exact ND'|].
    eapply Permutation_trans; [apply filter_perm; exact P|].
    rewrite filter_filter. rewrite (filter_ext _ (not_in_keys (k :: r))); [apply Permutation_refl|].
    intros [k' v]. unfold not_key, not_in_keys. cbn [fst mem_key]. rewrite negb_orb, (key_eqb_sym k k').
    reflexivity.
Qed.

Lemma mem_key_in k ks : mem_key k ks = true <-> In k ks.
Proof.
  induction ks as [|x r IH]; cbn; [split; [discriminate|tauto]|].
  rewrite orb_true_iff, key_eqb_eq, IH. tauto.
Qed.

Lemma dropped_mem ps fs k v :
  NoDup (keys fs) -> In (k, v) fs -> mem_key k (dropped ps fs) = negb (decide ps (k, v)).
Proof.
  intros ND HI. apply bool_eq_iff. rewrite mem_key_in. unfold dropped. rewrite in_map_iff. split.
  - intros ([k2 v2] & E & H). cbn in E. subst k2. apply filter_In in H as [H D].
    pose proof (in_field_get _ _ _ ND H) as G1. pose proof (in_field_get _ _ _ ND HI) as G2.
    rewrite G1 in G2. inversion G2; subst. exact D.
  - intro D. exists (k, v). split; [reflexivity|]. apply filter_In. split; assumption.
Qed.

Lemma keep_level_aux ps D : forall fs0 fs1,
  Forall2 (frel ps) fs0 fs1 ->
  (forall k v, In (k, v) fs0 -> mem_key k D = negb (decide ps (k, v))) ->
  fperm (filter (not_in_keys D) fs1) (proj_fields ps fs0).
Proof.
  induction 1 as [|[k v] [k' v'] r r' [Ek Ev] _ IH]; intro HD; [apply FP_nil|].
  cbn [fst snd] in Ek, Ev. subst k'.
  assert (IH' : fperm (filter (not_in_keys D) r') (proj_fields ps r)).
  { apply IH. intros k2 v2 H2. apply HD. right. exact H2. }
  cbn [filter proj_fields]. unfold not_in_keys at 1. cbn [fst].
  rewrite (HD k v (or_introl eq_refl)), negb_involutive. unfold decide. cbn [fst snd].
  destruct (existsb is_nil (tails k ps)).
  - cbn [orb]. subst v'. apply FP_cons; [apply JP_refl|exact IH'].
  - cbn [orb]. destruct (proj (tails k ps) v) as [x|]; cbn [is_some].
    + apply FP_cons; [exact Ev|exact IH'].
    + exact IH'.
Qed.

Lemma frel_keys ps fs0 fs1 : Forall2 (frel ps) fs0 fs1 -> keys fs1 = keys fs0.
Proof.
  induction 1 as [|a b r r' [Ek _] _ IH]; [reflexivity|]. cbn. rewrite Ek. f_equal. exact IH.
Qed.

Lemma keep_level ps fs0 fs1 :
  NoDup (keys fs0) -> Forall2 (frel ps) fs0 fs1 ->
  fperm (del_keys (dropped ps fs0) fs1) (proj_fields ps fs0).
Proof.
  intros ND F2. eapply FP_trans.
  - apply Permutation_fperm. apply del_keys_perm. rewrite (frel_keys _ _ _ F2). exact ND.
  - apply keep_level_aux; [exact F2|]. intros k v H. apply dropped_mem; assumption.
Qed.

Lemma frel_unchanged ps fs0 fs1 :
  Forall2 (frel ps) fs0 fs1 -> existsb (decide ps) fs0 = false -> fs1 = fs0.
Proof.
  induction 1 as [|[k v] [k' v'] r r' [Ek Ev] _ IH]; intro E; [reflexivity|].
  cbn [existsb] in E. apply orb_false_iff in E as [E1 E2]. rewrite (IH E2). f_equal.
  cbn [fst snd] in *. subst k'. f_equal. unfold decide in E1. cbn [fst snd] in E1.
  apply orb_false_iff in E1 as [E1a E1b]. rewrite E1a in Ev.
  destruct (proj (tails k ps) v); [discriminate|exact Ev].
Qed.

Lemma proj_some_decide ps fs :
  is_some (proj ps (JObj fs)) = existsb (decide ps) fs /\
  (existsb (decide ps) fs = true -> proj ps (JObj fs) = Some (JObj (proj_fields ps fs))).
Proof.
  rewrite proj_obj.
  assert (E : is_nil (proj_fields ps fs) = negb (existsb (decide ps) fs)).
  { induction fs as [|[k v] r IH]; [reflexivity|]. cbn [proj_fields existsb]. unfold decide at 1.
    cbn [fst snd]. destruct (existsb is_nil (tails k ps)); [reflexivity|].
    destruct (proj (tails k ps) v); [reflexivity|exact IH]. }
  destruct (proj_fields ps fs) eqn:EP; cbn [is_nil] in E.
  - destruct (existsb (decide ps) fs); [discriminate|]. split; [reflexivity|discriminate].
  - destruct (existsb (decide ps) fs); [|discriminate]. split; reflexivity.
Qed.

(* ------------------------------------------------------------------------------------------ *)
(* traverseFieldsTree as a whole                                                               *)
(* ------------------------------------------------------------------------------------------ *)
Lemma tails_bound k n ps :
  Forall (fun p => (length p <= n)%nat) ps -> Forall (fun p => (length p <= n - 1)%nat) (tails k ps).
Proof.
  intro F. apply Forall_forall. intros t Ht. apply tails_in in Ht. rewrite Forall_forall in F.
  specialize (F _ Ht). cbn in F. lia.
Qed.

Lemma proj_nonobj ps j : is_obj j = false -> proj ps j = None.
Proof. destruct j; try reflexivity. discriminate. Qed.

Theorem trav_spec : forall fuel ps j pre m n,
  prefix_free ps -> ps <> [] -> existsb is_nil ps = false ->
  Forall (fun p => (length p <= n)%nat) ps -> (n < fuel)%nat -> (n <= m)%nat -> ouniq j ->
  exists e j',
    trav fuel (trie_of ps) j (length pre) (pre ++ repeat [] m) = Ok (e, j', pre ++ repeat [] m) /\
    e = is_some (proj ps j) /\
    (e = false -> length pre <> 0%nat -> j' = j) /\
    (forall fs, j = JObj fs -> e = true \/ length pre = 0%nat ->
       exists gs, j' = JObj gs /\ fperm gs (proj_fields ps fs)) /\
    (is_obj j = false -> j' = j).
Proof.
  induction fuel as [|f IH]; intros ps j pre m n PF NE EN B Lf Lm U; [lia|].
  rewrite trav_unfold, trie_of_leaf, pf_leaf, EN by assumption.
  destruct (is_obj j) eqn:O.
  2:{ exists false, j. rewrite (proj_nonobj _ _ O). destruct j; try discriminate;
        (split; [reflexivity|]); repeat split; try reflexivity; intros; discriminate. }
  destruct j as [| | | | |fs0]; try discriminate. clear O.
  apply ouniq_obj in U as [ND FU].
  (* some path is not empty, so there is a buffer for this depth *)
  assert (Hn : (1 <= n)%nat).
  { destruct ps as [|p r]; [congruence|]. cbn in EN. apply orb_false_iff in EN as [E _].
    inversion B; subst. destruct p; [discriminate|]. cbn in *. lia. }
  destruct m as [|m']; [lia|]. cbn [repeat].
  assert (Hrec : forall k v b,
    tails k ps <> [] -> existsb is_nil (tails k ps) = false -> ouniq v ->
    exists e v',
      (fun c v b => trav f c v (S (length pre)) b) (trie_of (tails k ps)) v (pre ++ b :: repeat [] m')
        = Ok (e, v', pre ++ b :: repeat [] m') /\
      e = is_some (proj (tails k ps) v) /\
      (e = true -> exists x, proj (tails k ps) v = Some x /\ jperm v' x) /\
      (e = false -> v' = v)).
  { intros k v b TN TE Uv.
    destruct (IH (tails k ps) v (pre ++ [b]) m' (n - 1)%nat) as (e & v' & E & Ee & E3 & E4 & E5);
      try assumption; try lia.
    - apply prefix_free_tails. exact PF.
    - apply tails_bound. exact B.
    - exists e, v'. rewrite app_length in E. cbn [length] in E. rewrite Nat.add_1_r in E.
      rewrite <- app_assoc in E. cbn [app] in E. split; [exact E|]. split; [exact Ee|]. split.
      + intro Et. assert (Et' := Et). rewrite Ee in Et'.
        destruct v as [| | | | |fs]; try (cbn in Et'; discriminate Et').
        destruct (proj_some_decide (tails k ps) fs) as [P1 P2]. rewrite P1 in Et'.
        destruct (E4 fs eq_refl (or_introl Et)) as (gs & -> & FP).
        exists (JObj (proj_fields (tails k ps) fs)). split; [apply P2; exact Et'|].
        apply JP_obj. exact FP.
      + intro Ef. apply E3; [exact Ef|]. rewrite app_length. cbn. lia. }
  destruct (kloop_spec _ ps pre m' PF Hrec fs0 [] [] false ND FU) as (fs1 & EL & F2).
  cbn [app] in EL. unfold keys in EL. rewrite EL. cbn [bind]. rewrite idx_bufs. cbn [bind].
  rewrite set_at_app, app_nil_r, rev_involutive. cbn [orb].
  destruct (proj_some_decide ps fs0) as [P1 P2].
  eexists. eexists. split; [reflexivity|]. split; [symmetry; exact P1|]. split; [|split].
  - intros Ef Hd. rewrite Ef, orb_false_r. apply Nat.eqb_neq in Hd. rewrite Hd.
    rewrite (frel_unchanged _ _ _ F2 Ef). reflexivity.
  - intros fs Ej Hc. inversion Ej; subst fs.
    assert (C : Nat.eqb (length pre) 0 || existsb (decide ps) fs0 = true).
    { destruct Hc as [Hc | Hc]; rewrite Hc; [apply orb_true_r|reflexivity]. }
    rewrite C. eexists. split; [reflexivity|]. apply keep_level; assumption.
  - intro; discriminate.
Qed.

Lemma max_depth_ge : forall ps a,
  (a <= fold_left (fun m (p : path) => Nat.max m (length p)) ps a)%nat /\
  Forall (fun p : path => (length p <= fold_left (fun m (p : path) => Nat.max m (length p)) ps a)%nat) ps.
Proof.
  induction ps as [|p ps IH]; intro a; [split; [cbn; lia|constructor]|].
  cbn [fold_left]. destruct (IH (Nat.max a (length p))) as [H1 H2]. split; [lia|].
  constructor; [lia|exact H2].
Qed.

Lemma no_empty_existsb ps : no_empty ps -> existsb is_nil ps = false.
Proof.
  induction 1 as [|p r Hp _ IH]; [reflexivity|]. cbn. rewrite IH. destruct p; [congruence|reflexivity].
Qed.

Lemma project_obj ps fs : project ps (JObj fs) = JObj (proj_fields ps fs).
Proof. unfold project. cbn [is_obj]. rewrite proj_obj. destruct (proj_fields ps fs); reflexivity. Qed.

(* keep_fields.Do = project, up to key order; the delete buffers are empty again afterwards *)
Theorem keep_spec : forall ps j,
  prefix_free ps -> ps <> [] -> no_empty ps -> ouniq j ->
  exists j', keep_run ps j = Ok (j', repeat [] (max_depth ps)) /\ jperm j' (project ps j).
Proof.
  intros ps j PF NE NN U. unfold keep_run. destruct (is_obj j) eqn:O.
  - destruct j as [| | | | |fs]; try discriminate.
    destruct (trav_spec (S (max_depth ps)) ps (JObj fs) [] (max_depth ps) (max_depth ps))
      as (e & j' & E & _ & _ & E4 & _); try assumption; try lia.
    + apply no_empty_existsb. exact NN.
    + apply (max_depth_ge ps 0).
    + cbn [length app] in E. rewrite E. cbn [bind]. exists j'. split; [reflexivity|].
      destruct (E4 fs eq_refl (or_intror eq_refl)) as (gs & -> & FP).
      rewrite project_obj. apply JP_obj. exact FP.
  - exists j. split; [reflexivity|]. unfold project. rewrite O. apply JP_refl.
Qed.

(* ------------------------------------------------------------------------------------------ *)
(* the two plugins, from the configured selectors to the event                                 *)
(* ------------------------------------------------------------------------------------------ *)
Definition plain (sels : list bytes) : Prop := Forall (fun s => has_dotdot s = false) sels.

Lemma parse_all_split : forall sels qs,
  plain sels -> parse_all sels = Ok qs -> qs = map split_unesc sels /\ no_empty qs.
Proof.
  induction sels as [|s r IH]; intros qs PL H.
  - cbn in H. inversion H. split; [reflexivity|constructor].
  - inversion PL as [|? ? Hs PL']; subst. cbn [parse_all] in H. rewrite (selector_split s Hs) in H.
    cbn [bind] in H. destruct (split_unesc s) as [|x p] eqn:E; [discriminate|].
    destruct (parse_all r) as [ps| |] eqn:PA; try discriminate. cbn [bind] in H. inversion H; subst.
    destruct (IH ps PL' eq_refl) as [-> NE]. cbn [map]. rewrite E. split; [reflexivity|].
    constructor; [discriminate|exact NE].
Qed.

Lemma parse_all_total : forall sels, (exists qs, parse_all sels = Ok qs) \/ parse_all sels = Err 2.
Proof.
  induction sels as [|s r IH]; [left; eexists; reflexivity|].
  cbn [parse_all]. destruct (parse_selector_total s) as (p & ->). cbn [bind].
  destruct p; [right; reflexivity|]. destruct IH as [(qs & ->)| ->]; [left; eexists; reflexivity|right; reflexivity].
Qed.

(* ParseNestedFields never panics and always terminates: paths, "empty fields list" or "empty path parsed" *)
Theorem parse_nested_total : forall sels,
  (exists ps, parse_nested sels = Ok ps) \/ parse_nested sels = Err 1 \/ parse_nested sels = Err 2.
Proof.
  intros [|s r]; [right; left; reflexivity|]. unfold parse_nested.
  destruct (parse_all_total (s :: r)) as [(qs & ->)| ->]; [|right; right; reflexivity].
  cbn [bind]. destruct (nest_spec qs) as (R & -> & _). left. eexists. reflexivity.
Qed.

Lemma parse_nested_inv sels ps :
  plain sels -> parse_nested sels = Ok ps ->
  let qs := map split_unesc sels in
  no_empty qs /\ no_empty ps /\ ps <> [] /\ prefix_free ps /\ covers qs ps /\ covers ps qs.
Proof.
  intros PL H qs. destruct sels as [|s r]; [discriminate|]. unfold parse_nested in H.
  destruct (parse_all (s :: r)) as [qs'| |] eqn:PA; try discriminate. cbn [bind] in H.
  destruct (parse_all_split _ _ PL PA) as [-> NE]. fold qs in NE, H.
  destruct (nest_spec qs) as (R & HR & Inc & Cov & PFR). rewrite HR in H. inversion H; subst R.
  assert (NEp : no_empty ps).
  { unfold no_empty in *. rewrite Forall_forall in *. intros x Hx. apply NE. apply Inc. exact Hx. }
  repeat split; try assumption.
  - intro E. subst ps. destruct (Cov (split_unesc s)) as (q & [] & _). left. reflexivity.
  - intros x Hx. exists x. split; [apply Inc; exact Hx|apply is_prefix_refl].
Qed.

Theorem remove_fields_spec : forall sels j ps,
  plain sels -> parse_nested sels = Ok ps -> ouniq j -> arr_safe ps j = true ->
  exists r, remove_fields sels j = Ok r /\ jperm r (subtract (map split_unesc sels) j).
Proof.
  intros sels j ps PL HP U S. unfold remove_fields. rewrite HP. cbn [bind].
  eexists. split; [reflexivity|].
  destruct (parse_nested_inv _ _ PL HP) as (NE & NEp & _ & _ & C1 & C2).
  destruct (spec_cover_eq j _ _ NEp NE C2 C1) as [<- _]. apply remove_spec; assumption.
Qed.

Theorem keep_fields_spec : forall sels j ps,
  plain sels -> parse_nested sels = Ok ps -> ouniq j ->
  exists r, keep_fields sels j = Ok r /\ jperm r (project (map split_unesc sels) j) /\
            keep_run ps j = Ok (r, repeat [] (max_depth ps)).
Proof.
  intros sels j ps PL HP U. unfold keep_fields, keep_do. rewrite HP. cbn [bind].
  destruct (parse_nested_inv _ _ PL HP) as (NE & NEp & NN & PFp & C1 & C2).
  destruct (keep_spec ps j PFp NN NEp U) as (r & ER & J). rewrite ER. cbn [bind fst].
  exists r. split; [reflexivity|]. split; [|reflexivity].
  destruct (spec_cover_eq j _ _ NEp NE C2 C1) as [_ EP].
  unfold project in *. rewrite <- EP. exact J.
Qed.

(* the documented normalisation: a path and one of its descendants *)
Theorem nest_drops_descendant p q : nest [p; p ++ q] = Ok [p].
Proof.
  rewrite nest_pure_eq. unfold sort_len. cbn [fold_left insert_len].
  replace (length (p ++ q) <? length p)%nat with false
    by (symmetry; apply Nat.ltb_ge; rewrite app_length; lia).
  cbn [nest_pure existsb app]. rewrite is_prefix_app. reflexivity.
Qed.

(* the executable check of "unique keys" used on every case *)
Lemma nodup_b_sound ks : nodup_b ks = true -> NoDup ks.
Proof.
  induction ks as [|k r IH]; cbn; intro H; [constructor|]. apply andb_true_iff in H as [H1 H2].
  constructor; [|apply IH; exact H2]. intro HI. apply mem_key_in in HI. rewrite HI in H1. discriminate.
Qed.
Theorem ouniq_b_sound : forall j, ouniq_b j = true -> ouniq j.
Proof.
  induction j as [|x|x|x|l _|fs IH] using json_ind2; intro H; try exact I.
  apply ouniq_obj. cbn [ouniq_b] in H. apply andb_true_iff in H as [H1 H2]. split.
  - apply nodup_b_sound. exact H1.
  - clear H1. induction IH as [|[k v] r Hv _ IHr]; [constructor|].
    apply andb_true_iff in H2 as [Hv' Hr]. constructor; [apply Hv; exact Hv'|apply IHr; exact Hr].
Qed.

(* ------------------------------------------------------------------------------------------ *)
(* what is false of the code as it is                                                          *)
(* ------------------------------------------------------------------------------------------ *)
Definition kA : bytes := [97%N].  Definition kB : bytes := [98%N].
Definition kC : bytes := [99%N].  Definition kD : bytes := [100%N].
Definition n1 : json := JNum [49%N].
Definition n2 : json := JNum [50%N].
Definition n3 : json := JNum [51%N].
Definition n4 : json := JNum [52%N].
Definition abcd : json := JObj [(kA, n1); (kB, n2); (kC, n3); (kD, n4)].
(* {"a":[1,2,3],"b":2} and the selectors a.0, a.1 *)
Definition with_array : json := JObj [(kA, JArr [n1; n2; n3]); (kB, n2)].
Definition sel_a0 : bytes := [97; 46; 48]%N.
Definition sel_a1 : bytes := [97; 46; 49]%N.

(* remove_fields ["b"] {"a":1,"b":2,"c":3,"d":4} = {"a":1,"d":4,"c":3} *)
Theorem remove_key_order_witness :
  remove_fields [kB] abcd = Ok (JObj [(kA, n1); (kD, n4); (kC, n3)]) /\
  subtract (map split_unesc [kB]) abcd = JObj [(kA, n1); (kC, n3); (kD, n4)].
Proof. split; vm_compute; reflexivity. Qed.

(* keep_fields ["a","c","d"] {"a":1,"b":2,"c":3,"d":4} = {"a":1,"d":4,"c":3} *)
Theorem keep_key_order_witness :
  keep_fields [kA; kC; kD] abcd = Ok (JObj [(kA, n1); (kD, n4); (kC, n3)]) /\
  project (map split_unesc [kA; kC; kD]) abcd = JObj [(kA, n1); (kC, n3); (kD, n4)].
Proof. split; vm_compute; reflexivity. Qed.

Theorem remove_array_index_witness :
  remove_fields [sel_a0; sel_a1] with_array = Ok (JObj [(kA, JArr [n2]); (kB, n2)]) /\
  subtract (map split_unesc [sel_a0; sel_a1]) with_array = with_array.
Proof. split; vm_compute; reflexivity. Qed.

Lemma plain1 s : has_dotdot s = false -> plain [s].
Proof. intro H. constructor; [exact H|constructor]. Qed.

(* "key order of survivors untouched" fails for both plugins *)
Theorem remove_key_order_refuted :
  exists sels j r, plain sels /\ ouniq j /\
    (exists ps, parse_nested sels = Ok ps /\ arr_safe ps j = true) /\
    remove_fields sels j = Ok r /\ r <> subtract (map split_unesc sels) j.
Proof.
  exists [kB], abcd, (JObj [(kA, n1); (kD, n4); (kC, n3)]).
  destruct remove_key_order_witness as [W1 W2]. split; [|split; [|split; [|split]]].
  - apply plain1. reflexivity.
  - apply ouniq_b_sound. reflexivity.
  - exists [[kB]]. split; reflexivity.
  - exact W1.
  - rewrite W2. intro E. discriminate E.
Qed.

Theorem keep_key_order_refuted :
  exists sels j r, plain sels /\ ouniq j /\
    keep_fields sels j = Ok r /\ r <> project (map split_unesc sels) j.
Proof.
  exists [kA; kC; kD], abcd, (JObj [(kA, n1); (kD, n4); (kC, n3)]).
  destruct keep_key_order_witness as [W1 W2]. split; [|split; [|split]].
  - repeat constructor.
  - apply ouniq_b_sound. reflexivity.
  - exact W1.
  - rewrite W2. intro E. discriminate E.
Qed.

(* "paths that cross a non-object are ignored" fails for remove_fields: Dig indexes arrays *)
Theorem remove_array_index_refuted :
  exists sels j r, plain sels /\ ouniq j /\
    remove_fields sels j = Ok r /\ ~ jperm r (subtract (map split_unesc sels) j).
Proof.
  exists [sel_a0; sel_a1], with_array, (JObj [(kA, JArr [n2]); (kB, n2)]).
  destruct remove_array_index_witness as [W1 W2]. split; [|split; [|split]].
  - repeat constructor.
  - apply ouniq_b_sound. reflexivity.
  - exact W1.
  - rewrite W2. intro J. apply jperm_b_complete in J.
    + vm_compute in J. discriminate J.
    + apply ouniq_b_sound. reflexivity.
    + apply ouniq_b_sound. reflexivity.
Qed.
