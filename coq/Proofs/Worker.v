(* Proofs about Model/Worker.v (worker.work + checkInputBytes).
   Structure: (1) list / len facts, (2) the specification split_lines / with_off,
   (3) an ideal byte-at-a-time machine [irun] proved equal to the specification,
   (4) simulation of the model (inner loop, post-read step, read loop, round, rounds) by [irun]
       under the accumulator relation [accR], (5) the theorems. *)
From Verif Require Import Base.Sx Base.GoSem Model.Worker.
From Coq Require Import Lia ZifyBool.

(* ---------------------------------------------------------------- (1) basic facts *)
Lemma rev_fast_rev (l : bytes) : rev_fast l = rev l.
Proof. unfold rev_fast. rewrite rev_append_rev, app_nil_r. reflexivity. Qed.

Lemma len_nil {A} : len (@nil A) = 0.
Proof. reflexivity. Qed.
Lemma len_cons {A} (x : A) l : len (x :: l) = len l + 1.
Proof. unfold len. cbn [length]. lia. Qed.
Lemma len_app {A} (l m : list A) : len (l ++ m) = len l + len m.
Proof. unfold len. rewrite app_length. lia. Qed.
Lemma len_rev {A} (l : list A) : len (rev l) = len l.
Proof. unfold len. rewrite rev_length. reflexivity. Qed.
Lemma len_nonneg {A} (l : list A) : 0 <= len l.
Proof. unfold len. lia. Qed.
Lemma len_firstn {A} n (l : list A) : len (firstn n l) = Z.min (Z.of_nat n) (len l).
Proof. unfold len. rewrite firstn_length. lia. Qed.
Lemma len_zero_nil {A} (l : list A) : len l = 0 -> l = [].
Proof. destruct l; [reflexivity|]. rewrite len_cons. pose proof (len_nonneg l). lia. Qed.
#[global] Hint Rewrite @len_nil @len_cons @len_app @len_rev : len.
Ltac llen := autorewrite with len in *; repeat match goal with |- context [len ?l] =>
               lazymatch goal with H : 0 <= len l |- _ => fail | _ => pose proof (len_nonneg l) end end; try lia.

Definition noNL (b : bytes) : Prop := Forall (fun x => N.eqb x NL = false) b.
(* a line: newline-free bytes followed by one newline *)
Definition is_line (l : bytes) : Prop := exists l0, l = l0 ++ [NL] /\ noNL l0.

Lemma noNL_rev b : noNL b -> noNL (rev b).
Proof. unfold noNL. intros H. apply Forall_rev. exact H. Qed.
Lemma noNL_app a b : noNL a -> noNL b -> noNL (a ++ b).
Proof. unfold noNL. intros. apply Forall_app. split; assumption. Qed.

Lemma last_is_nl_app_nl (a : bytes) : last_is_nl (a ++ [NL]) = true.
Proof.
  induction a as [|x a IH]; [reflexivity|].
  cbn [app]. destruct a as [|y a']; [exact IH|]. cbn [app last_is_nl] in *. exact IH.
Qed.

Lemma bytes_eqb_refl (a : bytes) : bytes_eqb a a = true.
Proof. unfold bytes_eqb. induction a as [|x a IH]; cbn; [reflexivity|]. rewrite N.eqb_refl, IH. reflexivity. Qed.
Lemma bytes_eqb_eq (a b : bytes) : bytes_eqb a b = true -> a = b.
Proof.
  unfold bytes_eqb. revert b. induction a as [|x a IH]; intros [|y b] H; cbn in H; try discriminate; [reflexivity|].
  apply andb_prop in H. destruct H as [H1 H2]. apply N.eqb_eq in H1. subst. f_equal. apply IH. exact H2.
Qed.

Lemma firstn_app_le {A} n (a b : list A) : (n <= length a)%nat -> firstn n (a ++ b) = firstn n a.
Proof.
  intros H. rewrite firstn_app. replace (n - length a)%nat with 0%nat by lia.
  cbn [firstn]. rewrite app_nil_r. reflexivity.
Qed.

(* ---------------------------------------------------------------- (2) the specification *)
Lemma split_lines_nonl p : noNL p -> split_lines p = ([], p).
Proof.
  induction p as [|x p IH]; intros H; [reflexivity|].
  inversion H as [|? ? Hx Hp]; subst. cbn [split_lines]. rewrite (IH Hp), Hx. reflexivity.
Qed.

Lemma split_lines_nonl_app p b : noNL p ->
  split_lines (p ++ NL :: b) = ((p ++ [NL]) :: fst (split_lines b), snd (split_lines b)).
Proof.
  induction p as [|x p IH]; intros H.
  - cbn [app split_lines]. destruct (split_lines b) as [ls t]. rewrite N.eqb_refl. reflexivity.
  - inversion H as [|? ? Hx Hp]; subst. cbn [app split_lines]. rewrite (IH Hp), Hx. reflexivity.
Qed.

(* split_lines is THE decomposition into lines and a newline-free remainder *)
Lemma split_lines_of_lines ls : forall t, Forall is_line ls -> noNL t ->
  split_lines (concat ls ++ t) = (ls, t).
Proof.
  induction ls as [|l ls IH]; intros t Hl Ht.
  - cbn [concat app]. apply split_lines_nonl. exact Ht.
  - inversion Hl as [|? ? H1 H2]; subst. destruct H1 as [l0 [-> Hl0]].
    cbn [concat]. rewrite <- !app_assoc. cbn [app].
    rewrite (split_lines_nonl_app l0 _ Hl0), (IH t H2 Ht). reflexivity.
Qed.

Lemma split_lines_spec b :
  b = concat (fst (split_lines b)) ++ snd (split_lines b)
  /\ Forall is_line (fst (split_lines b)) /\ noNL (snd (split_lines b)).
Proof.
  induction b as [|x b IH]; cbn [split_lines].
  - repeat split; constructor.
  - destruct (split_lines b) as [ls t]. cbn [fst snd] in IH. destruct IH as [Hb [Hl Ht]].
    destruct (N.eqb x NL) eqn:Hx.
    + apply N.eqb_eq in Hx. subst x. cbn [fst snd concat app]. repeat split.
      * f_equal. exact Hb.
      * constructor; [|exact Hl]. exists []. split; [reflexivity|constructor].
      * exact Ht.
    + destruct ls as [|l ls']; cbn [fst snd concat app] in *.
      * repeat split; [f_equal; exact Hb|constructor|constructor; assumption].
      * repeat split.
        -- f_equal. exact Hb.
        -- inversion Hl as [|? ? H1 H2]; subst. constructor; [|exact H2].
           destruct H1 as [l0 [-> Hl0]]. exists (x :: l0). split; [reflexivity|constructor; assumption].
        -- exact Ht.
Qed.

Lemma split_lines_app b1 b2 :
  split_lines (b1 ++ b2) =
  (fst (split_lines b1) ++ fst (split_lines (snd (split_lines b1) ++ b2)),
   snd (split_lines (snd (split_lines b1) ++ b2))).
Proof.
  destruct (split_lines_spec b1) as [H1 [Hl1 Ht1]].
  destruct (split_lines_spec (snd (split_lines b1) ++ b2)) as [H2 [Hl2 Ht2]].
  rewrite H1 at 1. rewrite <- app_assoc. rewrite H2 at 1. rewrite app_assoc, <- concat_app.
  apply split_lines_of_lines; [apply Forall_app; split; assumption|assumption].
Qed.

Lemma with_off_app l1 : forall base l2,
  with_off base (l1 ++ l2) = with_off base l1 ++ with_off (base + len (concat l1)) l2.
Proof.
  induction l1 as [|l l1 IH]; intros base l2; cbn [app with_off concat].
  - rewrite len_nil, Z.add_0_r. reflexivity.
  - rewrite IH, len_app. f_equal. f_equal. f_equal. lia.
Qed.

(* an emitted offset is the file offset just after the line's newline *)
Lemma with_off_sound ls : forall base o l, In (o, l) (with_off base ls) ->
  exists before after, ls = before ++ l :: after /\ o = base + len (concat before) + len l.
Proof.
  induction ls as [|l0 ls IH]; intros base o l H; cbn [with_off] in H; [contradiction|].
  destruct H as [H|H].
  - inversion H; subst. exists [], ls. split; [reflexivity|]. cbn [concat]. rewrite len_nil. lia.
  - destruct (IH _ _ _ H) as [bf [af [-> Ho]]]. exists (l0 :: bf), af. split; [reflexivity|].
    cbn [concat]. rewrite len_app. lia.
Qed.

Lemma with_off_length ls : forall base, length (with_off base ls) = length ls.
Proof. induction ls as [|l ls IH]; intros base; cbn [with_off length]; [reflexivity|]. rewrite IH. reflexivity. Qed.

Lemma with_off_snd ls : forall base, map snd (with_off base ls) = ls.
Proof. induction ls as [|l ls IH]; intros base; cbn [with_off map snd]; [reflexivity|]. rewrite IH. reflexivity. Qed.

(* ---------------------------------------------------------------- (3) ideal byte machine *)
Record ist := { ipos : Z; irp : bytes; isk : bool }.

Definition istep_emit (c : wcfg) (i : ist) : list emit :=
  let full := rev (NL :: irp i) in
  if isk i || over_limit c full then [] else [(ipos i + 1, full)].

Fixpoint irun (c : wcfg) (i : ist) (b : bytes) : list emit * ist :=
  match b with
  | [] => ([], i)
  | x :: b' =>
      if N.eqb x NL then
        let '(es, i') := irun c {| ipos := ipos i + 1; irp := []; isk := false |} b' in
        (istep_emit c i ++ es, i')
      else irun c {| ipos := ipos i + 1; irp := x :: irp i; isk := isk i |} b'
  end.

Lemma irun_app c b1 : forall i b2,
  irun c i (b1 ++ b2) =
  let '(e1, i1) := irun c i b1 in let '(e2, i2) := irun c i1 b2 in (e1 ++ e2, i2).
Proof.
  induction b1 as [|x b1 IH]; intros i b2; cbn [app irun].
  - destruct (irun c i b2). reflexivity.
  - destruct (N.eqb x NL).
    + rewrite IH. destruct (irun c _ b1) as [e1 i1]. destruct (irun c i1 b2) as [e2 i2].
      rewrite app_assoc. reflexivity.
    + apply IH.
Qed.

Lemma irun_pos c b : forall i, ipos (snd (irun c i b)) = ipos i + len b.
Proof.
  induction b as [|x b IH]; intros i; cbn [irun].
  - cbn [snd]. rewrite len_nil. lia.
  - rewrite len_cons. destruct (N.eqb x NL).
    + specialize (IH {| ipos := ipos i + 1; irp := []; isk := false |}).
      destruct (irun c _ b) as [es i']. cbn [snd ipos] in *. lia.
    + rewrite IH. cbn [ipos]. lia.
Qed.

Lemma irun_spec c b : forall i, noNL (irp i) ->
  irun c i b =
  (size_filter c (drop_first (isk i)
     (with_off (ipos i - len (irp i)) (fst (split_lines (rev (irp i) ++ b))))),
   {| ipos := ipos i + len b;
      irp := rev (snd (split_lines (rev (irp i) ++ b)));
      isk := isk i && negb (has_line (rev (irp i) ++ b)) |}).
Proof.
  induction b as [|x b IH]; intros [p rp s] Hn; cbn [ipos irp isk] in *.
  - cbn [irun]. rewrite app_nil_r. unfold has_line.
    rewrite (split_lines_nonl _ (noNL_rev _ Hn)). cbn [fst snd with_off].
    rewrite rev_involutive, len_nil, Z.add_0_r, andb_true_r.
    destruct s; reflexivity.
  - cbn [irun ipos irp isk]. destruct (N.eqb x NL) eqn:Hx.
    + apply N.eqb_eq in Hx. subst x.
      rewrite (IH {| ipos := p + 1; irp := []; isk := false |}) by constructor.
      cbn [ipos irp isk rev app]. unfold has_line.
      rewrite (split_lines_nonl_app _ b (noNL_rev _ Hn)). cbn [fst snd with_off].
      rewrite len_nil, Z.sub_0_r, len_app, len_rev, len_cons, len_nil, len_cons.
      replace (p - len rp + (len rp + (0 + 1))) with (p + 1) by lia.
      replace (p + 1 + len b) with (p + (len b + 1)) by lia.
      rewrite andb_false_r. f_equal.
      unfold istep_emit. cbn [ipos irp isk rev drop_first].
      destruct s; cbn [orb drop_first tl].
      * reflexivity.
      * unfold size_filter. cbn [filter snd].
        destruct (over_limit c (rev rp ++ [NL])); reflexivity.
    + rewrite (IH {| ipos := p + 1; irp := x :: rp; isk := s |}) by (constructor; assumption).
      cbn [ipos irp isk rev]. rewrite <- app_assoc. cbn [app].
      rewrite !len_cons. replace (p + 1 - (len rp + 1)) with (p - len rp) by lia.
      replace (p + 1 + len b) with (p + (len b + 1)) by lia. reflexivity.
Qed.

(* ---------------------------------------------------------------- (4) simulation *)
Definition M (c : wcfg) : nat := Z.to_nat (wmax c).

(* the accumulator [a] stands for the true unterminated bytes [p]:
   equal; or frozen (skip mode, already over the limit); or truncated (cut-off mode) *)
Definition accR (c : wcfg) (p a : bytes) : Prop :=
  a = p
  \/ (check_max c = true /\ wcut c = false /\ wmax c < len a /\ len a <= len p)
  \/ (check_max c = true /\ wcut c = true /\ wmax c <= len a /\ len a <= len p
      /\ firstn (M c) a = firstn (M c) p).

Definition dataR (c : wcfg) (d full : bytes) : Prop :=
  d = full
  \/ (check_max c = true /\ wcut c = true /\ wmax c < len d /\ wmax c < len full
      /\ last_is_nl d = true /\ last_is_nl full = true
      /\ firstn (M c) d = firstn (M c) full).

Definition emitR (c : wcfg) (e e' : emit) : Prop := fst e = fst e' /\ dataR c (snd e) (snd e').

(* the append after the parsing loop, on forward lists *)
Lemma accR_post c p a r : 0 <= wmax c -> accR c p a ->
  accR c (p ++ r)
    (if check_max c && (len a >? wmax c)
     then (if negb (wcut c) then a else firstn (M c) a ++ r)
     else a ++ r).
Proof.
  intros Hm [H|[H|H]].
  - subst a. destruct (check_max c) eqn:Hc; cbn [andb]; [|left; reflexivity].
    destruct (len p >? wmax c) eqn:Hg; [|left; reflexivity].
    destruct (wcut c) eqn:Hu; cbn [negb].
    + right; right. repeat split; try assumption.
      * rewrite len_app, len_firstn. unfold M. llen.
      * rewrite !len_app, len_firstn. unfold M. llen.
      * rewrite !firstn_app_le; [rewrite firstn_firstn, Nat.min_id; reflexivity| |].
        -- unfold M, len in *. lia.
        -- rewrite firstn_length. unfold M, len in *. lia.
    + right; left. repeat split; try assumption; llen.
  - destruct H as [Hc [Hu [H1 H2]]]. rewrite Hc, Hu. cbn [andb negb].
    replace (len a >? wmax c) with true by lia.
    right; left. repeat split; try assumption. llen.
  - destruct H as [Hc [Hu [H1 [H2 H3]]]]. rewrite Hc, Hu. cbn [andb negb].
    right; right. split; [exact Hc|]. split; [exact Hu|].
    assert (HM : (M c <= length a)%nat) by (unfold M, len in *; lia).
    assert (HMp : (M c <= length p)%nat) by (unfold M, len in *; lia).
    destruct (len a >? wmax c) eqn:Hg.
    + repeat split.
      * rewrite len_app, len_firstn. unfold M. llen.
      * rewrite !len_app, len_firstn. unfold M. llen.
      * rewrite !firstn_app_le; [rewrite firstn_firstn, Nat.min_id; exact H3| |]; try assumption.
        rewrite firstn_length. lia.
    + repeat split.
      * llen.
      * llen.
      * rewrite !firstn_app_le by assumption. exact H3.
Qed.

(* relation at read boundaries (rcur = []) *)
Record Rel (c : wcfg) (lo : Z) (s : lst) (i : ist) : Prop := {
  rl_n : nacc s = len (racc s);
  rl_acc : accR c (rev (irp i)) (rev (racc s));
  rl_pos : ipos i = lo + scanned s;
  rl_sk : isk i = sk s;
  rl_j : jskip s = sk s }.

(* relation inside the parsing loop; rp0 = reversed true bytes accumulated before this read *)
Record RelIn (c : wcfg) (lo : Z) (rcur : bytes) (s : lst) (i : ist) (rp0 : bytes) : Prop := {
  ri_n : nacc s = len (racc s);
  ri_rp : irp i = rcur ++ rp0;
  ri_acc : accR c (rev rp0) (rev (racc s));
  ri_pos : ipos i = lo + scanned s + len rcur;
  ri_sk : isk i = sk s;
  ri_j : jskip s = sk s }.

(* relation when the parsing loop has ended: [rr] is the reversed unconsumed rest, already counted in scanned *)
Record RelEnd (c : wcfg) (lo : Z) (rr : bytes) (s : lst) (i : ist) (rp0 : bytes) : Prop := {
  re_n : nacc s = len (racc s);
  re_rp : irp i = rr ++ rp0;
  re_acc : accR c (rev rp0) (rev (racc s));
  re_pos : ipos i = lo + scanned s;
  re_sk : isk i = sk s;
  re_j : jskip s = sk s }.

Lemma scan_buf_sim c lo : 0 <= wmax c -> forall buf rcur s i rp0,
  RelIn c lo rcur s i rp0 ->
  forall E s' rr E' i', scan_buf c lo buf rcur s = (E, s', rr) -> irun c i buf = (E', i') ->
  Forall2 (emitR c) E E' /\ exists rp0', RelEnd c lo rr s' i' rp0'.
Proof.
  intros Hm. induction buf as [|x buf IH]; intros rcur s i rp0 R E s' rr E' i' Hs Hi.
  - cbn [scan_buf irun] in *. inversion Hs; subst; clear Hs. inversion Hi; subst; clear Hi.
    split; [constructor|]. exists rp0. destruct R. constructor; cbn [racc nacc sk jskip scanned]; try assumption. lia.
  - cbn [scan_buf irun] in *. destruct (N.eqb x NL) eqn:Hx.
    + (* a newline: one line ends here *)
      set (line := rev_fast (NL :: rcur)) in *.
      assert (Hline : line = rev rcur ++ [NL]) by (unfold line; rewrite rev_fast_rev; reflexivity).
      assert (Hnl : len line = len rcur + 1) by (rewrite Hline; llen).
      pose proof (len_nonneg rcur) as Hrc0.
      set (s1 := {| racc := []; nacc := 0; sk := false;
                    jskip := if sk s || (check_max c && negb (wcut c) && (nacc s + len line >? wmax c))
                             then false else jskip s;
                    scanned := scanned s + len line |}) in *.
      set (i1 := {| ipos := ipos i + 1; irp := []; isk := false |}) in *.
      destruct (scan_buf c lo buf [] s1) as [[es s''] rr0] eqn:Hs1.
      destruct (irun c i1 buf) as [es' i''] eqn:Hi1.
      inversion Hs; subst E s' rr; clear Hs. inversion Hi; subst E' i'; clear Hi.
      destruct R as [Rn Rrp Racc Rpos Rsk Rj].
      assert (Hfull : rev (NL :: irp i) = rev rp0 ++ line).
      { rewrite Rrp, Hline. cbn [rev]. rewrite rev_app_distr, <- app_assoc. reflexivity. }
      assert (Hover : (check_max c && negb (wcut c) && (nacc s + len line >? wmax c))
                      = over_limit c (rev (NL :: irp i))).
      { unfold over_limit. rewrite Hfull, len_app, len_rev. destruct (check_max c) eqn:Hc; [|reflexivity].
        destruct (wcut c) eqn:Hu; [reflexivity|]. cbn [andb negb].
        destruct Racc as [Ra|[Ra|Ra]].
        - apply (f_equal (@len byte)) in Ra. rewrite !len_rev in Ra. rewrite Rn, Ra. reflexivity.
        - destruct Ra as [_ [_ [H1 H2]]]. rewrite !len_rev in *. lia.
        - destruct Ra as [_ [Hu' _]]. congruence. }
      assert (R1 : RelIn c lo [] s1 i1 []).
      { constructor; unfold s1, i1; cbn [racc nacc sk jskip scanned ipos irp isk app rev].
        - reflexivity.
        - reflexivity.
        - left; reflexivity.
        - rewrite len_nil. lia.
        - reflexivity.
        - destruct (sk s) eqn:Hsk; cbn [orb]; [reflexivity|].
          destruct (check_max c && negb (wcut c) && (nacc s + len line >? wmax c)); [reflexivity|congruence]. }
      destruct (IH [] s1 i1 [] R1 _ _ _ _ _ Hs1 Hi1) as [HF HE].
      split; [|exact HE].
      apply Forall2_app; [|exact HF].
      unfold istep_emit. rewrite <- Hover, Rsk.
      destruct (sk s || (check_max c && negb (wcut c) && (nacc s + len line >? wmax c))) eqn:Hsk1;
        [constructor|].
      constructor; [|constructor].
      apply orb_false_elim in Hsk1. destruct Hsk1 as [_ Hov].
      split; cbn [fst snd]; [lia|].
      assert (Hin : match racc s with [] => line | _ :: _ => rev_append (racc s) line end
                    = rev (racc s) ++ line).
      { destruct (racc s); [reflexivity|]. rewrite rev_append_rev. reflexivity. }
      rewrite Hin, Hfull.
      destruct Racc as [Ra|[Ra|Ra]].
      * left. rewrite Ra. reflexivity.
      * exfalso. destruct Ra as [Hc [Hu [H1 _]]]. rewrite Hc, Hu in Hov. rewrite len_rev in H1.
        cbn [andb negb] in Hov. lia.
      * right. destruct Ra as [Hc [Hu [H1 [H2 H3]]]].
        assert (HM : (M c <= length (rev (racc s)))%nat) by (unfold M, len in *; lia).
        assert (HMp : (M c <= length (rev rp0))%nat) by (unfold M, len in *; lia).
        repeat split; try assumption.
        -- llen.
        -- llen.
        -- rewrite Hline, app_assoc. apply last_is_nl_app_nl.
        -- rewrite Hline, app_assoc. apply last_is_nl_app_nl.
        -- rewrite !firstn_app_le by assumption. exact H3.
    + (* an ordinary byte *)
      eapply (IH (x :: rcur) s {| ipos := ipos i + 1; irp := x :: irp i; isk := isk i |} rp0); try eassumption.
      destruct R as [Rn Rrp Racc Rpos Rsk Rj].
      constructor; cbn [ipos irp isk]; try assumption.
      * rewrite Rrp. reflexivity.
      * rewrite len_cons. lia.
Qed.

Lemma post_read_sim c lo rr s i rp0 : 0 <= wmax c ->
  RelEnd c lo rr s i rp0 -> Rel c lo (post_read c s rr) i.
Proof.
  intros Hm [Rn Rrp Racc Rpos Rsk Rj].
  pose proof (accR_post c _ _ (rev rr) Hm Racc) as HP.
  rewrite len_rev, <- Rn in HP.
  assert (Hirp : rev (irp i) = rev rp0 ++ rev rr) by (rewrite Rrp, rev_app_distr; reflexivity).
  unfold post_read. destruct (check_max c && (nacc s >? wmax c)) eqn:Hg.
  - destruct (wcut c) eqn:Hu; cbn [negb] in *.
    + apply andb_prop in Hg. destruct Hg as [_ Hg].
      constructor; cbn [racc nacc sk jskip scanned]; try assumption.
      * rewrite len_app. unfold len in *. rewrite skipn_length. lia.
      * rewrite Hirp, rev_app_distr.
        replace (Z.to_nat (nacc s - wmax c)) with (length (racc s) - M c)%nat
          by (unfold M, len in *; lia).
        rewrite <- firstn_rev. exact HP.
    + constructor; cbn [racc nacc sk jskip scanned]; try assumption. rewrite Hirp. exact HP.
  - constructor; cbn [racc nacc sk jskip scanned]; try assumption.
    + llen.
    + rewrite Hirp, rev_app_distr. exact HP.
Qed.

Lemma read_loop_sim c lo : 0 <= wmax c -> forall reads s total i,
  Rel c lo s i -> total = scanned s ->
  forall E s' t' E' i', read_loop c lo reads s total = (E, s', t') -> irun c i (concat reads) = (E', i') ->
  Forall2 (emitR c) E E' /\ Rel c lo s' i' /\ t' = scanned s'.
Proof.
  intros Hm. induction reads as [|buf rs IH]; intros s total i R Ht E s' t' E' i' Hs Hi.
  - cbn [read_loop concat irun] in *. inversion Hs; subst. inversion Hi; subst.
    split; [constructor|]. split; [exact R|reflexivity].
  - cbn [read_loop concat] in *. rewrite irun_app in Hi.
    destruct (scan_buf c lo buf [] s) as [[e1 s1] rr] eqn:Hs1.
    destruct (irun c i buf) as [e1' i1] eqn:Hi1.
    destruct (read_loop c lo rs (post_read c s1 rr) (total + len buf)) as [[e2 s3] t3] eqn:Hs2.
    destruct (irun c i1 (concat rs)) as [e2' i2] eqn:Hi2.
    inversion Hs; subst E s' t'; clear Hs. inversion Hi; subst E' i'; clear Hi.
    assert (R0 : RelIn c lo [] s i (irp i)).
    { destruct R. constructor; try assumption; [reflexivity|rewrite len_nil; lia]. }
    destruct (scan_buf_sim c lo Hm buf [] s i (irp i) R0 _ _ _ _ _ Hs1 Hi1) as [HF [rp0' HE]].
    pose proof (post_read_sim c lo rr s1 i1 rp0' Hm HE) as R2.
    assert (Ht2 : total + len buf = scanned (post_read c s1 rr)).
    { pose proof (irun_pos c buf i) as Hp. rewrite Hi1 in Hp. cbn [snd] in Hp.
      destruct R as [_ _ Rp _ _]. destruct R2 as [_ _ Rp2 _ _]. lia. }
    destruct (IH _ _ _ R2 Ht2 _ _ _ _ _ Hs2 Hi2) as [HF2 [R3 Ht3]].
    split; [apply Forall2_app; assumption|]. split; assumption.
Qed.

(* relation between passes *)
Record WRel (c : wcfg) (st : wst) (i : ist) : Prop := {
  wr_acc : accR c (rev (irp i)) (tail st);
  wr_pos : ipos i = cur st;
  wr_sk : isk i = skip st }.

Lemma round_sim c : 0 <= wmax c -> forall st reads i, WRel c st i ->
  forall E st' E' i', round c st reads = (E, st') -> irun c i (concat reads) = (E', i') ->
  Forall2 (emitR c) E E' /\ WRel c st' i'.
Proof.
  intros Hm st reads i [Wa Wp Ws] E st' E' i' Hr Hi. unfold round in Hr.
  set (s0 := {| racc := rev_fast (tail st); nacc := len (tail st); sk := skip st; jskip := skip st; scanned := 0 |}) in *.
  destruct (read_loop c (cur st) reads s0 0) as [[es s] total] eqn:Hl.
  inversion Hr; subst E st'; clear Hr.
  assert (R0 : Rel c (cur st) s0 i).
  { constructor; unfold s0; cbn [racc nacc sk jskip scanned].
    - rewrite rev_fast_rev, len_rev. reflexivity.
    - rewrite rev_fast_rev, rev_involutive. exact Wa.
    - lia.
    - exact Ws.
    - reflexivity. }
  destruct (read_loop_sim c (cur st) Hm reads s0 0 i R0 eq_refl _ _ _ _ _ Hl Hi) as [HF [[Rn Ra Rp Rs Rj] Ht]].
  split; [exact HF|]. constructor; cbn [cur tail skip].
  - rewrite rev_fast_rev. exact Ra.
  - lia.
  - congruence.
Qed.

Definition flat (rs : list (list bytes)) : bytes := concat (map (@concat byte) rs).

Lemma rounds_sim c : 0 <= wmax c -> forall rs st i, WRel c st i ->
  forall E st' E' i', rounds c st rs = (E, st') -> irun c i (flat rs) = (E', i') ->
  Forall2 (emitR c) E E' /\ WRel c st' i'.
Proof.
  intros Hm. induction rs as [|r rs IH]; intros st i W E st' E' i' Hr Hi.
  - cbn in Hr, Hi. inversion Hr; subst. inversion Hi; subst. split; [constructor|exact W].
  - unfold flat in Hi. cbn [rounds map concat] in *. rewrite irun_app in Hi.
    destruct (round c st r) as [e1 s1] eqn:Hr1.
    destruct (irun c i (concat r)) as [e1' i1] eqn:Hi1.
    destruct (rounds c s1 rs) as [e2 s2] eqn:Hr2.
    destruct (irun c i1 (concat (map (@concat byte) rs))) as [e2' i2] eqn:Hi2.
    inversion Hr; subst E st'; clear Hr. inversion Hi; subst E' i'; clear Hi.
    destruct (round_sim c Hm st r i W _ _ _ _ Hr1 Hi1) as [HF1 W1].
    destruct (IH s1 i1 W1 _ _ _ _ Hr2 Hi2) as [HF2 W2].
    split; [apply Forall2_app; assumption|exact W2].
Qed.

(* ---------------------------------------------------------------- (5) theorems *)
Definition st_at (o : Z) (sk0 : bool) : wst := {| cur := o; tail := []; skip := sk0 |}.

(* the general statement: every configuration, every start offset, every pass/read structure *)
Theorem worker_general c o sk0 rs : 0 <= wmax c ->
  let b := flat rs in
  let '(E, st') := rounds c (st_at o sk0) rs in
  Forall2 (emitR c) E (spec_emits c sk0 o b)
  /\ cur st' = o + len b
  /\ skip st' = sk0 && negb (has_line b)
  /\ accR c (snd (split_lines b)) (tail st').
Proof.
  intros Hm b. destruct (rounds c (st_at o sk0) rs) as [E st'] eqn:Hr.
  set (i0 := {| ipos := o; irp := []; isk := sk0 |}).
  assert (W0 : WRel c (st_at o sk0) i0) by (constructor; cbn; [left|..]; reflexivity).
  pose proof (irun_spec c b i0 (Forall_nil _)) as Hspec. unfold i0 in Hspec. cbn [ipos irp isk rev app] in Hspec.
  rewrite len_nil, Z.sub_0_r in Hspec.
  destruct (rounds_sim c Hm rs _ i0 W0 _ _ _ _ Hr Hspec) as [HF [Wa Wp Ws]].
  cbn [ipos irp isk] in *. rewrite rev_involutive in Wa.
  split; [exact HF|]. split; [lia|]. split; [congruence|exact Wa].
Qed.

Lemma Forall2_emitR_eq c E E' : cut_mode c = false -> Forall2 (emitR c) E E' -> E = E'.
Proof.
  intros Hc H. induction H as [|[o d] [o' d'] l l' [H1 H2] _ IH]; [reflexivity|].
  cbn [fst snd] in *. f_equal; [|exact IH]. f_equal; [exact H1|].
  destruct H2 as [H2|[Hm [Hu _]]]; [exact H2|]. unfold cut_mode in Hc. rewrite Hm, Hu in Hc. discriminate.
Qed.

Lemma size_filter_nolimit c es : check_max c = false -> size_filter c es = es.
Proof.
  intros H. unfold size_filter, over_limit. rewrite H. cbn [andb negb].
  induction es as [|e es IH]; cbn [filter]; [reflexivity|]. rewrite IH. reflexivity.
Qed.

Definition nolimit : wcfg := {| wmax := 0; wcut := false |}.

(* no size limit: exactly the complete lines with their end offsets; tail = the unterminated rest *)
Theorem worker_offsets_exact o rs :
  let b := flat rs in
  rounds nolimit (st_at o false) rs =
  (with_off o (fst (split_lines b)), {| cur := o + len b; tail := snd (split_lines b); skip := false |}).
Proof.
  intros b. pose proof (worker_general nolimit o false rs (Z.le_refl 0)) as H. cbv zeta in H. fold b in H.
  destruct (rounds nolimit (st_at o false) rs) as [E [cu tl_ skp]].
  destruct H as [HF [Hc [Hs Ha]]]. cbn [cur tail skip andb] in *.
  apply Forall2_emitR_eq in HF; [|reflexivity].
  unfold spec_emits in HF. rewrite size_filter_nolimit in HF by reflexivity. cbn [drop_first] in HF.
  destruct Ha as [Ha|[Ha|Ha]]; [|destruct Ha as [Hx _]; discriminate|destruct Ha as [Hx _]; discriminate].
  subst. reflexivity.
Qed.

(* resume: a pass started at a line boundary of the file completes the whole-file list *)
Theorem worker_resume pre rs : snd (split_lines pre) = [] ->
  let b := flat rs in
  with_off 0 (fst (split_lines (pre ++ b))) =
  with_off 0 (fst (split_lines pre)) ++ fst (rounds nolimit (st_at (len pre) false) rs).
Proof.
  intros Hp b. rewrite worker_offsets_exact. fold b. cbn [fst].
  rewrite split_lines_app, Hp. cbn [fst app]. rewrite with_off_app. f_equal. f_equal.
  destruct (split_lines_spec pre) as [H _]. rewrite Hp, app_nil_r in H. rewrite <- H. lia.
Qed.

(* the unterminated tail is held back, and delivered (completed) by the later passes *)
Theorem worker_tail_completed o rs1 rs2 :
  let b1 := flat rs1 in let b2 := flat rs2 in
  let t1 := snd (split_lines b1) in
  let '(E1, st1) := rounds nolimit (st_at o false) rs1 in
  E1 = with_off o (fst (split_lines b1)) /\ tail st1 = t1 /\
  fst (rounds nolimit st1 rs2) = with_off (o + len b1 - len t1) (fst (split_lines (t1 ++ b2))) /\
  fst (rounds nolimit (st_at o false) (rs1 ++ rs2)) = E1 ++ fst (rounds nolimit st1 rs2).
Proof.
  intros b1 b2 t1.
  assert (Hcomp : forall c rsA st rsB, rounds c st (rsA ++ rsB) =
            (fst (rounds c st rsA) ++ fst (rounds c (snd (rounds c st rsA)) rsB),
             snd (rounds c (snd (rounds c st rsA)) rsB))).
  { intros c rsA. induction rsA as [|r rsA IH]; intros st rsB; cbn [app rounds].
    - cbn [fst snd app]. destruct (rounds c st rsB); reflexivity.
    - destruct (round c st r) as [e1 s1]. rewrite IH.
      destruct (rounds c s1 rsA) as [e2 s2]. cbn [fst snd].
      destruct (rounds c s2 rsB) as [e3 s3]. cbn [fst snd]. rewrite app_assoc. reflexivity. }
  pose proof (worker_offsets_exact o rs1) as H1. cbv zeta in H1. fold b1 in H1.
  pose proof (worker_offsets_exact o (rs1 ++ rs2)) as H12. cbv zeta in H12.
  rewrite Hcomp in H12. rewrite H1 in *. cbn [fst snd] in *.
  split; [reflexivity|]. split; [reflexivity|].
  assert (Hflat : flat (rs1 ++ rs2) = b1 ++ b2).
  { unfold flat, b1, b2. rewrite map_app, concat_app. reflexivity. }
  rewrite Hflat in H12. inversion H12 as [[HE HS]]. clear H12.
  rewrite split_lines_app in HE. cbn [fst] in HE. rewrite with_off_app in HE.
  apply app_inv_head in HE. split.
  - rewrite HE. fold t1. f_equal. destruct (split_lines_spec b1) as [Hb1 _]. fold t1 in Hb1.
    apply (f_equal (@len byte)) in Hb1. rewrite len_app in Hb1. lia.
  - rewrite Hcomp, H1. reflexivity.
Qed.

(* max_event_size without cut-off: exactly the over-limit lines are missing, everything else
   (data and offsets) unchanged *)
Theorem worker_size_skip c o rs : 0 < wmax c -> wcut c = false ->
  let b := flat rs in
  let '(E, st') := rounds c (st_at o false) rs in
  E = filter (fun e => len (snd e) <=? wmax c) (with_off o (fst (split_lines b)))
  /\ cur st' = o + len b /\ skip st' = false
  /\ (tail st' = snd (split_lines b)
      \/ (wmax c < len (tail st') /\ len (tail st') <= len (snd (split_lines b)))).
Proof.
  intros Hm Hu b. pose proof (worker_general c o false rs) as H. cbv zeta in H. fold b in H.
  destruct (rounds c (st_at o false) rs) as [E st']. destruct H as [HF [Hc [Hs Ha]]]; [lia|].
  apply Forall2_emitR_eq in HF; [|unfold cut_mode; rewrite Hu; apply andb_false_r].
  split; [|split; [exact Hc|split; [exact Hs|]]].
  - rewrite HF. unfold spec_emits, size_filter. cbn [drop_first]. apply filter_ext. intros [o' d].
    unfold over_limit, check_max. rewrite Hu. cbn [snd]. replace (wmax c =? 0) with false by lia. cbn [negb andb].
    destruct (len d <=? wmax c) eqn:H1; destruct (len d >? wmax c) eqn:H2; try reflexivity; lia.
  - destruct Ha as [Ha|[Ha|Ha]]; [left; exact Ha|right; tauto|].
    destruct Ha as [_ [Hx _]]. congruence.
Qed.

(* what checkInputBytes does with a delivered stand-in is what it does with the true line *)
Lemma dataR_check_input c d full : 0 <= wmax c -> dataR c d full -> check_input c d = check_input c full.
Proof.
  intros Hm [H|H]; [subst; reflexivity|].
  destruct H as [Hc [Hu [H1 [H2 [H3 [H4 H5]]]]]].
  unfold check_input. rewrite Hc, Hu, H3, H4. fold (M c). rewrite H5. cbn [andb negb].
  replace (len d >? wmax c) with true by lia. replace (len full >? wmax c) with true by lia.
  destruct d as [|x d']; [rewrite len_nil in H1; lia|].
  destruct full as [|y f']; [rewrite len_nil in H2; lia|].
  unfold check_max in Hc.
  replace (len (x :: d') =? 1) with false by lia. replace (len (y :: f') =? 1) with false by lia.
  rewrite !andb_false_r. reflexivity.
Qed.

Definition checked (c : wcfg) (es : list emit) : list (Z * (bytes * bool * bool)) :=
  map (fun e => (fst e, check_input c (snd e))) es.

(* cut-off mode, composed with checkInputBytes: every line arrives, with its own offset; a line
   longer than max arrives as its first max bytes + newline, flagged as cut *)
Theorem worker_size_cut c o rs : 0 < wmax c -> wcut c = true ->
  let b := flat rs in
  let '(E, st') := rounds c (st_at o false) rs in
  checked c E = checked c (with_off o (fst (split_lines b)))
  /\ Forall2 (emitR c) E (with_off o (fst (split_lines b)))
  /\ cur st' = o + len b /\ skip st' = false.
Proof.
  intros Hm Hu b. pose proof (worker_general c o false rs) as H. cbv zeta in H. fold b in H.
  destruct (rounds c (st_at o false) rs) as [E st']. destruct H as [HF [Hc [Hs Ha]]]; [lia|].
  assert (Hsp : spec_emits c false o b = with_off o (fst (split_lines b))).
  { unfold spec_emits, size_filter, over_limit. rewrite Hu. cbn [negb drop_first]. rewrite andb_false_r.
    cbn [andb negb]. induction (with_off o (fst (split_lines b))) as [|e es IH]; cbn [filter]; [reflexivity|].
    rewrite IH. reflexivity. }
  rewrite Hsp in HF. split; [|split; [exact HF|split; assumption]].
  unfold checked. clear - HF Hm. induction HF as [|e e' l l' [H1 H2] _ IH]; [reflexivity|].
  cbn [map]. rewrite IH, H1, (dataR_check_input c _ _ (Z.lt_le_incl _ _ Hm) H2). reflexivity.
Qed.

(* checkInputBytes on a complete line l0 ++ [NL] *)
Theorem check_input_line c l0 : 0 <= wmax c ->
  check_input c (l0 ++ [NL]) =
  match l0 with
  | [] => ([NL], false, false)                                       (* empty line: dropped *)
  | _ :: _ =>
      if check_max c && (len l0 + 1 >? wmax c) then
        if wcut c then (firstn (M c) (l0 ++ [NL]) ++ [NL], true, true)   (* cut to max bytes + newline *)
        else (l0 ++ [NL], false, false)                                (* rejected *)
      else (l0 ++ [NL], false, true)
  end.
Proof.
  intros Hm. unfold check_input. rewrite last_is_nl_app_nl, len_app, len_cons, len_nil. fold (M c).
  destruct l0 as [|x l0'].
  - cbn [app]. rewrite N.eqb_refl. reflexivity.
  - cbn [app]. rewrite len_cons. pose proof (len_nonneg l0').
    replace (len l0' + 1 + (0 + 1) =? 1) with false by lia. rewrite andb_false_r.
    replace (len l0' + 1 + (0 + 1)) with (len l0' + 1 + 1) by lia.
    destruct (check_max c && (len l0' + 1 + 1 >? wmax c)); [|reflexivity].
    destruct (wcut c); reflexivity.
Qed.

(* tail mode (job.shouldSkip): exactly the first line is dropped, under every configuration *)
Theorem worker_skip_first o rs :
  let b := flat rs in
  rounds nolimit (st_at o true) rs =
  (tl (with_off o (fst (split_lines b))),
   {| cur := o + len b; tail := snd (split_lines b); skip := negb (has_line b) |}).
Proof.
  intros b. pose proof (worker_general nolimit o true rs (Z.le_refl 0)) as H. cbv zeta in H. fold b in H.
  destruct (rounds nolimit (st_at o true) rs) as [E [cu tl_ skp]].
  destruct H as [HF [Hc [Hs Ha]]]. cbn [cur tail skip andb] in *.
  apply Forall2_emitR_eq in HF; [|reflexivity].
  unfold spec_emits in HF. rewrite size_filter_nolimit in HF by reflexivity. cbn [drop_first] in HF.
  destruct Ha as [Ha|[Ha|Ha]]; [|destruct Ha as [Hx _]; discriminate|destruct Ha as [Hx _]; discriminate].
  subst. reflexivity.
Qed.

(* tail mode started on the last byte of an existing file: if that byte is a newline, every line
   appended later is delivered; otherwise only the line in progress is lost *)
Theorem worker_tail_mode pre x rs :
  let b := flat rs in
  let '(E, _) := match rs with
                 | [] => rounds nolimit (st_at (len (pre ++ [x]) - 1) true) []
                 | r :: rs' => rounds nolimit (st_at (len (pre ++ [x]) - 1) true) (([x] :: r) :: rs')
                 end in
  E = if N.eqb x NL then with_off (len (pre ++ [x])) (fst (split_lines b))
      else tl (with_off (len (pre ++ [x]) - 1) (fst (split_lines (x :: b)))).
Proof.
  intros b. destruct rs as [|r rs'].
  - cbn [rounds]. unfold b, flat. cbn [map concat split_lines fst with_off].
    destruct (N.eqb x NL) eqn:Hx; reflexivity.
  - rewrite worker_skip_first.
    assert (Hf : flat (([x] :: r) :: rs') = x :: b) by reflexivity.
    rewrite Hf. destruct (N.eqb x NL) eqn:Hx; [|reflexivity].
    apply N.eqb_eq in Hx. subst x. cbn [split_lines]. destruct (split_lines b) as [ls t].
    rewrite N.eqb_refl. cbn [fst with_off tl]. rewrite len_cons, len_nil. f_equal. lia.
Qed.

(* ---- the executable predicate used by the correspondence check is implied by the relations ---- *)
Lemma data_relb_complete c d full : dataR c d full -> data_relb c d full = true.
Proof.
  unfold data_relb, cut_mode. intros [H|H].
  - subst. rewrite bytes_eqb_refl. reflexivity.
  - destruct H as [Hc [Hu [H1 [H2 [H3 [H4 H5]]]]]]. rewrite Hc, Hu, H3, H4. fold (M c). rewrite H5, bytes_eqb_refl.
    replace (wmax c <? len d) with true by lia. replace (wmax c <? len full) with true by lia.
    apply orb_true_r.
Qed.

Lemma tail_relb_complete c t a : accR c t a -> tail_relb c a t = true.
Proof.
  unfold tail_relb, cut_mode. intros [H|[H|H]].
  - subst. rewrite bytes_eqb_refl. reflexivity.
  - destruct H as [Hc [Hu [H1 H2]]]. rewrite Hc, Hu. cbn [negb andb].
    replace (wmax c <? len a) with true by lia. replace (len a <=? len t) with true by lia.
    cbn [andb]. rewrite orb_true_r. reflexivity.
  - destruct H as [Hc [Hu [H1 [H2 H3]]]]. rewrite Hc, Hu. fold (M c). rewrite H3, bytes_eqb_refl.
    replace (wmax c <=? len a) with true by lia. replace (len a <=? len t) with true by lia.
    cbn [andb]. apply orb_true_r.
Qed.

(* the boolean predicate of the correspondence check holds of every run of the model *)
Theorem worker_pred_holds c o sk0 rs : 0 <= wmax c ->
  let b := flat rs in
  let '(E, st') := rounds c (st_at o sk0) rs in
  forall2b (emit_okb c) (map (fun e => (e, None)) E) (spec_emits c sk0 o b) = true
  /\ tail_relb c (tail st') (snd (split_lines b)) = true.
Proof.
  intros Hm b. pose proof (worker_general c o sk0 rs Hm) as H. cbv zeta in H. fold b in H.
  destruct (rounds c (st_at o sk0) rs) as [E st']. destruct H as [HF [_ [_ Ha]]].
  split; [|apply tail_relb_complete; exact Ha].
  induction HF as [|[o1 d1] [o2 d2] l l' [H1 H2] _ IH]; [reflexivity|].
  cbn [map forall2b emit_okb fst snd] in *. subst o2.
  rewrite Z.eqb_refl, (data_relb_complete _ _ _ H2), IH. reflexivity.
Qed.

(* ---------------------------------------------------------------- end to end: the events behind Pipeline.In *)
(* what leaves In depends on the delivered data only through what checkInputBytes makes of it: a stand-in of a line
   (cut-off mode: first max bytes + junk) yields the same event as the line itself *)
Lemma events_of_emitR c E E' : 0 <= wmax c -> Forall2 (emitR c) E E' -> events_of c E = events_of c E'.
Proof.
  intros Hm H. induction H as [|[o d] [o' d'] l l' [H1 H2] _ IH]; [reflexivity|].
  cbn [events_of flat_map fst snd] in *. subst o'.
  rewrite (dataR_check_input c d d' Hm H2). fold (events_of c l). fold (events_of c l'). rewrite IH. reflexivity.
Qed.

(* every configuration, every start offset, every pass / read structure: the events that reach the output are exactly the
   accepted complete lines of the content - offset of the line's end, the line without its newline (cut to max bytes
   and flagged when longer), in order, once *)
Theorem worker_events c o sk0 rs : 0 <= wmax c ->
  events_of c (fst (rounds c (st_at o sk0) rs)) = events_of c (spec_emits c sk0 o (flat rs)).
Proof.
  intros Hm. pose proof (worker_general c o sk0 rs Hm) as H. cbv zeta in H.
  destruct (rounds c (st_at o sk0) rs) as [E st']. destruct H as [HF _]. cbn [fst].
  apply events_of_emitR; assumption.
Qed.

(* the event of one complete line l0 ++ [NL] *)
Theorem events_of_line c o l0 : 0 <= wmax c -> noNL l0 ->
  events_of c [(o, l0 ++ [NL])] =
  match l0 with
  | [] => []
  | _ :: _ =>
      if check_max c && (len l0 + 1 >? wmax c)
      then (if wcut c then [(o, firstn (Z.to_nat (wmax c)) l0, true)] else [])
      else [(o, l0, false)]
  end.
Proof.
  intros Hm Hn. cbn [events_of flat_map fst snd app]. rewrite (check_input_line c l0 Hm).
  destruct l0 as [|x l0']; [reflexivity|].
  destruct (check_max c && (len (x :: l0') + 1 >? wmax c)) eqn:Hc.
  - destruct (wcut c); cbn [negb]; [|reflexivity]. rewrite removelast_last, app_nil_r.
    unfold M. rewrite firstn_app_le; [reflexivity|].
    apply andb_prop in Hc. destruct Hc as [_ Hc]. unfold len in *. lia.
  - rewrite removelast_last. reflexivity.
Qed.
