(* The low-memory event pool (lowMemoryEventPool of pipeline/event.go): invariants of [lstep]. *)
From Verif Require Import Base.Sx Model.Pool Proofs.Pool.
From Coq Require Import Lia ZifyBool Bool List ZArith.
Import ListNotations.
Local Open Scope Z_scope.

Lemma lrun_invariant (c : pcfg) (P : lst -> Prop) :
  (forall s l s', P s -> lstep c s l = Some s' -> P s') ->
  forall ls s s', P s -> lrun c s ls = Some s' -> P s'.
Proof.
  intros Hstep ls. induction ls as [|l r IH]; intros s s' Hs Hr; cbn [lrun] in Hr.
  - inversion Hr; subst; exact Hs.
  - destruct (lstep c s l) as [s1|] eqn:E; [|discriminate]. eapply IH; [eapply Hstep; eauto|exact Hr].
Qed.

Lemma lrun_app c ls1 ls2 s s1 s2 :
  lrun c s ls1 = Some s1 -> lrun c s1 ls2 = Some s2 -> lrun c s (ls1 ++ ls2) = Some s2.
Proof.
  revert s. induction ls1 as [|l r IH]; intros s H1 H2; cbn [lrun app] in *.
  - inversion H1; subst. exact H2.
  - destruct (lstep c s l); [|discriminate]. exact (IH _ H1 H2).
Qed.

Definition is_incd (p : lpc) : bool := match p with LIncd _ => true | _ => false end.
Definition is_waiting (p : lpc) : bool :=
  match p with LWaiting | LLocked | LChkFalse | LSleep | LWoken | LReady | LUnlocked => true | _ => false end.

Lemma lwake_idle : lwake LIdle = LIdle. Proof. reflexivity. Qed.
Lemma is_incd_lwake p : is_incd (lwake p) = is_incd p. Proof. destruct p; reflexivity. Qed.
Lemma is_waiting_lwake p : is_waiting (lwake p) = is_waiting p. Proof. destruct p; reflexivity. Qed.

Section Lm.
  Variable c : pcfg.
  Hypothesis Hcap : 0 <= cap c.
  (* what the proofs need from the code's capacity test: whoever passes it saw a counter value <= capacity *)
  Hypothesis Hfits : forall r, fits c r (cap c) = true -> r <= cap c.

  Definition is_fit (p : lpc) : bool := match p with LIncd r => fits c r (cap c) | _ => false end.
  Lemma is_fit_lwake p : is_fit (lwake p) = is_fit p. Proof. destruct p; reflexivity. Qed.
  Lemma is_fit_incd p : is_fit p = true -> is_incd p = true. Proof. destruct p; cbn; congruence. Qed.

  Record linv (s : lst) : Prop := {
    li_nodup : NoDup (keys (l_thr s));
    (* the counter = events handed out + getters between Inc and the capacity test's outcome *)
    li_inuse : l_inuse s = len (l_holders s) + fcnt is_incd (l_thr s);
    (* holders + getters that WILL pass the capacity test never exceed the capacity *)
    li_K : len (l_holders s) + fcnt is_fit (l_thr s) <= cap c;
    li_waiters : l_waiters s = fcnt is_waiting (l_thr s)
  }.

  Lemma linv_init : linv linit.
  Proof. split; cbn; try constructor; try reflexivity. unfold len, fcnt. cbn. lia. Qed.

  Ltac lm_fin Hnd :=
    cbn [l_inuse l_waiters l_lock l_thr l_holders l_bpend l_tick lupd lset_pc lset_tick lbcast]; unfold lbroadcast;
    rewrite ?(fcnt_fset LIdle is_incd _ _ _ Hnd), ?(fcnt_fset LIdle is_fit _ _ _ Hnd), ?(fcnt_fset LIdle is_waiting _ _ _ Hnd) by reflexivity;
    rewrite ?fcnt_fmapv;
    rewrite ?(fcnt_ext _ _ _ is_incd_lwake), ?(fcnt_ext _ _ _ is_fit_lwake), ?(fcnt_ext _ _ _ is_waiting_lwake);
    rewrite ?len_cons.

  Lemma linv_step s l s' : linv s -> lstep c s l = Some s' -> linv s'.
  Proof.
    intros [Hnd Hin HK Hw] H.
    pose proof (fcnt_le is_fit is_incd (l_thr s) is_fit_incd) as Hle.
    pose proof (fcnt_nonneg is_fit (l_thr s)) as Hnn.
    destruct l; unfold lstep, lpc_of in H; step_split H; inversion H; subst; clear H; bnorm;
      (split;
       [ cbn [l_thr lupd lset_pc lset_tick lbcast]; unfold lbroadcast; rewrite ?keys_fmapv; try apply NoDup_fset; exact Hnd
       | lm_fin Hnd; try match goal with E : fget LIdle _ (l_thr s) = _ |- _ => rewrite ?E end; cbn [is_incd is_fit is_waiting b2z];
         try (rewrite len_rem1 by assumption); try lia
       | lm_fin Hnd; try match goal with E : fget LIdle _ (l_thr s) = _ |- _ => rewrite ?E end; cbn [is_incd is_fit is_waiting b2z];
         try (rewrite len_rem1 by assumption); try lia
       | lm_fin Hnd; try match goal with E : fget LIdle _ (l_thr s) = _ |- _ => rewrite ?E end; cbn [is_incd is_fit is_waiting b2z];
         try (rewrite len_rem1 by assumption); try lia ]).
    all: try match goal with E : fits c ?r (cap c) = _ |- _ => rewrite ?E end; cbn [b2z]; try lia.
    all: try (destruct b; cbn [is_incd is_fit is_waiting b2z]; lia).
    (* LmInc: the new getter's ticket r = inUse + 1 *)
    destruct (fits c r (cap c)) eqn:Ef; cbn [b2z]; [|lia].
    apply Hfits in Ef. lia.
  Qed.

  Lemma linv_run ls s s' : linv s -> lrun c s ls = Some s' -> linv s'.
  Proof. apply lrun_invariant. intros; eapply linv_step; eauto. Qed.

  (* C05: the number of events handed out never exceeds the capacity (the counter may) *)
  Lemma lm_held_le_capacity ls s : lrun c linit ls = Some s -> len (l_holders s) <= cap c.
  Proof.
    intros H. destruct (linv_run _ _ _ linv_init H) as [_ _ HK _].
    pose proof (fcnt_nonneg is_fit (l_thr s)). lia.
  Qed.

  (* C05: idle pool => counters back to zero *)
  Definition lquiescent (s : lst) : Prop := (forall g, lpc_of s g = LIdle) /\ l_holders s = [].

  Lemma lm_quiescent_zero ls s :
    lrun c linit ls = Some s -> lquiescent s -> l_inuse s = 0 /\ l_waiters s = 0.
  Proof.
    intros H [Hidle Hh]. destruct (linv_run _ _ _ linv_init H) as [Hnd Hin _ Hw].
    rewrite Hin, Hw, Hh.
    rewrite (fcnt_zero LIdle is_incd _ Hnd eq_refl), (fcnt_zero LIdle is_waiting _ Hnd eq_refl).
    - split; reflexivity.
    - intros k. unfold lpc_of in Hidle. rewrite Hidle. reflexivity.
    - intros k. unfold lpc_of in Hidle. rewrite Hidle. reflexivity.
  Qed.

  Lemma lm_sleeper_counted s g : linv s -> lpc_of s g = LSleep -> 1 <= l_waiters s.
  Proof.
    intros [_ _ _ Hw] Hg. rewrite Hw. apply (fcnt_pos LIdle is_waiting g); [reflexivity|].
    unfold lpc_of in Hg. rewrite Hg. reflexivity.
  Qed.
End Lm.

(* ------------------------------------------------------------------------------------------- *)
(* C04 (pool clause): a sleeping getter is woken within one heartbeat once capacity is free      *)
Definition l_nonenv (ls : list llabel) : Prop := forallb (fun l => negb (l_env l)) ls = true.
Definition l_ticks (ls : list llabel) : nat := length (filter l_is_tickw ls).

Section LmLive.
  Variable c : pcfg.
  (* what the proofs need from the heartbeat's condition: it fires when there are waiters and events are available *)
  Hypothesis Htick : tickc c true true = true.

  Lemma lpc_lset_tick s t g : lpc_of (lset_tick s t) g = lpc_of s g. Proof. reflexivity. Qed.
  Lemma lpc_lbcast s g : lpc_of (lbcast s) g = lwake (lpc_of s g).
  Proof. unfold lpc_of, lbcast, lbroadcast. cbn [l_thr lupd]. apply fget_fmapv. reflexivity. Qed.

  (* one full heartbeat from its idle point *)
  Lemma lm_tick_from_idle s g :
    l_tick s = TIdle -> lpc_of s g = LSleep -> 1 <= l_waiters s -> avail c (l_inuse s) (cap c) = true ->
    exists s', lrun c s [LmTickW (l_waiters s); LmTickA true; LmTickFire] = Some s' /\ lpc_of s' g = LWoken.
  Proof.
    intros Ht Hg Hw Ha. eexists. split.
    - cbn [lrun lstep]. rewrite Ht, Z.eqb_refl. cbn [lset_tick lupd l_tick l_inuse]. rewrite Ha. cbn [Bool.eqb].
      cbn [lset_tick lupd l_tick l_inuse]. replace (0 <? l_waiters s) with true by lia. rewrite Htick. reflexivity.
    - rewrite lpc_lset_tick, lpc_lbcast. unfold lpc_of in *. cbn [l_thr lupd lset_tick]. rewrite Hg. reflexivity.
  Qed.

  Lemma lm_no_stuck_waiter s g :
    lpc_of s g = LSleep -> 1 <= l_waiters s -> avail c (l_inuse s) (cap c) = true ->
    exists ls s', l_nonenv ls /\ (l_ticks ls <= 1)%nat /\ lrun c s ls = Some s' /\ lpc_of s' g <> LSleep.
  Proof.
    intros Hg Hw Ha.
    (* after the in-flight heartbeat iteration (if any) has ended without firing, a full one follows *)
    assert (Hfull : forall s0, l_tick s0 = TIdle -> l_thr s0 = l_thr s -> l_inuse s0 = l_inuse s -> l_waiters s0 = l_waiters s ->
              exists s', lrun c s0 [LmTickW (l_waiters s0); LmTickA true; LmTickFire] = Some s' /\ lpc_of s' g <> LSleep).
    { intros s0 Ht0 Hthr Hin0 Hw0. destruct (lm_tick_from_idle s0 g Ht0) as [s' [Hr Hp]].
      - unfold lpc_of in *. rewrite Hthr. exact Hg.
      - lia.
      - rewrite Hin0. exact Ha.
      - exists s'. split; [exact Hr|]. rewrite Hp. discriminate. }
    destruct (l_tick s) as [|w|w a|] eqn:Ht.
    - destruct (Hfull s Ht eq_refl eq_refl eq_refl) as [s' [Hr Hp]].
      exists [LmTickW (l_waiters s); LmTickA true; LmTickFire], s'. repeat split; [cbn; lia|exact Hr|exact Hp].
    - (* loaded the waiter count, about to load availability *)
      destruct (tickc c (0 <? w) true) eqn:Ec.
      + exists [LmTickA true; LmTickFire]. eexists. repeat split; [cbn; lia| |].
        * cbn [lrun lstep]. rewrite Ht, Ha. cbn [Bool.eqb lset_tick lupd l_tick]. rewrite Ec. reflexivity.
        * rewrite lpc_lset_tick, lpc_lbcast. unfold lpc_of in *. cbn [l_thr lupd lset_tick]. rewrite Hg. discriminate.
      + destruct (Hfull (lset_tick s TIdle) eq_refl eq_refl eq_refl eq_refl) as [s' [Hr Hp]].
        exists ([LmTickA true; LmTickEnd] ++ [LmTickW (l_waiters (lset_tick s TIdle)); LmTickA true; LmTickFire]), s'.
        repeat split; [cbn; lia| |exact Hp].
        eapply lrun_app; [|exact Hr].
        cbn [lrun lstep]. rewrite Ht, Ha. cbn [Bool.eqb lset_tick lupd l_tick]. rewrite Ec. reflexivity.
    - destruct (tickc c (0 <? w) a) eqn:Ec.
      + exists [LmTickFire]. eexists. repeat split; [cbn; lia| |].
        * cbn [lrun lstep]. rewrite Ht, Ec. reflexivity.
        * rewrite lpc_lset_tick, lpc_lbcast. rewrite Hg. discriminate.
      + destruct (Hfull (lset_tick s TIdle) eq_refl eq_refl eq_refl eq_refl) as [s' [Hr Hp]].
        exists ([LmTickEnd] ++ [LmTickW (l_waiters (lset_tick s TIdle)); LmTickA true; LmTickFire]), s'.
        repeat split; [cbn; lia| |exact Hp].
        eapply lrun_app; [|exact Hr]. cbn [lrun lstep]. rewrite Ht, Ec. reflexivity.
    - destruct (Hfull (lset_tick s TIdle) eq_refl eq_refl eq_refl eq_refl) as [s' [Hr Hp]].
      exists ([LmTickEnd] ++ [LmTickW (l_waiters (lset_tick s TIdle)); LmTickA true; LmTickFire]), s'.
      repeat split; [cbn; lia| |exact Hp].
      eapply lrun_app; [|exact Hr]. cbn [lrun lstep]. rewrite Ht. reflexivity.
  Qed.
End LmLive.

(* ------------------------------------------------------------------------------------------- *)
(* the same pool with a heartbeat that does NOT fire while events are available (the condition  *)
(* `waiters > 0 && !eventsAvailable` the code had): a state from which a sleeper is never woken   *)
Section LmStuck.
  Variable c : pcfg.
  Hypothesis Hnofire : forall w, tickc c w true = false.
  Hypothesis Havail0 : avail c 0 (cap c) = true.

  Definition stuck_inv (g : Z) (s : lst) : Prop :=
    lpc_of s g = LSleep /\ l_inuse s = 0 /\ l_bpend s = [] /\ (forall g', g' <> g -> lpc_of s g' = LIdle) /\
    match l_tick s with TA _ a => a = true | TFired => False | _ => True end.

  Lemma stuck_step g s l s' : stuck_inv g s -> l_env l = false -> lstep c s l = Some s' -> stuck_inv g s'.
  Proof.
    intros (Hg & Hin & Hb & Hoth & Ht) He H.
    assert (Hpc : forall g0, lpc_of s g0 = LSleep \/ lpc_of s g0 = LIdle).
    { intros g0. destruct (Z.eq_dec g0 g) as [->|Hne]; [left; exact Hg|right; exact (Hoth g0 Hne)]. }
    destruct l; try discriminate He; unfold lstep in H;
      try (match type of H with context [lpc_of s ?g0] => destruct (Hpc g0) as [E|E]; rewrite E in H; discriminate H end).
    - rewrite Hb in H. discriminate H.
    - step_split H; inversion H; subst. unfold stuck_inv. cbn [lset_tick lupd l_inuse l_bpend l_tick]. rewrite !lpc_lset_tick. auto.
    - step_split H; inversion H; subst. unfold stuck_inv. cbn [lset_tick lupd l_inuse l_bpend l_tick].
      repeat split; auto. rewrite Hin, Havail0 in *. bnorm. assumption.
    - step_split H. subst. rewrite Hnofire in *. discriminate.
    - step_split H; inversion H; subst; try contradiction. unfold stuck_inv. cbn [lset_tick lupd l_inuse l_bpend l_tick]. auto.
  Qed.

  Lemma stuck_run g ls : forall s s', stuck_inv g s -> l_nonenv ls -> lrun c s ls = Some s' -> lpc_of s' g = LSleep.
  Proof.
    induction ls as [|l r IH]; intros s s' Hs Hne Hr; cbn [lrun] in Hr.
    - inversion Hr; subst. exact (proj1 Hs).
    - unfold l_nonenv in Hne. cbn [forallb] in Hne. apply andb_true_iff in Hne. destruct Hne as [Hl Hrest].
      destruct (lstep c s l) as [s1|] eqn:E; [|discriminate].
      apply negb_true_iff in Hl. exact (IH s1 s' (stuck_step g s l s1 Hs Hl E) Hrest Hr).
  Qed.
End LmStuck.
