(* NO-WEDGE theorem of the processor (Model/Proc.v = pipeline/processor.go: processEvent / doActions /
   Propagate / Spawn as a stack machine, actions arbitrary up to the protocol guards P1-P6):
   from EVERY reachable state, without taking any new regular event from the stream, the processor can
   finish everything it has in hand: every event on the stack leaves (output or dropped) and every held
   event is flushed; the only events taken from the stream on the way are stream time-outs.

   Proof: a computable schedule [choose] (one label per state), a variant [rank] and a progress lemma
   [choose_step]: in every state that is not crashed either stack and held are both empty or the label
   chosen is enabled, internal, strictly decreases [rank] and loses nothing ([keeps]).  The steps chosen:
     head frame BeforeDo            -> PDo with the busy flag the model demands;
     head frame InDo, action busy   -> PPropagate of the event that action holds (P1);
     head frame InDo, action idle   -> PResult RDiscard (always allowed: P2-P4 restrict only Pass/Break/Hold);
     head frame MustOut             -> POut;
     stack empty, something held    -> PTake of a time-out at the FIRST busy action (the guard of PTake).
   [drain k s] iterates the schedule; the witness of the theorem is [drain (S (rank s)) s].

   What the proof does NOT need (findings):
     - reachability is used only for [pcrashed s = false] (no step of [pstep] sets the flag, so it is
       false in every reachable state): the theorem holds from every non-crashed state, reachable or not;
     - the premise [0 <= n] of the statement is not used;
     - none of the invariants of Proofs/Proc.v ([struct_ok], [ord_ok]) is used: no guard P1-P6 can block the schedule. *)
From Verif Require Import Base.Sx Model.Proc Proofs.Proc Proofs.ProcTheorems.
From Coq Require Import Lia ZifyBool Bool List ZArith Arith.
Import ListNotations.
Local Open Scope Z_scope.

(* the only events taken are stream time-outs *)
Definition internal (l : plabel) : Prop :=
  match l with PTake e _ => pkind e = 3 | _ => True end.

(* ------------------------------------------------------------------------------------------- *)
(* the crash flag                                                                                *)

Lemma pstep_crashed s l s' : pstep s l = Some s' -> pcrashed s = false /\ pcrashed s' = false.
Proof.
  intros H. destruct s as [n st h lt o d c].
  destruct l as [e start|e a busy|e next|parent k|e idx|e idx|e a r|e]; pstep_inv H; split; reflexivity.
Qed.

(* no step sets the flag: it is false in every reachable state *)
Lemma reachable_not_crashed n ls s : prun (pinit n) ls = Some s -> pcrashed s = false.
Proof.
  apply (prun_invariant (fun s => pcrashed s = false)); [|reflexivity].
  intros s0 l s1 _ Hstep. exact (proj2 (pstep_crashed _ _ _ Hstep)).
Qed.

(* ------------------------------------------------------------------------------------------- *)
(* held lists: the first busy action, unhold                                                     *)

Definition holding (h : list (Z * pev)) (a : Z) : bool :=
  match held_at h a with Some _ => true | None => false end.

(* the smallest action index that holds an event (0 for the empty list) *)
Fixpoint min_idx (h : list (Z * pev)) : Z :=
  match h with
  | [] => 0
  | (i, _) :: r => match r with [] => i | _ :: _ => Z.min i (min_idx r) end
  end.

Lemma min_idx_cons i x p r : min_idx ((i, x) :: p :: r) = Z.min i (min_idx (p :: r)).
Proof. reflexivity. Qed.

Lemma min_idx_le h : forall j y, In (j, y) h -> min_idx h <= j.
Proof.
  induction h as [|[i x] r IH]; intros j y Hin; [destruct Hin|].
  destruct r as [|p r'].
  - destruct Hin as [Heq|[]]. inversion Heq; subst. cbn [min_idx]. lia.
  - rewrite min_idx_cons. destruct Hin as [Heq|Hin].
    + inversion Heq; subst. lia.
    + specialize (IH j y Hin). lia.
Qed.

Lemma min_idx_in h : h <> [] -> exists y, In (min_idx h, y) h.
Proof.
  induction h as [|[i x] r IH]; [congruence|]. intros _.
  destruct r as [|p r'].
  - exists x. left. reflexivity.
  - rewrite min_idx_cons.
    assert (Hne : p :: r' <> []) by discriminate.
    destruct (IH Hne) as [y Hy].
    destruct (Z.min_spec i (min_idx (p :: r'))) as [[_ Hm]|[_ Hm]]; rewrite Hm.
    + exists x. left. reflexivity.
    + exists y. right. exact Hy.
Qed.

Lemma held_at_some h a y : In (a, y) h -> exists y', held_at h a = Some y'.
Proof.
  induction h as [|[i x] r IH]; [intros []|]. cbn [held_at]. intros [Heq|Hin].
  - inversion Heq; subst. rewrite Z.eqb_refl. eauto.
  - destruct (i =? a); eauto.
Qed.

Lemma none_left_min h : existsb (fun p : Z * pev => fst p <? min_idx h) h = false.
Proof.
  destruct (existsb (fun p : Z * pev => fst p <? min_idx h) h) eqn:E; [|reflexivity].
  apply existsb_exists in E. destruct E as [[j y] [Hin Hlt]]. cbn [fst] in Hlt.
  pose proof (min_idx_le _ _ _ Hin) as Hle. lia.
Qed.

Lemma unhold_length h a y : held_at h a = Some y -> S (length (unhold h a)) = length h.
Proof.
  induction h as [|[i x] r IH]; cbn [held_at unhold]; [discriminate|].
  destruct (i =? a); intros H; cbn [length]; [reflexivity|]. f_equal. exact (IH H).
Qed.

(* the event an action holds is the one [unhold] removes; every other held event stays *)
Lemma held_split h a y : held_at h a = Some y ->
  forall e, In e (map snd h) -> e = y \/ In e (map snd (unhold h a)).
Proof.
  induction h as [|[i x] r IH]; cbn [held_at unhold]; [discriminate|].
  destruct (i =? a); intros H e Hin; cbn [map snd In] in Hin |- *.
  - inversion H; subst. destruct Hin as [Heq|Hin]; [left; symmetry; exact Heq|right; exact Hin].
  - destruct Hin as [Heq|Hin]; [right; left; exact Heq|].
    destruct (IH H e Hin) as [Hy|Hr]; [left; exact Hy|right; right; exact Hr].
Qed.

Lemma pev_eqb_refl x : pev_eqb x x = true.
Proof. unfold pev_eqb. rewrite !Z.eqb_refl. reflexivity. Qed.

(* ------------------------------------------------------------------------------------------- *)
(* the schedule                                                                                  *)

Definition tmo : pev := {| pseq := 0; pkind := 3 |}.   (* a stream time-out event *)

Definition choose (s : pst) : option plabel :=
  match stack s with
  | [] => match held s with
          | [] => None
          | _ :: _ => Some (PTake tmo (min_idx (held s)))
          end
  | f :: _ =>
      Some match fph f with
           | BeforeDo => PDo (fev f) (fidx f) (holding (held s) (fidx f))
           | InDo => match held_at (held s) (fidx f) with
                     | Some y => PPropagate y (fidx f + 1)
                     | None => PResult (fev f) (fidx f) RDiscard
                     end
           | MustOut => POut (fev f)
           end
  end.

Fixpoint drain (k : nat) (s : pst) : list plabel :=
  match k with
  | O => []
  | S k' => match choose s with
            | None => []
            | Some l => match pstep s l with
                        | Some s1 => l :: drain k' s1
                        | None => []
                        end
            end
  end.

(* ------------------------------------------------------------------------------------------- *)
(* the variant                                                                                   *)

(* steps the schedule spends on a frame itself: Do + result, or result only, or output *)
Definition fbase (f : frame) : nat :=
  match fph f with BeforeDo => 2%nat | InDo => 1%nat | MustOut => 1%nat end.

(* a held event costs 6 (time-out taken, its Do, Propagate, the flushed event's Do + result or its output,
   the time-out's result); 3 of them are already paid when the head frame is at the action that holds it *)
Definition adj (st : list frame) (h : list (Z * pev)) : nat :=
  match st with
  | [] => 3%nat
  | f :: _ => match fph f with
              | MustOut => 3%nat
              | _ => if holding h (fidx f) then 0%nat else 3%nat
              end
  end.

Fixpoint fsum (st : list frame) : nat :=
  match st with [] => 0%nat | f :: r => (fbase f + fsum r)%nat end.

Definition rank (s : pst) : nat :=
  (6 * length (held s) + fsum (stack s) + adj (stack s) (held s))%nat.

Lemma adj_le3 st h : (adj st h <= 3)%nat.
Proof.
  unfold adj. destruct st as [|f r]; [lia|].
  destruct (fph f); try lia; destruct (holding h (fidx f)); lia.
Qed.

(* ------------------------------------------------------------------------------------------- *)
(* nothing is lost                                                                               *)

Definition inhand (s : pst) : list pev := map fev (stack s) ++ map snd (held s).
Definition acct (s : pst) (e : pev) : Prop := In e (inhand s) \/ In e (outs s) \/ In e (dropped s).
(* every event that is not a time-out and is in hand, output or dropped before, still is after *)
Definition keeps (s s1 : pst) : Prop := forall e, pkind e <> 3 -> acct s e -> acct s1 e.

Lemma keeps_refl s : keeps s s.
Proof. intros e _ H. exact H. Qed.

Lemma keeps_trans s1 s2 s3 : keeps s1 s2 -> keeps s2 s3 -> keeps s1 s3.
Proof. intros H12 H23 e Hk Ha. apply H23; [exact Hk|]. apply H12; assumption. Qed.

(* ------------------------------------------------------------------------------------------- *)
(* progress                                                                                      *)

Lemma choose_none s : choose s = None -> stack s = [] /\ held s = [].
Proof.
  unfold choose. destruct (stack s) as [|f r]; [|discriminate].
  destruct (held s) as [|p h']; [split; reflexivity|discriminate].
Qed.

Lemma choose_step s l : pcrashed s = false -> choose s = Some l ->
  exists s1, pstep s l = Some s1 /\ internal l /\ (rank s1 < rank s)%nat /\ keeps s s1.
Proof.
  destruct s as [n st h lt o d c]. cbn [pcrashed]. intros Hc. subst c.
  unfold choose. cbn [stack held].
  destruct st as [|f r].
  - (* stack empty: a time-out for the first busy action *)
    destruct h as [|p h'] eqn:Eh; [discriminate|]. rewrite <- Eh.
    assert (Hne : h <> []) by (rewrite Eh; discriminate). clear Eh p h'.
    intros Hl. inversion Hl; subst l; clear Hl.
    destruct (min_idx_in h Hne) as [y Hy]. destruct (held_at_some _ _ _ Hy) as [y' Hy'].
    eexists. split; [|split; [|split]].
    + unfold pstep. cbn [pcrashed stack held].
      change (pkind tmo =? 3) with true. cbv iota.
      rewrite Hy', none_left_min. cbn [negb]. reflexivity.
    + reflexivity.
    + unfold rank, set_stack. cbn [stack held]. unfold adj. cbn [fph fidx fsum fbase].
      unfold holding. rewrite Hy'. lia.
    + intros e Hk Ha. unfold acct, inhand, set_stack in *. cbn [stack held outs dropped map app In] in *. tauto.
  - intros Hl. inversion Hl; subst l; clear Hl.
    destruct f as [fe fi fp]. cbn [fph fev fidx]. destruct fp.
    + (* BeforeDo: enter Do *)
      eexists. split; [|split; [|split]].
      * unfold pstep. cbn [pcrashed stack held fph fev fidx].
        rewrite pev_eqb_refl, Z.eqb_refl. unfold holding. rewrite Bool.eqb_reflx. cbn [andb]. reflexivity.
      * exact I.
      * unfold rank, set_stack. cbn [stack held]. unfold adj. cbn [fph fidx fev fsum fbase].
        destruct (holding h fi); lia.
      * intros e Hk Ha. unfold acct, inhand, set_stack in *.
        cbn [stack held outs dropped map app In fev] in *. exact Ha.
    + (* InDo *)
      destruct (held_at h fi) as [y|] eqn:Ehd.
      * (* the action is busy: it flushes what it holds *)
        eexists. split; [|split; [|split]].
        -- unfold pstep. cbn [pcrashed stack held fph fev fidx].
           replace (fi + 1 - 1) with fi by lia. rewrite Ehd, Z.eqb_refl, pev_eqb_refl. cbn [andb]. reflexivity.
        -- exact I.
        -- pose proof (unhold_length _ _ _ Ehd) as Hlen.
           unfold rank, set_held. cbn [stack held nact].
           pose proof (adj_le3
             ((if fi + 1 <? n then {| fev := y; fidx := fi + 1; fph := BeforeDo |}
               else {| fev := y; fidx := fi; fph := MustOut |})
              :: {| fev := fe; fidx := fi; fph := InDo |} :: r) (unhold h fi)) as Hadj.
           assert (Hold : adj ({| fev := fe; fidx := fi; fph := InDo |} :: r) h = 0%nat).
           { unfold adj. cbn [fph fidx]. unfold holding. rewrite Ehd. reflexivity. }
           rewrite Hold. cbn [fsum].
           assert (Hnew : le (fbase (if fi + 1 <? n then {| fev := y; fidx := fi + 1; fph := BeforeDo |}
                                     else {| fev := y; fidx := fi; fph := MustOut |})) 2%nat).
           { destruct (fi + 1 <? n); unfold fbase; cbn [fph]; lia. }
           assert (Hf : fbase {| fev := fe; fidx := fi; fph := InDo |} = 1%nat) by reflexivity.
           rewrite Hf. lia.
        -- intros e Hk Ha. unfold acct, inhand, set_held in *.
           cbn [stack held outs dropped map app In fev nact] in *.
           assert (Hfe : fev (if fi + 1 <? n then {| fev := y; fidx := fi + 1; fph := BeforeDo |}
                              else {| fev := y; fidx := fi; fph := MustOut |}) = y)
             by (destruct (fi + 1 <? n); reflexivity).
           rewrite Hfe.
           destruct Ha as [[Heq|Hin]|Hod]; [left; right; left; exact Heq| |right; exact Hod].
           apply in_app_or in Hin. destruct Hin as [Hr|Hh].
           ++ left. right. right. apply in_or_app. left. exact Hr.
           ++ destruct (held_split _ _ _ Ehd e Hh) as [Hy|Hu].
              ** left. left. symmetry. exact Hy.
              ** left. right. right. apply in_or_app. right. exact Hu.
      * (* the action is idle: its Do may return Discard *)
        eexists. split; [|split; [|split]].
        -- unfold pstep. cbn [pcrashed stack held fph fev fidx].
           rewrite pev_eqb_refl, Z.eqb_refl. cbn [andb negb]. reflexivity.
        -- exact I.
        -- unfold rank. cbn [stack held].
           pose proof (adj_le3 r h) as Hadj.
           assert (Hold : adj ({| fev := fe; fidx := fi; fph := InDo |} :: r) h = 3%nat).
           { unfold adj. cbn [fph fidx]. unfold holding. rewrite Ehd. reflexivity. }
           rewrite Hold. cbn [fsum].
           assert (Hf : fbase {| fev := fe; fidx := fi; fph := InDo |} = 1%nat) by reflexivity.
           rewrite Hf. lia.
        -- intros e Hk Ha. unfold acct, inhand in *.
           cbn [stack held outs dropped map app In fev] in *.
           destruct Ha as [[Heq|Hin]|[Ho|Hd]].
           ++ subst e. right. right. destruct (pkind fe =? 3) eqn:E3; [lia|left; reflexivity].
           ++ left. exact Hin.
           ++ right. left. exact Ho.
           ++ right. right. destruct (pkind fe =? 3); [exact Hd|right; exact Hd].
    + (* MustOut: the event is handed to the output *)
      eexists. split; [|split; [|split]].
      * unfold pstep. cbn [pcrashed stack held fph fev fidx].
        rewrite pev_eqb_refl. cbn [orb]. reflexivity.
      * exact I.
      * unfold rank. cbn [stack held].
        pose proof (adj_le3 r h) as Hadj.
        assert (Hold : adj ({| fev := fe; fidx := fi; fph := MustOut |} :: r) h = 3%nat) by reflexivity.
        rewrite Hold. cbn [fsum].
        assert (Hf : fbase {| fev := fe; fidx := fi; fph := MustOut |} = 1%nat) by reflexivity.
        rewrite Hf. lia.
      * intros e Hk Ha. unfold acct, inhand in *.
        cbn [stack held outs dropped map app In fev] in *.
        destruct Ha as [[Heq|Hin]|[Ho|Hd]].
        -- right. left. left. exact Heq.
        -- left. exact Hin.
        -- right. left. right. exact Ho.
        -- right. right. exact Hd.
Qed.

(* the progress form, for every state that is not crashed *)
Lemma finished_or_progress s : pcrashed s = false ->
  (stack s = [] /\ held s = []) \/
  exists l s1, choose s = Some l /\ internal l /\ pstep s l = Some s1 /\ (rank s1 < rank s)%nat /\ keeps s s1.
Proof.
  intros Hc. destruct (choose s) as [l|] eqn:El.
  - right. destruct (choose_step s l Hc El) as [s1 [Hs [Hi [Hlt Hk]]]]. exists l, s1. auto.
  - left. apply choose_none. exact El.
Qed.

Theorem proc_finished_or_progress :
  forall n ls s, prun (pinit n) ls = Some s ->
  (stack s = [] /\ held s = []) \/
  exists l s1, internal l /\ pstep s l = Some s1 /\ (rank s1 < rank s)%nat.
Proof.
  intros n ls s Hrun.
  destruct (finished_or_progress s (reachable_not_crashed _ _ _ Hrun)) as [Hfin|[l [s1 [_ [Hi [Hs [Hlt _]]]]]]].
  - left. exact Hfin.
  - right. exists l, s1. auto.
Qed.

(* ------------------------------------------------------------------------------------------- *)
(* induction on the variant                                                                      *)

Lemma drain_finishes k : forall s, (rank s < k)%nat -> pcrashed s = false ->
  exists s', prun s (drain k s) = Some s' /\ Forall internal (drain k s) /\
    pcrashed s' = false /\ stack s' = [] /\ held s' = [] /\ keeps s s'.
Proof.
  induction k as [|k IH]; intros s Hr Hc; [lia|].
  cbn [drain]. destruct (choose s) as [l|] eqn:El.
  - destruct (choose_step s l Hc El) as [s1 [Hs [Hi [Hlt Hk]]]]. rewrite Hs.
    assert (Hr1 : (rank s1 < k)%nat) by lia.
    destruct (IH s1 Hr1 (proj2 (pstep_crashed _ _ _ Hs))) as [s' [Hrun [Hall [Hc' [Hst [Hh Hk']]]]]].
    exists s'. split; [cbn [prun]; rewrite Hs; exact Hrun|].
    split; [constructor; assumption|].
    split; [exact Hc'|]. split; [exact Hst|]. split; [exact Hh|].
    eapply keeps_trans; eassumption.
  - apply choose_none in El. destruct El as [Hst Hh].
    exists s. split; [reflexivity|]. split; [constructor|].
    split; [exact Hc|]. split; [exact Hst|]. split; [exact Hh|apply keeps_refl].
Qed.

(* the theorem for every state that is not crashed, with the schedule as explicit witness *)
Theorem can_finish_from : forall s, pcrashed s = false ->
  exists s', prun s (drain (S (rank s)) s) = Some s' /\ Forall internal (drain (S (rank s)) s) /\
    pcrashed s' = false /\ stack s' = [] /\ held s' = [] /\
    (forall e, In e (map fev (stack s) ++ map snd (held s)) -> pkind e <> 3 -> In e (outs s') \/ In e (dropped s')).
Proof.
  intros s Hc.
  assert (Hr : (rank s < S (rank s))%nat) by lia.
  destruct (drain_finishes (S (rank s)) s Hr Hc) as [s' [Hrun [Hall [Hc' [Hst [Hh Hk]]]]]].
  exists s'. repeat (split; [assumption|]).
  intros e Hin Hk3.
  assert (Ha : acct s e) by (left; exact Hin).
  specialize (Hk e Hk3 Ha). unfold acct, inhand in Hk. rewrite Hst, Hh in Hk. cbn [map app] in Hk.
  destruct Hk as [[]|Hk]. exact Hk.
Qed.

(* ------------------------------------------------------------------------------------------- *)
(* the NO-WEDGE theorem                                                                          *)

Theorem proc_can_always_finish :
  forall n ls s, 0 <= n -> prun (pinit n) ls = Some s ->
  exists ls' s', Forall internal ls' /\ prun s ls' = Some s' /\
    pcrashed s' = false /\ stack s' = [] /\ held s' = [] /\
    (* nothing is lost on the way: what was in hand is now output or dropped *)
    (forall e, In e (map fev (stack s) ++ map snd (held s)) -> pkind e <> 3 -> In e (outs s') \/ In e (dropped s')).
Proof.
  intros n ls s _ Hrun.
  destruct (can_finish_from s (reachable_not_crashed _ _ _ Hrun)) as [s' [Hr [Hall [Hc [Hst [Hh Hk]]]]]].
  exists (drain (S (rank s)) s), s'.
  split; [exact Hall|]. split; [exact Hr|]. split; [exact Hc|]. split; [exact Hst|]. split; [exact Hh|exact Hk].
Qed.

(* the number of steps is bounded by the variant *)
Lemma drain_length k : forall s, (length (drain k s) <= k)%nat.
Proof.
  induction k as [|k IH]; intros s; cbn [drain length]; [lia|].
  destruct (choose s) as [l|]; [|cbn [length]; lia].
  destruct (pstep s l) as [s1|]; [|cbn [length]; lia].
  cbn [length]. specialize (IH s1). lia.
Qed.

(* ------------------------------------------------------------------------------------------- *)
(* non-vacuity                                                                                   *)

(* 3 actions.  e1 passes actions 0 and 1 and is held by action 2; e2 passes action 0 and is held by
   action 1; e3 is taken and is inside Do of action 0. *)
Definition two_holders_in_do : list plabel :=
  [PTake (ev 1 0) 0; PDo (ev 1 0) 0 false; PResult (ev 1 0) 0 RPass; PDo (ev 1 0) 1 false; PResult (ev 1 0) 1 RPass;
   PDo (ev 1 0) 2 false; PResult (ev 1 0) 2 RHold;
   PTake (ev 2 0) 0; PDo (ev 2 0) 0 false; PResult (ev 2 0) 0 RPass; PDo (ev 2 0) 1 false; PResult (ev 2 0) 1 RHold;
   PTake (ev 3 0) 0; PDo (ev 3 0) 0 false].

Example proc_two_holders_in_do_state :
  option_map (fun s => (held s, stack s, outs s, dropped s)) (prun (pinit 3) two_holders_in_do)
    = Some ([(1, ev 2 0); (2, ev 1 0)], [{| fev := ev 3 0; fidx := 0; fph := InDo |}], [], []).
Proof. vm_compute. reflexivity. Qed.

(* the schedule of the proof: e3 is discarded; ONE time-out goes to action 1, which flushes e2; e2 makes
   action 2 flush e1 (out) and is discarded there; the time-out is discarded *)
Definition finish_by_schedule : list plabel :=
  [PResult (ev 3 0) 0 RDiscard;
   PTake tmo 1; PDo tmo 1 true; PPropagate (ev 2 0) 2;
     PDo (ev 2 0) 2 true; PPropagate (ev 1 0) 3; POut (ev 1 0);
     PResult (ev 2 0) 2 RDiscard;
   PResult tmo 1 RDiscard].

Example proc_finish_example_schedule :
  forall s, prun (pinit 3) two_holders_in_do = Some s ->
    drain (S (rank s)) s = finish_by_schedule /\ Forall internal finish_by_schedule /\
    option_map (fun s' => (pcrashed s', stack s', held s', outs s', dropped s')) (prun s finish_by_schedule)
      = Some (false, [], [], [ev 1 0], [ev 2 0; ev 3 0]).
Proof.
  intros s H. vm_compute in H. inversion H; subst s; clear H.
  split; [vm_compute; reflexivity|]. split; [|vm_compute; reflexivity].
  unfold finish_by_schedule. repeat constructor.
Qed.

(* another finish of the same state, every held event flushed by its own stream time-out *)
Definition finish_by_two_timeouts : list plabel :=
  [PResult (ev 3 0) 0 RDiscard;
   PTake (ev 0 3) 1; PDo (ev 0 3) 1 true; PPropagate (ev 2 0) 2;
     PDo (ev 2 0) 2 true; PResult (ev 2 0) 2 RDiscard;
   PResult (ev 0 3) 1 RDiscard;
   PTake (ev 0 3) 2; PDo (ev 0 3) 2 true; PPropagate (ev 1 0) 3; POut (ev 1 0);
   PResult (ev 0 3) 2 RDiscard].

Example proc_finish_example_two_timeouts :
  Forall internal finish_by_two_timeouts /\
  option_map (fun s' => (pcrashed s', stack s', held s', outs s', dropped s'))
    (prun (pinit 3) (two_holders_in_do ++ finish_by_two_timeouts))
    = Some (false, [], [], [ev 1 0], [ev 2 0; ev 3 0]).
Proof.
  split; [|vm_compute; reflexivity].
  unfold finish_by_two_timeouts. repeat constructor.
Qed.

(* taking a regular event instead is not internal, and a time-out is refused while the stack is not empty
   or at an action that is not the first busy one: the schedule has no other way to reach the held events *)
Example proc_timeout_guard_example :
  forall s, prun (pinit 3) two_holders_in_do = Some s ->
    ~ internal (PTake (ev 4 0) 0) /\
    pstep s (PTake tmo 1) = None /\
    (forall s1, pstep s (PResult (ev 3 0) 0 RDiscard) = Some s1 ->
       pstep s1 (PTake tmo 2) = None /\ pstep s1 (PTake tmo 0) = None /\ pstep s1 (PTake tmo 1) <> None).
Proof.
  intros s H. vm_compute in H. inversion H; subst s; clear H.
  split; [cbn; discriminate|]. split; [vm_compute; reflexivity|].
  intros s1 H1. vm_compute in H1. inversion H1; subst s1; clear H1.
  split; [vm_compute; reflexivity|]. split; [vm_compute; reflexivity|]. vm_compute. discriminate.
Qed.

(* n = 0: no action, nothing can be held; the only thing in hand is an event on its way out *)
Example proc_finish_example_no_actions :
  forall s, prun (pinit 0) [PTake (ev 1 0) 0] = Some s ->
    held s = [] /\ drain (S (rank s)) s = [POut (ev 1 0)] /\
    option_map (fun s' => (stack s', held s', outs s')) (prun s [POut (ev 1 0)]) = Some ([], [], [ev 1 0]).
Proof.
  intros s H. vm_compute in H. inversion H; subst s; clear H.
  split; [reflexivity|]. split; vm_compute; reflexivity.
Qed.

Print Assumptions proc_can_always_finish.
Print Assumptions proc_finished_or_progress.
Print Assumptions can_finish_from.
