(* Proofs for C18 (Model/Fields.v). *)
From Verif Require Import Base.Sx Base.GoSem Base.Json Model.Fields.
From Coq Require Import Lia Permutation.

(* ------------------------------------------------------------------------------------------ *)
(* A. generalities: induction on json, keys, named versions of the nested fixpoints            *)
(* ------------------------------------------------------------------------------------------ *)
Section JsonInd.
  Variable P : json -> Prop.
  Hypothesis Hnull : P JNull.
  Hypothesis Hbool : forall b, P (JBool b).
  Hypothesis Hnum : forall r, P (JNum r).
  Hypothesis Hstr : forall s, P (JStr s).
  Hypothesis Harr : forall l, Forall P l -> P (JArr l).
  Hypothesis Hobj : forall fs, Forall (fun kv => P (snd kv)) fs -> P (JObj fs).
  Fixpoint json_ind2 (j : json) : P j :=
    match j with
    | JNull => Hnull
    | JBool b => Hbool b
    | JNum r => Hnum r
    | JStr s => Hstr s
    | JArr l => Harr l ((fix go (l : list json) : Forall P l :=
                           match l with
                           | [] => Forall_nil _
                           | x :: r => Forall_cons x (json_ind2 x) (go r)
                           end) l)
    | JObj fs => Hobj fs ((fix go (fs : fields) : Forall (fun kv => P (snd kv)) fs :=
                             match fs with
                             | [] => Forall_nil _
                             | kv :: r => Forall_cons kv (json_ind2 (snd kv)) (go r)
                             end) fs)
    end.
End JsonInd.

Lemma N_eqb_list_eq a : forall b, N_eqb_list a b = true <-> a = b.
Proof.
  induction a as [|x a IH]; intros [|y b]; cbn; split; intro H; try reflexivity; try discriminate.
  - apply andb_true_iff in H as [H1 H2]. apply N.eqb_eq in H1. apply IH in H2. congruence.
  - inversion H; subst. rewrite N.eqb_refl. cbn. apply IH. reflexivity.
Qed.
Lemma key_eqb_eq a b : key_eqb a b = true <-> a = b.
Proof. apply N_eqb_list_eq. Qed.
Lemma key_eqb_refl a : key_eqb a a = true.
Proof. apply key_eqb_eq. reflexivity. Qed.
Lemma key_eqb_neq a b : key_eqb a b = false <-> a <> b.
Proof.
  split; intro H.
  - intro E. apply key_eqb_eq in E. congruence.
  - destruct (key_eqb a b) eqn:E; [|reflexivity]. apply key_eqb_eq in E. contradiction.
Qed.
Lemma key_eqb_sym a b : key_eqb a b = key_eqb b a.
Proof.
  destruct (key_eqb a b) eqn:E.
  - apply key_eqb_eq in E. subst. symmetry. apply key_eqb_refl.
  - apply key_eqb_neq in E. symmetry. apply key_eqb_neq. congruence.
Qed.

Definition keys (fs : fields) : list bytes := map fst fs.

Fixpoint sub_fields (ps : list path) (fs : fields) : fields :=
  match fs with
  | [] => []
  | (k, v) :: r =>
      if existsb is_nil (tails k ps) then sub_fields ps r
      else (k, subtract (tails k ps) v) :: sub_fields ps r
  end.
Lemma subtract_obj ps fs : subtract ps (JObj fs) = JObj (sub_fields ps fs).
Proof.
  cbn [subtract]. f_equal. induction fs as [|[k v] r IH]; [reflexivity|].
  cbn [sub_fields]. rewrite <- IH. reflexivity.
Qed.

Fixpoint proj_fields (ps : list path) (fs : fields) : fields :=
  match fs with
  | [] => []
  | (k, v) :: r =>
      if existsb is_nil (tails k ps) then (k, v) :: proj_fields ps r
      else match proj (tails k ps) v with
           | Some v' => (k, v') :: proj_fields ps r
           | None => proj_fields ps r
           end
  end.
Lemma proj_obj ps fs :
  proj ps (JObj fs) = match proj_fields ps fs with [] => None | kept => Some (JObj kept) end.
Proof.
  cbn [proj].
  assert (E : (fix go (fs : fields) : fields :=
               match fs with
               | [] => []
               | (k, v) :: r =>
                   if existsb is_nil (tails k ps) then (k, v) :: go r
                   else match proj (tails k ps) v with
                        | Some v' => (k, v') :: go r
                        | None => go r
                        end
               end) fs = proj_fields ps fs).
  { induction fs as [|[k v] r IH]; [reflexivity|]. cbn [proj_fields]. rewrite <- IH. reflexivity. }
  rewrite E. reflexivity.
Qed.

Lemma ouniq_obj fs :
  ouniq (JObj fs) <-> NoDup (keys fs) /\ Forall (fun kv => ouniq (snd kv)) fs.
Proof.
  cbn [ouniq]. unfold keys.
  assert (E : (fix all (fs : fields) : Prop :=
                 match fs with [] => True | (_, v) :: r => ouniq v /\ all r end) fs
              <-> Forall (fun kv => ouniq (snd kv)) fs).
  { induction fs as [|[k v] r IH]; [split; auto|]. split.
    - intros [H1 H2]. constructor; [exact H1|apply IH; exact H2].
    - intro H. inversion H; subst. split; [assumption|apply IH; assumption]. }
  rewrite E. reflexivity.
Qed.

Lemma arr_safe_obj ps fs :
  arr_safe ps (JObj fs) = forallb (fun kv => arr_safe (tails (fst kv) ps) (snd kv)) fs.
Proof.
  cbn [arr_safe]. induction fs as [|[k v] r IH]; [reflexivity|].
  cbn [forallb fst snd]. rewrite <- IH. reflexivity.
Qed.

(* field lookups *)
Lemma field_get_none fs k : field_get fs k = None <-> ~ In k (keys fs).
Proof.
  induction fs as [|[k' v] r IH]; cbn; [tauto|].
  destruct (key_eqb k' k) eqn:E.
  - apply key_eqb_eq in E. subst. split; [discriminate|]. intro H. exfalso. apply H. left. reflexivity.
  - apply key_eqb_neq in E. rewrite IH. tauto.
Qed.
Lemma field_get_in fs k v : field_get fs k = Some v -> In (k, v) fs.
Proof.
  induction fs as [|[k' v'] r IH]; cbn; [discriminate|].
  destruct (key_eqb k' k) eqn:E.
  - apply key_eqb_eq in E. intro H. inversion H; subst. left. reflexivity.
  - intro H. right. apply IH. exact H.
Qed.
Lemma in_field_get fs k v : NoDup (keys fs) -> In (k, v) fs -> field_get fs k = Some v.
Proof.
  induction fs as [|[k' v'] r IH]; cbn; intros ND HI; [contradiction|].
  inversion ND as [|? ? Hn ND']; subst.
  destruct HI as [HI|HI].
  - inversion HI; subst. rewrite key_eqb_refl. reflexivity.
  - destruct (key_eqb k' k) eqn:E.
    + apply key_eqb_eq in E. subst. exfalso. apply Hn. apply (in_map fst) in HI. exact HI.
    + apply IH; assumption.
Qed.

(* ------------------------------------------------------------------------------------------ *)
(* B. equality up to key order                                                                 *)
(* ------------------------------------------------------------------------------------------ *)
Scheme jperm_min := Minimality for jperm Sort Prop
  with fperm_min := Minimality for fperm Sort Prop.
Combined Scheme jfperm_ind from jperm_min, fperm_min.

Lemma fperm_refl fs : fperm fs fs.
Proof. induction fs as [|[k v] r IH]; constructor; [apply JP_refl|exact IH]. Qed.

Lemma jperm_trans a b c : jperm a b -> jperm b c -> jperm a c.
Proof.
  intros H1 H2. inversion H1; subst; [exact H2|].
  inversion H2; subst; [exact H1|].
  apply JP_obj. eapply FP_trans; eassumption.
Qed.

Lemma Permutation_fperm fs gs : Permutation fs gs -> fperm fs gs.
Proof.
  induction 1 as [|[k v] l l' _ IH|x y l|l l' l'' _ IH1 _ IH2].
  - apply FP_nil.
  - apply FP_cons; [apply JP_refl|exact IH].
  - apply FP_swap.
  - eapply FP_trans; eassumption.
Qed.

Lemma fperm_keys_aux :
  (forall a b, jperm a b -> True) /\
  (forall fs gs, fperm fs gs -> Permutation (keys fs) (keys gs)).
Proof.
  apply jfperm_ind; intros; auto.
  - cbn. apply perm_skip. assumption.
  - cbn. apply perm_swap.
  - eapply Permutation_trans; eassumption.
Qed.
Lemma fperm_keys fs gs : fperm fs gs -> Permutation (keys fs) (keys gs).
Proof. apply fperm_keys_aux. Qed.
Lemma fperm_length fs gs : fperm fs gs -> length fs = length gs.
Proof.
  intro H. apply fperm_keys in H. apply Permutation_length in H. unfold keys in H.
  rewrite !map_length in H. exact H.
Qed.
Lemma fperm_nodup fs gs : fperm fs gs -> NoDup (keys fs) -> NoDup (keys gs).
Proof. intros H ND. eapply Permutation_NoDup; [apply fperm_keys; exact H|exact ND]. Qed.

(* lookups commute with fperm when the keys are unique *)
Definition lookup_rel (x y : option json) : Prop :=
  match x, y with
  | Some v, Some v' => jperm v v'
  | None, None => True
  | _, _ => False
  end.
Lemma lookup_rel_trans x y z : lookup_rel x y -> lookup_rel y z -> lookup_rel x z.
Proof.
  destruct x, y, z; cbn; try tauto. apply jperm_trans.
Qed.
Lemma lookup_rel_refl x : lookup_rel x x.
Proof. destruct x; cbn; [apply JP_refl|exact I]. Qed.

Lemma fperm_lookup_aux :
  (forall a b, jperm a b -> True) /\
  (forall fs gs, fperm fs gs -> NoDup (keys fs) ->
     forall k, lookup_rel (field_get fs k) (field_get gs k)).
Proof.
  apply jfperm_ind.
  - auto.
  - auto.
  - intros _ k. exact I.
  - intros k v v' fs gs Hv _ Hf IH ND k0. cbn [field_get]. destruct (key_eqb k k0); [exact Hv|].
    apply IH. cbn in ND. inversion ND; assumption.
  - intros a b fs ND k. destruct a as [ka va], b as [kb vb]. cbn [field_get].
    cbn in ND. inversion ND as [|? ? Hn ND']; subst.
    destruct (key_eqb ka k) eqn:Ea, (key_eqb kb k) eqn:Eb; try apply lookup_rel_refl.
    apply key_eqb_eq in Ea. apply key_eqb_eq in Eb. subst. exfalso. apply Hn. left. reflexivity.
  - intros fs gs hs H1 IH1 H2 IH2 ND k.
    eapply lookup_rel_trans; [apply IH1; assumption|].
    apply IH2. eapply fperm_nodup; eassumption.
Qed.
Lemma fperm_lookup fs gs k :
  fperm fs gs -> NoDup (keys fs) -> lookup_rel (field_get fs k) (field_get gs k).
Proof. intros H ND. apply fperm_lookup_aux; assumption. Qed.

(* json_eqb decides equality *)
Lemma json_eqb_eq : forall a y, json_eqb a y = true <-> a = y.
Proof.
  induction a as [|x|x|x|l IH|fs IH] using json_ind2; intros y; destruct y; cbn [json_eqb];
    try (split; intro HH; discriminate HH); try (split; reflexivity).
  - destruct x, b; cbn; split; congruence.
  - rewrite N_eqb_list_eq. split; congruence.
  - rewrite N_eqb_list_eq. split; congruence.
  - revert l0. induction IH as [|x l Hx _ IHl]; intros [|y l0];
      try (split; intro HH; discriminate HH); try (split; reflexivity).
    rewrite andb_true_iff, Hx, IHl. split.
    + intros [-> E]. inversion E. reflexivity.
    + intro E. inversion E. split; reflexivity.
  - revert fs0. induction IH as [|[k v] fs Hx _ IHl]; intros [|[k' v'] fs0];
      try (split; intro HH; discriminate HH); try (split; reflexivity).
    cbn [snd] in Hx. rewrite !andb_true_iff, key_eqb_eq, Hx, IHl. split.
    + intros [[-> ->] E]. inversion E. reflexivity.
    + intro E. inversion E. repeat split; reflexivity.
Qed.

Fixpoint perm_go (fs gs : fields) : bool :=
  match fs with
  | [] => is_nil gs
  | (k, v) :: r =>
      match take_field k gs with
      | Some (v', gs') => jperm_b v v' && perm_go r gs'
      | None => false
      end
  end.
Lemma jperm_b_obj fs gs : jperm_b (JObj fs) (JObj gs) = perm_go fs gs.
Proof.
  cbn [jperm_b]. revert gs. induction fs as [|[k v] r IH]; intro gs; [reflexivity|].
  cbn [perm_go]. destruct (take_field k gs) as [[v' gs']|]; [|reflexivity].
  f_equal; try apply IH.
Qed.

Lemma take_field_perm k gs v' gs' :
  take_field k gs = Some (v', gs') -> Permutation gs ((k, v') :: gs').
Proof.
  revert v' gs'. induction gs as [|[k' v] r IH]; cbn; intros v' gs' H; [discriminate|].
  destruct (key_eqb k' k) eqn:E.
  - apply key_eqb_eq in E. inversion H; subst. apply Permutation_refl.
  - destruct (take_field k r) as [[v2 r2]|]; [|discriminate]. inversion H; subst.
    eapply Permutation_trans; [apply perm_skip; apply IH; reflexivity|apply perm_swap].
Qed.

Theorem jperm_b_sound : forall a b, jperm_b a b = true -> jperm a b.
Proof.
  induction a as [|x|x|x|l _|fs IH] using json_ind2; intros y H;
    try (apply json_eqb_eq in H; subst; apply JP_refl).
  destruct y; try discriminate. rewrite jperm_b_obj in H. apply JP_obj.
  revert fs0 H. induction IH as [|[k v] r Hv _ IHr]; intros gs H.
  - destruct gs; [apply FP_nil|discriminate].
  - cbn [perm_go] in H. destruct (take_field k gs) as [[v' gs']|] eqn:T; [|discriminate].
    apply andb_true_iff in H as [H1 H2].
    eapply FP_trans; [apply FP_cons; [apply Hv; exact H1|apply IHr; exact H2]|].
    apply Permutation_fperm. apply Permutation_sym. apply take_field_perm. exact T.
Qed.

Lemma jperm_b_refl : forall a, jperm_b a a = true.
Proof.
  induction a as [|x|x|x|l _|fs IH] using json_ind2; try (apply json_eqb_eq; reflexivity).
  rewrite jperm_b_obj. induction IH as [|[k v] r Hv _ IHr]; [reflexivity|].
  cbn [perm_go take_field]. cbn [snd] in Hv. rewrite key_eqb_refl, Hv, IHr. reflexivity.
Qed.

Lemma take_field_some k gs v :
  field_get gs k = Some v -> exists gs', take_field k gs = Some (v, gs') /\
    length gs = S (length gs') /\
    (forall k2, k2 <> k -> field_get gs' k2 = field_get gs k2) /\
    (NoDup (keys gs) -> NoDup (keys gs') /\ ~ In k (keys gs')).
Proof.
  revert v. induction gs as [|[k' v'] r IH]; cbn; intros v H; [discriminate|].
  destruct (key_eqb k' k) eqn:E.
  - apply key_eqb_eq in E. inversion H; subst. exists r. repeat split.
    + intros k2 Hk. destruct (key_eqb k k2) eqn:E2; [|reflexivity].
      apply key_eqb_eq in E2. congruence.
    + inversion H0; assumption.
    + inversion H0; assumption.
  - destruct (IH v H) as (gs' & T & L & G & N). rewrite T. exists ((k', v') :: gs'). repeat split.
    + cbn. lia.
    + intros k2 Hk. cbn. rewrite G by assumption. reflexivity.
    + inversion H0 as [|? ? Hn ND]; subst. destruct (N ND) as [N1 N2]. cbn. constructor; [|exact N1].
      intro HI. apply Hn. clear - HI G E.
      apply key_eqb_neq in E.
      assert (HG : field_get gs' k' <> None) by (rewrite field_get_none; tauto).
      rewrite G in HG by assumption. rewrite field_get_none in HG.
      destruct (in_dec (list_eq_dec N.eq_dec) k' (keys r)); tauto.
    + inversion H0 as [|? ? Hn ND]; subst. destruct (N ND) as [N1 N2]. cbn.
      apply key_eqb_neq in E. intros [HI|HI]; [congruence|tauto].
Qed.

Lemma perm_go_complete : forall fs gs,
  NoDup (keys fs) -> NoDup (keys gs) -> length fs = length gs ->
  (forall k v, field_get fs k = Some v -> exists v', field_get gs k = Some v' /\ jperm_b v v' = true) ->
  perm_go fs gs = true.
Proof.
  induction fs as [|[k v] r IH]; intros gs NDf NDg L H.
  - destruct gs; [reflexivity|discriminate].
  - cbn [perm_go]. destruct (H k v) as (v' & G & J). { cbn. rewrite key_eqb_refl. reflexivity. }
    destruct (take_field_some _ _ _ G) as (gs' & T & L' & G' & N). rewrite T, J. cbn [andb].
    destruct (N NDg) as [N1 N2]. cbn in NDf. inversion NDf as [|? ? Hn NDr]; subst.
    apply IH; try assumption.
    + cbn in L. lia.
    + intros k2 v2 H2.
      assert (Hk : k2 <> k).
      { intro; subst. apply field_get_in in H2. apply Hn. apply (in_map fst) in H2. exact H2. }
      rewrite G' by assumption. apply H. cbn.
      destruct (key_eqb k k2) eqn:E; [apply key_eqb_eq in E; congruence|exact H2].
Qed.

Theorem jperm_b_complete : forall a b, jperm a b -> ouniq a -> ouniq b -> jperm_b a b = true.
Proof.
  induction a as [|x|x|x|l _|fs IH] using json_ind2; intros y H Ua Ub;
    try (inversion H; subst; apply jperm_b_refl).
  inversion H; subst; [apply jperm_b_refl|].
  rewrite jperm_b_obj. apply ouniq_obj in Ua as [NDa Fa]. apply ouniq_obj in Ub as [NDb Fb].
  apply perm_go_complete; try assumption.
  - apply fperm_length. assumption.
  - intros k v G.
    pose proof (fperm_lookup _ _ k H1 NDa) as LR. rewrite G in LR.
    destruct (field_get gs k) as [v'|] eqn:G'; [|contradiction]. cbn in LR.
    exists v'. split; [reflexivity|].
    apply field_get_in in G. apply field_get_in in G'.
    rewrite Forall_forall in IH, Fa, Fb.
    apply (IH _ G); [exact LR|apply (Fa _ G)|apply (Fb _ G')].
Qed.

(* ------------------------------------------------------------------------------------------ *)
(* E. remove_fields                                                                            *)
(* ------------------------------------------------------------------------------------------ *)
Lemma app_eq_len {A} (a a' b b' : list A) :
  length a = length a' -> a ++ b = a' ++ b' -> a = a' /\ b = b'.
Proof.
  revert a'. induction a as [|x a IH]; intros [|y a'] L E; try discriminate.
  - split; [reflexivity|exact E].
  - cbn in L, E. inversion E; subst. destruct (IH a') as [-> ->]; [lia|assumption|split; reflexivity].
Qed.

Lemma swap_remove_spec {A} (l : list A) i x :
  nth_error l i = Some x ->
  exists a b, l = a ++ x :: b /\ length a = i /\ Permutation (swap_remove l i) (a ++ b).
Proof.
  intro H. unfold swap_remove. rewrite H.
  assert (Hne : l <> []) by (intro; subst; destruct i; discriminate).
  destruct (exists_last Hne) as (m & z & ->).
  rewrite removelast_last, app_length. cbn [length].
  replace (length m + 1 - 1)%nat with (length m) by lia.
  assert (Hi : (i < length (m ++ [z]))%nat) by (apply nth_error_Some; congruence).
  rewrite app_length in Hi. cbn in Hi.
  destruct (Nat.eqb_spec i (length m)) as [->|Hneq].
  - rewrite nth_error_app2 in H by lia. rewrite Nat.sub_diag in H. cbn in H. inversion H; subst.
    exists m, []. rewrite app_nil_r. repeat split. apply Permutation_refl.
  - rewrite nth_error_app2 by lia. rewrite Nat.sub_diag. cbn [nth_error].
    rewrite nth_error_app1 in H by lia.
    destruct (nth_error_split _ _ H) as (a & b & -> & La).
    exists a, (b ++ [z]). repeat split.
    + rewrite <- app_assoc. reflexivity.
    + exact La.
    + rewrite <- app_assoc. rewrite firstn_app. rewrite <- La, firstn_all, Nat.sub_diag. cbn [firstn].
      rewrite app_nil_r.
      replace (S (length a)) with (length (a ++ [x])) by (rewrite app_length; cbn; lia).
      replace (a ++ x :: b) with ((a ++ [x]) ++ b) by (rewrite <- app_assoc; reflexivity).
      rewrite skipn_app, skipn_all, Nat.sub_diag. cbn [skipn app].
      apply Permutation_app_head. apply Permutation_cons_append.
Qed.

Lemma field_index_spec fs k : forall n,
  match field_index fs k n with
  | Some i => exists a v b, fs = a ++ (k, v) :: b /\ i = (n + length a)%nat /\ ~ In k (keys a)
  | None => ~ In k (keys fs)
  end.
Proof.
  induction fs as [|[k' v] r IH]; intro n; cbn; [tauto|].
  destruct (key_eqb k' k) eqn:E.
  - apply key_eqb_eq in E. subst. exists [], v, r. cbn. repeat split; [lia|tauto].
  - apply key_eqb_neq in E. specialize (IH (S n)). destruct (field_index r k (S n)).
    + destruct IH as (a & v0 & b & -> & -> & Hn). exists ((k', v) :: a), v0, b. cbn.
      repeat split; [lia|]. intros [H|H]; [congruence|tauto].
    + intros [H|H]; [congruence|tauto].
Qed.

Definition not_key (k : bytes) (kv : bytes * json) : bool := negb (key_eqb (fst kv) k).

Lemma filter_not_key_id k fs : ~ In k (keys fs) -> filter (not_key k) fs = fs.
Proof.
  induction fs as [|[k' v] r IH]; cbn; intro H; [reflexivity|].
  unfold not_key at 1. cbn [fst]. destruct (key_eqb k' k) eqn:E.
  - apply key_eqb_eq in E. subst. exfalso. apply H. left. reflexivity.
  - cbn. rewrite IH; [reflexivity|tauto].
Qed.

Lemma del_key_perm k fs : NoDup (keys fs) -> Permutation (del_key k fs) (filter (not_key k) fs).
Proof.
  intro ND. unfold del_key. pose proof (field_index_spec fs k 0) as S.
  destruct (field_index fs k 0) as [i|].
  - destruct S as (a & v & b & -> & -> & Hn). cbn [Nat.add].
    assert (Hnth : nth_error (a ++ (k, v) :: b) (length a) = Some (k, v)).
    { rewrite nth_error_app2 by lia. rewrite Nat.sub_diag. reflexivity. }
    destruct (swap_remove_spec _ _ _ Hnth) as (a' & b' & E & La & P).
    assert (a' = a /\ b' = b) as [-> ->].
    { symmetry in E. apply app_eq_len in E; [|exact La]. destruct E as [-> E]. inversion E. split; reflexivity. }
    eapply Permutation_trans; [exact P|].
    rewrite filter_app. cbn [filter]. unfold not_key at 2. cbn [fst]. rewrite key_eqb_refl. cbn [negb].
    unfold keys in ND. rewrite map_app in ND. cbn in ND.
    apply NoDup_remove_2 in ND. rewrite in_app_iff in ND.
    rewrite !filter_not_key_id; [apply Permutation_refl| |]; unfold keys; tauto.
  - rewrite filter_not_key_id by exact S. apply Permutation_refl.
Qed.

Lemma tails_app k ps qs : tails k (ps ++ qs) = tails k ps ++ tails k qs.
Proof.
  induction ps as [|[|k' t] r IH]; cbn; [reflexivity|exact IH|].
  destruct (key_eqb k' k); cbn; rewrite IH; reflexivity.
Qed.

Lemma subtract_nil : forall j, subtract [] j = j.
Proof.
  induction j as [|x|x|x|l _|fs IH] using json_ind2; try reflexivity.
  rewrite subtract_obj. f_equal. induction IH as [|[k v] r Hv _ IHr]; [reflexivity|].
  cbn [sub_fields tails existsb]. cbn [snd] in Hv. rewrite Hv, IHr. reflexivity.
Qed.

Lemma sub_fields_perm ps fs gs :
  Permutation fs gs -> Permutation (sub_fields ps fs) (sub_fields ps gs).
Proof.
  induction 1 as [|[k v] l l' _ IH|[k1 v1] [k2 v2] l|l l' l'' _ IH1 _ IH2].
  - apply Permutation_refl.
  - cbn [sub_fields]. destruct (existsb is_nil (tails k ps)); [exact IH|apply perm_skip; exact IH].
  - cbn [sub_fields]. destruct (existsb is_nil (tails k1 ps)), (existsb is_nil (tails k2 ps));
      try apply Permutation_refl. apply perm_swap.
  - eapply Permutation_trans; eassumption.
Qed.

(* removing the field k first = listing the path [k] *)
Lemma sub_fields_filter k ps fs :
  sub_fields ps (filter (not_key k) fs) = sub_fields ([k] :: ps) fs.
Proof.
  induction fs as [|[k' v] r IH]; [reflexivity|].
  cbn [filter]. unfold not_key at 1. cbn [fst sub_fields tails].
  rewrite (key_eqb_sym k k'). destruct (key_eqb k' k) eqn:E; cbn [negb].
  - cbn [existsb is_nil orb]. exact IH.
  - cbn [sub_fields]. rewrite IH. reflexivity.
Qed.

Lemma sub_fields_other_key k rest ps fs :
  ~ In k (keys fs) -> sub_fields ((k :: rest) :: ps) fs = sub_fields ps fs.
Proof.
  induction fs as [|[k' v] r IH]; cbn [keys map fst In]; intro H; [reflexivity|].
  cbn [sub_fields tails]. destruct (key_eqb k k') eqn:E.
  - apply key_eqb_eq in E. subst. exfalso. apply H. left. reflexivity.
  - rewrite IH by tauto. reflexivity.
Qed.

Lemma keys_upd_field k f fs : keys (upd_field k f fs) = keys fs.
Proof.
  induction fs as [|[k' v] r IH]; [reflexivity|]. cbn [upd_field].
  destruct (key_eqb k' k); cbn; [reflexivity|]. unfold keys in IH. rewrite IH. reflexivity.
Qed.

Lemma arr_safe_app : forall j ps qs, arr_safe (ps ++ qs) j = arr_safe ps j && arr_safe qs j.
Proof.
  induction j as [|x|x|x|l _|fs IH] using json_ind2; intros ps qs; try reflexivity.
  - cbn [arr_safe]. rewrite existsb_app, negb_orb. reflexivity.
  - rewrite !arr_safe_obj. induction IH as [|[k v] r Hv _ IHr]; [reflexivity|].
    cbn [forallb fst snd]. cbn [snd] in Hv. rewrite tails_app, Hv, IHr.
    repeat rewrite <- andb_assoc. f_equal. rewrite andb_comm. rewrite <- andb_assoc. f_equal. apply andb_comm.
Qed.
Lemma arr_safe_cons p ps j : arr_safe (p :: ps) j = arr_safe [p] j && arr_safe ps j.
Proof. apply (arr_safe_app j [p] ps). Qed.

Lemma remove1_obj_last k fs : remove1 [k] (JObj fs) = JObj (del_key k fs).
Proof. cbn [remove1]. unfold del_key. destruct (field_index fs k 0); reflexivity. Qed.
Lemma remove1_obj_deep k k2 rest fs :
  remove1 (k :: k2 :: rest) (JObj fs) = JObj (upd_field k (remove1 (k2 :: rest)) fs).
Proof. reflexivity. Qed.

Lemma subtract_nil_path : forall j ps, subtract ([] :: ps) j = subtract ps j.
Proof.
  destruct j; reflexivity.
Qed.

Lemma sub_remove1 : forall p j ps,
  ouniq j -> arr_safe [p] j = true ->
  jperm (subtract ps (remove1 p j)) (subtract (p :: ps) j).
Proof.
  induction p as [|k rest IH]; intros j ps U S.
  - cbn [remove1]. rewrite subtract_nil_path. apply JP_refl.
  - destruct j as [|x|x|x|l|fs]; try apply JP_refl.
    + (* array: the hypothesis says the segment is not a valid index *)
      cbn [arr_safe existsb] in S. cbn [remove1].
      destruct (arr_index k (length l)); [discriminate|apply JP_refl].
    + apply ouniq_obj in U as [ND FU]. destruct rest as [|k2 rest].
      * rewrite remove1_obj_last, !subtract_obj. apply JP_obj. apply Permutation_fperm.
        rewrite <- sub_fields_filter. apply sub_fields_perm. apply del_key_perm. exact ND.
      * rewrite remove1_obj_deep, !subtract_obj. apply JP_obj.
        rewrite arr_safe_obj in S.
        induction fs as [|[k' v] r IHr]; [apply FP_nil|].
        cbn [keys map fst] in ND. inversion ND as [|? ? Hn ND']; subst.
        inversion FU as [|? ? Uv FU']; subst. cbn [snd] in Uv.
        cbn [forallb fst snd] in S. apply andb_true_iff in S as [Sv S'].
        cbn [upd_field]. destruct (key_eqb k' k) eqn:E.
        -- apply key_eqb_eq in E. subst k'.
           cbn [sub_fields tails]. rewrite key_eqb_refl. cbn [existsb is_nil orb].
           rewrite sub_fields_other_key by exact Hn.
           destruct (existsb is_nil (tails k ps)); [apply fperm_refl|].
           apply FP_cons; [|apply fperm_refl].
           apply IH; [exact Uv|]. cbn [tails] in Sv. rewrite key_eqb_refl in Sv. exact Sv.
        -- cbn [sub_fields tails]. rewrite (key_eqb_sym k k'), E.
           destruct (existsb is_nil (tails k' ps)).
           ++ apply IHr; assumption.
           ++ apply FP_cons; [apply JP_refl|apply IHr; assumption].
Qed.

Lemma filter_keys_nodup (f : bytes * json -> bool) fs : NoDup (keys fs) -> NoDup (keys (filter f fs)).
Proof.
  induction fs as [|[k v] r IH]; cbn; intro ND; [constructor|].
  inversion ND as [|? ? Hn ND']; subst. destruct (f (k, v)); cbn; [|apply IH; exact ND'].
  constructor; [|apply IH; exact ND'].
  intro HI. apply Hn. unfold keys in HI. apply in_map_iff in HI as ([k2 v2] & E & HI). cbn in E. subst.
  apply filter_In in HI as [HI _]. apply (in_map fst) in HI. exact HI.
Qed.

Lemma del_key_uniq k fs :
  NoDup (keys fs) -> Forall (fun kv => ouniq (snd kv)) fs ->
  NoDup (keys (del_key k fs)) /\ Forall (fun kv => ouniq (snd kv)) (del_key k fs).
Proof.
  intros ND FU. pose proof (del_key_perm k fs ND) as P. apply Permutation_sym in P. split.
  - eapply Permutation_NoDup; [apply Permutation_map; exact P|]. apply filter_keys_nodup. exact ND.
  - rewrite Forall_forall in *. intros x HI. apply FU.
    eapply Permutation_in in HI; [|apply Permutation_sym; exact P]. apply filter_In in HI. tauto.
Qed.

Lemma remove1_uniq : forall p j, ouniq j -> ouniq (remove1 p j).
Proof.
  induction p as [|k rest IH]; intros j U; [exact U|].
  destruct j as [|x|x|x|l|fs]; try exact U.
  - cbn [remove1]. destruct (arr_index k (length l)); [|exact I].
    destruct rest; [exact I|]. destruct (nth_error l n); exact I.
  - apply ouniq_obj in U as [ND FU]. destruct rest as [|k2 rest].
    + rewrite remove1_obj_last. apply ouniq_obj. apply del_key_uniq; assumption.
    + rewrite remove1_obj_deep. apply ouniq_obj. rewrite keys_upd_field. split; [exact ND|].
      clear ND. induction FU as [|[k' v] r Uv Hr IHr]; [constructor|].
      cbn [upd_field]. destruct (key_eqb k' k); constructor; try assumption.
      cbn [snd] in *. apply IH. exact Uv.
Qed.

Lemma forallb_perm {A} (f : A -> bool) l l' : Permutation l l' -> forallb f l = true -> forallb f l' = true.
Proof.
  intros P H. rewrite forallb_forall in *. intros x HI. apply H.
  eapply Permutation_in; [apply Permutation_sym; exact P|exact HI].
Qed.

Lemma remove1_arr_safe : forall p j ps,
  arr_safe [p] j = true -> arr_safe ps j = true -> arr_safe ps (remove1 p j) = true.
Proof.
  induction p as [|k rest IH]; intros j ps S1 S; [exact S|].
  destruct j as [|x|x|x|l|fs]; try exact S.
  - cbn [arr_safe existsb] in S1. cbn [remove1].
    destruct (arr_index k (length l)); [discriminate|exact S].
  - rewrite arr_safe_obj in S1, S. destruct rest as [|k2 rest].
    + rewrite remove1_obj_last, arr_safe_obj.
      unfold del_key. pose proof (field_index_spec fs k 0) as FS.
      destruct (field_index fs k 0) as [i|]; [|exact S].
      destruct FS as (a & v & b & -> & -> & _). cbn [Nat.add].
      assert (Hnth : nth_error (a ++ (k, v) :: b) (length a) = Some (k, v)).
      { rewrite nth_error_app2 by lia. rewrite Nat.sub_diag. reflexivity. }
      destruct (swap_remove_spec _ _ _ Hnth) as (a' & b' & E & La & P).
      eapply forallb_perm; [apply Permutation_sym; exact P|].
      symmetry in E. apply app_eq_len in E; [|exact La]. destruct E as [-> E]. inversion E; subst.
      rewrite forallb_app in *. cbn [forallb] in S. apply andb_true_iff in S as [Sa S].
      apply andb_true_iff in S as [_ Sb]. rewrite Sa, Sb. reflexivity.
    + rewrite remove1_obj_deep, arr_safe_obj.
      induction fs as [|[k' v] r IHr]; [reflexivity|].
      cbn [forallb fst snd] in S1, S. apply andb_true_iff in S1 as [S1v S1r].
      apply andb_true_iff in S as [Sv Sr].
      cbn [upd_field]. destruct (key_eqb k' k) eqn:E.
      * cbn [forallb fst snd]. rewrite Sr, andb_true_r. apply IH; [|exact Sv].
        cbn [tails] in S1v. apply key_eqb_eq in E. subst. rewrite key_eqb_refl in S1v. exact S1v.
      * cbn [forallb fst snd]. rewrite Sv. cbn [andb]. apply IHr; assumption.
Qed.

Lemma remove_fold_spec : forall ps j,
  ouniq j -> arr_safe ps j = true ->
  jperm (fold_left (fun j p => remove1 p j) ps j) (subtract ps j).
Proof.
  induction ps as [|p ps IH]; intros j U S.
  - cbn [fold_left]. rewrite subtract_nil. apply JP_refl.
  - cbn [fold_left]. rewrite arr_safe_cons in S. apply andb_true_iff in S as [S1 S].
    eapply jperm_trans; [apply IH|apply sub_remove1; assumption].
    + apply remove1_uniq. exact U.
    + apply remove1_arr_safe; assumption.
Qed.

Theorem remove_spec : forall ps j,
  ouniq j -> arr_safe ps j = true -> jperm (remove_do ps j) (subtract ps j).
Proof.
  intros ps j U S. unfold remove_do. destruct (is_obj j) eqn:O.
  - apply remove_fold_spec; assumption.
  - destruct j; try apply JP_refl. discriminate.
Qed.

(* ------------------------------------------------------------------------------------------ *)
(* C. ParseFieldSelector                                                                       *)
(* ------------------------------------------------------------------------------------------ *)
Lemma len_app {A} (a b : list A) : len (a ++ b) = len a + len b.
Proof. unfold len. rewrite app_length. lia. Qed.
Lemma len_nonneg {A} (a : list A) : 0 <= len a.
Proof. unfold len. lia. Qed.
Lemma len_cons {A} (x : A) a : len (x :: a) = len a + 1.
Proof. unfold len. cbn [length]. lia. Qed.

Lemma slice_to_app {A} (a b : list A) : slice_to (a ++ b) (len a) = Ok a.
Proof.
  unfold slice_to, slice. rewrite len_app.
  pose proof (len_nonneg a). pose proof (len_nonneg b).
  replace ((0 <=? 0) && (0 <=? len a) && (len a <=? len a + len b)) with true
    by (symmetry; rewrite !andb_true_iff, !Z.leb_le; lia).
  cbn [skipn Z.to_nat]. rewrite Z.sub_0_r. unfold len. rewrite Nat2Z.id.
  rewrite firstn_app, firstn_all, Nat.sub_diag. cbn [firstn]. rewrite app_nil_r. reflexivity.
Qed.
Lemma slice_from_app {A} (a b : list A) : slice_from (a ++ b) (len a) = Ok b.
Proof.
  unfold slice_from, slice. rewrite len_app.
  pose proof (len_nonneg a). pose proof (len_nonneg b).
  replace ((0 <=? len a) && (len a <=? len a + len b) && (len a + len b <=? len a + len b)) with true
    by (symmetry; rewrite !andb_true_iff, !Z.leb_le; lia).
  replace (len a + len b - len a) with (len b) by lia. unfold len. rewrite !Nat2Z.id.
  rewrite skipn_app, skipn_all, Nat.sub_diag. cbn [skipn app]. apply f_equal. apply firstn_all.
Qed.
Lemma idx_app {A} (a : list A) x b : idx (a ++ x :: b) (len a) = Ok x.
Proof.
  unfold idx. rewrite len_app, len_cons.
  pose proof (len_nonneg a). pose proof (len_nonneg b).
  replace ((0 <=? len a) && (len a <? len a + (len b + 1))) with true
    by (symmetry; rewrite andb_true_iff, Z.leb_le, Z.ltb_lt; lia).
  unfold len. rewrite Nat2Z.id. rewrite nth_error_app2 by lia. rewrite Nat.sub_diag. reflexivity.
Qed.

Fixpoint cut_dot (s : bytes) : option (bytes * bytes) :=
  match s with
  | [] => None
  | c :: r => if N.eqb c DOT then Some ([], r)
              else match cut_dot r with Some (a, b) => Some (c :: a, b) | None => None end
  end.

Lemma cut_dot_spec s : forall i,
  match cut_dot s with
  | None => ~ In DOT s /\ index_byte_from s DOT i = -1
  | Some (pre, post) => s = pre ++ DOT :: post /\ ~ In DOT pre /\ index_byte_from s DOT i = i + len pre
  end.
Proof.
  induction s as [|c r IH]; intro i; cbn [cut_dot index_byte_from]; [split; [tauto|reflexivity]|].
  destruct (N.eqb_spec c DOT) as [->|Hc].
  - cbn. repeat split; [tauto|lia].
  - specialize (IH (i + 1)). destruct (cut_dot r) as [[a b]|].
    + destruct IH as (-> & Hn & E). repeat split.
      * cbn. intros [H|H]; [congruence|tauto].
      * rewrite E, len_cons. lia.
    + destruct IH as [Hn E]. split; [|exact E]. cbn. intros [H|H]; [congruence|tauto].
Qed.

Fixpoint last_is (c : byte) (l : bytes) : bool :=
  match l with
  | [] => false
  | x :: r => match r with [] => N.eqb x c | _ => last_is c r end
  end.
Lemma last_is_snoc c a b : last_is c (a ++ [b]) = N.eqb b c.
Proof.
  induction a as [|x a IH]; [reflexivity|]. cbn [app last_is].
  destruct (a ++ [b]) eqn:E; [destruct a; discriminate|]. exact IH.
Qed.

(* one iteration of the loop, in terms of the first dot *)
Definition psel_next (f : nat) (racc : list bytes) (tail sel : bytes) : res (list bytes) :=
  match cut_dot sel with
  | None => Ok (rev racc ++ (if (len sel + len tail =? 0) then [] else [tail ++ sel]))
  | Some (pre, post) =>
      if last_is BSL pre then psel_loop f racc (tail ++ removelast pre ++ [DOT]) post
      else match post with
           | d :: post' =>
               if N.eqb d DOT then psel_loop f racc (pre ++ [DOT]) post'
               else psel_loop f ((tail ++ pre) :: racc) [] post
           | [] => psel_loop f ((tail ++ pre) :: racc) [] post
           end
  end.

Lemma idx_at {A} (l a : list A) x b i : l = a ++ x :: b -> i = len a -> idx l i = Ok x.
Proof. intros -> ->. apply idx_app. Qed.
Lemma slice_to_at {A} (l a b : list A) i : l = a ++ b -> i = len a -> slice_to l i = Ok a.
Proof. intros -> ->. apply slice_to_app. Qed.
Lemma slice_from_at {A} (l a b : list A) i : l = a ++ b -> i = len a -> slice_from l i = Ok b.
Proof. intros -> ->. apply slice_from_app. Qed.

Ltac at_solve :=
  first [ solve [repeat rewrite <- app_assoc; reflexivity]
        | solve [repeat rewrite len_app; repeat rewrite len_cons; unfold len; cbn [length]; lia] ].

Lemma psel_step f racc tail sel : psel_loop (S f) racc tail sel = psel_next f racc tail sel.
Proof.
  cbn [psel_loop]. unfold psel_next, index_byte.
  pose proof (cut_dot_spec sel 0) as CS. destruct (cut_dot sel) as [[pre post]|].
  2:{ destruct CS as [_ ->]. cbn [Z.eqb]. rewrite rev_append_rev. reflexivity. }
  destruct CS as (-> & Hn & ->). rewrite Z.add_0_l.
  pose proof (len_nonneg pre) as Lp. pose proof (len_nonneg post) as Lq.
  replace (len pre =? -1) with false by (symmetry; apply Z.eqb_neq; lia).
  (* the statements after the escape test, shared by both shapes of pre *)
  assert (Rest :
    (dd <- (if len pre + 1 <? len (pre ++ DOT :: post)
            then c <- idx (pre ++ DOT :: post) (len pre + 1) ;; Ok (N.eqb c DOT) else Ok false) ;;
     if (dd : bool) then
       t <- slice_to (pre ++ DOT :: post) (len pre + 1) ;;
       rest <- slice_from (pre ++ DOT :: post) (len pre + 2) ;;
       psel_loop f racc t rest
     else
       pre0 <- slice_to (pre ++ DOT :: post) (len pre) ;;
       rest <- slice_from (pre ++ DOT :: post) (len pre + 1) ;;
       psel_loop f ((tail ++ pre0) :: racc) [] rest)
    = match post with
      | d :: post' =>
          if N.eqb d DOT then psel_loop f racc (pre ++ [DOT]) post'
          else psel_loop f ((tail ++ pre) :: racc) [] post
      | [] => psel_loop f ((tail ++ pre) :: racc) [] post
      end).
  { destruct post as [|d post'].
    - replace (len pre + 1 <? len (pre ++ [DOT])) with false
        by (symmetry; apply Z.ltb_ge; rewrite len_app; unfold len; cbn [length]; lia).
      cbn [bind].
      rewrite (slice_to_at _ pre [DOT]) by at_solve. cbn [bind].
      rewrite (slice_from_at _ (pre ++ [DOT]) []) by (rewrite ?app_nil_r; at_solve). reflexivity.
    - replace (len pre + 1 <? len (pre ++ DOT :: d :: post')) with true
        by (symmetry; apply Z.ltb_lt; rewrite len_app, !len_cons; pose proof (len_nonneg post'); lia).
      rewrite (idx_at _ (pre ++ [DOT]) d post') by at_solve. cbn [bind].
      destruct (N.eqb d DOT).
      + rewrite (slice_to_at _ (pre ++ [DOT]) (d :: post')) by at_solve. cbn [bind].
        rewrite (slice_from_at _ (pre ++ [DOT; d]) post') by at_solve. reflexivity.
      + rewrite (slice_to_at _ pre (DOT :: d :: post')) by at_solve. cbn [bind].
        rewrite (slice_from_at _ (pre ++ [DOT]) (d :: post')) by at_solve. reflexivity. }
  destruct pre as [|x pre0] eqn:Epre.
  - change (len (@nil byte)) with 0 in *. rewrite Z.ltb_irrefl. cbn [bind last_is].
    rewrite Z.add_0_l in Rest. exact Rest.
  - rewrite <- Epre in *.
    assert (Hne : pre <> []) by (subst; discriminate).
    destruct (exists_last Hne) as (pre' & b & E). clear Epre x pre0. subst pre.
    rewrite last_is_snoc, removelast_last.
    replace (0 <? len (pre' ++ [b])) with true
      by (symmetry; apply Z.ltb_lt; rewrite len_app; pose proof (len_nonneg pre'); unfold len; cbn [length]; lia).
    rewrite (idx_at _ pre' b (DOT :: post)) by at_solve. cbn [bind].
    destruct (N.eqb b BSL).
    + rewrite (slice_to_at _ pre' (b :: DOT :: post)) by at_solve. cbn [bind].
      rewrite (slice_from_at _ ((pre' ++ [b]) ++ [DOT]) post) by at_solve. reflexivity.
    + exact Rest.
Qed.

Lemma cut_dot_shorter s pre post : cut_dot s = Some (pre, post) -> (length post < length s)%nat.
Proof.
  revert pre post. induction s as [|c r IH]; cbn; intros pre post H; [discriminate|].
  destruct (N.eqb c DOT); [inversion H; subst; lia|].
  destruct (cut_dot r) as [[a b]|]; [|discriminate]. inversion H; subst.
  specialize (IH _ _ eq_refl). lia.
Qed.

(* the parser always terminates within its fuel and never panics, whatever the selector *)
Lemma psel_total : forall fuel racc tail sel,
  (length sel < fuel)%nat -> exists p, psel_loop fuel racc tail sel = Ok p.
Proof.
  induction fuel as [|f IH]; intros racc tail sel L; [lia|].
  rewrite psel_step. unfold psel_next. destruct (cut_dot sel) as [[pre post]|] eqn:C; [|eexists; reflexivity].
  pose proof (cut_dot_shorter _ _ _ C) as Sh.
  destruct (last_is BSL pre); [apply IH; lia|].
  destruct post as [|d post']; [apply IH; cbn; lia|].
  destruct (N.eqb d DOT); apply IH; cbn in *; lia.
Qed.
Theorem parse_selector_total s : exists p, parse_selector s = Ok p.
Proof. apply psel_total. lia. Qed.

Lemma BSL_not_DOT : N.eqb BSL DOT = false.
Proof. reflexivity. Qed.

Lemma split_go_nodot : forall s cur, ~ In DOT s ->
  split_go cur s = match rev cur ++ s with [] => [] | x => [x] end.
Proof.
  induction s as [|c r IH]; intros cur Hn.
  - cbn [split_go]. rewrite app_nil_r. destruct cur as [|x cur]; [reflexivity|].
    cbn [rev]. destruct (rev cur ++ [x]) eqn:E; [destruct (rev cur); discriminate|reflexivity].
  - cbn [split_go]. destruct (N.eqb_spec c DOT) as [->|Hc]; [exfalso; apply Hn; left; reflexivity|].
    assert (Hr : ~ In DOT r) by (intro; apply Hn; right; assumption).
    assert (Happ : forall x, rev (x :: cur) ++ r = rev cur ++ x :: r)
      by (intro; cbn [rev]; rewrite <- app_assoc; reflexivity).
    destruct (N.eqb_spec c BSL) as [->|Hb].
    + destruct r as [|d r'].
      * cbn [rev]. destruct (rev cur ++ [BSL]) eqn:E; [destruct (rev cur); discriminate|reflexivity].
      * destruct (N.eqb_spec d DOT) as [->|Hd]; [exfalso; apply Hr; left; reflexivity|].
        rewrite IH by exact Hr. rewrite Happ. reflexivity.
    + rewrite IH by exact Hr. rewrite Happ. reflexivity.
Qed.

Lemma last_is_cons c x y l : last_is c (x :: y :: l) = last_is c (y :: l).
Proof. reflexivity. Qed.

Lemma split_go_lit : forall pre cur rest, ~ In DOT pre -> last_is BSL pre = false ->
  split_go cur (pre ++ DOT :: rest) = (rev cur ++ pre) :: split_go [] rest.
Proof.
  induction pre as [|c p IH]; intros cur rest Hn HL.
  - cbn [app split_go]. rewrite N.eqb_refl, app_nil_r. reflexivity.
  - cbn [app split_go]. destruct (N.eqb_spec c DOT) as [->|Hc]; [exfalso; apply Hn; left; reflexivity|].
    assert (Hp : ~ In DOT p) by (intro; apply Hn; right; assumption).
    assert (Happ : forall x, rev (x :: cur) ++ p = rev cur ++ x :: p)
      by (intro; cbn [rev]; rewrite <- app_assoc; reflexivity).
    destruct (N.eqb_spec c BSL) as [->|Hb].
    + destruct p as [|d p'].
      * cbn in HL. discriminate.
      * rewrite last_is_cons in HL. cbn [app].
        destruct (N.eqb_spec d DOT) as [->|Hd]; [exfalso; apply Hp; left; reflexivity|].
        change (d :: p' ++ DOT :: rest) with ((d :: p') ++ DOT :: rest).
        rewrite IH by assumption. rewrite Happ. reflexivity.
    + assert (HL' : last_is BSL p = false).
      { destruct p; [reflexivity|]. rewrite last_is_cons in HL. exact HL. }
      rewrite IH by assumption. rewrite Happ. reflexivity.
Qed.

Lemma split_go_esc : forall pre cur rest, ~ In DOT pre ->
  split_go cur (pre ++ BSL :: DOT :: rest) = split_go (DOT :: rev pre ++ cur) rest.
Proof.
  induction pre as [|c p IH]; intros cur rest Hn.
  - cbn [app split_go rev]. rewrite BSL_not_DOT, N.eqb_refl, N.eqb_refl. reflexivity.
  - cbn [app split_go]. destruct (N.eqb_spec c DOT) as [->|Hc]; [exfalso; apply Hn; left; reflexivity|].
    assert (Hp : ~ In DOT p) by (intro; apply Hn; right; assumption).
    assert (Happ : rev (c :: p) ++ cur = rev p ++ c :: cur)
      by (cbn [rev]; rewrite <- app_assoc; reflexivity).
    rewrite Happ.
    destruct (N.eqb_spec c BSL) as [->|Hb].
    + destruct p as [|d p'].
      * cbn [app]. rewrite BSL_not_DOT. apply (IH (BSL :: cur) rest). exact Hp.
      * cbn [app]. destruct (N.eqb_spec d DOT) as [->|Hd]; [exfalso; apply Hp; left; reflexivity|].
        apply (IH (BSL :: cur) rest). exact Hp.
    + apply IH. exact Hp.
Qed.

Lemma has_dotdot_lit : forall pre rest, ~ In DOT pre -> last_is BSL pre = false ->
  has_dotdot (pre ++ DOT :: rest) =
  match rest with d :: _ => if N.eqb d DOT then true else has_dotdot rest | [] => false end.
Proof.
  induction pre as [|c p IH]; intros rest Hn HL.
  - cbn [app has_dotdot]. rewrite N.eqb_refl. reflexivity.
  - cbn [app has_dotdot]. destruct (N.eqb_spec c DOT) as [->|Hc]; [exfalso; apply Hn; left; reflexivity|].
    assert (Hp : ~ In DOT p) by (intro; apply Hn; right; assumption).
    destruct (N.eqb_spec c BSL) as [->|Hb].
    + destruct p as [|d p'].
      * cbn in HL. discriminate.
      * rewrite last_is_cons in HL. cbn [app].
        destruct (N.eqb_spec d DOT) as [->|Hd]; [exfalso; apply Hp; left; reflexivity|].
        change (d :: p' ++ DOT :: rest) with ((d :: p') ++ DOT :: rest). apply IH; assumption.
    + apply IH; [assumption|]. destruct p; [reflexivity|]. rewrite last_is_cons in HL. exact HL.
Qed.

Lemma has_dotdot_esc : forall pre rest, ~ In DOT pre ->
  has_dotdot (pre ++ BSL :: DOT :: rest) = has_dotdot rest.
Proof.
  induction pre as [|c p IH]; intros rest Hn.
  - cbn [app has_dotdot]. rewrite BSL_not_DOT, N.eqb_refl, N.eqb_refl. reflexivity.
  - cbn [app has_dotdot]. destruct (N.eqb_spec c DOT) as [->|Hc]; [exfalso; apply Hn; left; reflexivity|].
    assert (Hp : ~ In DOT p) by (intro; apply Hn; right; assumption).
    destruct (N.eqb_spec c BSL) as [->|Hb].
    + destruct p as [|d p'].
      * cbn [app]. rewrite BSL_not_DOT. apply (IH rest). exact Hp.
      * cbn [app]. destruct (N.eqb_spec d DOT) as [->|Hd]; [exfalso; apply Hp; left; reflexivity|].
        apply (IH rest). exact Hp.
    + apply IH. exact Hp.
Qed.

Lemma cut_dot_spec0 s :
  match cut_dot s with
  | None => ~ In DOT s
  | Some (pre, post) => s = pre ++ DOT :: post /\ ~ In DOT pre
  end.
Proof.
  pose proof (cut_dot_spec s 0) as H. destruct (cut_dot s) as [[a b]|]; tauto.
Qed.

Lemma psel_split : forall fuel racc tail sel,
  (length sel < fuel)%nat -> has_dotdot sel = false ->
  psel_loop fuel racc tail sel = Ok (rev racc ++ split_go (rev tail) sel).
Proof.
  induction fuel as [|f IH]; intros racc tail sel L ND; [lia|].
  rewrite psel_step. unfold psel_next.
  pose proof (cut_dot_spec0 sel) as CS. destruct (cut_dot sel) as [[pre post]|] eqn:C.
  - destruct CS as [E Hn]. pose proof (cut_dot_shorter _ _ _ C) as Sh.
    destruct (last_is BSL pre) eqn:HL.
    + (* escaped dot *)
      assert (Hne : pre <> []) by (intro; subst; discriminate).
      destruct (exists_last Hne) as (pre' & b & ->). rewrite last_is_snoc in HL.
      apply N.eqb_eq in HL. subst b. rewrite removelast_last.
      assert (Hn' : ~ In DOT pre') by (intro; apply Hn; apply in_or_app; left; assumption).
      assert (E' : sel = pre' ++ BSL :: DOT :: post) by (rewrite E, <- app_assoc; reflexivity).
      rewrite IH; [| lia |].
      * rewrite E', split_go_esc by exact Hn'. rewrite !rev_app_distr. cbn [rev app].
        rewrite <- ?app_assoc. reflexivity.
      * rewrite E', has_dotdot_esc in ND by exact Hn'. exact ND.
    + rewrite E in ND. rewrite has_dotdot_lit in ND by assumption.
      rewrite E, split_go_lit, rev_involutive by assumption.
      assert (Goal1 : has_dotdot post = false ->
                psel_loop f ((tail ++ pre) :: racc) [] post = Ok (rev racc ++ (tail ++ pre) :: split_go [] post)).
      { intro ND'. rewrite IH by (assumption || lia). cbn [rev]. rewrite <- app_assoc. reflexivity. }
      destruct post as [|d post']; [apply Goal1; reflexivity|].
      destruct (N.eqb d DOT); [discriminate|]. apply Goal1. exact ND.
  - rewrite split_go_nodot, rev_involutive by exact CS. f_equal. f_equal.
    rewrite <- len_app. unfold len. rewrite app_length.
    destruct (tail ++ sel) eqn:E.
    + apply app_eq_nil in E as [-> ->]. reflexivity.
    + assert (length sel + length tail <> 0)%nat.
      { apply (f_equal (@length _)) in E. rewrite app_length in E. cbn in E. lia. }
      replace (Z.of_nat (length sel + length tail) =? 0) with false by (symmetry; apply Z.eqb_neq; lia).
      reflexivity.
Qed.

(* selectors without the ".." form are split on unescaped dots *)
Theorem selector_split s : has_dotdot s = false -> parse_selector s = Ok (split_unesc s).
Proof. intro H. unfold parse_selector. rewrite psel_split by (assumption || lia). reflexivity. Qed.

(* ------------------------------------------------------------------------------------------ *)
(* D. ParseNestedFields                                                                        *)
(* ------------------------------------------------------------------------------------------ *)
Lemma is_prefix_refl p : is_prefix p p = true.
Proof. induction p as [|x p IH]; [reflexivity|]. cbn. rewrite key_eqb_refl. exact IH. Qed.
Lemma is_prefix_trans a : forall b c, is_prefix a b = true -> is_prefix b c = true -> is_prefix a c = true.
Proof.
  induction a as [|x a IH]; intros [|y b] [|z c]; cbn; try discriminate; try reflexivity.
  intros H1 H2. apply andb_true_iff in H1 as [E1 H1]. apply andb_true_iff in H2 as [E2 H2].
  apply key_eqb_eq in E1. apply key_eqb_eq in E2. subst. rewrite key_eqb_refl. cbn. eapply IH; eassumption.
Qed.
Lemma is_prefix_length a : forall b, is_prefix a b = true -> (length a <= length b)%nat.
Proof.
  induction a as [|x a IH]; intros [|y b]; cbn; try discriminate; try lia.
  intro H. apply andb_true_iff in H as [_ H]. apply IH in H. lia.
Qed.
Lemma is_prefix_same_length a : forall b, is_prefix a b = true -> length a = length b -> a = b.
Proof.
  induction a as [|x a IH]; intros [|y b]; cbn; try discriminate; try reflexivity.
  intros H L. apply andb_true_iff in H as [E H]. apply key_eqb_eq in E. subst. f_equal. apply IH; [exact H|lia].
Qed.
Lemma path_eqb_firstn sp : forall lp, path_eqb sp (firstn (length sp) lp) = is_prefix sp lp.
Proof.
  induction sp as [|x sp IH]; intros [|y lp]; cbn; try reflexivity. rewrite IH. reflexivity.
Qed.

Lemma slice_to_firstn {A} (l : list A) n : (n <= length l)%nat -> slice_to l (Z.of_nat n) = Ok (firstn n l).
Proof.
  intro L. unfold slice_to, slice, len.
  replace ((0 <=? 0) && (0 <=? Z.of_nat n) && (Z.of_nat n <=? Z.of_nat (length l))) with true
    by (symmetry; rewrite !andb_true_iff, !Z.leb_le; lia).
  rewrite Z.sub_0_r, Nat2Z.id. reflexivity.
Qed.

Lemma covered_ok before lp :
  Forall (fun b => (length b <= length lp)%nat) before ->
  covered before lp = Ok (existsb (fun sp => is_prefix sp lp) before).
Proof.
  induction 1 as [|sp r L _ IH]; [reflexivity|].
  cbn [covered existsb]. unfold len. rewrite slice_to_firstn by exact L. cbn [bind].
  rewrite path_eqb_firstn. destruct (is_prefix sp lp); [reflexivity|exact IH].
Qed.

Fixpoint lsorted (l : list path) : Prop :=
  match l with
  | [] => True
  | x :: r => Forall (fun y => (length x <= length y)%nat) r /\ lsorted r
  end.

Fixpoint nest_pure (before rest : list path) : list path :=
  match rest with
  | [] => []
  | lp :: r =>
      if existsb (fun sp => is_prefix sp lp) before then nest_pure (before ++ [lp]) r
      else lp :: nest_pure (before ++ [lp]) r
  end.

Lemma nest_loop_pure : forall rest before racc,
  lsorted rest -> (forall b r, In b before -> In r rest -> (length b <= length r)%nat) ->
  nest_loop before rest racc = Ok (rev racc ++ nest_pure before rest).
Proof.
  induction rest as [|lp r IH]; intros before racc LS LB.
  - cbn. rewrite app_nil_r. reflexivity.
  - cbn [nest_loop nest_pure]. destruct LS as [LS1 LS2].
    rewrite covered_ok.
    2:{ apply Forall_forall. intros b Hb. apply LB; [exact Hb|left; reflexivity]. }
    cbn [bind]. rewrite IH; [| exact LS2 |].
    + destruct (existsb (fun sp => is_prefix sp lp) before); [reflexivity|].
      cbn [rev]. rewrite <- app_assoc. reflexivity.
    + intros b x Hb Hx. apply in_app_or in Hb as [Hb|[<-|[]]].
      * apply LB; [exact Hb|right; exact Hx].
      * rewrite Forall_forall in LS1. apply LS1. exact Hx.
Qed.

Lemma insert_len_perm p l : Permutation (p :: l) (insert_len p l).
Proof.
  induction l as [|q r IH]; [apply Permutation_refl|]. cbn [insert_len].
  destruct (length p <? length q)%nat; [apply Permutation_refl|].
  eapply Permutation_trans; [apply perm_swap|apply perm_skip; exact IH].
Qed.
Lemma insert_len_sorted p l : lsorted l -> lsorted (insert_len p l).
Proof.
  induction l as [|q r IH]; intro LS; [cbn; auto|]. cbn [insert_len].
  destruct LS as [LS1 LS2]. destruct (Nat.ltb_spec (length p) (length q)) as [Hlt|Hge].
  - cbn [lsorted]. repeat split; try assumption. constructor; [lia|].
    eapply Forall_impl; [|exact LS1]. cbn. intros; lia.
  - cbn [lsorted]. split; [|apply IH; exact LS2].
    apply Forall_forall. intros y Hy.
    eapply Permutation_in in Hy; [|apply Permutation_sym; apply insert_len_perm].
    destruct Hy as [<-|Hy]; [exact Hge|]. rewrite Forall_forall in LS1. apply LS1. exact Hy.
Qed.
Lemma sort_len_spec ps : Permutation ps (sort_len ps) /\ lsorted (sort_len ps).
Proof.
  unfold sort_len.
  assert (G : forall acc, lsorted acc ->
            Permutation (acc ++ ps) (fold_left (fun acc p => insert_len p acc) ps acc) /\
            lsorted (fold_left (fun acc p => insert_len p acc) ps acc)).
  { induction ps as [|p ps IH]; intros acc LS.
    - cbn. rewrite app_nil_r. split; [apply Permutation_refl|exact LS].
    - cbn [fold_left]. destruct (IH (insert_len p acc) (insert_len_sorted p acc LS)) as [P S].
      split; [|exact S]. eapply Permutation_trans; [|exact P].
      eapply Permutation_trans; [apply Permutation_sym; apply Permutation_middle|].
      apply (Permutation_app_tail ps (insert_len_perm p acc)). }
  apply (G []). exact I.
Qed.

Theorem nest_pure_eq ps : nest ps = Ok (nest_pure [] (sort_len ps)).
Proof.
  unfold nest. rewrite nest_loop_pure; [reflexivity|apply sort_len_spec|]. intros b r [].
Qed.

Definition covers (ps qs : list path) : Prop :=
  forall p, In p ps -> exists q, In q qs /\ is_prefix q p = true.

Lemma existsb_prefix_in before lp :
  existsb (fun sp => is_prefix sp lp) before = true -> exists b, In b before /\ is_prefix b lp = true.
Proof. intro H. apply existsb_exists in H. exact H. Qed.

Lemma nest_pure_incl : forall rest before x, In x (nest_pure before rest) -> In x rest.
Proof.
  induction rest as [|lp r IH]; intros before x H; [exact H|]. cbn [nest_pure] in H.
  destruct (existsb _ before); [right; eapply IH; exact H|].
  destruct H as [<-|H]; [left; reflexivity|right; eapply IH; exact H].
Qed.

Lemma nest_pure_cover : forall rest before K,
  covers before K -> covers rest (K ++ nest_pure before rest).
Proof.
  induction rest as [|lp r IH]; intros before K CB p Hp; [destruct Hp|].
  cbn [nest_pure]. destruct (existsb (fun sp => is_prefix sp lp) before) eqn:EX.
  - apply existsb_prefix_in in EX as (b & Hb & Pb). destruct (CB b Hb) as (q & Hq & Pq).
    assert (CB' : covers (before ++ [lp]) K).
    { intros x Hx. apply in_app_or in Hx as [Hx|[<-|[]]]; [apply CB; exact Hx|].
      exists q. split; [exact Hq|eapply is_prefix_trans; eassumption]. }
    destruct Hp as [<-|Hp].
    + exists q. split; [apply in_or_app; left; exact Hq|eapply is_prefix_trans; eassumption].
    + apply (IH _ _ CB' p Hp).
  - assert (CB' : covers (before ++ [lp]) (K ++ [lp])).
    { intros x Hx. apply in_app_or in Hx as [Hx|[<-|[]]].
      - destruct (CB x Hx) as (q & Hq & Pq). exists q. split; [apply in_or_app; left; exact Hq|exact Pq].
      - exists lp. split; [apply in_or_app; right; left; reflexivity|apply is_prefix_refl]. }
    replace (K ++ lp :: nest_pure (before ++ [lp]) r) with ((K ++ [lp]) ++ nest_pure (before ++ [lp]) r)
      by (rewrite <- app_assoc; reflexivity).
    destruct Hp as [<-|Hp].
    + exists lp. split; [apply in_or_app; left; apply in_or_app; right; left; reflexivity|apply is_prefix_refl].
    + apply (IH _ _ CB' p Hp).
Qed.

Lemma nest_pure_pf : forall rest before,
  lsorted rest ->
  (forall x, In x (nest_pure before rest) -> forall b, In b before -> is_prefix b x = false) /\
  prefix_free (nest_pure before rest).
Proof.
  induction rest as [|lp r IH]; intros before LS; [split; [intros x []|exact I]|].
  destruct LS as [LS1 LS2]. destruct (IH (before ++ [lp]) LS2) as [A B].
  cbn [nest_pure]. destruct (existsb (fun sp => is_prefix sp lp) before) eqn:EX.
  - split; [|exact B]. intros x Hx b Hb. apply (A x Hx). apply in_or_app. left. exact Hb.
  - split.
    + intros x [<-|Hx] b Hb.
      * destruct (is_prefix b lp) eqn:E; [|reflexivity].
        assert (existsb (fun sp => is_prefix sp lp) before = true)
          by (apply existsb_exists; exists b; split; assumption). congruence.
      * apply (A x Hx). apply in_or_app. left. exact Hb.
    + cbn [prefix_free]. split; [|exact B]. apply Forall_forall. intros q Hq.
      assert (P1 : is_prefix lp q = false).
      { apply (A q Hq). apply in_or_app. right. left. reflexivity. }
      split; [exact P1|]. destruct (is_prefix q lp) eqn:E; [|reflexivity].
      assert (Lq : (length lp <= length q)%nat).
      { rewrite Forall_forall in LS1. apply LS1. eapply nest_pure_incl. exact Hq. }
      pose proof (is_prefix_length _ _ E) as Lq'.
      apply is_prefix_same_length in E; [|lia]. subst q. rewrite is_prefix_refl in P1. discriminate.
Qed.

(* what ParseNestedFields leaves: a prefix-free subset that covers every listed path *)
Theorem nest_spec ps : exists R,
  nest ps = Ok R /\ incl R ps /\ covers ps R /\ prefix_free R.
Proof.
  exists (nest_pure [] (sort_len ps)). destruct (sort_len_spec ps) as [P S]. repeat split.
  - apply nest_pure_eq.
  - intros x Hx. apply nest_pure_incl in Hx. eapply Permutation_in; [apply Permutation_sym; exact P|exact Hx].
  - intros p Hp. apply (nest_pure_cover (sort_len ps) [] []); [intros x []|].
    eapply Permutation_in; [exact P|exact Hp].
  - apply nest_pure_pf. exact S.
Qed.

(* ------------------------------------------------------------------------------------------ *)
(* G. path sets that cover each other select the same parts                                    *)
(* ------------------------------------------------------------------------------------------ *)
Definition no_empty (ps : list path) : Prop := Forall (fun p => p <> []) ps.

Lemma tails_in k t ps : In t (tails k ps) <-> In (k :: t) ps.
Proof.
  induction ps as [|[|k' t'] r IH]; cbn [tails In].
  - tauto.
  - rewrite IH. split; [tauto|]. intros [H|H]; [discriminate|exact H].
  - destruct (key_eqb k' k) eqn:E.
    + apply key_eqb_eq in E. subst. cbn [In]. rewrite IH. split; intros [H|H]; try tauto.
      * left. congruence.
      * left. congruence.
    + apply key_eqb_neq in E. rewrite IH. split; [tauto|]. intros [H|H]; [congruence|exact H].
Qed.

Lemma existsb_nil_tails k ps : existsb is_nil (tails k ps) = true <-> In [k] ps.
Proof.
  rewrite existsb_exists. split.
  - intros ([|] & H & E); [|discriminate]. apply tails_in. exact H.
  - intro H. exists []. split; [apply tails_in; exact H|reflexivity].
Qed.

Lemma bool_eq_iff (a b : bool) : (a = true <-> b = true) -> a = b.
Proof. destruct a, b; intros [H1 H2]; try reflexivity; [symmetry; apply H1; reflexivity|apply H2; reflexivity]. Qed.

Lemma covers_whole k ps qs : no_empty qs -> covers ps qs -> In [k] ps -> In [k] qs.
Proof.
  intros NE C H. destruct (C _ H) as (q & Hq & P).
  destruct q as [|x [|y q]]; cbn in P.
  - unfold no_empty in NE; rewrite Forall_forall in NE. exfalso. apply (NE _ Hq). reflexivity.
  - rewrite andb_true_r in P. apply key_eqb_eq in P. subst. exact Hq.
  - rewrite andb_false_r in P. discriminate.
Qed.

Lemma covers_tails k ps qs : no_empty qs -> covers ps qs -> covers (tails k ps) (tails k qs).
Proof.
  intros NE C t Ht. apply tails_in in Ht. destruct (C _ Ht) as (q & Hq & P).
  destruct q as [|x q]; [unfold no_empty in NE; rewrite Forall_forall in NE; exfalso; apply (NE _ Hq); reflexivity|].
  cbn in P. apply andb_true_iff in P as [E P]. apply key_eqb_eq in E. subst.
  exists q. split; [apply tails_in; exact Hq|exact P].
Qed.

Lemma no_empty_tails k ps : existsb is_nil (tails k ps) = false -> no_empty (tails k ps).
Proof.
  intro H. unfold no_empty. apply Forall_forall. intros t Ht E. subst.
  assert (existsb is_nil (tails k ps) = true) by (apply existsb_exists; exists []; split; [exact Ht|reflexivity]).
  congruence.
Qed.

Theorem spec_cover_eq : forall j ps qs,
  no_empty ps -> no_empty qs -> covers ps qs -> covers qs ps ->
  subtract ps j = subtract qs j /\ proj ps j = proj qs j.
Proof.
  induction j as [|x|x|x|l _|fs IH] using json_ind2; intros ps qs NP NQ C1 C2; try (split; reflexivity).
  rewrite !subtract_obj, !proj_obj.
  assert (G : sub_fields ps fs = sub_fields qs fs /\ proj_fields ps fs = proj_fields qs fs).
  { induction IH as [|[k v] r Hv _ IHr]; [split; reflexivity|]. destruct IHr as [I1 I2].
    cbn [sub_fields proj_fields]. cbn [snd] in Hv.
    assert (E : existsb is_nil (tails k ps) = existsb is_nil (tails k qs)).
    { apply bool_eq_iff. rewrite !existsb_nil_tails. split; apply covers_whole; assumption. }
    rewrite <- E. destruct (existsb is_nil (tails k ps)) eqn:EN.
    - rewrite I1, I2. split; reflexivity.
    - destruct (Hv (tails k ps) (tails k qs)) as [H1 H2].
      + apply no_empty_tails. exact EN.
      + apply no_empty_tails. symmetry. exact E.
      + apply covers_tails; assumption.
      + apply covers_tails; assumption.
      + rewrite H1, H2, I1, I2. split; reflexivity. }
  destruct G as [G1 G2]. rewrite G1, G2. split; reflexivity.
Qed.

Lemma is_prefix_app p q : is_prefix p (p ++ q) = true.
Proof. induction p as [|x p IH]; [reflexivity|]. cbn. rewrite key_eqb_refl. exact IH. Qed.

(* listing a path together with one of its descendants = listing the path alone *)
Theorem spec_nested_idem : forall ps p q j,
  no_empty ps -> In p ps ->
  subtract ((p ++ q) :: ps) j = subtract ps j /\ proj ((p ++ q) :: ps) j = proj ps j.
Proof.
  intros ps p q j NE Hp. apply spec_cover_eq.
  - constructor; [|exact NE]. unfold no_empty in NE. rewrite Forall_forall in NE. specialize (NE _ Hp).
    destruct p; [congruence|discriminate].
  - exact NE.
  - intros x [<-|Hx].
    + exists p. split; [exact Hp|apply is_prefix_app].
    + exists x. split; [exact Hx|apply is_prefix_refl].
  - intros x Hx. exists x. split; [right; exact Hx|apply is_prefix_refl].
Qed.
