From Verif Require Import Base.Sx Base.GoSem Model.Admission.
From Coq Require Import Lia ZifyBool.

(* ---- Go index / slice facts ---------------------------------------------------------------- *)
Lemma len_nonneg {A} (l : list A) : 0 <= len l.
Proof. unfold len. lia. Qed.

Lemma len_app {A} (a b : list A) : len (a ++ b) = len a + len b.
Proof. unfold len. rewrite app_length. lia. Qed.

Lemma idx_last (b : bytes) c r : rev b = c :: r -> idx b (len b - 1) = Ok c.
Proof.
  intros Hr.
  assert (Hb : b = rev r ++ [c]).
  { rewrite <- (rev_involutive b), Hr. reflexivity. }
  subst b. unfold idx.
  assert (Hl : len (rev r ++ [c]) - 1 = Z.of_nat (length (rev r))).
  { rewrite len_app. unfold len. cbn [length]. lia. }
  rewrite Hl.
  assert (H0 : ((0 <=? Z.of_nat (length (rev r))) && (Z.of_nat (length (rev r)) <? len (rev r ++ [c]))) = true).
  { rewrite len_app. unfold len. cbn [length]. lia. }
  rewrite H0. rewrite Nat2Z.id.
  rewrite nth_error_app2 by lia. rewrite Nat.sub_diag. reflexivity.
Qed.

Lemma slice_to_ok {A} (l : list A) hi : 0 <= hi -> hi <= len l -> slice_to l hi = Ok (firstn (Z.to_nat hi) l).
Proof.
  intros H0 H1. unfold slice_to, slice.
  assert (E : ((0 <=? 0) && (0 <=? hi) && (hi <=? len l)) = true) by lia.
  rewrite E. cbn [Z.to_nat skipn]. rewrite Z.sub_0_r. reflexivity.
Qed.

Lemma slice_to_neg {A} (l : list A) hi : hi < 0 -> slice_to l hi = Panic 1.
Proof.
  intros H. unfold slice_to, slice.
  assert (E : ((0 <=? 0) && (0 <=? hi) && (hi <=? len l)) = false) by lia.
  rewrite E. reflexivity.
Qed.

Lemma ends_nl_last (b : bytes) c r : rev b = c :: r -> ends_nl b = N.eqb c NL.
Proof. intros H. unfold ends_nl. rewrite H. reflexivity. Qed.

(* shape of the first test *)
Definition is_empty_rec (b : bytes) : bool :=
  (len b =? 0) || (match b with [c] => N.eqb c NL | _ => false end).

Lemma is_empty_rec_iff b : is_empty_rec b = true <-> empty_record b.
Proof.
  unfold is_empty_rec, empty_record. split.
  - intros H. destruct b as [|c [|d b]].
    + left; reflexivity.
    + right. cbn in H. apply N.eqb_eq in H. subst. reflexivity.
    + exfalso. unfold len in H. cbn [length] in H. lia.
  - intros [H|H]; subst; reflexivity.
Qed.

Lemma admit_unfold b max cutoff :
  admit_bytes b max cutoff =
  if is_empty_rec b then Ok (Refuse REmpty)
  else if negb (max =? 0) && (max <? len b) then
    if negb cutoff then Ok (Refuse ROversize)
    else last <- idx b (len b - 1) ;; pre <- slice_to b max ;;
         Ok (Cut (if N.eqb last NL then pre ++ [NL] else pre))
  else Ok (Keep b).
Proof. reflexivity. Qed.

Lemma nonempty_rev (b : bytes) : b <> [] -> exists c r, rev b = c :: r.
Proof.
  intros H. destruct (rev b) as [|c r] eqn:E.
  - exfalso. apply H. rewrite <- (rev_involutive b), E. reflexivity.
  - eauto.
Qed.

(* ---- checkInputBytes ------------------------------------------------------------------------ *)

(* refused exactly for: empty, a lone newline, or oversize while cutting is disabled *)
Theorem admit_refuse_iff b max cutoff :
  (exists w, admit_bytes b max cutoff = Ok (Refuse w)) <->
  (empty_record b \/ (max <> 0 /\ max < len b /\ cutoff = false)).
Proof.
  rewrite admit_unfold. destruct (is_empty_rec b) eqn:He.
  - split; [intros _; left; apply is_empty_rec_iff; exact He | intros _; eauto].
  - assert (Hne : ~ empty_record b) by (rewrite <- is_empty_rec_iff, He; discriminate).
    destruct (negb (max =? 0) && (max <? len b)) eqn:Hov.
    + destruct cutoff; cbn [negb].
      * split.
        -- intros [w Hw]. exfalso.
           destruct (idx b (len b - 1)) as [l| |]; cbn [bind] in Hw; try discriminate.
           destruct (slice_to b max) as [p| |]; cbn [bind] in Hw; discriminate.
        -- intros [H|[_ [_ H]]]; [contradiction | discriminate].
      * split; [intros _; right; repeat split; lia | intros _; eauto].
    + split.
      * intros [w Hw]. discriminate.
      * intros [H|[H1 [H2 _]]]; [contradiction | exfalso; lia].
Qed.

(* with cutting enabled an oversize record becomes exactly its first max bytes, plus the newline iff
   it ended with one *)
Theorem admit_cut_exact b max :
  0 < max -> max < len b ->
  admit_bytes b max true = Ok (Cut (cut_spec b max)).
Proof.
  intros Hm Hl. rewrite admit_unfold.
  assert (He : is_empty_rec b = false).
  { destruct (is_empty_rec b) eqn:E; [|reflexivity]. apply is_empty_rec_iff in E.
    destruct E; subst; unfold len in Hl; cbn [length] in Hl; lia. }
  rewrite He.
  assert (Hov : negb (max =? 0) && (max <? len b) = true) by lia.
  rewrite Hov. cbn [negb].
  assert (Hb : b <> []) by (intros ->; unfold len in Hl; cbn in Hl; lia).
  destruct (nonempty_rev b Hb) as [c [r Hr]].
  rewrite (idx_last b c r Hr). cbn [bind].
  rewrite slice_to_ok by lia. cbn [bind].
  unfold cut_spec. rewrite (ends_nl_last b c r Hr).
  destruct (N.eqb c NL); [reflexivity | rewrite app_nil_r; reflexivity].
Qed.

(* records within the limit (or with no limit configured) pass unchanged, whatever the cut-off setting *)
Theorem admit_identity_within_limit b max cutoff :
  ~ empty_record b -> (max = 0 \/ len b <= max) ->
  admit_bytes b max cutoff = Ok (Keep b).
Proof.
  intros Hne Hl. rewrite admit_unfold.
  assert (He : is_empty_rec b = false).
  { destruct (is_empty_rec b) eqn:E; [|reflexivity]. apply is_empty_rec_iff in E. contradiction. }
  rewrite He.
  assert (Hov : negb (max =? 0) && (max <? len b) = false) by lia.
  rewrite Hov. reflexivity.
Qed.

(* the slice cannot go out of range for a non-negative limit ... *)
Theorem admit_no_panic b max cutoff : 0 <= max -> is_panic (admit_bytes b max cutoff) = false.
Proof.
  intros Hm. rewrite admit_unfold. destruct (is_empty_rec b) eqn:He; [reflexivity|].
  destruct (negb (max =? 0) && (max <? len b)) eqn:Hov; [|reflexivity].
  destruct cutoff; cbn [negb]; [|reflexivity].
  assert (H1 : 0 < max) by lia. assert (H2 : max < len b) by lia.
  pose proof (admit_cut_exact b max H1 H2) as H. rewrite admit_unfold, He, Hov in H. cbn [negb] in H.
  rewrite H. reflexivity.
Qed.

(* ... and does for a negative one with cutting enabled (settings are not validated) *)
Theorem admit_negative_max_panics b max :
  max < 0 -> ~ empty_record b -> is_panic (admit_bytes b max true) = true.
Proof.
  intros Hm Hne. rewrite admit_unfold.
  assert (He : is_empty_rec b = false).
  { destruct (is_empty_rec b) eqn:E; [|reflexivity]. apply is_empty_rec_iff in E. contradiction. }
  rewrite He.
  assert (Hov : negb (max =? 0) && (max <? len b) = true) by (pose proof (len_nonneg b); lia).
  rewrite Hov. cbn [negb].
  assert (Hb : b <> []) by (intros ->; apply Hne; left; reflexivity).
  destruct (nonempty_rev b Hb) as [c [r Hr]].
  rewrite (idx_last b c r Hr). cbn [bind]. rewrite slice_to_neg by lia. reflexivity.
Qed.

(* what the later stages see *)
Lemma admit_seen c b :
  0 <= max_size c -> ~ empty_record b -> ~ (oversize c b /\ cut_on c = false) ->
  exists o, admit_bytes b (max_size c) (cut_on c) = Ok o /\
    ((o = Keep (seen_bytes c b) /\ (negb (max_size c =? 0) && (max_size c <? len b)) = false) \/
     (o = Cut (seen_bytes c b) /\ (negb (max_size c =? 0) && (max_size c <? len b)) = true)).
Proof.
  intros Hm Hne Hno. unfold seen_bytes.
  destruct (negb (max_size c =? 0) && (max_size c <? len b)) eqn:Hov.
  - assert (Hc : cut_on c = true).
    { destruct (cut_on c); [reflexivity|]. exfalso. apply Hno. split; [unfold oversize; lia | reflexivity]. }
    rewrite Hc. exists (Cut (cut_spec b (max_size c))). split.
    + apply admit_cut_exact; lia.
    + right. split; reflexivity.
  - exists (Keep b). split.
    + apply admit_identity_within_limit; [exact Hne | lia].
    + left. split; reflexivity.
Qed.

(* ---- the refusal chain of Pipeline.In ---------------------------------------------------------- *)
Section Chain.
Variable c : in_cfg.
Variable cri : bytes -> option bool.
Variable decode_ok : bytes -> bool.
Variable spam : bytes -> bool.
Variables cur soff : Z.

Definition later_refusal (b' : bytes) : Prop :=
  cri b' = None \/
  (cri b' = Some false /\ 0 <= as_thr c /\ ((is_cri c = true /\ 0 < soff /\ cur < soff) \/ spam b' = true)) \/
  decode_ok b' = false.

Lemma pipeline_in_go b o b' cut :
  admit_bytes b (max_size c) (cut_on c) = Ok o ->
  (o = Keep b' /\ cut = false) \/ (o = Cut b' /\ cut = true) ->
  pipeline_in c cri decode_ok spam cur soff b =
  match cri b' with
  | None => Refused RCri
  | Some partial =>
      if negb partial && (0 <=? as_thr c) then
        if is_cri c && (0 <? soff) && (cur <? soff) then Refused RCommitted
        else in_stage2 c decode_ok b' cut true (spam b')
      else in_stage2 c decode_ok b' cut false (spam b')
  end.
Proof.
  intros Ha Ho. unfold pipeline_in, in_stage1. rewrite Ha.
  destruct Ho as [[-> ->]|[-> ->]]; destruct (cri b') as [p|]; try reflexivity;
    destruct (negb p && (0 <=? as_thr c)); try reflexivity;
    destruct (is_cri c && (0 <? soff) && (cur <? soff)); reflexivity.
Qed.

Lemma chain_tail_refused_iff b' cut :
  (exists w,
    match cri b' with
    | None => Refused RCri
    | Some partial =>
        if negb partial && (0 <=? as_thr c) then
          if is_cri c && (0 <? soff) && (cur <? soff) then Refused RCommitted
          else in_stage2 c decode_ok b' cut true (spam b')
        else in_stage2 c decode_ok b' cut false (spam b')
    end = Refused w) <-> later_refusal b'.
Proof.
  unfold later_refusal, in_stage2.
  destruct (cri b') as [p|] eqn:Hc.
  - destruct p; cbn [negb andb].
    + (* partial row: the antispam is not consulted *)
      destruct (decode_ok b') eqn:Hd.
      * split; [intros [w H]; discriminate|].
        intros [H|[[H _]|H]]; discriminate.
      * split; [intros _; right; right; reflexivity | intros _; eauto].
    + destruct (0 <=? as_thr c) eqn:Ht.
      * destruct (is_cri c && (0 <? soff) && (cur <? soff)) eqn:Hco.
        -- split; [intros _ | intros _; eauto].
           right; left. repeat split; try lia.
        -- cbn [andb]. destruct (spam b') eqn:Hs.
           ++ split; [intros _ | intros _; eauto].
              right; left. repeat split; try lia; try (right; reflexivity).
           ++ destruct (decode_ok b') eqn:Hd.
              ** split; [intros [w H]; discriminate|].
                 intros [H|[[_ [_ [H|H]]]|H]]; try discriminate. exfalso; lia.
              ** split; [intros _; right; right; reflexivity | intros _; eauto].
      * cbn [andb]. destruct (decode_ok b') eqn:Hd.
        -- split; [intros [w H]; discriminate|].
           intros [H|[[_ [H _]]|H]]; try discriminate. exfalso; lia.
        -- split; [intros _; right; right; reflexivity | intros _; eauto].
  - split; [intros _; left; reflexivity | intros _; eauto].
Qed.

(* In refuses a record exactly when: it is empty / a lone newline; it is oversize and cutting is off;
   or - for the bytes that survive checkInputBytes - the CRI row is malformed, the antispam branch is
   active (threshold >= 0, row not partial) and the record is already committed or its source is
   flagged, or the decoder rejects it. *)
Theorem in_refuse_iff b :
  0 <= max_size c ->
  ((exists w, pipeline_in c cri decode_ok spam cur soff b = Refused w) <->
   (empty_record b \/ (oversize c b /\ cut_on c = false) \/ later_refusal (seen_bytes c b))).
Proof.
  intros Hm.
  destruct (is_empty_rec b) eqn:He.
  - assert (Hemp : empty_record b) by (apply is_empty_rec_iff; exact He).
    split; [intros _; left; exact Hemp|]. intros _.
    unfold pipeline_in, in_stage1. rewrite admit_unfold, He. eauto.
  - assert (Hne : ~ empty_record b) by (rewrite <- is_empty_rec_iff, He; discriminate).
    destruct (negb (max_size c =? 0) && (max_size c <? len b)) eqn:Hov; [destruct (cut_on c) eqn:Hcut|].
    + (* oversize, cut *)
      destruct (admit_seen c b Hm Hne) as [o [Ha Ho]].
      { intros [_ H]. rewrite Hcut in H. discriminate. }
      rewrite Hov in Ho. destruct Ho as [[_ Ho]|[Ho _]]; [discriminate|].
      rewrite (pipeline_in_go b o (seen_bytes c b) true Ha) by (right; split; [exact Ho|reflexivity]).
      rewrite chain_tail_refused_iff. split; [intros H; right; right; exact H|].
      intros [H|[[_ H]|H]]; [contradiction | try rewrite Hcut in H; discriminate | exact H].
    + (* oversize, no cut *)
      split; [intros _; right; left; split; [unfold oversize; lia | reflexivity]|].
      intros _. unfold pipeline_in, in_stage1. rewrite ?Hcut, admit_unfold, He, Hov. cbn [negb]. eauto.
    + destruct (admit_seen c b Hm Hne) as [o [Ha Ho]].
      { intros [[H1 H2] _]. lia. }
      rewrite Hov in Ho. destruct Ho as [[Ho _]|[_ Ho]]; [|discriminate].
      rewrite (pipeline_in_go b o (seen_bytes c b) false Ha) by (left; split; [exact Ho|reflexivity]).
      rewrite chain_tail_refused_iff. split; [intros H; right; right; exact H|].
      intros [H|[[[H1 H2] _]|H]]; [contradiction | exfalso; lia | exact H].
Qed.

(* what is delivered: the record itself when within the limit, its cut form otherwise, accepted by the
   decoder; the mark is set iff the record was cut and a mark field is configured *)
Theorem in_delivered_spec b d mark :
  0 <= max_size c ->
  pipeline_in c cri decode_ok spam cur soff b = Delivered d mark ->
  d = seen_bytes c b /\ decode_ok d = true /\
  mark = (negb (max_size c =? 0) && (max_size c <? len b)) && mark_on c.
Proof.
  intros Hm Hd.
  assert (Hne : ~ empty_record b).
  { intros He. apply is_empty_rec_iff in He. unfold pipeline_in, in_stage1 in Hd.
    rewrite admit_unfold, He in Hd. discriminate. }
  assert (Hno : ~ (oversize c b /\ cut_on c = false)).
  { intros [[H1 H2] H3]. unfold pipeline_in, in_stage1 in Hd. rewrite admit_unfold in Hd.
    destruct (is_empty_rec b); [discriminate|].
    assert (Hov : negb (max_size c =? 0) && (max_size c <? len b) = true) by lia.
    rewrite Hov, H3 in Hd. discriminate. }
  destruct (admit_seen c b Hm Hne Hno) as [o [Ha Ho]].
  assert (Hgo : exists cut, ((o = Keep (seen_bytes c b) /\ cut = false) \/ (o = Cut (seen_bytes c b) /\ cut = true))
                 /\ cut = (negb (max_size c =? 0) && (max_size c <? len b))).
  { destruct Ho as [[Ho Hv]|[Ho Hv]]; [exists false | exists true]; rewrite Hv; split; auto. }
  destruct Hgo as [cut [Hgo Hcut]].
  rewrite (pipeline_in_go b o (seen_bytes c b) cut Ha Hgo) in Hd.
  set (b' := seen_bytes c b) in *.
  assert (Hs2 : forall consult, in_stage2 c decode_ok b' cut consult (spam b') = Delivered d mark ->
                 d = b' /\ decode_ok d = true /\ mark = cut && mark_on c).
  { intros consult H. unfold in_stage2 in H.
    destruct (consult && spam b'); [discriminate|].
    destruct (decode_ok b') eqn:Hdk; [|discriminate].
    injection H as <- <-. auto. }
  rewrite <- Hcut.
  destruct (cri b') as [p|]; [|discriminate].
  destruct (negb p && (0 <=? as_thr c)).
  - destruct (is_cri c && (0 <? soff) && (cur <? soff)); [discriminate|]. exact (Hs2 true Hd).
  - exact (Hs2 false Hd).
Qed.

End Chain.

(* a disabled antispam (negative threshold) never influences admission: neither the verdict of IsSpam
   nor the "already committed" offsets are looked at *)
Theorem in_disabled_antispam_never c cri decode_ok spam1 spam2 cur1 soff1 cur2 soff2 b :
  as_thr c < 0 ->
  pipeline_in c cri decode_ok spam1 cur1 soff1 b = pipeline_in c cri decode_ok spam2 cur2 soff2 b.
Proof.
  intros Ht. unfold pipeline_in, in_stage1.
  destruct (admit_bytes b (max_size c) (cut_on c)) as [o| |]; try reflexivity.
  assert (E : (0 <=? as_thr c) = false) by lia.
  destruct o as [w|x|x]; try reflexivity;
    (destruct (cri x) as [p|]; [|reflexivity]; rewrite E, andb_false_r; unfold in_stage2; reflexivity).
Qed.
