From Verif Require Import Base.Sx Model.Batcher.
From Coq Require Import Lia.

(* generic: an invariant preserved by every enabled step holds in every reachable state *)
Lemma run_invariant (c : cfg) (P : st -> Prop) :
  (forall s l s', P s -> step c s l = Some s' -> P s') ->
  forall ls s s', P s -> run c s ls = Some s' -> P s'.
Proof.
  intros Hstep ls. induction ls as [|l r IH]; intros s s' Hs Hr; cbn [run] in Hr.
  - inversion Hr; subst; exact Hs.
  - destruct (step c s l) as [s1|] eqn:E; [|discriminate]. eapply IH; [eapply Hstep; eauto|exact Hr].
Qed.
